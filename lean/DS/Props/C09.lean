/-
  C09 — JSON snapshot and restore is transparent (codec part).  Property theorems only.
  Values are trees here; sharing and cycles are the subject of the graph model and of the snapshot oracle.
-/
import DS.Proofs.JsonLemmas

namespace DS.Props.C09
open DS.Json DS.Proofs.JsonL

theorem lookup_list (js : List J) : lookup .list [(fkey .list "list", J.arr js)] = some (.arr js) := by
  simp [lookup, fkey]
theorem lookup_dict (es : List (Key × J)) : lookup .dict [(fkey .dict "dict", J.obj es)] = some (.obj es) := by
  simp [lookup, fkey]

mutual
  /-- C09, codec clause: every encodable value (int64 integers, finite floats, strings, null, arrays, dicts,
      functions, computed values with attributes, known native functions) serialises, and decoding the
      result gives back exactly that value — for every nesting depth, given fuel above the depth. -/
  theorem roundtrip : ∀ (v : V), encodable v = true →
      ∃ j, encode v = .ok j ∧ ∀ n, depth v < n → decode n j = .ok v
    | .int i, he => by
      have hi : minInt64 ≤ i ∧ i ≤ maxInt64 := by simpa [encodable] using he
      refine ⟨_, rfl, ?_⟩
      intro n hn
      cases n with
      | zero => omega
      | succ m =>
        simp only [decode, tagObj, lookup_t, lookup_v]
        rw [asInt_ok 0 (by decide)]
        simp only [decodeByTag]
        rw [asInt_ok i hi]
        rfl
    | .float f, he => by
      have hf : isFinite f = true := by simpa [encodable] using he
      refine ⟨tagObj 1 (some (.num (.flt f))), by simp [encode, hf], ?_⟩
      intro n hn
      cases n with
      | zero => omega
      | succ m =>
        simp only [decode, tagObj, lookup_t, lookup_v]
        rw [asInt_ok 1 (by decide)]
        rfl
    | .str s, _ => by
      refine ⟨_, rfl, ?_⟩
      intro n hn
      cases n with
      | zero => omega
      | succ m =>
        simp only [decode, tagObj, lookup_t, lookup_v]
        rw [asInt_ok 2 (by decide)]
        rfl
    | .null, _ => by
      refine ⟨_, rfl, ?_⟩
      intro n hn
      cases n with
      | zero => omega
      | succ m =>
        simp only [decode, tagObj, lookup_t1, lookup_v1]
        rw [asInt_ok 4 (by decide)]
        rfl
    | .arr l, he => by
      have hl : encodableList l = true := by simpa [encodable] using he
      obtain ⟨js, hjs, hd⟩ := roundtripList l hl
      refine ⟨tagObj 6 (some (.obj [(fkey .list "list", .arr js)])), by simp [encode, hjs], ?_⟩
      intro n hn
      cases n with
      | zero => omega
      | succ m =>
        have hm : depthList l < m := by simp only [depth] at hn; omega
        simp only [decode, tagObj, lookup_t, lookup_v]
        rw [asInt_ok 6 (by decide)]
        show decodeByTag (decodeList m) (decodeMap m) 6 (some (.obj [(fkey .list "list", .arr js)])) = .ok (.arr l)
        rw [show decodeByTag (decodeList m) (decodeMap m) 6 (some (.obj [(fkey .list "list", .arr js)])) = decArray (decodeList m) (some (.obj [(fkey .list "list", .arr js)])) from rfl]
        simp only [decArray, asObj, lookup_list, hd m hm]
    | .dict kv, he => by
      have hl : encodableEntries kv = true := by simpa [encodable] using he
      obtain ⟨es, hes, hd⟩ := roundtripEntries kv hl
      refine ⟨tagObj 7 (some (.obj [(fkey .dict "dict", .obj es)])), by simp [encode, hes], ?_⟩
      intro n hn
      cases n with
      | zero => omega
      | succ m =>
        have hm : depthEntries kv < m := by simp only [depth] at hn; omega
        simp only [decode, tagObj, lookup_t, lookup_v]
        rw [asInt_ok 7 (by decide)]
        show decodeByTag (decodeList m) (decodeMap m) 7 (some (.obj [(fkey .dict "dict", .obj es)])) = .ok (.dict kv)
        rw [show decodeByTag (decodeList m) (decodeMap m) 7 (some (.obj [(fkey .dict "dict", .obj es)])) = decDict (decodeMap m) (some (.obj [(fkey .dict "dict", .obj es)])) from rfl]
        simp only [decDict, asObj, lookup_dict, decodeMap, hd m hm]
    | .func e nm ps, _ => by
      refine ⟨_, rfl, ?_⟩
      intro n hn
      cases n with
      | zero => omega
      | succ m =>
        simp only [decode, tagObj, lookup_t, lookup_v]
        rw [asInt_ok 8 (by decide)]
        simp only [decodeByTag]
        rw [if_neg (by decide), if_neg (by decide), if_neg (by decide), if_neg (by decide), if_neg (by decide), if_neg (by decide), if_neg (by decide), if_pos (by decide)]
        simp [decFunc, asObj, lookup, fkey, asString, asStringList, asStrings_strs]
    | .computed e none, _ => by
      refine ⟨_, rfl, ?_⟩
      intro n hn
      cases n with
      | zero => omega
      | succ m =>
        simp only [decode, tagObj, lookup_t, lookup_v]
        rw [asInt_ok 5 (by decide)]
        simp only [decodeByTag]
        rw [if_neg (by decide), if_neg (by decide), if_neg (by decide), if_neg (by decide), if_pos (by decide)]
        simp [decComputed, asObj, lookup, fkey, asString]
    | .computed e (some mp), he => by
      have hl : encodableEntries mp = true := by simpa [encodable] using he
      obtain ⟨es, hes, hd⟩ := roundtripEntries mp hl
      refine ⟨tagObj 5 (some (.obj [(fkey .expr "expr", .str e), (fkey .attrs "attrs", .obj es)])), by simp [encode, hes], ?_⟩
      intro n hn
      cases n with
      | zero => omega
      | succ m =>
        have hm : depthEntries mp < m := by simp only [depth] at hn; omega
        simp only [decode, tagObj, lookup_t, lookup_v]
        rw [asInt_ok 5 (by decide)]
        simp only [decodeByTag]
        rw [if_neg (by decide), if_neg (by decide), if_neg (by decide), if_neg (by decide), if_pos (by decide)]
        simp [decComputed, asObj, lookup, fkey, asString, decodeMap, hd m hm]
    | .nativeFn nm, he => by
      have hn' : builtinNames.contains nm = true := by simpa [encodable] using he
      refine ⟨_, rfl, ?_⟩
      intro n hn
      cases n with
      | zero => omega
      | succ m =>
        simp only [decode, tagObj, lookup_t, lookup_v]
        rw [asInt_ok 9 (by decide)]
        simp only [decodeByTag]
        rw [if_neg (by decide), if_neg (by decide), if_neg (by decide), if_neg (by decide), if_neg (by decide), if_neg (by decide), if_neg (by decide), if_neg (by decide), if_pos (by decide)]
        have hmem : nm ∈ builtinNames := by simpa using hn'
        simp [decNativeFn, asObj, lookup, fkey, asString, hmem]
    | .nativeObj nm, _ => by
      refine ⟨_, rfl, ?_⟩
      intro n hn
      cases n with
      | zero => omega
      | succ m =>
        simp only [decode, tagObj, lookup_t, lookup_v]
        rw [asInt_ok 10 (by decide)]
        simp only [decodeByTag]
        rw [if_neg (by decide), if_neg (by decide), if_neg (by decide), if_neg (by decide), if_neg (by decide), if_neg (by decide), if_neg (by decide), if_neg (by decide), if_neg (by decide), if_pos (by decide)]
        simp [decNativeObj, asObj, lookup, fkey, asString]
    | .unknownTag t, he => by simp [encodable] at he

  theorem roundtripList : ∀ (l : List V), encodableList l = true →
      ∃ js, encodeList l = .ok js ∧ ∀ n, depthList l < n → decodeList n js = .ok l
    | [], _ => ⟨[], rfl, fun n _ => by simp [decodeList]⟩
    | v :: rest, he => by
      have h1 : encodable v = true ∧ encodableList rest = true := by simpa [encodableList] using he
      obtain ⟨j, hj, hdj⟩ := roundtrip v h1.1
      obtain ⟨js, hjs, hdjs⟩ := roundtripList rest h1.2
      refine ⟨j :: js, by simp [encodeList, hj, hjs], ?_⟩
      intro n hn
      have hv : depth v < n := by simp only [depthList] at hn; omega
      have hr : depthList rest < n := by simp only [depthList] at hn; omega
      obtain ⟨kv, rfl⟩ := encode_is_obj v j hj
      simp only [decodeList, hdj n hv, hdjs n hr]

  theorem roundtripEntries : ∀ (kv : List (String × V)), encodableEntries kv = true →
      ∃ es, encodeEntries kv = .ok es ∧ ∀ n, depthEntries kv < n → decodeEntries n es = .ok kv
    | [], _ => ⟨[], rfl, fun n _ => by simp [decodeEntries]⟩
    | (k, v) :: rest, he => by
      have h1 : encodable v = true ∧ encodableEntries rest = true := by simpa [encodableEntries] using he
      obtain ⟨j, hj, hdj⟩ := roundtrip v h1.1
      obtain ⟨es, hes, hdes⟩ := roundtripEntries rest h1.2
      refine ⟨(ukey k, j) :: es, by simp [encodeEntries, hj, hes], ?_⟩
      intro n hn
      have hv : depth v < n := by simp only [depthEntries] at hn; omega
      have hr : depthEntries rest < n := by simp only [depthEntries] at hn; omega
      obtain ⟨kv', rfl⟩ := encode_is_obj v j hj
      simp only [decodeEntries, hdj n hv, hdes n hr, ukey]
end

/-- values that cannot be represented are rejected by the encoder, never silently changed:
    a non-finite float anywhere makes `encode` fail -/
theorem nonfinite_is_error (f : Float) (h : isFinite f = false) : ∃ e, encode (.float f) = .error e := by
  refine ⟨"unsupported value", ?_⟩
  simp [encode, h]

/- non-vacuity -/
example : encodable (.arr [.int 5, .dict [("k", .str "v")], .computed "d6" (some [("a", .null)])]) = true := by decide

end DS.Props.C09
