/- Invariant and refinement lemmas for the sequential ValueMap model (C12) -/
import DS.Model.VMap

namespace DS.Proofs.VMapL
open DS.VMap

variable {α : Type}

structure Inv (s : St α) : Prop where
  dom_nodup : s.dom.Nodup
  dom_iff : ∀ k, k ∈ s.dom ↔ (s.inRead k = true ∨ s.inDirty k = true)
  ent_iff : ∀ k, s.ent k ≠ none ↔ k ∈ s.dom
  nil_dirty : s.dirtyNil = true → ∀ k, s.inDirty k = false
  amended_dirty : s.amended = true → s.dirtyNil = false
  clean_sub : s.amended = false → ∀ k, s.inDirty k = true → s.inRead k = true
  exp_shape : ∀ k, s.ent k = some .expunged → s.inRead k = true ∧ s.dirtyNil = false ∧ s.inDirty k = false
  dirty_sup : s.dirtyNil = false → ∀ k, s.inRead k = true → s.ent k ≠ some .expunged → s.inDirty k = true

theorem inv_init : Inv (init : St α) := by
  constructor <;> simp [init]

theorem upd_same {β} (f : String → β) (k : String) (b : β) : upd f k b k = b := by simp [upd]
theorem upd_other {β} (f : String → β) (k x : String) (b : β) (h : x ≠ k) : upd f k b x = f x := by simp [upd, h]

/-- a key without an entry is absent from the abstract map -/
theorem abs_none_of_not_dom {s : St α} (hi : Inv s) (k : String) (h : k ∉ s.dom) : abs s k = none := by
  have : s.ent k = none := by
    cases he : s.ent k with
    | none => rfl
    | some sl => exact absurd ((hi.ent_iff k).1 (by simp [he])) h
  simp [abs, this, slotLoad]

theorem not_dom_of {s : St α} (hi : Inv s) (k : String) (h1 : s.inRead k = false) (h2 : s.inDirty k = false) :
    k ∉ s.dom := by
  intro hk
  rcases (hi.dom_iff k).1 hk with h | h <;> simp_all

/-! ### promote -/

theorem inv_promote {s : St α} (hi : Inv s) (hd : s.dirtyNil = false) : Inv (promote s) := by
  constructor
  · exact hi.dom_nodup.filter _
  · intro k
    simp only [promote, List.mem_filter]
    constructor
    · rintro ⟨_, h⟩; exact Or.inl h
    · rintro (h | h)
      · exact ⟨(hi.dom_iff k).2 (Or.inr h), h⟩
      · simp at h
  · intro k
    simp only [promote, List.mem_filter]
    by_cases h : s.inDirty k = true
    · simp only [h, if_true]
      constructor
      · intro hne; exact ⟨(hi.ent_iff k).1 hne, trivial⟩
      · rintro ⟨hk, _⟩; exact (hi.ent_iff k).2 hk
    · simp [h]
  · intro _ k; simp [promote]
  · intro h; simp [promote] at h
  · intro _ k h; simp [promote] at h
  · intro k h
    simp only [promote] at h
    by_cases hd' : s.inDirty k = true
    · simp only [hd', if_true] at h
      have := (hi.exp_shape k h).2.2
      simp_all
    · simp [hd'] at h
  · intro h; simp [promote] at h

theorem abs_promote {s : St α} (hi : Inv s) (hd : s.dirtyNil = false) : abs (promote s) = abs s := by
  funext k
  simp only [abs, promote]
  by_cases h : s.inDirty k = true
  · simp [h]
  · simp only [h]
    -- k not in dirty: either no entry, or a read-only entry which must be expunged
    by_cases hr : s.inRead k = true
    · have : s.ent k = some .expunged := by
        cases he : s.ent k with
        | none => exact absurd (hi.dirty_sup hd k hr (by simp [he])) h
        | some sl =>
          cases sl with
          | expunged => rfl
          | nil => exact absurd (hi.dirty_sup hd k hr (by simp [he])) h
          | val v => exact absurd (hi.dirty_sup hd k hr (by simp [he])) h
      simp [this, slotLoad]
    · have hnd : k ∉ s.dom := not_dom_of hi k (by simpa using hr) (by simpa using h)
      have := abs_none_of_not_dom hi k hnd
      simp only [abs] at this
      rw [this]; simp [slotLoad]

/-! ### missLocked -/

theorem inv_missLocked {s : St α} (hi : Inv s) (hd : s.dirtyNil = false) : Inv (missLocked s) := by
  unfold missLocked
  have hi1 : Inv { s with misses := s.misses + 1 } := by
    constructor
    · exact hi.dom_nodup
    · exact hi.dom_iff
    · exact hi.ent_iff
    · exact hi.nil_dirty
    · exact hi.amended_dirty
    · exact hi.clean_sub
    · exact hi.exp_shape
    · exact hi.dirty_sup
  simp only []
  split
  · exact hi1
  · exact inv_promote hi1 hd

theorem abs_missLocked {s : St α} (hi : Inv s) (hd : s.dirtyNil = false) : abs (missLocked s) = abs s := by
  unfold missLocked
  have hi1 : Inv { s with misses := s.misses + 1 } := by
    constructor
    · exact hi.dom_nodup
    · exact hi.dom_iff
    · exact hi.ent_iff
    · exact hi.nil_dirty
    · exact hi.amended_dirty
    · exact hi.clean_sub
    · exact hi.exp_shape
    · exact hi.dirty_sup
  simp only []
  split
  · rfl
  · rw [abs_promote hi1 hd]; rfl

/-! ### dirtyLocked -/

theorem inv_dirtyLocked {s : St α} (hi : Inv s) (ha : s.amended = false) : Inv (dirtyLocked s) := by
  unfold dirtyLocked
  by_cases hd : s.dirtyNil = true
  · simp only [hd, Bool.not_true, Bool.false_eq_true, if_false]
    have hnd := hi.nil_dirty hd
    constructor
    · exact hi.dom_nodup
    · intro k
      rw [hi.dom_iff k]
      simp only [hnd k]
      constructor
      · rintro (h | h)
        · exact Or.inl h
        · simp at h
      · rintro (h | h)
        · exact Or.inl h
        · simp only [Bool.and_eq_true] at h; exact Or.inl h.1
    · intro k
      rw [← hi.ent_iff k]
      by_cases hr : s.inRead k = true
      · simp only [hr, if_true]
        cases he : s.ent k with
        | none => simp
        | some sl => cases sl <;> simp
      · simp [hr]
    · intro h; simp at h
    · intro _; rfl
    · intro _ k h
      simp only [Bool.and_eq_true] at h; exact h.1
    · intro k h
      by_cases hr : s.inRead k = true
      · simp only [hr, if_true] at h
        refine ⟨hr, rfl, ?_⟩
        cases he : s.ent k with
        | none => simp [he] at h
        | some sl =>
          cases sl with
          | nil => simp [he]
          | expunged => simp [he]
          | val v => simp [he] at h
      · simp only [hr] at h
        have := (hi.exp_shape k (by simpa using h)).1
        simp_all
    · intro _ k hr hne
      have hr' : s.inRead k = true := hr
      have hne' : (match s.ent k with
                   | some Slot.nil => some Slot.expunged
                   | e => e) ≠ some Slot.expunged := by
        have := hne
        simp only [hr', if_true] at this
        exact this
      show (s.inRead k && _) = true
      rw [hr', Bool.true_and]
      cases he : s.ent k with
      | none =>
        exfalso
        have : k ∈ s.dom := (hi.dom_iff k).2 (Or.inl hr')
        exact ((hi.ent_iff k).2 this) he
      | some sl =>
        cases sl with
        | nil => simp [he] at hne'
        | expunged => simp [he] at hne'
        | val v => simp
  · simp only [hd, Bool.not_false, if_true] at *
    simpa using hi

theorem abs_dirtyLocked (s : St α) : abs (dirtyLocked s) = abs s := by
  unfold dirtyLocked
  split
  · rfl
  · funext k
    simp only [abs]
    by_cases hr : s.inRead k = true
    · simp only [hr, if_true]
      cases he : s.ent k with
      | none => rfl
      | some sl => cases sl <;> simp [slotLoad]
    · simp [hr]

theorem dirtyLocked_dirtyNil (s : St α) : (dirtyLocked s).dirtyNil = false := by
  unfold dirtyLocked
  by_cases hd : s.dirtyNil = true
  · simp [hd]
  · simp at hd; simp [hd]

theorem dirtyLocked_inRead (s : St α) : (dirtyLocked s).inRead = s.inRead := by
  unfold dirtyLocked; split <;> rfl

theorem dirtyLocked_dom (s : St α) : (dirtyLocked s).dom = s.dom := by
  unfold dirtyLocked; split <;> rfl

theorem dirtyLocked_amended (s : St α) : (dirtyLocked s).amended = s.amended := by
  unfold dirtyLocked; split <;> rfl

end DS.Proofs.VMapL

namespace DS.Proofs.VMapL
open DS.VMap
variable {α : Type}

theorem slotLoad_val (v : α) : slotLoad (some (Slot.val v)) = some v := rfl

/-- overwriting the entry of a key that already has one (and is not expunged, or is re-added to dirty) -/
theorem inv_set_val {s : St α} (hi : Inv s) (k : String) (v : α) (hk : k ∈ s.dom)
    (hne : s.ent k ≠ some .expunged) : Inv { s with ent := upd s.ent k (some (.val v)) } := by
  constructor
  · exact hi.dom_nodup
  · exact hi.dom_iff
  · intro x
    by_cases hx : x = k
    · subst hx; simp [upd, hk]
    · simp only [upd, hx, if_false]; exact hi.ent_iff x
  · exact hi.nil_dirty
  · exact hi.amended_dirty
  · exact hi.clean_sub
  · intro x h
    by_cases hx : x = k
    · subst hx; simp [upd] at h
    · simp only [upd, hx, if_false] at h; exact hi.exp_shape x h
  · intro hd x hr hne'
    by_cases hx : x = k
    · subst hx; exact hi.dirty_sup hd x hr hne
    · simp only [upd, hx, if_false] at hne'; exact hi.dirty_sup hd x hr hne'

theorem abs_set_val (s : St α) (k : String) (v : α) :
    abs { s with ent := upd s.ent k (some (.val v)) } = upd (abs s) k (some v) := by
  funext x
  by_cases hx : x = k
  · subst hx; simp [abs, upd, slotLoad]
  · simp [abs, upd, hx]

/-- un-expunging: the entry goes back into dirty with the new value -/
theorem inv_unexpunge {s : St α} (hi : Inv s) (k : String) (v : α) (he : s.ent k = some .expunged) :
    Inv { s with ent := upd s.ent k (some (.val v)), inDirty := upd s.inDirty k true } := by
  obtain ⟨hr, hd, hnd⟩ := hi.exp_shape k he
  have hk : k ∈ s.dom := (hi.dom_iff k).2 (Or.inl hr)
  constructor
  · exact hi.dom_nodup
  · intro x
    by_cases hx : x = k
    · subst hx; simp [upd, hk]
    · simp only [upd, hx, if_false]; exact hi.dom_iff x
  · intro x
    by_cases hx : x = k
    · subst hx; simp [upd, hk]
    · simp only [upd, hx, if_false]; exact hi.ent_iff x
  · intro h; simp [hd] at h
  · exact hi.amended_dirty
  · intro ha x h
    by_cases hx : x = k
    · subst hx; exact hr
    · simp only [upd, hx, if_false] at h; exact hi.clean_sub ha x h
  · intro x h
    by_cases hx : x = k
    · subst hx; simp [upd] at h
    · simp only [upd, hx, if_false] at h ⊢; exact hi.exp_shape x h
  · intro hd' x hr' hne'
    by_cases hx : x = k
    · subst hx; simp [upd]
    · simp only [upd, hx, if_false] at hne' ⊢; exact hi.dirty_sup hd' x hr' hne'

theorem abs_unexpunge (s : St α) (k : String) (v : α) :
    abs { s with ent := upd s.ent k (some (.val v)), inDirty := upd s.inDirty k true } = upd (abs s) k (some v) := by
  funext x
  by_cases hx : x = k
  · subst hx; simp [abs, upd, slotLoad]
  · simp [abs, upd, hx]

theorem mem_addDom (dom : List String) (k x : String) : x ∈ addDom dom k ↔ x ∈ dom ∨ x = k := by
  unfold addDom
  split
  · constructor
    · intro h; exact Or.inl h
    · rintro (h | rfl)
      · exact h
      · assumption
  · simp

theorem nodup_addDom (dom : List String) (k : String) (h : dom.Nodup) : (addDom dom k).Nodup := by
  unfold addDom
  split
  · exact h
  · rename_i hk
    rw [List.nodup_append]
    refine ⟨h, by simp, ?_⟩
    intro a ha b hb
    simp at hb
    subst hb
    intro hab
    subst hab
    exact hk ha

/-- adding a brand-new key (neither in read nor in dirty) -/
theorem inv_insertNew {s : St α} (hi : Inv s) (k : String) (v : α)
    (hr : s.inRead k = false) (hd : s.inDirty k = false) : Inv (insertNew s k v) := by
  unfold insertNew
  -- s1 : state after the optional dirtyLocked + amended := true
  by_cases ha : s.amended = true
  · simp only [ha, Bool.not_true, Bool.false_eq_true, if_false]
    have hdn := hi.amended_dirty ha
    constructor
    · exact nodup_addDom _ _ hi.dom_nodup
    · intro x
      rw [mem_addDom]
      by_cases hx : x = k
      · subst hx; simp [upd]
      · simp only [upd, hx, if_false, or_false]; exact hi.dom_iff x
    · intro x
      rw [mem_addDom]
      by_cases hx : x = k
      · subst hx; simp [upd]
      · simp only [upd, hx, if_false, or_false]; exact hi.ent_iff x
    · intro h; simp [hdn] at h
    · intro _; exact hdn
    · intro h; simp [ha] at h
    · intro x h
      by_cases hx : x = k
      · subst hx; simp [upd] at h
      · simp only [upd, hx, if_false] at h ⊢; exact hi.exp_shape x h
    · intro hd' x hr' hne'
      by_cases hx : x = k
      · subst hx; simp [upd]
      · simp only [upd, hx, if_false] at hne' ⊢; exact hi.dirty_sup hd' x hr' hne'
  · have ha' : s.amended = false := by simpa using ha
    simp only [ha', Bool.not_false, if_true]
    have hi1 := inv_dirtyLocked hi ha'
    have hdn := dirtyLocked_dirtyNil s
    have hrd := dirtyLocked_inRead s
    have hdom := dirtyLocked_dom s
    constructor
    · simp only [hdom]; exact nodup_addDom _ _ hi.dom_nodup
    · intro x
      simp only []
      rw [mem_addDom]
      by_cases hx : x = k
      · subst hx; simp [upd]
      · simp only [upd, hx, if_false, or_false]; exact hi1.dom_iff x
    · intro x
      simp only []
      rw [mem_addDom]
      by_cases hx : x = k
      · subst hx; simp [upd]
      · simp only [upd, hx, if_false, or_false]; exact hi1.ent_iff x
    · intro h; simp only [] at h; rw [hdn] at h; simp at h
    · intro _; exact hdn
    · intro h; simp at h
    · intro x h
      by_cases hx : x = k
      · subst hx; simp [upd] at h
      · simp only [upd, hx, if_false] at h ⊢; exact hi1.exp_shape x h
    · intro hd' x hr' hne'
      by_cases hx : x = k
      · subst hx; simp [upd]
      · simp only [upd, hx, if_false] at hne' ⊢; exact hi1.dirty_sup hd' x hr' hne'

theorem abs_insertNew (s : St α) (k : String) (v : α) : abs (insertNew s k v) = upd (abs s) k (some v) := by
  unfold insertNew
  funext x
  by_cases ha : s.amended = true
  · simp only [ha, Bool.not_true, Bool.false_eq_true, if_false]
    by_cases hx : x = k
    · subst hx; simp [abs, upd, slotLoad]
    · simp [abs, upd, hx]
  · have ha' : s.amended = false := by simpa using ha
    simp only [ha', Bool.not_false, if_true]
    by_cases hx : x = k
    · subst hx; simp [abs, upd, slotLoad]
    · have := congrFun (abs_dirtyLocked s) x
      simp only [abs] at this
      simp [abs, upd, hx, this]

end DS.Proofs.VMapL

namespace DS.Proofs.VMapL
open DS.VMap
variable {α : Type}

/-! characterisation of each operation per branch (so that proofs can `rw` instead of `simp`) -/

theorem load_read (s : St α) (k : String) (h : s.inRead k = true) : load s k = (slotLoad (s.ent k), s) := by
  simp [load, h]
theorem load_dirty (s : St α) (k : String) (h : s.inRead k = false) (ha : s.amended = true) :
    load s k = ((if s.inDirty k then slotLoad (s.ent k) else none), missLocked s) := by
  simp [load, h, ha]
theorem load_none (s : St α) (k : String) (h : s.inRead k = false) (ha : s.amended = false) :
    load s k = (none, s) := by
  simp [load, h, ha]

theorem store_fast (s : St α) (k : String) (v : α) (h : s.inRead k = true) (he : isExpunged (s.ent k) = false) :
    store s k v = { s with ent := upd s.ent k (some (.val v)) } := by
  simp [store, h, he]
theorem store_unexp (s : St α) (k : String) (v : α) (h : s.inRead k = true) (he : isExpunged (s.ent k) = true) :
    store s k v = { s with ent := upd s.ent k (some (.val v)), inDirty := upd s.inDirty k true } := by
  simp [store, h, he]
theorem store_dirty (s : St α) (k : String) (v : α) (h : s.inRead k = false) (hd : s.inDirty k = true) :
    store s k v = { s with ent := upd s.ent k (some (.val v)) } := by
  simp [store, h, hd]
theorem store_new (s : St α) (k : String) (v : α) (h : s.inRead k = false) (hd : s.inDirty k = false) :
    store s k v = insertNew s k v := by
  simp [store, h, hd]

theorem los_read_val (s : St α) (k : String) (v x : α) (h : s.inRead k = true) (he : s.ent k = some (.val x)) :
    loadOrStore s k v = ((x, true), s) := by
  simp [loadOrStore, h, he]
theorem los_read_exp (s : St α) (k : String) (v : α) (h : s.inRead k = true) (he : s.ent k = some .expunged) :
    loadOrStore s k v = ((v, false), { s with ent := upd s.ent k (some (.val v)), inDirty := upd s.inDirty k true }) := by
  simp [loadOrStore, h, he]
theorem los_read_nil (s : St α) (k : String) (v : α) (h : s.inRead k = true) (he : s.ent k = some .nil) :
    loadOrStore s k v = ((v, false), { s with ent := upd s.ent k (some (.val v)) }) := by
  simp [loadOrStore, h, he]
theorem los_dirty_val (s : St α) (k : String) (v x : α) (h : s.inRead k = false) (hd : s.inDirty k = true)
    (he : s.ent k = some (.val x)) : loadOrStore s k v = ((x, true), missLocked s) := by
  simp [loadOrStore, h, hd, he]
theorem los_dirty_nil (s : St α) (k : String) (v : α) (h : s.inRead k = false) (hd : s.inDirty k = true)
    (he : s.ent k = some .nil) :
    loadOrStore s k v = ((v, false), missLocked { s with ent := upd s.ent k (some (.val v)) }) := by
  simp [loadOrStore, h, hd, he]
theorem los_new (s : St α) (k : String) (v : α) (h : s.inRead k = false) (hd : s.inDirty k = false) :
    loadOrStore s k v = ((v, false), insertNew s k v) := by
  simp [loadOrStore, h, hd]

theorem lad_read_val (s : St α) (k : String) (x : α) (h : s.inRead k = true) (he : s.ent k = some (.val x)) :
    loadAndDelete s k = (some x, { s with ent := upd s.ent k (some .nil) }) := by
  simp [loadAndDelete, h, he]
theorem lad_read_dead (s : St α) (k : String) (h : s.inRead k = true) (he : ∀ x, s.ent k ≠ some (.val x)) :
    loadAndDelete s k = (none, s) := by
  unfold loadAndDelete
  rw [if_pos h]
  split
  · rename_i x hx; exact absurd hx (he x)
  · rfl
theorem lad_dirty (s : St α) (k : String) (h : s.inRead k = false) (ha : s.amended = true) :
    loadAndDelete s k = ((if s.inDirty k then slotLoad (s.ent k) else none),
      missLocked { s with ent := upd s.ent k none, inDirty := upd s.inDirty k false, dom := s.dom.filter (· ≠ k) }) := by
  simp [loadAndDelete, h, ha]
theorem lad_none (s : St α) (k : String) (h : s.inRead k = false) (ha : s.amended = false) :
    loadAndDelete s k = (none, s) := by
  simp [loadAndDelete, h, ha]

theorem clear_noop (s : St α) (h : lenRead s = 0) (ha : s.amended = false) : clear s = s := by
  simp [clear, h, ha]
theorem clear_wipe (s : St α) (h : ¬ (lenRead s = 0 ∧ s.amended = false)) :
    clear s = { ent := fun _ => none, inRead := fun _ => false, inDirty := fun _ => false,
                dirtyNil := false, amended := false, misses := 0, dom := [] } := by
  unfold clear
  split
  · rename_i hc
    simp only [Bool.and_eq_true, beq_iff_eq, Bool.not_eq_true'] at hc
    exact absurd hc h
  · rfl

/-- deleting through the read path: the entry becomes a nil tombstone -/
theorem inv_set_nil {s : St α} (hi : Inv s) (k : String) (hk : k ∈ s.dom) (hne : s.ent k ≠ some .expunged) :
    Inv { s with ent := upd s.ent k (some .nil) } := by
  constructor
  · exact hi.dom_nodup
  · exact hi.dom_iff
  · intro y
    by_cases hy : y = k
    · subst hy; simp [upd, hk]
    · simp only [upd, hy, if_false]; exact hi.ent_iff y
  · exact hi.nil_dirty
  · exact hi.amended_dirty
  · exact hi.clean_sub
  · intro y h
    by_cases hy : y = k
    · subst hy; simp [upd] at h
    · simp only [upd, hy, if_false] at h; exact hi.exp_shape y h
  · intro hd y hr' hne'
    by_cases hy : y = k
    · subst hy; exact hi.dirty_sup hd y hr' hne
    · simp only [upd, hy, if_false] at hne'; exact hi.dirty_sup hd y hr' hne'

theorem abs_set_nil (s : St α) (k : String) :
    abs { s with ent := upd s.ent k (some .nil) } = upd (abs s) k none := by
  funext y
  by_cases hy : y = k
  · subst hy; simp [abs, upd, slotLoad]
  · simp [abs, upd, hy]

/-- removing a dirty-only key (LoadAndDelete's locked path) -/
theorem inv_remove {s : St α} (hi : Inv s) (k : String) (hr : s.inRead k = false) (ha : s.amended = true) :
    Inv { s with ent := upd s.ent k none, inDirty := upd s.inDirty k false, dom := s.dom.filter (· ≠ k) } := by
  have hdn := hi.amended_dirty ha
  constructor
  · exact hi.dom_nodup.filter _
  · intro y
    simp only [List.mem_filter, decide_eq_true_eq]
    by_cases hy : y = k
    · subst hy; simp [upd, hr]
    · simp only [upd, hy, if_false, ne_eq, not_false_eq_true, and_true]; exact hi.dom_iff y
  · intro y
    simp only [List.mem_filter, decide_eq_true_eq]
    by_cases hy : y = k
    · subst hy; simp [upd]
    · simp only [upd, hy, if_false, ne_eq, not_false_eq_true, and_true]; exact hi.ent_iff y
  · intro h; simp [hdn] at h
  · exact hi.amended_dirty
  · intro h; simp [ha] at h
  · intro y h
    by_cases hy : y = k
    · subst hy; simp [upd] at h
    · simp only [upd, hy, if_false] at h ⊢; exact hi.exp_shape y h
  · intro hd y hry hne'
    by_cases hy : y = k
    · subst hy; simp [hr] at hry
    · simp only [upd, hy, if_false] at hne' ⊢; exact hi.dirty_sup hd y hry hne'

theorem abs_remove (s : St α) (k : String) :
    abs { s with ent := upd s.ent k none, inDirty := upd s.inDirty k false, dom := s.dom.filter (· ≠ k) }
      = upd (abs s) k none := by
  funext y
  by_cases hy : y = k
  · subst hy; simp [abs, upd, slotLoad]
  · simp [abs, upd, hy]

theorem range_amended (s : St α) (ha : s.amended = true) :
    range s = (((promote s).dom.filter (promote s).inRead).filterMap
      (fun k => (slotLoad ((promote s).ent k)).map (fun v => (k, v))), promote s) := by
  simp [range, ha]
theorem range_clean (s : St α) (ha : s.amended = false) :
    range s = ((s.dom.filter s.inRead).filterMap (fun k => (slotLoad (s.ent k)).map (fun v => (k, v))), s) := by
  simp [range, ha]

theorem abs_upd_none_of_none (s : St α) (k : String) (h : abs s k = none) : upd (abs s) k none = abs s := by
  funext y
  by_cases hy : y = k
  · subst hy; simp [upd, h]
  · simp [upd, hy]

end DS.Proofs.VMapL
