package main

import (
	"fmt"
	"strings"

	ds "github.com/sealdice/dicescript"
)

func stLogger(log *[]string) func(_type string, name string, val *ds.VMValue, extra *ds.VMValue, op string, detail string) {
	return func(_type string, name string, val *ds.VMValue, extra *ds.VMValue, op string, detail string) {
		ex := ""
		if extra != nil {
			ex = extra.ToRepr()
		}
		*log = append(*log, _type+"|"+name+"|"+val.ToRepr()+"|"+ex+"|"+op+"|"+detail)
	}
}

// vmdump <cfg> <hexsrc> : "<offset> <dump>" after a successful Parse, else "parse-err"
func vmDumpLine(t []string) string {
	if len(t) != 3 {
		return "bad-op"
	}
	cfg, ok := parseCfg(t[1])
	src, ok2 := unhx(t[2])
	if !ok || !ok2 {
		return "bad-op"
	}
	vm, _ := newVM(cfg, "-")
	if err := vm.Parse(src); err != nil {
		return "parse-err"
	}
	return fmt.Sprintf("%d %s", ds.VerifParsedOffset(vm), ds.VerifDumpCode(vm))
}

// vmexec <cfg> <seedhex> <hexsrc> <offset> <dump...> : runs the SOURCE (the dump is for the model side)
func vmExecLine(t []string) string {
	if len(t) < 5 {
		return "bad-op"
	}
	cfg, ok := parseCfg(t[1])
	src, ok2 := unhx(t[3])
	if !ok || !ok2 {
		return "bad-op"
	}
	var log []string
	cfg.CallbackSt = stLogger(&log)
	vm, ok := newVM(cfg, t[2])
	if !ok {
		return "bad-op"
	}
	if err := vm.Parse(src); err != nil {
		return "parse-err"
	}
	if err := vm.RunAfterParsed(); err != nil {
		return fmt.Sprintf("err %s ops=%d", hx(err.Error()), vm.NumOpCount)
	}
	detail := vm.GetDetailText()
	return fmt.Sprintf("ok %s d=%s ops=%d seed=%s vars=%s st=%s", canon(vm.Ret), hx(detail), vm.NumOpCount, seedOf(vm),
		canonAttrs(vm.Attrs), hx(strings.Join(log, ";")))
}

func init() {
	handlers["vmdump"] = vmDumpLine
	handlers["vmexec"] = vmExecLine
}
