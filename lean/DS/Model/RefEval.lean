/-
  Definitional (big-step, syntax-directed) semantics of the core language, over the SOURCE tree — no bytecode, no jumps, no
  operand stack.  Primitive operations (operator tables, indexing, slicing, attributes, scopes, built-in functions) are the
  same definitions the VM model uses (DS.VM.binOp, itemGet, …); what this file adds independently is everything C02 is about:
  evaluation order, the value of every composite construct, control flow, scoping of calls and computed values.

  Functions and computed values are entered through `funcInvoke` / `computedExecute` with a `SubRun` that evaluates the
  stored SOURCE TREE of the body (the heap object carries a one-instruction code array `#[pushInt id]` naming the tree).
-/
import DS.Model.VMRun

namespace DS.Ref
open DS.VM

inductive E where
  | int (i : Int) | flt (f : Float) | str (s : String) | null
  | arr (es : List E) | dict (kvs : List (E × E)) | range (a b : E)
  | var (n : String) | assign (n : String) (e : E)
  | neg (e : E) | pos (e : E) | bin (op : BinOp) (a b : E) | land (a b : E) | lor (a b : E)
  | tern (c a b : E) | ternm (cs : List (E × E))
  | index (a i : E) | slice (a : E) (lo hi : Option E) | attr (a : E) (n : String) | call (f : E) (args : List E)
  | iset (a i v : E) | aset (obj attr : String) (v : E) | sset (a : E) (lo hi : Option E) (v : E)
  | tmpl (parts : List (Sum String E))            -- text | hole (a statement list)
  | dice (times : Option E) (sides : Option E) (keepLH : Int) (k : Option E) (dmin dmax : Option E)
  | seq (ss : List E)
  | ite (c t : E) (e : Option E) | while_ (c body : E) | brk | cont
  | func (n : String) (ps : List String) (id : Nat) | ret (e : Option E) | comp (n : String) (id : Nat)
  deriving Inhabited

/-- outcome of evaluating one node: `val none` = the construct leaves nothing (e.g. `x.y = v`) -/
inductive Out where
  | val (v : Option Val) | brk | cont | ret (v : Val)
  | fail (r : Res Unit)
  deriving Inhabited

def failOf {α} (r : Res α) : Out := .fail r.cast

structure Env where
  tbl : Array E              -- bodies of functions / computed values, by id
  inTmpl : Bool := false     -- inside a template hole of the current frame: if / while yield "" instead of null

def bodyCode (id : Nat) : Code := #[.pushInt id]

/-- value of a statement list: the last value any statement left -/
def lastVal (prev : Option Val) (o : Option Val) : Option Val := match o with | some v => some v | none => prev

mutual

partial def evalList (env : Env) (g : G) (c : Nat) (es : List E) (acc : List Val) : G × Except Out (List Val) :=
  match es with
  | [] => (g, .ok acc.reverse)
  | e :: r =>
    match eval env g c e with
    | (g', .val (some v)) => evalList env g' c r (v :: acc)
    | (g', .val none) => (g', .error (.fail (.err "E:empty operand")))
    | (g', o) => (g', .error o)

partial def evalOpt (env : Env) (g : G) (c : Nat) (e : Option E) : G × Except Out Val :=
  match e with
  | none => (g, .ok .null)
  | some e =>
    match eval env g c e with
    | (g', .val (some v)) => (g', .ok v)
    | (g', .val none) => (g', .error (.fail (.err "E:empty operand")))
    | (g', o) => (g', .error o)

/-- the SubRun handed to funcInvoke / computedExecute: evaluate the body tree in the new context -/
partial def subRun (env : Env) : SubRun := fun g fr =>
  match (fr.code[0]? : Option Instr) with
  | some (Instr.pushInt id) =>
    (match env.tbl[id.toNat]? with
     | some body =>
       (match eval { env with inTmpl := false } g fr.ctx body with
        | (g', .val v) => (g', .ok { top := v, spans := [] })
        | (g', .ret v) => (g', .ok { top := some v, spans := [] })
        | (g', .brk) | (g', .cont) => (g', .unsup "break/continue escaping a body")
        | (g', .fail r) => (g', r.cast))
     | none => (g, .unsup "unknown body id"))
  | _ => (g, .unsup "body without id")

partial def eval (env : Env) (g : G) (c : Nat) (e : E) : G × Out :=
  let one (g : G) (e : E) (k : G → Val → G × Out) : G × Out :=
    match eval env g c e with
    | (g', .val (some v)) => k g' v
    | (g', .val none) => (g', .fail (.err "E:empty operand"))
    | (g', o) => (g', o)
  let ok (g : G) (v : Val) : G × Out := (g, .val (some v))
  let err (g : G) (m : String) : G × Out := (g, .fail (.err m))
  match e with
  | .int i => ok g (.int i)
  | .flt f => ok g (.float f)
  | .str s => ok g (.str s)
  | .null => ok g .null
  | .arr es =>
    (match evalList env g c es [] with
     | (g', .ok vs) => let (h', a) := g'.heap.alloc (.arr vs); ok { g' with heap := h' } (.arr a)
     | (g', .error o) => (g', o))
  | .dict kvs =>
    -- keys and values are evaluated left to right, key before its value
    (match evalList env g c (kvs.flatMap (fun kv => [kv.1, kv.2])) [] with
     | (g', .ok vs) =>
       let rec build (l : List Val) (acc : List (String × Val)) : Except String (List (String × Val)) :=
         match l with
         | k :: v :: r => (match asDictKey g'.heap k with | .ok ks => build r (dictSet acc ks v) | .error e => .error e)
         | _ => .ok acc
       (match build vs [] with
        | .ok kv => let (h', a) := g'.heap.alloc (.dict kv); ok { g' with heap := h' } (.dict a)
        | .error e => err g' e)
     | (g', .error o) => (g', o))
  | .range a b =>
    one g a fun g va => one g b fun g vb =>
      (match va, vb with
       | .int x, .int y =>
         let n := (if x ≤ y then y - x else x - y) + 1
         if n > 512 then err g "不能一次性创建过长的数组"
         else
           let vals := (List.range n.toNat).map (fun (k : Nat) => Val.int (if x ≤ y then x + k else x - k))
           let (h', addr) := g.heap.alloc (.arr vals); ok { g with heap := h' } (.arr addr)
       | _, _ => err g "左右两个区间必须都是数字类型")
  | .var n =>
    (match loadName (subRun env) g c n false with
     | (g', .ok (v, _)) => ok g' v
     | (g', r) => (g', failOf r))
  | .assign n e => one g e fun g v => ok (storeName g c n v) v
  | .neg e => one g e fun g v =>
      (match opNeg v with | some r => ok g r | none => err g ("此类型无法使用一元算符 neg: " ++ typeName v))
  | .pos e => one g e fun g v =>
      (match opPos v with | some r => ok g r | none => err g ("此类型无法使用一元算符 pos: " ++ typeName v))
  | .bin op a b =>
    one g a fun g va => one g b fun g vb =>
      (match binOp g.heap g.cfg.ignoreDiv0 op va vb with
       | (h', .ok v) => ok { g with heap := h' } v
       | (h', r) => ({ g with heap := h' }, failOf r))
  | .land a b =>
    -- both operands are evaluated (no short circuit); the value is the first falsy one
    one g a fun g va => one g b fun g vb => ok g (if !(asBool g.heap va) then va else vb)
  | .lor a b =>
    one g a fun g va => if asBool g.heap va then ok g va else one g b fun g vb => ok g vb
  | .tern cnd a b => one g cnd fun g vc => if asBool g.heap vc then eval env g c a else eval env g c b
  | .ternm cs =>
    let rec go (g : G) (l : List (E × E)) : G × Out :=
      match l with
      | [] => (g, .val (some (.str "")))
      | (cnd, v) :: r =>
        (match eval env g c cnd with
         | (g', .val (some vc)) => if asBool g'.heap vc then eval env g' c v else go g' r
         | (g', .val none) => (g', .fail (.err "E:empty operand"))
         | (g', o) => (g', o))
    go g cs
  | .index a i =>
    one g a fun g va => one g i fun g vi =>
      (match itemGet g va vi with
       | .ok (some v) => ok g v
       | .ok none => ok g .null
       | r => (g, failOf r))
  | .slice a lo hi =>
    one g a fun g va =>
      (match evalOpt env g c lo with
       | (g, .ok vlo) =>
         (match evalOpt env g c hi with
          | (g, .ok vhi) =>
            (match getSlice g va vlo vhi with
             | (g', .ok v) => ok g' v
             | (g', r) => (g', failOf r))
          | (g, .error o) => (g, o))
       | (g, .error o) => (g, o))
  | .attr a n =>
    one g a fun g va =>
      (match attrGet (subRun env) g c va n with
       | (g', .ok (some v)) => ok g' v
       | (g', .ok none) => err g' "不支持的类型：当前变量无法用.来取属性"
       | (g', r) => (g', failOf r))
  | .call f args =>
    one g f fun g vf =>
      (match evalList env g c args [] with
       | (g, .ok vs) =>
         (match vf with
          | .func a => (match funcInvoke (subRun env) g c a vs with | (g', .ok v) => ok g' v | (g', r) => (g', failOf r))
          | .nfunc name st sa => (match nativeCall (subRun env) g c name st sa vs with | (g', .ok v) => ok g' v | (g', r) => (g', failOf r))
          | _ => err g ("类型错误: [" ++ valToString g.heap vf ++ "]无法被调用，必须是一个函数"))
       | (g, .error o) => (g, o))
  | .iset a i v =>
    one g a fun g va => one g i fun g vi => one g v fun g vv =>
      (match itemSet g va vi vv with
       | (g', .ok _) => (g', .val (some vv))
       | (g', r) => (g', failOf r))
  | .aset obj attr v =>
    -- value first, then the object is loaded
    one g v fun g vv =>
      (match loadName (subRun env) g c obj false with
       | (g', .ok (vo, _)) =>
         (match attrSet g' vo attr vv with
          | (g2, true) => (g2, .val (some vv))
          | (g2, false) => err g2 "不支持的类型：当前变量无法用.来设置属性")
       | (g', r) => (g', failOf r))
  | .sset a lo hi v =>
    one g a fun g va =>
      (match evalOpt env g c lo with
       | (g, .ok vlo) =>
         (match evalOpt env g c hi with
          | (g, .ok vhi) =>
            one g v fun g vv =>
              (match setSlice g va vlo vhi vv with
               | (g', .ok _) => (g', .val (some vv))
               | (g', r) => (g', failOf r))
          | (g, .error o) => (g, o))
       | (g, .error o) => (g, o))
  | .tmpl parts =>
    -- the holes are evaluated left to right; each hole's value becomes text when the hole ends (a later hole that mutates a
    -- container an earlier hole showed does not change what is already assembled)
    let rec goT (g : G) (l : List (Sum String E)) (acc : List (Sum String (Option Val))) : G × Out :=
      match l with
      | [] =>
        let rec join (l : List (Sum String (Option Val))) (out : String) : Out :=
          match l with
          | [] => .val (some (.str out))
          | p :: r =>
            let s := match p with
              | .inl t => t
              | .inr (some v) => valToString g.heap v
              | .inr none => ""
            if out.utf8ByteSize + s.utf8ByteSize > maxStringLength then .fail (.err "不能一次性创建过长的字符串") else join r (out ++ s)
        (g, join acc.reverse "")
      | .inl s :: r => goT g r (.inl s :: acc)
      | .inr h :: r =>
        (match eval { env with inTmpl := true } g c h with
         | (g', .val (some v)) =>
           if (valToString g'.heap v).utf8ByteSize > maxStringLength then (g', .fail (.err "不能一次性创建过长的字符串"))
           else goT g' r (.inr (some (.str (valToString g'.heap v))) :: acc)
         | (g', .val none) => goT g' r (.inr none :: acc)
         | (g', o) => (g', o))
    goT g parts []
  | .dice times sides keepLH k dmin dmax =>
    -- only under min / max mode (no randomness): operand order = times, sides, modifier, min, max
    if mode g.cfg == 0 then (g, .fail (.unsup "dice outside min/max mode")) else
    (match evalOpt env g c times with
     | (g, .ok vt) =>
       (match evalOpt env g c sides with
        | (g, .ok vs) =>
          (match evalOpt env g c k with
           | (g, .ok vk) =>
             (match evalOpt env g c dmin with
              | (g, .ok vmin) =>
                (match evalOpt env g c dmax with
                 | (g, .ok vmax) =>
                   let t : Option Int := match times with | none => some 1 | some _ => readInt vt
                   let sd : Option Int := match sides with | none => some 100 | some _ => readInt vs
                   (match t, sd with
                    | some t, some sd =>
                      if t ≤ 0 then err g "骰点次数不为正整数" else
                      if sd ≤ 0 then err g "骰子面数不为正整数" else
                      if dmin.isSome && (readInt vmin).isNone then err g "骰子的 min 参数不为整数" else
                      if dmax.isSome && (readInt vmax).isNone then err g "骰子的 max 参数不为整数" else
                      let kk : Int := match k with | none => 1 | some _ => (readInt vk).getD 0
                      if (keepLH == 1 || keepLH == 3) && kk ≤ 0 then err g "骰子取低个数不为正整数" else
                      if (keepLH == 2 || keepLH == 4) && kk ≤ 0 then err g "骰子取高个数不为正整数" else
                      let mn : Option Int := match dmin with | none => none | some _ => some ((readInt vmin).getD 0)
                      let mx : Option Int := match dmax with | none => none | some _ => some ((readInt vmax).getD 0)
                      (match DS.Roll.rollCommon t sd mn mx keepLH kk kk (mode g.cfg) [] with
                       | some (r, _) => ok g (.int r.num)
                       | none => (g, .fail .diverge))
                    | none, _ => err g "骰点次数不为正整数"
                    | _, none => err g "骰子面数不为正整数")
                 | (g, .error o) => (g, o))
              | (g, .error o) => (g, o))
           | (g, .error o) => (g, o))
        | (g, .error o) => (g, o))
     | (g, .error o) => (g, o))
  | .seq ss =>
    let rec goS (g : G) (l : List E) (last : Option Val) : G × Out :=
      match l with
      | [] => (g, .val last)
      | s :: r =>
        (match eval env g c s with
         | (g', .val v) => goS g' r (lastVal last v)
         | (g', o) => (g', o))
    goS g ss none
  | .ite cnd t el =>
    let unit : Val := if env.inTmpl then .str "" else .null
    one g cnd fun g vc =>
      if asBool g.heap vc then
        (match eval env g c t with
         | (g', .val _) => ok g' unit
         | (g', o) => (g', o))
      else
        (match el with
         | none => ok g unit
         | some e2 =>
           (match eval env g c e2 with
            | (g', .val _) => ok g' unit
            | (g', o) => (g', o)))
  | .while_ cnd body =>
    let unit : Val := if env.inTmpl then .str "" else .null
    let rec loop (fuel : Nat) (g : G) : G × Out :=
      match fuel with
      | 0 => (g, .fail .diverge)
      | fuel+1 =>
        (match eval env g c cnd with
         | (g', .val (some vc)) =>
           if asBool g'.heap vc then
             (match eval env g' c body with
              | (g2, .val _) | (g2, .cont) => loop fuel g2
              | (g2, .brk) => (g2, .val (some unit))
              | (g2, o) => (g2, o))
           else (g', .val (some unit))
         | (g', .val none) => (g', .fail (.err "E:empty operand"))
         | (g', o) => (g', o))
    loop 100000 g
  | .brk => (g, .brk)
  | .cont => (g, .cont)
  | .func n ps id =>
    let (h', a) := g.heap.alloc (.func n ps "…" (bodyCode id))
    let g := { g with heap := h' }
    ok (storeName g c n (.func a)) (.func a)
  | .ret e =>
    (match e with
     | none => (g, .ret .null)
     | some e => one g e fun g v => (g, .ret v))
  | .comp n id =>
    let (h', a) := g.heap.alloc (.comp "…" none (bodyCode id))
    let g := { g with heap := h' }
    ok (storeName g c n (.comp a)) (.comp a)

end

end DS.Ref
