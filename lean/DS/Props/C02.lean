/-
  C02 — evaluation agrees with the language's definitional semantics.

  Fragment theorem `compile_correct` (numbers, all unary / binary operators, the ternary, `||`, `&&`): for EVERY source tree of
  the fragment, the code the compiler emits for it, run by the VM model's dispatch loop from an empty stack, ends with exactly
  the value — or exactly the error — that the definitional (syntax-directed) semantics `evalF` prescribes, and with the same
  heap.  `run_compile` (DS/Proofs/FragCompile.lean) is the compositional form: from ANY frame and surrounding stack the code
  of a sub-expression pushes its value on the untouched stack and continues behind itself — which is what "right jump offsets
  and stack balance for every composition" means.  The compiler of the theorem is tied to roll.peg's actions by the `compile`
  stream (instruction-by-instruction equality with the real bytecode dump); the dispatch loop to rollvm.go by the vm stream;
  the whole language (statements, loops, functions, computed values, templates, containers, dice under min/max mode) is
  compared with the definitional semantics over source trees (DS/Model/RefEval.lean) by the `ref` stream.
-/
import DS.Proofs.FragCompile

namespace DS.Props.C02
open DS.VM DS.Frag

theorem codeAt_toArray (l : List Instr) : CodeAt l.toArray 0 l := by
  refine ⟨by simp, ?_⟩
  intro i hi
  simp [hi]

theorem step_halt (fuel : Nat) (g : G) (f : Frame) (hpc : f.pc < f.code.size) (hi : f.code[f.pc]! = Instr.halt)
    (hl : g.cfg.opLimit = 0) (ht : f.top < stackSize) (h1 : 1 ≤ f.top) :
    evalLoop (fuel + 1) g f =
      (addOps g f.ctx 1, .ok { top := some (f.stack[f.top - 1]!), spans := solvedSpans (addOps g f.ctx 1) { f with pc := f.pc + 1 } }) := by
  rw [evalLoop_dispatch fuel g f hpc hl ht, hi]
  have e0 : (f.top == 0) = false := by simp; omega
  simp only [exec, e0, Bool.false_eq_true, if_false]

/-- the whole program for a fragment tree: its code followed by halt -/
def prog (e : F) : Code := (compile e ++ [Instr.halt]).toArray

/-- the initial frame of a program -/
def frame0 (code : Code) : Frame := { ctx := 0, code := code, stack := newStack }

/-- C02, fragment: compiled code computes what the definitional semantics prescribes -/
theorem compile_correct (e : F) (g : G) (hl : g.cfg.opLimit = 0) (hd : depth e < stackSize) :
    (match evalF g.cfg.ignoreDiv0 g.heap e with
     | (h', .ok v) => ∃ k g' out, (∀ fuel, evalLoop (fuel + k) g (frame0 (prog e)) = (g', .ok out)) ∧ out.top = some v ∧ g'.heap = h'
     | (h', .err m) => ∃ k g', (∀ fuel, evalLoop (fuel + k) g (frame0 (prog e)) = (g', .err m)) ∧ g'.heap = h'
     | _ => True) := by
  have hcode : CodeAt (frame0 (prog e)).code (frame0 (prog e)).pc (compile e ++ [Instr.halt]) := codeAt_toArray _
  have hready : Ready g.cfg.ignoreDiv0 g (frame0 (prog e)) := ⟨hl, rfl, by simp [frame0, newStack]⟩
  have hrun := run_compile g.cfg.ignoreDiv0 e g (frame0 (prog e)) hcode.append_left hready (by simpa [frame0] using hd)
  cases hev : evalF g.cfg.ignoreDiv0 g.heap e with
  | mk h' r =>
    rw [hev] at hrun
    cases r with
    | ok v =>
      obtain ⟨k, g', f', hruns, haft, hcfg, hheap⟩ := hrun
      have hh := hcode.append_right.head
      have hpcH : f'.pc < f'.code.size := by rw [haft.code, haft.pc]; exact hh.1
      have hiH : f'.code[f'.pc]! = Instr.halt := by rw [haft.code, haft.pc]; exact hh.2
      have htop : f'.top = 1 := by rw [haft.top]; simp [frame0]
      have hst : stackSize = 1000 := rfl
      refine ⟨1 + k, addOps g' f'.ctx 1, { top := some (f'.stack[f'.top - 1]!), spans := solvedSpans (addOps g' f'.ctx 1) { f' with pc := f'.pc + 1 } }, ?_, ?_, hheap⟩
      · intro fuel
        have := hruns (fuel + 1)
        rw [Nat.add_assoc] at this
        rw [this, step_halt fuel g' f' hpcH hiH (by rw [hcfg]; exact hl) (by omega) (by omega)]
      · simp only
        have : f'.top - 1 = (frame0 (prog e)).top := by rw [htop]; simp [frame0]
        rw [this, haft.val]
    | err m =>
      obtain ⟨k, g', hf, hheap⟩ := hrun
      exact ⟨k, g', hf, hheap⟩
    | panic _ => trivial
    | unsup _ => trivial
    | diverge => trivial

/-! ### non-vacuity and the shapes the compiler emits -/

example : compile (.tern (.lit 1) (.bin .add (.lit 2) (.lit 3)) (.bin .mul (.lit 4) (.lit 5))) =
    [.pushInt 1, .jne (some 4), .pushInt 2, .pushInt 3, .bin .add, .jmp (some 3), .pushInt 4, .pushInt 5, .bin .mul] := by
  simp [compile]

example : compile (.lor (.lit 1) (.bin .add (.lit 2) (.lit 3))) =
    [.pushInt 1, .jeDup (some 5), .pushInt 2, .pushInt 3, .bin .add, .jeDup (some 1), .pushLast] := by
  simp [compile]

end DS.Props.C02
