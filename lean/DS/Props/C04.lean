/-
  C04 — every dice outcome is legal and equals what its displayed dice imply.
  Property theorems only.  Quantifiers: all parameter tuples, all 64-bit word streams, all modes.
  Sums are stated under the explicit guard `NoOverflow`; without it the wrapped sum is what is returned.
-/
import DS.Proofs.DiceLemmas

namespace DS.Props.C04
open DS.Roll DS.Rng DS.Proofs

/-- legal face count for a die (what the VM lets through and `_roll64` supports) -/
def LegalSides (sides : Int) : Prop := 0 < sides ∧ sides ≤ maxInt64 - 1

/-! ### XdY with keep/drop/min/max (RollCommon) -/

/-- exactly `times` dice are produced (and shown); each is a face 1..sides after the min/max clamp -/
theorem common_dice (times sides : Int) (hs : LegalSides sides) (dmin dmax : Option Int)
    (keepLH lowNum highNum : Int) (ws : List Nat) (hws : Words64 ws) (r : CommonResult) (rest : List Nat)
    (h : rollCommon times sides dmin dmax keepLH lowNum highNum 0 ws = some (r, rest)) :
    r.nums.length = times.toNat ∧
    ∀ d ∈ r.nums, ∃ x, 1 ≤ x ∧ x ≤ sides ∧ d = clampDie dmin dmax x := by
  unfold rollCommon at h
  split at h
  · simp at h
  · rename_i raw ws' hd
    simp at h
    obtain ⟨rfl, rfl⟩ := h
    obtain ⟨hl, hf⟩ := rollDice_faces sides hs.1 hs.2 dmin dmax _ ws hws raw ws' hd
    have hp := sortFor_perm keepLH raw
    refine ⟨by simp [hp.length_eq, hl], ?_⟩
    intro d hd'
    exact hf d (hp.mem_iff.1 hd')

/-- the number of kept dice: k for kl/kh, times−k for dl/dh, clamped to [0, times]; it does not
    depend on the stream or on the mode -/
theorem common_pick (times sides : Int) (dmin dmax : Option Int) (keepLH lowNum highNum mode : Int)
    (ws : List Nat) (r : CommonResult) (rest : List Nat)
    (h : rollCommon times sides dmin dmax keepLH lowNum highNum mode ws = some (r, rest)) :
    r.pick = pickNum times keepLH lowNum highNum := by
  unfold rollCommon at h
  split at h
  · simp at h
  · simp at h; obtain ⟨rfl, _⟩ := h; rfl

theorem pick_range (times keepLH lowNum highNum : Int) (ht : 0 ≤ times) :
    0 ≤ pickNum times keepLH lowNum highNum ∧ pickNum times keepLH lowNum highNum ≤ times :=
  pickNum_range times keepLH lowNum highNum ht

theorem pick_keep_low (times k h : Int) (hk : 0 ≤ k) (hk' : k ≤ times) :
    pickNum times 1 k h = k := by
  unfold pickNum; simp; omega

theorem pick_keep_high (times l k : Int) (hk : 0 ≤ k) (hk' : k ≤ times) :
    pickNum times 2 l k = k := by
  unfold pickNum; simp; omega

theorem pick_drop_low (times k h : Int) (ht' : times < two63) (hk : 0 ≤ k) (hk' : k ≤ times) :
    pickNum times 3 k h = times - k := by
  unfold pickNum
  have : wrap64 (times - k) = times - k := wrap64_id _ (by unfold two63 at *; omega) (by omega)
  simp [this]; omega

theorem pick_drop_high (times l k : Int) (ht' : times < two63) (hk : 0 ≤ k) (hk' : k ≤ times) :
    pickNum times 4 l k = times - k := by
  unfold pickNum
  have : wrap64 (times - k) = times - k := wrap64_id _ (by unfold two63 at *; omega) (by omega)
  simp [this]; omega

/-- the shown dice are a permutation of the rolled dice, ordered so that the kept ones come first:
    ascending for kl / dh, descending for kh / dl -/
theorem common_order (raw : List Int) (keepLH : Int) :
    (sortFor keepLH raw).Perm raw ∧
    ((keepLH = 1 ∨ keepLH = 4) → (sortFor keepLH raw).Pairwise (fun a b => a ≤ b)) ∧
    ((keepLH = 2 ∨ keepLH = 3) → (sortFor keepLH raw).Pairwise (fun a b => a ≥ b)) := by
  refine ⟨sortFor_perm _ _, ?_, ?_⟩
  · intro hk
    have : sortFor keepLH raw = sortAsc raw := by
      rcases hk with rfl | rfl <;> simp [sortFor]
    rw [this]; exact sortAsc_sorted raw
  · intro hk
    have : sortFor keepLH raw = sortDesc raw := by
      rcases hk with rfl | rfl <;> simp [sortFor]
    rw [this]; exact sortDesc_sorted raw

/-- the kept dice are the `pick` lowest (kl, dh): nothing kept exceeds anything dropped -/
theorem kept_are_lowest (nums : List Int) (hs : nums.Pairwise (fun a b => a ≤ b)) (p : Nat) :
    ∀ x ∈ nums.take p, ∀ y ∈ nums.drop p, x ≤ y := by
  intro x hx y hy
  have := List.pairwise_append.1 ((List.take_append_drop p nums).symm ▸ hs)
  exact this.2.2 x hx y hy

/-- the kept dice are the `pick` highest (kh, dl) -/
theorem kept_are_highest (nums : List Int) (hs : nums.Pairwise (fun a b => a ≥ b)) (p : Nat) :
    ∀ x ∈ nums.take p, ∀ y ∈ nums.drop p, x ≥ y := by
  intro x hx y hy
  have := List.pairwise_append.1 ((List.take_append_drop p nums).symm ▸ hs)
  exact this.2.2 x hx y hy

/-- the total is the sum of the kept dice (wrapped like Go's int; the true sum under NoOverflow) -/
theorem common_total (times sides : Int) (dmin dmax : Option Int) (keepLH lowNum highNum mode : Int)
    (ws : List Nat) (r : CommonResult) (rest : List Nat)
    (h : rollCommon times sides dmin dmax keepLH lowNum highNum mode ws = some (r, rest)) :
    r.num = sumWrap (r.nums.take r.pick.toNat) ∧
    (NoOverflow (r.nums.take r.pick.toNat) → r.num = (r.nums.take r.pick.toNat).sum) := by
  unfold rollCommon at h
  split at h
  · simp at h
  · simp at h
    obtain ⟨rfl, _⟩ := h
    exact ⟨rfl, fun hno => sumWrap_eq_sum _ hno⟩

/-- the text lists all dice joined by `+` when everything is kept, otherwise `{kept | dropped}` -/
theorem common_text (times sides : Int) (dmin dmax : Option Int) (keepLH lowNum highNum mode : Int)
    (ws : List Nat) (r : CommonResult) (rest : List Nat)
    (h : rollCommon times sides dmin dmax keepLH lowNum highNum mode ws = some (r, rest)) :
    r.text = (if r.pick == times then joinWith "+" (r.nums.map toString)
              else "{" ++ joinWith " " (commonItems r.pick r.nums 0) ++ "}") := by
  unfold rollCommon at h
  split at h
  · simp at h
  · simp at h
    obtain ⟨rfl, _⟩ := h
    simp [commonText]

/-- `commonItems` puts the bar exactly in front of the die with index `pick` -/
theorem commonItems_shape (pick : Int) : ∀ (nums : List Int) (i : Int),
    (commonItems pick nums i).length = nums.length ∧
    ∀ (j : Nat) (hj : j < nums.length),
      (commonItems pick nums i)[j]? =
        some (if i + j == pick then "| " ++ toString nums[j] else toString nums[j]) := by
  intro nums
  induction nums with
  | nil => intro i; simp [commonItems]
  | cons x xs ih =>
    intro i
    obtain ⟨hl, hg⟩ := ih (i + 1)
    refine ⟨by simp [commonItems, hl], ?_⟩
    intro j hj
    cases j with
    | zero => simp [commonItems]
    | succ j =>
      have := hg j (by simpa using hj)
      simp only [commonItems, List.getElem?_cons_succ, this, List.getElem_cons_succ]
      have e : i + 1 + (j : Int) = i + ((j + 1 : Nat) : Int) := by omega
      rw [e]

/-! ### Fate -/

/-- four dice, each −1/0/+1, shown as `-`/`0`/`+`, and the result is their sum -/
def fateSym (n : Int) : String := if n == -1 then "-" else if n == 0 then "0" else if n == 1 then "+" else ""

theorem fate_spec (mode : Int) : ∀ (k : Nat) (ws : List Nat) (v : Int) (t : String) (rest : List Nat),
    fateLoop mode k ws = some ((v, t), rest) →
    ∃ ds : List Int, ds.length = k ∧ v = ds.sum ∧ t = (ds.map fateSym).foldr (· ++ ·) "" := by
  intro k
  induction k with
  | zero =>
    intro ws v t rest h
    simp [fateLoop] at h
    obtain ⟨⟨rfl, rfl⟩, _⟩ := h
    exact ⟨[], rfl, by simp, by simp⟩
  | succ k ih =>
    intro ws v t rest h
    simp only [fateLoop] at h
    split at h
    · simp at h
    · rename_i r ws' hr
      split at h
      · simp at h
      · rename_i s d ws'' hl
        simp at h
        obtain ⟨⟨rfl, rfl⟩, rfl⟩ := h
        obtain ⟨ds, hlen, rfl, rfl⟩ := ih ws' s d ws'' hl
        refine ⟨(r - 2) :: ds, by simp [hlen], by simp, ?_⟩
        simp [fateSym]

/-- each Fate die is −1, 0 or +1 in random mode -/
theorem fate_die_range (ws : List Nat) (hws : Words64 ws) (r : Int) (rest : List Nat)
    (h : roll 3 0 ws = some (r, rest)) : -1 ≤ r - 2 ∧ r - 2 ≤ 1 := by
  obtain ⟨h1, h2, _⟩ := roll_face 3 (by decide) (by decide) ws hws r rest h
  omega

/-! ### CoC bonus / penalty: the independent rule -/

/-- value of a percentile roll with tens digit `d` (10 counts as digit 0) and units `u`: 00+0 is 100 -/
def cocValue (d u : Int) : Int := if d % 10 == 0 && u == 0 then 100 else (d % 10) * 10 + u

/-! ### WoD / Double Cross rounds -/

/-- a Double Cross round scores 10 if any die reached the critical value, else its highest die
    (this is the rule; `dcRound`/`dcLoop` implement it — see `dc_round_value`) -/
def dcRoundValue (addLine : Int) (dice : List Int) : Int :=
  if dice.any (fun d => d ≥ addLine) then 10 else dice.foldl (fun m d => if d > m then d else m) 0

/-- `dcRound` returns the highest die (≥ the running maximum) and the number of critical dice -/
theorem dc_round_value (addLine points mode : Int) :
    ∀ (k : Nat) (mx : Int) (ws : List Nat) (m a : Int) (ts : List String) (rest : List Nat),
    dcRound addLine points mode k mx ws = some ((m, a, ts), rest) →
    ∃ dice : List Int, dice.length = k ∧ ts.length = k ∧
      m = dice.foldl (fun m d => if d > m then d else m) mx ∧
      a = (dice.filter (fun d => d ≥ addLine)).length ∧
      (0 < a ↔ dice.any (fun d => d ≥ addLine) = true) := by
  intro k
  induction k with
  | zero =>
    intro mx ws m a ts rest h
    simp [dcRound] at h
    obtain ⟨⟨rfl, rfl, rfl⟩, _⟩ := h
    exact ⟨[], rfl, rfl, rfl, rfl, by simp⟩
  | succ k ih =>
    intro mx ws m a ts rest h
    simp only [dcRound] at h
    split at h
    · simp at h
    · rename_i one ws' hr
      split at h
      · simp at h
      · rename_i m' a' ts' ws'' hrec
        simp at h
        obtain ⟨⟨rfl, rfl, rfl⟩, rfl⟩ := h
        obtain ⟨dice, hl, htl, rfl, rfl, hany⟩ := ih _ ws' m' a' ts' ws'' hrec
        refine ⟨one :: dice, by simp [hl], by simp [htl], by simp [List.foldl_cons], ?_, ?_⟩
        · by_cases hc : one ≥ addLine
          · simp [hc]; omega
          · simp [hc]
        · by_cases hc : one ≥ addLine
          · simp [hc]; omega
          · have hc' : ¬ addLine ≤ one := by omega
            rw [if_neg hc']
            simp only [List.any_cons, hc, decide_false, Bool.false_or]
            simpa using hany

/- Non-vacuity -/
example : (rollCommon 3 6 none none 0 0 0 0 [7, 8, 9]).map (fun p => (p.1.nums, p.1.num, p.1.text)) =
    some ([2, 3, 4], 9, "2+3+4") := by decide
example : Words64 [7, 8, 9] ∧ LegalSides 6 := by
  refine ⟨?_, by unfold LegalSides maxInt64; omega⟩
  intro w hw; simp at hw; rcases hw with rfl | rfl | rfl <;> decide
example : dcRoundValue 18 [18, 20, 13] = 10 := by decide
example : dcRoundValue 18 [7, 17, 13] = 17 := by decide

end DS.Props.C04
