"""C09 — JSON snapshot and restore of variables is transparent.

Proof: DS/Props/C09.lean — roundtrip: every encodable tree value (int64, finite floats, strings, null, arrays, dicts,
functions, computed values with attributes, native functions) encodes, and decoding gives back exactly that value, at
every nesting depth; non-finite floats are rejected.  Tie: the implementation's own JSON output is decoded by the Lean
model and compared with the implementation's value (jsonenc x jsondecm), plus decode stream of C10.
Oracles on the implementation: decode(encode(v)) == v for values built by generated programs; cycles must be an
error (never a crash), acyclic sharing must encode; snapshot at every statement prefix + restore into a fresh VM
must behave identically on the suffix under the same seed.
"""
import re

from lib.common import Run, hx, unhx, lean_child

VALS = ["1", "-7", "9007199254740993", "9223372036854775807", "1.5", "-0.25", "2.0", "'s'", "'力量'", "'a\\nb'", "\"q'\"", "null",
        "[]", "{}", "[1, 2, 3]", "[[1], [2, [3]]]", "{'a': 1}", "{'a': [1, {'b': 2}]}", "abs", "toStr"]


DICT_KEYS = ['a', 'b', 'x', 'y', 'z', 'k\x7f', '\x01', 'q\x1fr', '力', 'é', '\U000e0001', 't\tb', 'sl/ash', 'u\u2028']


def gen_value(r, depth=0):
    k = r.random()
    if depth > 2 or k < 0.45:
        return r.choice(VALS)
    if k < 0.7:
        return "[" + ", ".join(gen_value(r, depth + 1) for _ in range(r.randint(0, 3))) + "]"
    # (keys are arbitrary strings: DEL, C0 controls, characters JSON escapes differently from Go's own quoting)
    return "{" + ", ".join(f"'{r.choice(DICT_KEYS)}{i}': {gen_value(r, depth + 1)}" for i in range(r.randint(0, 3))) + "}"


def gen_prefix(r):
    """statements that leave interesting variables behind"""
    st = []
    n = r.randint(1, 5)
    names = []
    for i in range(n):
        nm = f"v{i}"
        k = r.random()
        if k < 0.4:
            st.append(f"{nm} = {gen_value(r)}")
        elif k < 0.55:
            st.append(f"func {nm}(a, b) {{ a * 2 + b + d{r.choice([4, 6, 20])} }}")
        elif k < 0.65:
            st.append(f"func {nm}() {{ if 1 {{ return {r.randint(1, 9)} }}; 0 }}")
        elif k < 0.8:
            st.append(f"&{nm} = {r.choice(['1 + 2', 'd6 + 1', 'this.n * 2 + 1', '2d4'])}")
            if "this.n" in st[-1]:
                st.append(f"&{nm}.n = {r.randint(1, 9)}")
        elif k < 0.9 and names:
            st.append(f"{nm} = [{r.choice(names)}, 1]")
        else:
            st.append(f"{nm} = d{r.choice([6, 100])} + {r.randint(0, 5)}")
        names.append(nm)
    return st, names


def gen_suffix(r, prefix, names):
    parts = []
    for nm in names:
        decl = next((s for s in prefix if s.startswith(f"func {nm}(") or s.startswith(f"&{nm} ") or s.startswith(f"{nm} =")), "")
        if decl.startswith(f"func {nm}(a, b)"):
            parts.append(f"{nm}(1, 2)")
        elif decl.startswith(f"func {nm}()"):
            parts.append(f"{nm}()")
        elif decl.startswith("&"):
            parts.append(f"{nm}")
            parts.append(f"{nm} + {nm}")
        else:
            parts.append(f"{nm}")
    parts.append("d100")
    if r.random() < 0.5:
        # several short programs instead of one long one: every value is read by its own tiny program, twice
        progs = []
        for p in parts:
            progs.append(p)
            if r.random() < 0.6:
                progs.append(p)
        return "\n---\n".join(progs)
    return "[" + ", ".join(parts) + "]"


def main(tier):
    run = Run("C09", tier, module="DS.Props.C09", props_file="DS/Props/C09.lean",
              extra_files=["DS/Proofs/JsonLemmas.lean", "DS/Model/Json.lean"])
    if run.prepare():
        run.proofs()
        r = run.rng
        # ---- (1) values built by programs: implementation round trip + Lean decode of the implementation's JSON
        progs = [gen_value(r) for _ in range(1500 if tier == "thorough" else 300)]
        progs += ["func f(a){a+1}; f", "&c = d6+1; &c.x = 5; &c", "x = [1]; [x, x]", "1.0e300 * 1.0e300", "[1.5, [2.5e-3]]", "'\\\\u00e9'", "[1,2].len", "{'m': [3].len}"]
        out = run.go_only("jsonenc", [f"jsonenc - {hx(p)}" for p in progs], go_timeout=300)
        cross = []
        for p, (ln, g) in zip(progs, out):
            if g.startswith("err-run"):
                run.count("jsonenc.program-rejected")
                continue
            if g.startswith("encerr"):
                msg = unhx(g.split()[1]).decode("utf-8", "replace")
                if "unsupported value" in msg or "Inf" in msg:
                    run.count("jsonenc.nonfinite-rejected")
                    continue
                if ".len" in p and "原生函数" in msg:
                    run.count("jsonenc.bound-method-rejected")
                    continue
                run.violation("encode-error-on-representable-value", {"program": p, "implementation": msg})
                continue
            m = re.match(r"ok (\S+) back=(.*) orig=(.*)$", g)
            if not m:
                run.violation("jsonenc:crash", {"program": p, "implementation": g[:300]})
                continue
            run.nontriv(("enc", p))
            if m.group(2) != m.group(3):
                run.violation("roundtrip-changes-value", {"program": p, "json": unhx(m.group(1)).decode("utf-8", "replace")[:300],
                                                          "original": m.group(3)[:200], "decoded": m.group(2)[:200]})
            cross.append((p, m.group(1), m.group(3)))
        lean = lean_child().run([f"jsondecm {j}" for _, j, _ in cross])
        for (p, j, orig), lo in zip(cross, lean):
            run.evaluations += 1
            if lo != "ok " + orig:
                run.violation("correspondence:encoder-vs-model-decoder", {"program": p, "json": unhx(j).decode("utf-8", "replace")[:300],
                                                                          "implementation_value": orig[:200], "model_decode": lo[:200]})
        run.streams["jsonenc-x-model"] = {"cases": len(cross), "agree": sum(1 for (p, j, o), lo in zip(cross, lean) if lo == "ok " + o)}
        run.sample({"oracle": "jsonenc", "program": progs[0]})
        # ---- (2) cycles and sharing
        cyc = [
            ("cyclic", "a = [1]; a.push(a); a"), ("cyclic", "dd = {}; dd.x = dd; dd"), ("cyclic", "a = [1]; b = {'k': a}; a.push(b); a"),
            ("cyclic", "dd = {}; dd.k = [dd]; dd"), ("cyclic", "a = []; b = [a]; a.push(b); [a, b]"),
            # cycles whose back edge sits in a computed value's attribute map, alone and mixed with lists / dicts
            ("cyclic", "zz = {'k': 1}; &cc = this.x; &cc.x = zz; zz.c = &cc; zz"), ("cyclic", "&cc = 1; &cc.me = &cc; &cc"),
            ("cyclic", "a = [1]; &cc = 2; &cc.arr = a; a.push(&cc); a"), ("cyclic", "dd = {}; &c1 = 1; &c2 = 2; &c1.o = &c2; &c2.o = &c1; dd.c = &c1; dd"),
            ("cyclic", "a = [1]; &cc = 2; &cc.arr = [{'k': [a]}]; a.push({'c': [&cc]}); [0, a]"),
            ("acyclic", "zz = {'k': 1}; &cc = this.x; &cc.x = zz; [&cc, zz, &cc]"), ("acyclic", "&c1 = 1; &c2 = 2; &c2.o = &c1; [&c1, &c2, &c1, {'k': &c2}]"),
            ("acyclic", "a = [1]; &cc = 2; &cc.p = a; &cc.q = a; [a, &cc, a]"),
            # ONE computed value object (with attributes / already evaluated) reached twice through a shared container: no cycle
            ("acyclic", "&cc = 1; &cc.x = 2; row = [&cc]; [row, row]"), ("acyclic", "&cc = 1 + 1; cc; row = [&cc]; [row, row, {'k': row}]"),
            ("acyclic", "&cc = 5; &cc.x = [1]; dd = {'c': &cc}; [dd, dd]"), ("acyclic", "&cc = 5; &cc.x = 1; row = [&cc, &cc]; sheet = [row, [row]]; sheet"),
            # values that JSON cannot represent (infinities, NaN), alone and inside every kind of container: an error, never a document
            ("nonfinite", "big = 2.0 ** 5000; big"), ("nonfinite", "big = 2.0 ** 5000; [1, big - big]"), ("nonfinite", "{'k': 2.0 ** 5000}"),
            ("nonfinite", "x = 0.0 - 2.0 ** 5000; [x]"), ("nonfinite", "big = 2.0 ** 5000; &c = 1; &c.a = big; &c"), ("nonfinite", "big = 2.0 ** 5000; [[[{'a': [big]}]]]"),
            ("nonfinite", "n = 2.0 ** 5000 - 2.0 ** 5000; {'x': {'y': n}}"),
            ("acyclic", "a = [1]; b = [a]; cc = [b, b]; cc"), ("acyclic", "a = [1]; [a, a, [a]]"), ("acyclic", "a = {'k': 1}; [a, {'m': a}, a]"),
            ("acyclic", "a = [1]; b = [a, a]; cc = [b, a, b]; {'x': cc, 'y': cc}"), ("acyclic", "e = []; [e, e]"),
        ]
        out = run.go_only("cycles", [f"jsonenc - {hx(p)}" for _, p in cyc], go_timeout=120, line_timeout=20)
        for (kind, p), (ln, g) in zip(cyc, out):
            run.nontriv(("cyc", p))
            if g.startswith("died") or g.startswith("panic"):
                run.violation("cycle:crash", {"program": p, "implementation": g[:200], "expected": "an error" if kind == "cyclic" else "a JSON document"})
            elif kind == "cyclic" and not g.startswith("encerr"):
                run.violation("cycle:not-detected", {"program": p, "implementation": g[:200]})
            elif kind == "nonfinite" and not g.startswith("encerr"):
                run.violation("unrepresentable-value-serialised-without-error", {"program": p, "implementation": g[:300]})
            elif kind == "acyclic" and not g.startswith("ok "):
                msg = unhx(g.split()[1]).decode("utf-8", "replace") if len(g.split()) > 1 else g
                run.violation("acyclic-sharing-rejected", {"program": p, "implementation": msg[:200]})
        # ---- (3) snapshot at every statement prefix, restore, run the suffix on both
        lines, meta = [], []
        for _ in range(400 if tier == "thorough" else 100):
            st, names = gen_prefix(r)
            for cut in range(1, len(st) + 1):
                pre = "; ".join(st[:cut])
                live = [nm for nm in names if any(s.startswith((f"{nm} =", f"func {nm}(", f"&{nm} ")) for s in st[:cut])]
                suf = gen_suffix(r, st[:cut], live)
                seed = f"{r.getrandbits(128):032x}"
                lines.append(f"snap L100000 {seed} {hx(pre)} {hx(suf)}")
                meta.append((pre, suf, seed))
        # directed histories: the first use of a restored function / computed value FAILS at run time, later uses succeed
        DIRECTED = [
            ("func share(n) { return 120 / n }; pool = [3, 0]", ["share(pool[1])", "share(pool[0])", "share(pool[0]) + share(3)"]),
            ("&cq = 120 / z; z = 0", ["cq", "z = 4", "cq", "cq + cq"]),
            ("func f(a) { a.len() + 1 }", ["f(5)", "f([1,2])", "f('ab')"]),
            ("func f(a) { if a > 2 { return nosuch.x }; a * 2 }", ["f(3)", "f(1)", "f(2)"]),
            ("&cq = [1,2][i]; i = 5", ["cq", "i = 1", "cq"]),
            ("func deep(n) { n > 0 ? deep(n - 1) + 1 : 1 / z }; z = 0", ["deep(2)", "z = 1", "deep(2)"]),
            ("func f() { 2d6 + nosuch() }; func g() { 2d6 }", ["f()", "g()", "f()", "g() + g()"]),
            ("&cq = `{1/z}`; z = 0", ["cq", "z = 2", "cq"]),
            # variables that share one container holding a computed value with attributes: representable, must snapshot and restore
            ("&cq = 2 + 3; &cq.x = 7; row = [&cq]; row2 = row", ["row2[0]", "cq + 1", "row[0]"]),
            # functions with nothing in their body: the snapshot holds an empty text
            ("func noop() {}; func sp(a) {   }; x = 1", ["noop()", "sp(1)", "[noop(), sp(2), x]"]),
        ]
        for pre, sufs in DIRECTED:
            for _ in range(2):
                seed = f"{r.getrandbits(128):032x}"
                suf = "\n---\n".join(sufs)
                lines.append(f"snap L100000 {seed} {hx(pre)} {hx(suf)}")
                meta.append((pre, suf, seed))
        # the restore target has been used before the snapshot is loaded (a short init script, a read, an earlier load): loading
        # replaces its variables — nothing of the earlier state survives, whatever internal shape the map was in
        INITS = ["armor = 3", "armor = 3; hp = 1; zz9 = [1]", "armor = 3; armor", "q1 = 1; q2 = 2; q3 = 3; q4 = 4; q5 = 5; q1 + q5", "func oldf() { 1 }; &oldc = 2", "armor = 3; `{armor}`"]
        for (pre, suf, seed) in list(meta)[:: max(1, len(meta) // 40)]:
            ini = r.choice(INITS)
            lines.append(f"snap L100000 {seed} {hx(pre)} {hx(suf + chr(10) + '---' + chr(10) + '[armor ?? 77, zz9 ?? 78, q3 ?? 79, oldc ?? 80]')} {hx(ini)}")
            meta.append((pre, suf + " (+ probe of names only the target's init script set; target init: " + ini + ")", seed))
        out = run.go_only("snapshot", lines, go_timeout=600)
        for (pre, suf, seed), (ln, g) in zip(meta, out):
            run.nontriv(("snap", pre, suf))
            rep = {"prefix": pre, "suffix": suf, "seed": seed, "implementation": g[:600]}
            if g.startswith(("prefix-err",)):
                run.count("snapshot.prefix-rejected")
                continue
            if g.startswith(("died", "panic")):
                run.violation("snapshot:crash", rep)
                continue
            if g.startswith(("snaperr", "restore-err")):
                run.violation("snapshot:cannot-snapshot-representable-state", rep)
                continue
            m = re.match(r"A=(.*) B=(.*) varsA=(.*) varsB=(.*) snap=(.*) restored=(.*)$", g)
            if not m:
                run.violation("snapshot:unparseable", rep)
                continue
            a, b, va, vb, sn, rs = m.groups()
            aliasing = bool(re.search(r"= \[v\d, 1\]", pre))

            def split(o):
                """(everything but detail and ops, detail, ops)"""
                mo = re.match(r"(ok .*?) d=(\S+) (idem=\S+) (m=\S+ r=\S+) ops=(\d+) (seed=\S+)$", o)
                if mo:
                    det = unhx(mo.group(2)).decode("utf-8", "replace") + " " + mo.group(3)
                    return (mo.group(1), mo.group(4), mo.group(6)), det, int(mo.group(5))
                mo = re.match(r"(err \S+) ops=(\d+)$", o)
                if mo:
                    return (mo.group(1),), "", int(mo.group(2))
                return (o,), "", -1
            pa, pb = a.split(" ;; "), b.split(" ;; ")
            ca, da, oa = (), "", 0
            cb, db, ob = (), "", 0
            for xa, xb in zip(pa, pb):
                c1, d1, o1 = split(xa)
                c2, d2, o2 = split(xb)
                ca += c1; cb += c2; da += "|" + d1; db += "|" + d2; oa += o1; ob += o2
            if len(pa) != len(pb):
                ca = ("len",)
            if sn != rs:
                run.violation("snapshot:restored-variables-differ", rep)
            elif ca != cb or da != db or va != vb:
                if aliasing:
                    run.known_finding("C09-aliasing-lost", rep)
                else:
                    run.violation("snapshot:behaviour-differs-after-restore", rep)
            elif oa != ob:
                run.known_finding("C09-lazy-compile-extra-halt", rep)
        run.sample({"oracle": "snapshot", "prefix": meta[0][0], "suffix": meta[0][1]})
        # directed known limitations
        out = run.go_only("snapshot-directed", [
            f"snap L100000 {'0' * 31}1 {hx('a = [1]; b = a')} {hx('a.push(2); b.len()')}",
            f"snap L100000 {'0' * 31}2 {hx('// #EnableDice wod true' + chr(10) + 'func g(){5a11}')} {hx('g()')}"])
        for fid, (ln, g) in zip(("C09-aliasing-lost", "C09-body-compiled-under-macro"), out):
            m = re.match(r"A=(.*) B=(.*) varsA=", g)
            if m and m.group(1) != m.group(2):
                run.known_finding(fid, {"case": ln, "implementation": g[:400]})
    return run.finish(
        trusted=["Lean 4.33 kernel", "axioms: propext, Classical.choice, Quot.sound", "Go harness + Lean driver (incl. its JSON text parser)",
                 "encoding/json, strconv (float printing/parsing) at the byte level",
                 "values are trees in the theorems; sharing/cycles and VM behaviour after restore are validated on the implementation"],
        rule="values built by generated programs (nested arrays/dicts, ints beyond 2^53, floats, strings with escapes, functions, "
             "computed values with attributes, bound methods); cyclic and acyclic-but-shared structures; programs cut after every "
             "statement, snapshotted, restored into a fresh VM with the captured generator state, and continued with a suffix that "
             "calls every function, reads every computed value twice and prints every variable; distinct by program text",
        assumptions=["float text round trip is strconv's"])
