"""C16 — disabled syntax stays disabled: flags gate what input can do.

Proof: DS/Proofs/PegGate.lean `gate_sound` — on the model of the generated PEG engine (ordered choice, position-only
backtracking, skip-code look-ahead, two packrat tables): for ANY grammar, action table, input and fuel, if the static check
accepts the rules that can be entered while a flag is blocked then, unless a flagsSwitch macro action has run, the flag stays
blocked, no gated opcode is ever written — abandoned alternatives included — and nothing that cannot succeed while blocked is
memoised as succeeded.  DS/Props/C16.lean instantiates it, by kernel evaluation of the static check, on the grammar / action
digests / opcode numbers the translator REGENERATES from roll.peg.go, parser.go, bytecode.go on every run, for CoC, WoD, Fate,
Double Cross (Enable* off) and for statements (DisableStmts on: no block, function definition or return).
Tie: `peg` stream — the engine model and the real parser agree on success, consumed offset and the full emission trace
(hook: every opcode the actions write, in order) over inputs built around the letters a b c f p d, generated and mutated
programs, all flag settings.  Oracle on the implementation: an emission of a gated opcode requires the family flag or the
macro text; a macro never changes the VM's configuration; a later input behaves as on a fresh VM.
"""
import re

from lib.common import Run, hx, unhx, go_child, lean_child, fingerprint_mismatches
from lib.proggen import ProgGen
from lib.props.c01 import mutate
from lib.props.c08 import STRUCT

# opcode numbers are read from the regenerated DS/Gen/Opcodes.lean
def opcodes():
    from lib.common import LEAN
    import os
    txt = open(os.path.join(LEAN, "DS/Gen/Opcodes.lean")).read()
    return {m.group(1): int(m.group(2)) for m in re.finditer(r'\("(type\w+)", (\d+)\)', txt)}


FAMILY_OPS = {
    "c": ["typeDiceCocBonus", "typeDiceCocPenalty"],
    "w": ["typeDiceWod", "typeWodSetInit", "typeWodSetPool", "typeWodSetPoints", "typeWodSetThreshold", "typeWodSetThresholdQ"],
    "f": ["typeDiceFate"],
    "d": ["typeDiceDC", "typeDCSetInit", "typeDCSetPool", "typeDCSetPoints"],
}
STMT_OPS = ["typeBlockPush", "typePushFunction", "typeReturn"]
MACRO = {"c": "coc", "w": "wod", "f": "fate", "d": "doublecross"}

ATOMS = ["a", "b", "c", "f", "p", "d", "A", "B", "C", "F", "P", "b2", "p1", "B3", "2a5", "3c2", "4f", "f4", "2a5k3m8", "3c8m5", "a5", "c5", "2c", "2a", "ba", "af", "pf", "cb",
         "x", "x1", "5", "(2)", "b(2)", "p(1)", "(2)a(5)", "(3)c(4)", "fate", "bonus", "f1", "bp", "1f", "2b", "2p", "b2d", "abc", "a5c", "2a5c", "f_", "f:", "b:1", "力b", "b力"]
OPS = ["+", "-", "*", " ", ";", ",", "==", "?", ":", "||", "(", ")", "[", "]", ".", "=", "\n"]


def letter_mix(r):
    n = r.randint(1, 5)
    s = ""
    for i in range(n):
        s += r.choice(ATOMS)
        if i < n - 1:
            s += r.choice(OPS)
    return s


ST_NAMES = ["a", "b", "力量", "敏捷", "x1", "'a b'", "射击:弓箭", "c", "f"]
ST_VALUES = ["1", "60", "(2)", "(3+4)", "2d6", "(`{% if 1 { 7 } else { 8 } %}`)", "(`{% i=0; while i<2 { i=i+1 }; i %}`)", "(`{% func g() { return 3 }; g() %}`)",
             "`{% if 1 {7} %}`", "(2a5)", "b2", "(4f)", "(3c2)", "1.5", "(x ? 1 : 2)", "(1 | 2)", "(d)"]


def st_mix(r):
    out = "^st"
    for i in range(r.randint(1, 4)):
        nm, v = r.choice(ST_NAMES), r.choice(ST_VALUES)
        k = r.random()
        if k < 0.6:
            out += nm + r.choice(["=", ":", " = ", ""]) + v
        elif k < 0.8:
            out += nm + r.choice(["+", "-", "+=", "-="]) + v
        else:
            out += "&" + nm + "=" + v
        out += r.choice(["", " ", ",", ", "])
    return out


# comment lines around the macro's exact spelling: other letter cases of the keywords, of the marker and of the family name, other
# words for "on", missing parts — none of them is the macro — and the legal spacing variants, which are
NEAR_MACRO = ["// #EnableDice {f} TRUE", "// #EnableDice {f} True", "// #EnableDice {f} FALSE", "// #EnableDice {f} False", "// #enabledice {f} true",
              "// #ENABLEDICE {f} true", "// #EnableDice {F} true", "// #EnableDice {f} yes", "// #EnableDice {f} 1", "// #EnableDice {f} on", "// #EnableDice {f}",
              "// #EnableDice {f}true", "// EnableDice {f} true", "# EnableDice {f} true", "// #EnableDice  true", "// #EnableDice {f} tru e", "// # EnableDice {f} true",
              "//\t#EnableDice\t{f}\ttrue", "//#EnableDice {f} true", "// #EnableDice {f}  true  ", "// #EnableDice {f} truely", "// #EnableDice {f} false",
              "// #EnableDice {f} FALSE\n// #EnableDice {f} False", "//   #EnableDice   {f}   TRUE"]


def macro_enables(text, name):
    """the macro as the grammar spells it: "//" sp "#EnableDice" sp1x <family> sp1x "true" (sp = blanks, tabs, CR, LF)"""
    return re.search(r"//[ \n\t\r]*#EnableDice[ \n\t\r]+" + name + r"[ \n\t\r]+true", text) is not None


def with_macro(r, body):
    fam = r.choice(list(MACRO))
    if r.random() < 0.4:
        line = r.choice(NEAR_MACRO).replace("{f}", MACRO[fam]).replace("{F}", MACRO[fam].upper())
        return f"{line}\n{body}", fam, "near"
    on = r.choice(["true", "true", "false"])
    return f"// #EnableDice {MACRO[fam]} {on}\n{body}", fam, on


def main(tier):
    run = Run("C16", tier, module="DS.Props.C16", props_file="DS/Props/C16.lean",
              extra_files=["DS/Proofs/PegGate.lean", "DS/Model/Peg.lean", "DS/Props/C16Defs.lean"])
    if run.prepare():
        run.proofs()
        r = run.rng
        ops = opcodes()
        # ParserData methods the engine model implements by name (flags stack, loop bookkeeping): a changed body is a broken tie;
        # the search below is then run five times as wide, with the st / loop heavy inputs that exercise those methods
        fp = fingerprint_mismatches()
        for name in fp:
            run.broken.append(("fingerprint:ParserData." + name, "the body differs from lib/fingerprints_expected.json (the engine model implements this method by name)"))
        widen = 5 if fp else 1
        fam_nums = {k: {ops[n] for n in v} for k, v in FAMILY_OPS.items()}
        stmt_nums = {ops[n] for n in STMT_OPS}
        # ---------- inputs
        cases = []  # (src bytes, cfg)
        fam_sets = ["-", "w", "c", "f", "d", "wc", "fd", "wcf", "cfd", "wcfd", "wd", "cf"]
        n = (5000 if tier == "thorough" else 1200) * widen
        for _ in range(n):
            k = r.random()
            if fp:
                k = k * 0.6 if r.random() < 0.5 else 0.34 + (k * 0.13)
            cfg = r.choice(fam_sets)
            if r.random() < 0.3:
                cfg = (cfg + "," if cfg != "-" else "") + r.choice(["S", "N", "B", "S,N", "S,B", "N,B", "S,N,B"])
            if k < 0.33:
                src = letter_mix(r)
            elif k < 0.47:
                src = st_mix(r)
                if r.random() < 0.6:
                    cfg = r.choice(["S", "S,B", "w,S", "S,N", "wcfd,S"])
            elif k < 0.6:
                src = r.choice(STRUCT)
            elif k < 0.8:
                g = ProgGen(r, illtyped=0.05)
                src, _ = g.program()
            else:
                g = ProgGen(r, illtyped=0.05)
                s0, _ = g.program()
                src = mutate(r, s0).decode("utf-8", "replace")
            if r.random() < 0.15:
                src, _, _ = with_macro(r, src)
            cases.append((src.encode("utf-8", "replace"), cfg))
        # every near-macro line x every family, followed by that family's dice, with all families switched off
        FAM_BODY = {"c": "b2 + p1", "w": "2a5 + 3a8k6", "f": "f + 4", "d": "3c2"}
        for line in NEAR_MACRO:
            for fam in MACRO:
                src = line.replace("{f}", MACRO[fam]).replace("{F}", MACRO[fam].upper()) + "\n" + FAM_BODY[fam]
                cases.append((src.encode("utf-8"), r.choice(["-", "-", "S", "N,B"])))
        # the st command judges its BARE values (not parenthesised) with statements, the sides-left-out spelling and bitwise operators off,
        # whatever the host's switches are and whatever a look-ahead saw before the switches were set
        ST_BARE = ["3d", "2d", "7D", "2d+1", "3d k2", "1|2", "6&3", "5 | 1", "`{% if 1 { 7 } else { 8 } %}`", "`{% func g() { return 3 }; g() %}`", "d", "2dk1", "4D优势"]
        st_bare = set()
        for v in ST_BARE:
            for nm in ("力量", "hp", "射击:弓箭", "力量*2", "属性2*2.0", "力量*", "&手枪", "属性2", "'力 量'"):    # every spelling of an edit's left side
                for binder in ("=", ":", " = "):
                    for pre in ("", "敏捷60 ", "a=1,"):
                        src = "^st" + pre + nm + binder + v
                        st_bare.add(src.encode("utf-8"))
                        cases.append((src.encode("utf-8"), r.choice(["-", "-", "wcfd", "N", "B", "S"])))
        nd_nums = {ops["typePushDefaultExpr"]}
        bw_nums = {ops["typeBitwiseAnd"], ops["typeBitwiseOr"]}
        lines = [f"pegtrace {cfg} {hx(src)}" for src, cfg in cases]
        g_out = go_child().run(lines)
        m_out = lean_child().run(lines)
        st = run.streams.setdefault("peg", {"cases": 0, "agree": 0})
        for (src, cfg), a, b in zip(cases, g_out, m_out):
            st["cases"] += 1
            run.evaluations += 1
            text = src.decode("utf-8", "replace")
            run.count("peg.go." + a.split()[0])
            if a == b:
                st["agree"] += 1
                run.nontriv(("peg", src, cfg))
            else:
                run.violation("correspondence:peg", {"stream": "peg", "source": text, "cfg": cfg, "implementation": a[:400], "model": b[:400]})
            # ---- oracle on the implementation's emission trace
            f = a.split()
            tr = f[-1] if f and f[0] in ("ok", "err") else "-"
            emitted = set(int(x) for x in tr.split(",")) if tr not in ("-", "") else set()
            flags = cfg.split(",")[0] if cfg != "-" else ""
            for fam, nums in fam_nums.items():
                if emitted & nums and fam not in flags and not macro_enables(text, MACRO[fam]):
                    run.violation("disabled-family-compiled:" + MACRO[fam], {"source": text, "cfg": cfg, "implementation": a[:300],
                                                                              "opcodes": sorted(emitted & nums)})
            if "N" in cfg.split(",") and emitted & nd_nums:
                run.violation("sides-left-out-compiled-under-DisableNDice", {"source": text, "cfg": cfg, "implementation": a[:300]})
            if src in st_bare:
                run.count("st-bare.cases")
                bad_ops = emitted & (nd_nums | bw_nums | stmt_nums)
                if bad_ops:
                    run.violation("st-bare-value-compiled-restricted-syntax", {"source": text, "cfg": cfg, "implementation": a[:300], "opcodes": sorted(bad_ops)})
            if "S" in cfg.split(",") or ",S" in cfg:
                if emitted & stmt_nums:
                    run.violation("statements-compiled-under-DisableStmts", {"source": text, "cfg": cfg, "implementation": a[:300],
                                                                             "opcodes": sorted(emitted & stmt_nums)})
        # ---------- macro locality: [program with macro, probe] on one VM vs probe on a fresh VM
        seqs = []
        for _ in range(600 if tier == "thorough" else 150):
            cfg = r.choice(["-", "w", "c", "wcfd", "f"])
            body = r.choice([letter_mix(r), "1+1", "x = 2a5", "b2", "func g(){ 2a5 }", "&cv = 2a5", "if 1 { 4f }"])
            p1, fam, on = with_macro(r, body)
            probe = r.choice([letter_mix(r), "2a5", "b2", "4f", "3c2", "2a5 + b1", "f", "p"])
            seqs.append((cfg, p1, probe))
        l1 = [f"runseq {cfg},L30000 {7:032x} {hx(p1)} {hx(probe)}" for cfg, p1, probe in seqs]
        l2 = [f"runseq {cfg},L30000 {7:032x} {hx(probe)}" for cfg, p1, probe in seqs]
        o1 = go_child().run(l1)
        o2 = go_child().run(l2)
        for (cfg, p1, probe), a, b in zip(seqs, o1, o2):
            run.evaluations += 1
            run.count("macro-locality.cases")
            pa = a.split(" | ")
            pb = b.split(" | ")
            rep = {"cfg": cfg, "first": p1, "probe": probe, "after_macro": a[:400], "fresh": b[:400]}
            ca = a.rsplit(" cfg=", 1)[-1]
            cb = b.rsplit(" cfg=", 1)[-1]
            if ca != cb:
                run.violation("macro-changed-vm-config", rep)
                continue
            # outcome of the probe: value or error-ness; the generator state differs (the first program may have rolled)
            def oc(t):
                f = t.split()
                return (f[0], f[1] if f and f[0] == "ok" and f[1][:1] in "sn[{" else "") if f else ("?", "")
            if len(pa) >= 3 and len(pb) >= 2:
                ka, kb = oc(pa[1]), oc(pb[0])
                ra = re.search(r" r=(\S+)", pa[1])
                rb = re.search(r" r=(\S+)", pb[0])
                if ka[0] != kb[0] or (ra and rb and ra.group(1) != rb.group(1)):
                    run.violation("macro-leaks-into-next-evaluation", rep)
                else:
                    run.nontriv(("seq", cfg, p1, probe))
        # ---------- a macro acts on the text it stands in, nothing else: bodies the host stored as source text (compiled on first use),
        #            and texts run through RunExpr, are judged by the VM's own switches — during the input that carries the macro and after
        lz, lzmeta = [], []
        for fam in MACRO:
            body = FAM_BODY[fam]
            for kind, prog in (("computed", "x"), ("compjson", "x"), ("funcjson", "x()")):
                for first in (f"// #EnableDice {MACRO[fam]} true\n{prog}", f"// #EnableDice {MACRO[fam]} true\n1", f"// #EnableDice {MACRO[fam]} true\n{prog} + {prog}"):
                    lz.append(f"lazyseq L30000 {3:032x} {kind} {hx(body)} {hx(first)} {hx(prog)} {hx(prog)} +runexpr")
                    lz.append(f"lazyseq L30000 {3:032x} {kind} {hx(body)} {hx(prog)} +runexpr")
                    lzmeta.append((fam, kind, first, prog))
        lo = go_child(line_timeout=20).run(lz)
        for i, (fam, kind, first, prog) in enumerate(lzmeta):
            a, b = lo[2 * i], lo[2 * i + 1]
            run.evaluations += 1
            run.count("macro-vs-stored-text.cases")
            def vals(t):
                out_ = []
                for part in t.split(" | "):
                    f = part.split()
                    out_.append((f[0], f[1] if len(f) > 1 and f[0] == "ok" else "", " ".join(x for x in f if x.startswith("rx="))))
                return out_
            va, vb = vals(a), vals(b)
            ref = vb[0] if vb else None
            # the stored text, evaluated by the second and third input (no macro there) and through RunExpr after every input
            bad = [x for x in va[1:] if ref and (x[0], x[1], x[2]) != ref] + [x for x in va[:1] if ref and x[2] != ref[2]]
            if bad:
                run.violation("macro-reaches-text-outside-its-input", {"family": MACRO[fam], "stored_as": kind, "stored_text": FAM_BODY[fam], "inputs": [first, prog, prog],
                                                                       "with_macro_history": a[:500], "fresh": b[:300]})
            else:
                run.nontriv(("lazymacro", fam, kind, first))
        # ---------- a host stream parser that reads its operand with the stream's own ReadExpr ('R<operand>', the handler evaluates the
        #            operand): the operand is judged by the VM's switches exactly as the same text standing alone is
        OPERANDS = ["1|2", "3&1", "6^3", "`{% i=0; while i<3 { i=i+1 }; i %}`", "`{% func f(x){ return x*2 }; f(21) %}`", "`{% if 1 { 7 } else { 8 } %}`",
                    "2d", "(2d)+1", "3d+d", "1+2", "2d6", "(1|4)+1", "`{1|2}`", "[1|2, 3][0]", "d", "2a5", "3c2", "4f", "b2", "p", "f", "(2d)kh1"] + \
                   [FAM_BODY[f_] for f_ in MACRO]
        sp, spmeta = [], []
        # (only the Disable* switches: the stream reads its operand with every optional family OFF, so under an Enable* switch the operand
        #  is merely read shorter than the text alone would be — stricter, not a way round a switch)
        for flags in ("", "B", "S", "N", "BS", "BN", "SN", "BSN", "M", "BSNM"):
            for opnd in OPERANDS:
                cfgt = (flags + "," if flags else "") + "L30000"
                sp.append(f"custom {cfgt} {5:032x} spexpr {hx('R' + opnd)}")
                sp.append(f"custom {cfgt} {5:032x} - {hx(opnd)}")
                spmeta.append((flags, opnd))
        so = go_child(line_timeout=20).run(sp)
        for i, (flags, opnd) in enumerate(spmeta):
            a, b = so[2 * i], so[2 * i + 1]
            run.evaluations += 1
            run.count("readexpr-operand.cases")
            def key(t):
                f = t.split()
                if f[0] == "ok":
                    mm = [x for x in f if x.startswith("m=")]
                    return ("ok", f[1], mm[0] if mm else "")
                return (f[0], "")       # a refusal quotes the text it was given: only the fact is compared
            ka, kb = key(a), key(b)
            whole_alone = kb[0] == "ok" and kb[2] == "m=" + hx(opnd)
            if kb[0] in ("panic", "died") or ka[0] in ("panic", "died"):
                continue    # crashes belong to C01
            # alone: accepted whole / accepted in part / refused.  Behind the custom die: the same value / the value of the part / the same refusal
            if ka[:2] != kb[:2]:
                run.violation("readexpr-operand-judged-by-other-switches", {"flags": flags or "-", "operand": opnd, "as_custom_dice_operand": a[:300], "alone": b[:300],
                                                                           "alone_accepts_whole_text": whole_alone})
            else:
                run.nontriv(("readexpr", flags, opnd))
        # ---------- configuration stability: whatever earlier inputs did (including failing ones, default-sides expressions that
        #            fail, budgets that run out, st lists), the host's switches are what they were and a later input is judged by them
        DEXPR = ["20", "面数", "1/0", "面数 + 0", "d4"]
        FIRST = ["d", "3d + 1", "29950d1+d", "&面数 = 1/0", "面数 = 'x'", "&面数 = 面数", "d优势", "func f(){ d }; f()", "^sta=1 b=(3d)", "^sta=1 b=(1|2)",
                 "^sta=1 b=(`{% if 1 { 2 } %}`)", "^st力量=d 敏捷=(2d)", "1 +", "(", "#EnableDice wod true 2a5", "x = d; x", "`{d}`", "[d, d, (]"]
        PROBE = ["if 1 { 2 }", "3d", "1|2", "func f(){1}; f()", "i=0; while i<2 { i=i+1 }; i", "2a5", "b2", "`{% if 1 {3} %}`", "5 & 3", "d"]
        seqs2 = []
        for _ in range(700 if tier == "thorough" else 200):
            flags = "".join(x for x in "SNB" if r.random() < 0.6)
            fam = r.choice(["", "w", "c", "wcfd"])
            parts = [p_ for p_ in [fam, ",".join(flags)] if p_]
            if r.random() < 0.7:
                parts.append("D" + hx(r.choice(DEXPR)))
            cfg = ",".join(parts) or "-"
            first = [r.choice(FIRST) for _ in range(r.randint(1, 3))]
            seqs2.append((cfg, first, r.choice(PROBE)))
        l1 = [f"runseq {cfg},L30000 {9:032x} " + " ".join(hx(x) for x in first) + f" {hx(probe)}" for cfg, first, probe in seqs2]
        l2 = [f"runseq {cfg},L30000 {9:032x} {hx(probe)}" for cfg, first, probe in seqs2]
        o1 = go_child(line_timeout=20).run(l1)
        o2 = go_child(line_timeout=20).run(l2)
        for (cfg, first, probe), a, b in zip(seqs2, o1, o2):
            run.evaluations += 1
            run.count("config-stability.cases")
            rep = {"cfg": cfg, "earlier_inputs": first, "probe": probe, "after": a[:500], "fresh": b[:400]}
            if " cfg=" not in a or " cfg=" not in b:
                run.count("config-stability.crashed")
                continue
            if a.rsplit(" cfg=", 1)[-1] != b.rsplit(" cfg=", 1)[-1]:
                run.violation("earlier-input-changed-vm-config", rep)
                continue
            pa, pb = a.split(" | "), b.split(" | ")
            fa, fb = pa[len(first)].split(), pb[0].split()
            # the probe's acceptance (and what it left unparsed) is decided by the switches alone; variables the earlier inputs set
            # can change its run-time outcome, so only ok/err of PARSING is compared: a parse error names a rule and a position
            def parse_rejected(t):
                return t.startswith("err ") and re.search(r"^err \S*3a", t) is not None
            ra, rb = re.search(r" r=(\S+)", pa[len(first)]), re.search(r" r=(\S+)", pb[0])
            if (fa[:1] == ["ok"]) != (fb[:1] == ["ok"]) and "面数" not in probe and not any(("面数" in x or "x =" in x) for x in first) and probe != "d":
                run.violation("earlier-input-changes-what-a-later-input-may-do", rep)
            elif ra and rb and ra.group(1) != rb.group(1):
                run.violation("earlier-input-changes-what-a-later-input-may-do", rep)
            else:
                run.nontriv(("cfgstab", cfg, tuple(first), probe))
        run.sample({"stream": "peg", "line": lines[0][:200], "out": g_out[0][:200]})
    return run.finish(
        trusted=["Lean 4.33 kernel (incl. kernel evaluation `decide +kernel` of the static check; no native_decide)", "axioms: propext, Classical.choice, Quot.sound",
                 "the translator harness/extract (grammar literal, action digests, opcode numbers) — validated by the peg stream's emission traces",
                 "Go harness + emission-trace hook + Lean driver",
                 "that the VM rolls a family only by executing that family's opcodes (rollvm.go dispatch), and that code reaches a VM only through Parse "
                 "or a stored function / computed value body (known finding C09-body-compiled-under-macro)"],
        rule="identifier / number mixes around a b c f p d (52 atoms x 17 separators), structural corpus, generated and mutated programs, 12% with an "
             "#EnableDice macro, x 12 family subsets x DisableStmts/NDice/BitwiseOp subsets; macro-locality sequences; configuration-stability "
             "sequences (1-3 earlier inputs incl. failing default-sides expressions, exhausted budgets, st lists, macros, then a probe) under "
             "DisableStmts/NDice/BitwiseOp x default-sides expressions",
        assumptions=["custom dice parsers are not registered (C17's subject)"])
