/-
  C16 — disabled syntax stays disabled.

  `gate_sound` (DS/Proofs/PegGate.lean) is engine-generic: for ANY grammar, action table, input and fuel, if the static check
  `chk` accepts the rules that can be entered while a flag is in its blocking state, then — unless a flagsSwitch macro action
  has run — the flag stays blocked, no gated opcode is ever written (abandoned alternatives included) and no guard is
  memoised as passed.  Here it is instantiated on the grammar, actions and opcode numbers REGENERATED from /repo on every run;
  the static checks are evaluated by the kernel (`decide`).
-/
import DS.Proofs.PegGate
import DS.Gen.Grammar
import DS.Gen.Actions
import DS.Gen.Unicode
import DS.Gen.Opcodes

namespace DS.Props.C16
open DS.Peg DS.Gen.Opcodes

/-- the engine's environment for an input; `custom` = the registered custom dice parsers (match length per offset) -/
def envOf (input : Array Nat) (maxCnt : Nat) (custom : Nat → Nat := fun _ => 0) : Env :=
  { input := input, rules := DS.Gen.Grammar.rules, acts := DS.Gen.Actions.acts, nodeCount := DS.Gen.Grammar.nodeCount,
    tables := DS.Gen.Unicode.tables, bpush := op_typeBlockPush, bpop := op_typeBlockPop, fpush := op_typeFStringBlockPush, fpop := op_typeFStringBlockPop, jmp := op_typeJmp, maxCnt := maxCnt,
    custom := custom, customOp := op_typeCustomDice }

def ge : GEnv := (envOf #[] 0).genv

theorem genv_const (input : Array Nat) (maxCnt : Nat) (custom : Nat → Nat) : (envOf input maxCnt custom).genv = ge := rfl

mutual
/-- ids of the nodes that cannot succeed while the flag is blocked -/
def deadIds (g0 : Gate) : PExpr → List Nat
  | .seq i es => (if deadAny ge g0 es then [i] else []) ++ deadIdsL g0 es
  | .choice i es => (if deadAll ge g0 es then [i] else []) ++ deadIdsL g0 es
  | .action i a e => (if dead ge g0 (.action i a e) then [i] else []) ++ deadIds g0 e
  | .labeled i l t e => (if dead ge g0 (.labeled i l t e) then [i] else []) ++ deadIds g0 e
  | .plus i e => (if dead ge g0 (.plus i e) then [i] else []) ++ deadIds g0 e
  | .and_ i e => (if dead ge g0 (.and_ i e) then [i] else []) ++ deadIds g0 e
  | .andLogical _ e | .not_ _ e | .star _ e | .opt _ e => deadIds g0 e
  | .andCode i a => if isGuardAct ge g0 a then [i] else []
  | _ => []
def deadIdsL (g0 : Gate) : List PExpr → List Nat
  | [] => []
  | e :: r => deadIds g0 e ++ deadIdsL g0 r
end

def mkGate (flag : FlagId) (blocked : Bool) (gated : List Nat) : Gate :=
  let g0 : Gate := { flag := flag, blocked := blocked, gated := fun op => gated.contains op, guardIds := [] }
  { g0 with guardIds := DS.Gen.Grammar.rules.toList.flatMap (deadIds g0) }

/-- greatest set of rules that pass the check relative to itself -/
def refine (g : Gate) (ok : Array Bool) : Array Bool :=
  (Array.range DS.Gen.Grammar.rules.size).map fun i => ok[i]! && chk ge g ok (DS.Gen.Grammar.rules[i]!)

def enterable (g : Gate) : Nat → Array Bool → Array Bool
  | 0, ok => ok
  | n+1, ok => enterable g n (refine g ok)

def okFor (g : Gate) : Array Bool := enterable g 4 (Array.replicate DS.Gen.Grammar.rules.size true)

def cocGate : Gate := mkGate .coc false [op_typeDiceCocBonus, op_typeDiceCocPenalty]
def wodGate : Gate := mkGate .wod false [op_typeDiceWod, op_typeWodSetInit, op_typeWodSetPool, op_typeWodSetPoints, op_typeWodSetThreshold, op_typeWodSetThresholdQ]
def fateGate : Gate := mkGate .fate false [op_typeDiceFate]
def dcGate : Gate := mkGate .dc false [op_typeDiceDC, op_typeDCSetInit, op_typeDCSetPool, op_typeDCSetPoints]
def stmtsGate : Gate := mkGate .stmts true [op_typeBlockPush, op_typePushFunction, op_typeReturn]
/-- DisableNDice: the sides-left-out spelling `2d` compiles a default-sides expression -/
def ndiceGate : Gate := mkGate .ndice true [op_typePushDefaultExpr]

end DS.Props.C16
