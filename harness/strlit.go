package main

import (
	ds "github.com/sealdice/dicescript"
)

var quoteOf = map[string]string{"1": "'", "2": "\"", "3": "`", "4": "\x1e"}

// strscan <q> <hexbody> : evaluates the literal q+body+q; "ok <hexvalue>" when it is consumed completely and yields a string
func strScanLine(t []string) string {
	if len(t) != 3 {
		return "bad-op"
	}
	q, ok := quoteOf[t[1]]
	body, ok2 := unhx(t[2])
	if !ok || !ok2 {
		return "bad-op"
	}
	vm, _ := newVM(ds.RollConfig{OpCountLimit: 30000}, "-")
	if err := vm.Run(q + body + q); err != nil {
		return "err"
	}
	if vm.RestInput == "" && vm.Ret != nil && vm.Ret.TypeId == ds.VMTypeString {
		return "ok " + hx(vm.Ret.Value.(string))
	}
	return "other " + canon(vm.Ret) + " r=" + hx(vm.RestInput)
}

func init() { handlers["strscan"] = strScanLine }
