import DS.Driver.Common
import DS.Model.VMap
namespace DS.Driver
open DS.VMap

def slotName : Option (Slot Nat) → String
  | some .nil => "nil"
  | some .expunged => "exp"
  | some (.val _) => "val"
  | none => "none"


def shape (s : St Nat) : String :=
  let rk := sortStrings ((s.dom.filter s.inRead).map fun k => DS.Hex.encode k ++ ":" ++ slotName (s.ent k))
  let d := if s.dirtyNil then "dirty=nil" else
    "dirty{" ++ ",".intercalate (sortStrings ((s.dom.filter s.inDirty).map fun k => DS.Hex.encode k ++ ":" ++ slotName (s.ent k))) ++ "}"
  "read{" ++ ",".intercalate rk ++ "} amended=" ++ (if s.amended then "true" else "false") ++ " " ++ d ++
    " misses=" ++ toString s.misses

/-- the stored nil pointer (a legal value of the map) is one more value for the model: token `nil`, shown `NIL` -/
def nilTok : Nat := 4294967295
def showV (v : Nat) : String := if v == nilTok then "NIL" else toString v

def retStr : Ret Nat → String
  | .unit => "-"
  | .val none => "none"
  | .val (some v) => s!"v={showV v}"
  | .los v l => s!"los={showV v},{l}"
  | .pairs l => "range[" ++ ",".intercalate (sortStrings (l.map fun (k, v) => DS.Hex.encode k ++ "=" ++ showV v)) ++ "]"
  | .len n => s!"len={n}"

def parseOp (t : String) : Option (Op Nat) :=
  match t.splitOn ":" with
  | ["L", k] => some (.load k)
  | ["S", k, v] => (if v == "nil" then some nilTok else v.toNat?).map (.store k)
  | ["O", k, v] => (if v == "nil" then some nilTok else v.toNat?).map (.loadOrStore k)
  | ["D", k] => some (.loadAndDelete k)
  | ["X", k] => some (.delete k)
  | ["C"] => some .clear
  | ["R"] => some .range
  | ["N"] => some .length
  | _ => none

def vmapLine (toks : List String) : String :=
  match toks with
  | "vmap" :: ops =>
    match ops.mapM parseOp with
    | none => "bad-op"
    | some ops =>
      let (outs, _) := ops.foldl (fun (acc : List String × St Nat) op =>
        let (r, s') := step acc.2 op
        (acc.1 ++ [retStr r ++ " @ " ++ shape s'], s')) ([], init)
      " ; ".intercalate outs
  | _ => "bad-op"

end DS.Driver
