/-
  Model of types_serialization.go + ValueMap.ToJSON/UnmarshalJSON at the level of JSON TREES
  (the byte level is encoding/json: trusted, exercised by the json stream).
  `decode` mirrors VMValue.UnmarshalJSON including what encoding/json does with missing fields, nulls,
  wrong-case keys, duplicate keys and type mismatches; its result may be ILL-TYPED (that is C10's subject).
-/
namespace DS.Json

inductive Num where
  | int (i : Int)          -- a literal without fraction/exponent
  | flt (f : Float)        -- any other number literal (value as encoding/json parses it)
  | fltOverflow            -- a literal outside float64 range (1e999): strconv reports an error

/-- the struct fields encoding/json matches object keys against (case-insensitively; the JSON text parser of
    the driver does that classification, so that the kernel never has to evaluate String.toLower) -/
inductive Field where
  | t | v | expr | name | params | list | dict | attrs
  deriving DecidableEq, Repr

structure Key where
  raw : String
  field : Option Field

inductive J where
  | null
  | bool (b : Bool)
  | num (n : Num)
  | str (s : String)
  | arr (l : List J)
  | obj (kv : List (Key × J))

/-- values as trees; `unknownTag` is the one ill-typed result decode can still produce -/
inductive V where
  | int (i : Int)
  | float (f : Float)
  | str (s : String)
  | null
  | arr (l : List V)
  | dict (kv : List (String × V))
  | func (expr name : String) (params : List String)
  | computed (expr : String) (attrs : Option (List (String × V)))
  | nativeFn (name : String)
  | nativeObj (name : String)
  | unknownTag (t : Int)        -- TypeId outside the known tags, Value = nil (an inert "a value")

def minInt64 : Int := -9223372036854775808
def maxInt64 : Int := 9223372036854775807

def builtinNames : List String :=
  ["ceil", "floor", "round", "abs", "toInt", "toFloat", "toStr", "toBool", "repr", "load", "loadRaw", "store", "dir", "typeId"]

/-- encoding/json field lookup: the LAST occurrence of a key that matches the field wins -/
def lookup (f : Field) : List (Key × J) → Option J
  | [] => none
  | (k, v) :: rest =>
    match lookup f rest with
    | some r => some r
    | none => if k.field == some f then some v else none

/-- decoding into an `int`-kinded Go field: absent/null leave the zero value -/
def asInt : Option J → Except Unit Int
  | none => .ok 0
  | some .null => .ok 0
  | some (.num (.int i)) => if minInt64 ≤ i ∧ i ≤ maxInt64 then .ok i else .error ()
  | some _ => .error ()

def asFloat : Option J → Except Unit Float
  | none => .ok 0.0
  | some .null => .ok 0.0
  | some (.num (.int i)) => .ok (Float.ofInt i)
  | some (.num (.flt f)) => .ok f
  | some _ => .error ()

def asString : Option J → Except Unit String
  | none => .ok ""
  | some .null => .ok ""
  | some (.str s) => .ok s
  | some _ => .error ()

/-- a struct-typed field: absent/null leave the zero struct (no fields) -/
def asObj : Option J → Except Unit (List (Key × J))
  | none => .ok []
  | some .null => .ok []
  | some (.obj kv) => .ok kv
  | some _ => .error ()

/-- []string elements: null leaves "" -/
def asStrings : List J → Except Unit (List String)
  | [] => .ok []
  | j :: rest =>
    match asString (some j), asStrings rest with
    | .ok s, .ok r => .ok (s :: r)
    | _, _ => .error ()

/-- []string -/
def asStringList : Option J → Except Unit (List String)
  | none => .ok []
  | some .null => .ok []
  | some (.arr l) => asStrings l
  | some _ => .error ()

/-- insertion into a Go map: a repeated key overwrites -/
def mapInsert {β} (m : List (String × β)) (k : String) (v : β) : List (String × β) :=
  if m.any (fun p => p.1 == k) then m.map (fun p => if p.1 == k then (k, v) else p) else m ++ [(k, v)]

/-! per-tag payload decoders; `dl` / `dm` are the recursive list / map decoders one level down -/

def decComputed (dm : J → Except Unit (List (String × V))) (v : Option J) : Except Unit V :=
  match asObj v with
  | .error _ => .error ()
  | .ok o =>
    match asString (lookup .expr o) with
    | .error _ => .error ()
    | .ok e =>
      match lookup .attrs o with
      | none => .ok (.computed e none)
      | some a =>
        match dm a with
        | .error _ => .error ()
        | .ok m => .ok (.computed e (some m))

def decArray (dl : List J → Except Unit (List V)) (v : Option J) : Except Unit V :=
  match asObj v with
  | .error _ => .error ()
  | .ok o =>
    match lookup .list o with
    | none => .ok (.arr [])
    | some .null => .ok (.arr [])
    | some (.arr l) =>
      match dl l with
      | .error _ => .error ()
      | .ok vs => .ok (.arr vs)
    | some _ => .error ()

def decDict (dm : J → Except Unit (List (String × V))) (v : Option J) : Except Unit V :=
  match asObj v with
  | .error _ => .error ()
  | .ok o =>
    match lookup .dict o with
    | none => .ok (.dict [])
    | some d =>
      match dm d with
      | .error _ => .error ()
      | .ok m => .ok (.dict m)

def decFunc (v : Option J) : Except Unit V :=
  match asObj v with
  | .error _ => .error ()
  | .ok o =>
    match asString (lookup .expr o), asString (lookup .name o), asStringList (lookup .params o) with
    | .ok e, .ok n, .ok ps => .ok (.func e n ps)
    | _, _, _ => .error ()

def decNativeFn (v : Option J) : Except Unit V :=
  match asObj v with
  | .error _ => .error ()
  | .ok o =>
    match asString (lookup .name o) with
    | .error _ => .error ()
    | .ok n => if builtinNames.contains n then .ok (.nativeFn n) else .error ()   -- unknown native function name

def decNativeObj (v : Option J) : Except Unit V :=
  match asObj v with
  | .error _ => .error ()
  | .ok o =>
    match asString (lookup .name o) with
    | .error _ => .error ()
    | .ok n => .ok (.nativeObj n)

/-- the switch on the type tag -/
def decodeByTag (dl : List J → Except Unit (List V)) (dm : J → Except Unit (List (String × V)))
    (t : Int) (v : Option J) : Except Unit V :=
  if t == 0 then (match asInt v with | .ok i => .ok (.int i) | .error _ => .error ())
  else if t == 1 then (match asFloat v with | .ok f => .ok (.float f) | .error _ => .error ())
  else if t == 2 then (match asString v with | .ok s => .ok (.str s) | .error _ => .error ())
  else if t == 4 then .ok .null
  else if t == 5 then decComputed dm v
  else if t == 6 then decArray dl v
  else if t == 7 then decDict dm v
  else if t == 8 then decFunc v
  else if t == 9 then decNativeFn v
  else if t == 10 then decNativeObj v
  else .ok (.unknownTag t)

mutual
  /-- VMValue.UnmarshalJSON on a JSON tree; `fuel` bounds the nesting depth (one unit per level) -/
  def decode : Nat → J → Except Unit V
    | 0, _ => .error ()
    | _+1, .null => .ok (.int 0)                 -- top level `null`: TypeId stays 0, Value becomes IntType(0)
    | fuel+1, .obj kv =>
      match asInt (lookup .t kv) with
      | .error _ => .error ()
      | .ok t => decodeByTag (decodeList fuel) (decodeMap fuel) t (lookup .v kv)
    | _+1, _ => .error ()

  /-- []*VMValue: a null element would be a nil pointer — rejected -/
  def decodeList : Nat → List J → Except Unit (List V)
    | _, [] => .ok []
    | fuel, j :: rest =>
      match j with
      | .null => .error ()
      | j =>
        match decode fuel j, decodeList fuel rest with
        | .ok v, .ok r => .ok (v :: r)
        | _, _ => .error ()

  /-- map[string]*VMValue (ValueMap.UnmarshalJSON): null → empty map, object → entries, null values rejected -/
  def decodeMap : Nat → J → Except Unit (List (String × V))
    | _, .null => .ok []
    | fuel, .obj kv => decodeEntries fuel kv
    | _, _ => .error ()

  def decodeEntries : Nat → List (Key × J) → Except Unit (List (String × V))
    | _, [] => .ok []
    | fuel, (k, j) :: rest =>
      match j with
      | .null => .error ()
      | j =>
        match decode fuel j, decodeEntries fuel rest with
        | .ok v, .ok r => .ok ((k.raw, v) :: r)
        | _, _ => .error ()
end

/-- Go map semantics for duplicate keys: the last value wins (position of the first occurrence) -/
def dedupe (m : List (String × V)) : List (String × V) := m.foldl (fun acc p => mapInsert acc p.1 p.2) []

def fkey (f : Field) (raw : String) : Key := { raw := raw, field := some f }
def ukey (raw : String) : Key := { raw := raw, field := none }   -- a user (dict) key: only `raw` is ever read

def tagObj (t : Int) (v : Option J) : J :=
  match v with
  | some v => .obj [(fkey .t "t", .num (.int t)), (fkey .v "v", v)]
  | none => .obj [(fkey .t "t", .num (.int t))]

def isFinite (f : Float) : Bool := !f.isNaN && !f.isInf

mutual
  /-- VMValue.ToJSONRaw on tree values (cycle detection lives in the graph model) -/
  def encode : V → Except String J
    | .int i => .ok (tagObj 0 (some (.num (.int i))))
    | .float f => if isFinite f then .ok (tagObj 1 (some (.num (.flt f)))) else .error "unsupported value"
    | .str s => .ok (tagObj 2 (some (.str s)))
    | .null => .ok (tagObj 4 none)
    | .arr l =>
      match encodeList l with
      | .ok js => .ok (tagObj 6 (some (.obj [(fkey .list "list", .arr js)])))
      | .error e => .error e
    | .dict kv =>
      match encodeEntries kv with
      | .ok es => .ok (tagObj 7 (some (.obj [(fkey .dict "dict", .obj es)])))
      | .error e => .error e
    | .func e n ps =>
      .ok (tagObj 8 (some (.obj [(fkey .expr "expr", .str e), (fkey .name "name", .str n), (fkey .params "params", .arr (ps.map .str))])))
    | .computed e none => .ok (tagObj 5 (some (.obj [(fkey .expr "expr", .str e)])))
    | .computed e (some m) =>
      match encodeEntries m with
      | .ok es => .ok (tagObj 5 (some (.obj [(fkey .expr "expr", .str e), (fkey .attrs "attrs", .obj es)])))
      | .error e => .error e
    | .nativeFn n => .ok (tagObj 9 (some (.obj [(fkey .name "name", .str n)])))
    | .nativeObj n => .ok (tagObj 10 (some (.obj [(fkey .name "name", .str n)])))
    | .unknownTag _ => .error "empty"

  def encodeList : List V → Except String (List J)
    | [] => .ok []
    | v :: rest =>
      match encode v, encodeList rest with
      | .ok j, .ok r => .ok (j :: r)
      | .error e, _ => .error e
      | _, .error e => .error e

  def encodeEntries : List (String × V) → Except String (List (Key × J))
    | [] => .ok []
    | (k, v) :: rest =>
      match encode v, encodeEntries rest with
      | .ok j, .ok r => .ok ((ukey k, j) :: r)
      | .error e, _ => .error e
      | _, .error e => .error e
end

end DS.Json
