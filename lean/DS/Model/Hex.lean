/- hex transport of byte strings for the line protocol -/
namespace DS.Hex

def hexDigit (n : Nat) : Char :=
  if n < 10 then Char.ofNat (48 + n) else Char.ofNat (87 + n)

def encodeBytes (bs : List UInt8) : String :=
  if bs.isEmpty then "-" else
  String.ofList (bs.flatMap fun b => [hexDigit (b.toNat / 16), hexDigit (b.toNat % 16)])

def encode (s : String) : String := encodeBytes s.toUTF8.toList

def digitVal (c : Char) : Option Nat :=
  if '0' ≤ c ∧ c ≤ '9' then some (c.toNat - 48)
  else if 'a' ≤ c ∧ c ≤ 'f' then some (c.toNat - 87)
  else if 'A' ≤ c ∧ c ≤ 'F' then some (c.toNat - 55)
  else none

def decodeList : List Char → Option (List UInt8)
  | [] => some []
  | [_] => none
  | a :: b :: rest => do
    let x ← digitVal a
    let y ← digitVal b
    let r ← decodeList rest
    pure (UInt8.ofNat (x * 16 + y) :: r)

def decodeBytes (s : String) : Option (List UInt8) :=
  if s == "-" then some [] else decodeList s.toList

def decode (s : String) : Option String := do
  let bs ← decodeBytes s
  String.fromUTF8? (ByteArray.mk bs.toArray)

end DS.Hex
