/-
  C19 — syntax errors point at the right place in the chosen language.  Property theorems only.
  The engine can only ever hold positions produced by `read` (savepoints, memo entries and maxFailPos are
  copies of p.pt), so statements about `readN input k` for all k cover every reportable position.
-/
import DS.Proofs.ErrFmtLemmas

namespace DS.Props.C19
open DS.ErrFmt DS.Proofs.ErrL

/-- the reported byte offset lies within the input (and so does the end of the current rune) -/
theorem pos_within (input : List Nat) (k : Nat) :
    (readN input k).offset ≤ input.length ∧ (readN input k).offset + (readN input k).w ≤ input.length := by
  have := (readInv input k).bound
  omega

/-- the offset is a rune boundary: the bytes from the offset on are what is left after the first k−1 runes -/
theorem pos_offset_is_rune_boundary (input : List Nat) (k : Nat) (hk : 0 < k) :
    input.drop (readN input k).offset = dropRunes (k - 1) input ∧
    (readN input k).rn = (decodeRune (dropRunes (k - 1) input)).1 := by
  obtain ⟨h1, h2⟩ := (readInv input k).cur hk
  exact ⟨h2, h1⟩

theorem sinceNewline_no_nl : ∀ (rs : List Nat), rs.contains 10 = false → sinceNewline rs = rs.length := by
  intro rs
  induction rs with
  | nil => intro _; rfl
  | cons r rs ih =>
    intro h
    simp only [List.contains_cons, Bool.or_eq_false_iff] at h
    have hr : (r == 10) = false := by
      have := h.1
      simp only [beq_eq_false_iff_ne, ne_eq] at this ⊢
      omega
    simp only [sinceNewline, h.2, hr, Bool.false_eq_true, if_false, List.length_cons]

/-- line and column in closed form: what the engine holds after k reads, by whether the current rune is a newline -/
theorem pos_closed_form (input : List Nat) (k : Nat) (hk : 0 < k) :
    ((readN input k).rn ≠ 10 →
      ((readN input k).line, (readN input k).col) = lineColSpec (runes (k - 1) input)) ∧
    ((readN input k).rn = 10 →
      ((readN input k).line, (readN input k).col) = ((lineColSpec (runes (k - 1) input)).1 + 1, 0)) := by
  cases k with
  | zero => omega
  | succ j =>
    simp only [Nat.add_sub_cancel]
    have hlc := (readInv input (j + 1)).lc
    obtain ⟨hrn, _⟩ := (readInv input (j + 1)).cur (by omega)
    simp only [Nat.add_sub_cancel] at hrn
    rw [runes_succ_back, List.foldl_append] at hlc
    simp only [List.foldl_cons, List.foldl_nil] at hlc
    rw [foldl_lcStep, ← hrn] at hlc
    constructor
    · intro hne
      have hb : ((readN input (j + 1)).rn == 10) = false := by simp [hne]
      rw [hlc]
      simp only [lcStep, hb, Bool.false_eq_true, if_false, lineColSpec]
      refine Prod.ext rfl ?_
      simp only
      cases hc : (runes j input).contains 10 with
      | true => simp; omega
      | false => simp [sinceNewline_no_nl _ hc]; omega
    · intro he
      have hb : ((readN input (j + 1)).rn == 10) = true := by simp [he]
      rw [hlc]
      simp only [lcStep, hb, if_true, lineColSpec]

/-- C19, position clause: whenever the rune at the reported offset is not a newline, the reported line and
    column ARE the line and column of that offset (1 + newlines before it, 1 + runes since the last newline) -/
theorem pos_consistent (input : List Nat) (k : Nat) (hk : 0 < k) (hn : (readN input k).rn ≠ 10) :
    ((readN input k).line, (readN input k).col) = lineColSpec (runes (k - 1) input) :=
  (pos_closed_form input k hk).1 hn

/-- the full statement, kept visible: line/column of every reportable position are those of its offset -/
def pos_consistent_full : Prop :=
  ∀ (input : List Nat) (k : Nat), 0 < k →
    ((readN input k).line, (readN input k).col) = lineColSpec (runes (k - 1) input)

/-- KNOWN FINDING witness: in `(1.\n)` the position of the newline rune (offset 3) is reported as 2:0,
    while offset 3 is line 1, column 4 -/
theorem KF_newline_position_witness : ¬ pos_consistent_full := by
  intro h
  have := h [40, 49, 46, 10, 41] 4 (by decide)
  revert this
  decide

/-! ### what fmtErr prints -/

/-- the context block: the quoted line, then a caret preceded by exactly col−1 blanks -/
def ctxBlock (input : List Nat) (line col : Nat) : List Nat :=
  if input.length > 0 then
    utf8 "  |\n  |  " ++ getLineAt input line ++ utf8 "\n  |  " ++ List.replicate (col - 1) 32 ++ utf8 "^\n  |\n"
  else []

def posText (line col : Nat) : List Nat := natStr line ++ utf8 ":" ++ natStr col ++ utf8 " - "

/-- Chinese setting: header, position line and message are the Chinese ones only -/
theorem fmtErr_chinese_only (line col : Nat) (input : List Nat) (m : Msg) (ch : Nat) :
    fmtErr 1 line col input m ch =
      utf8 "语法错误\n" ++ ctxBlock input line col ++ (utf8 "  位置 " ++ posText line col ++ render (msgCN m) ch) := by
  simp [fmtErr, ctxBlock, posText]

/-- English setting: header, position line and message are the English ones only -/
theorem fmtErr_english_only (line col : Nat) (input : List Nat) (m : Msg) (ch : Nat) :
    fmtErr 2 line col input m ch =
      utf8 "Syntax Error\n" ++ ctxBlock input line col ++ (utf8 "  Pos " ++ posText line col ++ render (msgEN m) ch) := by
  simp [fmtErr, ctxBlock, posText]

/-- bilingual setting (0 and every other value): both, Chinese first -/
theorem fmtErr_bilingual (lang line col : Nat) (hl : lang ≠ 1) (hl' : lang ≠ 2) (input : List Nat) (m : Msg) (ch : Nat) :
    fmtErr lang line col input m ch =
      utf8 "语法错误 Syntax Error\n" ++ ctxBlock input line col ++
        (utf8 "  位置 " ++ posText line col ++ render (msgCN m) ch ++ utf8 "\n  Pos " ++ posText line col ++ render (msgEN m) ch) := by
  have h1 : (lang == 1) = false := by simp [hl]
  have h2 : (lang == 2) = false := by simp [hl']
  simp [fmtErr, ctxBlock, posText, h1, h2]

/-- there is one more line than there are newline bytes -/
theorem splitLines_length : ∀ (bs : List Nat), (splitLines bs).length = 1 + bs.count 10 := by
  intro bs
  induction bs with
  | nil => simp [splitLines]
  | cons b bs ih =>
    by_cases hb : b = 10
    · subst hb
      simp [splitLines, ih]; omega
    · have hb' : (b == 10) = false := by simp [hb]
      have hc : List.count 10 (b :: bs) = List.count 10 bs := by rw [List.count_cons]; simp [hb]
      simp only [splitLines, hb', Bool.false_eq_true, if_false, hc]
      cases hs : splitLines bs with
      | nil => rw [hs] at ih; simp at ih; omega
      | cons l ls => rw [hs] at ih; simpa using ih

/-- no quoted line contains a newline -/
theorem splitLines_no_newline : ∀ (bs : List Nat), ∀ l ∈ splitLines bs, 10 ∉ l := by
  intro bs
  induction bs with
  | nil => intro l hl; simp [splitLines] at hl; subst hl; simp
  | cons b bs ih =>
    intro l hl
    by_cases hb : b = 10
    · subst hb
      simp only [splitLines, beq_self_eq_true, if_true, List.mem_cons] at hl
      rcases hl with rfl | hl
      · simp
      · exact ih l hl
    · have hb' : (b == 10) = false := by simp [hb]
      simp only [splitLines, hb', Bool.false_eq_true, if_false] at hl
      cases hs : splitLines bs with
      | nil => rw [hs] at hl; simp at hl; subst hl; simp; omega
      | cons l0 ls =>
        rw [hs] at hl ih
        simp only [List.mem_cons] at hl
        rcases hl with rfl | hl
        · intro hm
          simp only [List.mem_cons] at hm
          rcases hm with h | h
          · omega
          · exact ih l0 (by simp) h
        · exact ih l (by simp [hl])

/-- the quoted line is the `line`-th newline-separated segment, verbatim, when it fits in 60 bytes -/
theorem quoted_line_is_the_line (input : List Nat) (line : Nat) (h1 : 0 < line) (h2 : line ≤ (splitLines input).length)
    (h3 : ((splitLines input).getD (line - 1) []).length ≤ 60) :
    getLineAt input line = (splitLines input).getD (line - 1) [] := by
  unfold getLineAt
  simp only [h1, h2, and_self, if_true]
  unfold truncate60
  have : ¬ ((splitLines input).getD (line - 1) []).length > 60 := by omega
  rw [if_neg this]

/- non-vacuity: `(1 + ` fails at its end: offset 5, line 1, column 6 -/
example : (readN [40, 49, 32, 43, 32] 6).offset = 5 ∧ (readN [40, 49, 32, 43, 32] 6).line = 1 ∧
    (readN [40, 49, 32, 43, 32] 6).col = 6 ∧ (readN [40, 49, 32, 43, 32] 6).rn ≠ 10 := by decide
example : lineColSpec (runes 5 [40, 49, 32, 43, 32]) = (1, 6) := by decide

end DS.Props.C19
