/-
  Operator layer of the VM (types.go: OpAdd … OpBitwiseOr, OpPositive/OpNegation, index/slice/length helpers).
  Outcomes: `.ok v`, `.err msg` (ctx.Error), `.panic site` (a Go panic), `.unsup why` (behaviour the model does not
  define: the streams skip such cases), `.diverge` (fuel exhausted).
-/
import DS.Model.Value

namespace DS.VM
open DS.Roll (wrap64 maxInt64)

inductive Res (α : Type) where
  | ok (a : α)
  | err (msg : String)
  | panic (site : String)
  | unsup (why : String)
  | diverge
  deriving Inhabited

def Res.isPanic {α} : Res α → Bool
  | .panic _ => true
  | _ => false

def minInt64 : Int := -9223372036854775808

/-- Go's `IntType(f)` on amd64 (CVTTSD2SI): out-of-range and NaN give MinInt64 -/
def floatToInt (f : Float) : Int :=
  if f.isNaN || f ≥ 9223372036854775808.0 || f < -9223372036854775808.0 then minInt64
  else
    let t := if f < 0 then f.ceil else f.floor
    if t < 0 then -((-t).toUInt64.toNat : Int) else (t.toUInt64.toNat : Int)

def binName : BinOp → String
  | .add => "add" | .sub => "sub" | .mul => "mul" | .div => "div" | .mod => "mod" | .pow => "pow"
  | .nullCoalescing => "nullCoalescing" | .lt => "comp.lt" | .le => "comp.le" | .eq => "comp.eq" | .ne => "comp.ne"
  | .ge => "comp.ge" | .gt => "comp.gt" | .bitAnd => "&" | .bitOr => "|"

def b2v (b : Bool) : Val := .int (if b then 1 else 0)

def typeErr (op : BinOp) (a b : Val) : String :=
  "这两种类型无法使用 " ++ binName op ++ " 算符连接: " ++ typeName a ++ ", " ++ typeName b

/-- ArrayRepeatTimesEx -/
def arrayRepeat (h : Heap) (a : Nat) (times : Int) : Heap × Res Val :=
  let l := h.arrOf a
  if times < 0 then (h, .err "数组重复次数不能为负数")
  else if l.length > 0 && times > 512 then (h, .err "不能一次性创建过长的数组")
  else
  let length := wrap64 ((l.length : Int) * times)
  if length > 512 then (h, .err "不能一次性创建过长的数组")
  else
    let n := length.toNat
    let out := (List.range n).map (fun i => l.getD (i % l.length) .null)
    let (h', addr) := h.alloc (.arr out)
    (h', .ok (.arr addr))

/-- comparison helper for int/float mixes -/
def numCmp (op : BinOp) (a b : Val) : Option Bool :=
  let cmpF (x y : Float) : Bool :=
    match op with | .lt => x < y | .le => x ≤ y | .ge => x ≥ y | .gt => x > y | _ => false
  let cmpI (x y : Int) : Bool :=
    match op with | .lt => x < y | .le => x ≤ y | .ge => x ≥ y | .gt => x > y | _ => false
  match a, b with
  | .int x, .int y => some (cmpI x y)
  | .int x, .float y => some (cmpF (Float.ofInt x) y)
  | .float x, .int y => some (cmpF x (Float.ofInt y))
  | .float x, .float y => some (cmpF x y)
  | _, _ => none

/-- cap (bytes) on strings built by concatenation / templates -/
def maxStringLength : Nat := 1048576

/-- one binary operator: (heap', result) -/
def binOp (h : Heap) (ignoreDiv0 : Bool) (op : BinOp) (a b : Val) : Heap × Res Val :=
  let te : Heap × Res Val := (h, .err (typeErr op a b))
  match op with
  | .add =>
    match a, b with
    | .int x, .int y => (h, .ok (.int (wrap64 (x + y))))
    | .int x, .float y => (h, .ok (.float (Float.ofInt x + y)))
    | .float x, .int y => (h, .ok (.float (x + Float.ofInt y)))
    | .float x, .float y => (h, .ok (.float (x + y)))
    | .str x, .str y =>
      if x.utf8ByteSize + y.utf8ByteSize > maxStringLength then (h, .err "不能一次性创建过长的字符串") else (h, .ok (.str (x ++ y)))
    | .arr x, .arr y =>
      let l := h.arrOf x ++ h.arrOf y
      if l.length > 512 then (h, .err "不能一次性创建过长的数组")
      else let (h', addr) := h.alloc (.arr l); (h', .ok (.arr addr))
    | _, _ => te
  | .sub =>
    match a, b with
    | .int x, .int y => (h, .ok (.int (wrap64 (x - y))))
    | .int x, .float y => (h, .ok (.float (Float.ofInt x - y)))
    | .float x, .int y => (h, .ok (.float (x - Float.ofInt y)))
    | .float x, .float y => (h, .ok (.float (x - y)))
    | _, _ => te
  | .mul =>
    match a, b with
    | .int x, .int y => (h, .ok (.int (wrap64 (x * y))))
    | .int x, .float y => (h, .ok (.float (Float.ofInt x * y)))
    | .int x, .arr y => arrayRepeat h y x
    | .float x, .int y => (h, .ok (.float (x * Float.ofInt y)))
    | .float x, .float y => (h, .ok (.float (x * y)))
    | .arr x, .int y => arrayRepeat h x y
    | _, _ => te
  | .div =>
    let dz : Heap × Res Val := if ignoreDiv0 then (h, .ok a) else (h, .err "被除数为0")
    match a, b with
    | .int x, .int y => if y == 0 then dz else (h, .ok (.int (wrap64 (Int.tdiv x y))))
    | .int x, .float y => if y == 0.0 then dz else (h, .ok (.float (Float.ofInt x / y)))
    | .float x, .int y => if y == 0 then dz else (h, .ok (.float (x / Float.ofInt y)))
    | .float x, .float y => if y == 0.0 then dz else (h, .ok (.float (x / y)))
    | _, _ => te
  | .mod =>
    match a, b with
    | .int x, .int y => if y == 0 then (h, .err "被除数被0") else (h, .ok (.int (Int.tmod x y)))
    | _, _ => te
  | .pow =>
    match a, b with
    | .int x, .int y => (h, .ok (.int (floatToInt (Float.pow (Float.ofInt x) (Float.ofInt y)))))
    | .int x, .float y => (h, .ok (.float (Float.pow (Float.ofInt x) y)))
    | .float x, .int y => (h, .ok (.float (Float.pow x (Float.ofInt y))))
    | .float x, .float y => (h, .ok (.float (Float.pow x y)))
    | _, _ => te
  | .nullCoalescing => (match a with | .null => (h, .ok b) | _ => (h, .ok a))
  | .lt | .le | .ge | .gt =>
    (match numCmp op a b with
     | some r => (h, .ok (b2v r))
     | none => te)
  | .eq => (h, .ok (b2v (valEq h 64 a b)))
  | .ne => (h, .ok (b2v (!(valEq h 64 a b))))
  | .bitAnd => (match a, b with | .int x, .int y => (h, .ok (.int (wrap64 ((DS.Roll.toU64 x &&& DS.Roll.toU64 y : Nat) : Int)))) | _, _ => te)
  | .bitOr => (match a, b with | .int x, .int y => (h, .ok (.int (wrap64 ((DS.Roll.toU64 x ||| DS.Roll.toU64 y : Nat) : Int)))) | _, _ => te)

def opNeg : Val → Option Val
  | .int i => some (.int (wrap64 (-i)))
  | .float f => some (.float (-f))
  | _ => none

def opPos : Val → Option Val
  | .int i => some (.int i)
  | .float f => some (.float f)
  | _ => none

/-- AsDictKey -/
def asDictKey (h : Heap) (v : Val) : Except String String :=
  match v with
  | .str _ | .int _ | .float _ => .ok (valToString h v)
  | _ => .error ("类型错误: 字典键只能为字符串或数字，不支持 " ++ typeName v)

def getRealIndex (index length : Int) : Except String Int :=
  let index := if index < 0 then wrap64 (length + index) else index
  if index ≥ length || index < 0 then .error "无法获取此下标" else .ok index

def getClampRealIndex (index length : Int) : Int :=
  let index := if index < 0 then wrap64 (length + index) else index
  let index := if index < 0 then 0 else index
  if index > length then length else index

def strRunes (s : String) : List Char := s.toList

/-- v.Length(ctx) -/
def valLength (h : Heap) : Val → Except String Int
  | .arr a => .ok (h.arrOf a).length
  | .dict a => .ok (h.dictOf a).length
  | .str s => .ok (strRunes s).length
  | _ => .error "这个类型无法取得长度"

end DS.VM
