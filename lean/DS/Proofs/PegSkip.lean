/-
  Look-ahead is pure: in skip-code mode the engine changes nothing of ParserData (flags, flags stack, loop bookkeeping,
  emitted code).  Engine-generic; the static side condition (`skipOK`: code predicates have no effect other than recording an
  error, no code block is marked notSkip) is evaluated on the regenerated grammar in Props/C03.
-/
import DS.Model.Peg

namespace DS.Peg

def isAddErr : Eff → Bool
  | .addErr => true
  | _ => false

mutual
def skipOK (acts : Array Act) (nrules : Nat) : PExpr → Bool
  | .seq _ es | .choice _ es => skipOKL acts nrules es
  | .action _ _ e | .and_ _ e | .andLogical _ e | .not_ _ e | .star _ e | .plus _ e | .opt _ e | .labeled _ _ _ e => skipOK acts nrules e
  | .code _ _ notSkip => !notSkip
  | .andCode _ a => ((acts[a]!).effs).all isAddErr
  | .ref _ idx => decide (idx < nrules)
  | _ => true
def skipOKL (acts : Array Act) (nrules : Nat) : List PExpr → Bool
  | [] => true
  | e :: r => skipOK acts nrules e && skipOKL acts nrules r
end

/-- the ParserData part of the state (everything but text position, memo tables, counters, error flag, labels) -/
structure Same (s s' : PState) : Prop where
  cfg : s'.cfg = s.cfg
  stack : s'.flagsStack = s.flagsStack
  loopLayer : s'.loopLayer = s.loopLayer
  opens : s'.opens = s.opens
  loopInfo : s'.loopInfo = s.loopInfo
  trace : s'.trace = s.trace
  switched : s'.switched = s.switched
  skip : s'.skip = s.skip

theorem Same.rfl' (s : PState) : Same s s := ⟨rfl, rfl, rfl, rfl, rfl, rfl, rfl, rfl⟩

theorem Same.trans {a b c : PState} (h1 : Same a b) (h2 : Same b c) : Same a c :=
  ⟨h2.cfg.trans h1.cfg, h2.stack.trans h1.stack, h2.loopLayer.trans h1.loopLayer, h2.opens.trans h1.opens,
   h2.loopInfo.trans h1.loopInfo, h2.trace.trans h1.trace, h2.switched.trans h1.switched, h2.skip.trans h1.skip⟩

theorem addErr_same (env : Env) : ∀ (l : List Eff) (s : PState), l.all isAddErr = true → Same s (l.foldl (runEff env) s)
  | [], s, _ => Same.rfl' s
  | e :: r, s, h => by
    simp only [List.all_cons, Bool.and_eq_true] at h
    cases e <;> simp only [isAddErr] at h <;> try (cases h.1)
    have h1 : Same s (runEff env s .addErr) := ⟨rfl, rfl, rfl, rfl, rfl, rfl, rfl, rfl⟩
    exact Same.trans h1 (addErr_same env r (runEff env s .addErr) h.2)

theorem advance_same (env : Env) (s : PState) : Same s (advance env s) := by
  simp only [advance]; split <;> exact ⟨rfl, rfl, rfl, rfl, rfl, rfl, rfl, rfl⟩

theorem matchLit_same (env : Env) (ic : Bool) (p0 : Nat) : ∀ (l : List Nat) (s : PState), Same s (matchLit env ic p0 l s).1
  | [], s => Same.rfl' s
  | w :: r, s => by
    simp only [matchLit]
    split
    · exact ⟨rfl, rfl, rfl, rfl, rfl, rfl, rfl, rfl⟩
    · exact Same.trans (advance_same env s) (matchLit_same env ic p0 r _)

theorem advanceTo_same (env : Env) (t : Nat) : ∀ (fuel : Nat) (s : PState), Same s (advanceTo env t fuel s)
  | 0, s => Same.rfl' s
  | n+1, s => by
    simp only [advanceTo]
    split
    · exact Same.trans (advance_same env s) (advanceTo_same env t n _)
    · exact Same.rfl' s

theorem prepareCustom_same (env : Env) (s : PState) : Same s (prepareCustom env s).1 := by
  simp only [prepareCustom]
  split
  · exact ⟨rfl, rfl, rfl, rfl, rfl, rfl, rfl, rfl⟩
  · split
    · have h1 : Same s { s with pending := some (s.pos, env.custom s.pos) } := ⟨rfl, rfl, rfl, rfl, rfl, rfl, rfl, rfl⟩
      exact Same.trans h1 (advanceTo_same env _ _ _)
    · exact ⟨rfl, rfl, rfl, rfl, rfl, rfl, rfl, rfl⟩

def Pure (f : PState → PState × Bool) : Prop := ∀ s, s.skip > 0 → Same s (f s).1

theorem skip_pure (env : Env) (hrules : ∀ i, i < env.rules.size → skipOK env.acts env.rules.size (env.rules[i]!) = true) : ∀ fuel,
    (∀ e, skipOK env.acts env.rules.size e = true → Pure (parseExpr env fuel e)) ∧
    (∀ e, skipOK env.acts env.rules.size e = true → Pure (parseNode env fuel e)) ∧
    (∀ es p0, skipOKL env.acts env.rules.size es = true → Pure (fun s => parseSeq env fuel es s p0)) ∧
    (∀ es, skipOKL env.acts env.rules.size es = true → Pure (parseChoice env fuel es)) ∧
    (∀ e, skipOK env.acts env.rules.size e = true → Pure (parseStar env fuel e)) := by
  intro fuel
  induction fuel with
  | zero =>
    refine ⟨?_, ?_, ?_, ?_, ?_⟩ <;> intros <;> intro s _ <;> simp only [parseExpr, parseNode, parseSeq, parseChoice, parseStar] <;>
      exact ⟨rfl, rfl, rfl, rfl, rfl, rfl, rfl, rfl⟩
  | succ n ih =>
    obtain ⟨ihE, ihN, ihS, ihC, ihT⟩ := ih
    refine ⟨?_, ?_, ?_, ?_, ?_⟩
    · intro e hc s hs
      simp only [parseExpr]
      split
      · exact ⟨rfl, rfl, rfl, rfl, rfl, rfl, rfl, rfl⟩
      · split
        · exact ⟨rfl, rfl, rfl, rfl, rfl, rfl, rfl, rfl⟩
        · have h1 : Same s { s with cnt := s.cnt + 1 } := ⟨rfl, rfl, rfl, rfl, rfl, rfl, rfl, rfl⟩
          have := ihN e hc { s with cnt := s.cnt + 1 } hs
          split
          · exact Same.trans (Same.trans h1 this) ⟨rfl, rfl, rfl, rfl, rfl, rfl, rfl, rfl⟩
          · exact Same.trans (Same.trans h1 this) ⟨rfl, rfl, rfl, rfl, rfl, rfl, rfl, rfl⟩
    · intro e hc s hs
      cases e with
      | seq i es =>
        simp only [skipOK] at hc
        simp only [parseNode]
        have := ihS es s.pos hc s hs
        split
        · exact Same.trans this ⟨rfl, rfl, rfl, rfl, rfl, rfl, rfl, rfl⟩
        · exact this
      | choice i es => simp only [skipOK] at hc; simp only [parseNode]; exact ihC es hc s hs
      | action i a e' =>
        simp only [skipOK] at hc
        simp only [parseNode]
        split
        · exact ihE e' hc s hs
        · omega
      | code i a ns =>
        simp only [skipOK, Bool.not_eq_true'] at hc
        simp only [parseNode]
        split
        · exact Same.rfl' s
        · rename_i hcond
          simp only [hc, Bool.not_false, Bool.true_and, decide_eq_true_eq] at hcond
          omega
      | andCode i a =>
        simp only [skipOK] at hc
        simp only [parseNode, evalPred]
        have := addErr_same env _ s hc
        split
        · exact this
        · exact this
        · exact Same.trans this (prepareCustom_same env _)
        · exact this
        · exact Same.trans this ⟨rfl, rfl, rfl, rfl, rfl, rfl, rfl, rfl⟩
        · exact Same.trans this ⟨rfl, rfl, rfl, rfl, rfl, rfl, rfl, rfl⟩
      | and_ i e' =>
        simp only [skipOK] at hc
        simp only [parseNode]
        have := ihE e' hc { s with skip := s.skip + 1 } (by simp only; omega)
        exact ⟨this.cfg, this.stack, this.loopLayer, this.opens, this.loopInfo, this.trace, this.switched, by simp only; rw [this.skip]; simp⟩
      | andLogical i e' =>
        simp only [skipOK] at hc
        simp only [parseNode]
        have := ihE e' hc { s with skip := s.skip + 1 } (by simp only; omega)
        exact ⟨this.cfg, this.stack, this.loopLayer, this.opens, this.loopInfo, this.trace, this.switched, by simp only; rw [this.skip]; simp⟩
      | not_ i e' =>
        simp only [skipOK] at hc
        simp only [parseNode]
        have := ihE e' hc { s with skip := s.skip + 1 } (by simp only; omega)
        exact ⟨this.cfg, this.stack, this.loopLayer, this.opens, this.loopInfo, this.trace, this.switched, by simp only; rw [this.skip]; simp⟩
      | any i =>
        simp only [parseNode]
        split
        · exact Same.rfl' s
        · exact advance_same env s
      | lit i rs ic => simp only [parseNode]; exact matchLit_same env ic s.pos rs s
      | cls i cs rs cl inv ic =>
        simp only [parseNode]
        split
        · exact Same.rfl' s
        · split
          · exact advance_same env s
          · exact Same.rfl' s
      | star i e' => simp only [skipOK] at hc; simp only [parseNode]; exact ihT e' hc s hs
      | plus i e' =>
        simp only [skipOK] at hc
        simp only [parseNode]
        have h1 := ihE e' hc s hs
        split
        · exact Same.trans h1 (ihT e' hc _ (by rw [h1.skip]; exact hs))
        · exact h1
      | opt i e' => simp only [skipOK] at hc; simp only [parseNode]; exact ihE e' hc s hs
      | labeled i l tc e' =>
        simp only [skipOK] at hc
        simp only [parseNode]
        have h1 := ihE e' hc s hs
        split
        · exact Same.trans h1 ⟨rfl, rfl, rfl, rfl, rfl, rfl, rfl, rfl⟩
        · exact h1
      | ref i idx =>
        simp only [skipOK, decide_eq_true_eq] at hc
        simp only [parseNode]
        have h0 : Same s { s with labels := [] } := ⟨rfl, rfl, rfl, rfl, rfl, rfl, rfl, rfl⟩
        have h1 := ihE _ (hrules idx hc) { s with labels := [] } hs
        exact Same.trans (Same.trans h0 h1) ⟨rfl, rfl, rfl, rfl, rfl, rfl, rfl, rfl⟩
    · intro es p0 hc s hs
      cases es with
      | nil => simp only [parseSeq]; exact Same.rfl' s
      | cons e r =>
        simp only [skipOKL, Bool.and_eq_true] at hc
        simp only [parseSeq]
        have h1 := ihE e hc.1 s hs
        split
        · exact Same.trans h1 (ihS r p0 hc.2 _ (by rw [h1.skip]; exact hs))
        · exact Same.trans h1 ⟨rfl, rfl, rfl, rfl, rfl, rfl, rfl, rfl⟩
    · intro es hc s hs
      cases es with
      | nil => simp only [parseChoice]; exact Same.rfl' s
      | cons e r =>
        simp only [skipOKL, Bool.and_eq_true] at hc
        simp only [parseChoice]
        have h1 := ihE e hc.1 s hs
        split
        · exact h1
        · exact Same.trans h1 (ihC r hc.2 _ (by rw [h1.skip]; exact hs))
    · intro e hc s hs
      simp only [parseStar]
      have h1 := ihE e hc s hs
      split
      · exact Same.trans h1 (ihT e hc _ (by rw [h1.skip]; exact hs))
      · exact h1

end DS.Peg
