/- lemmas about rune decoding and the engine's `read` bookkeeping (C19) -/
import DS.Model.ErrFmt

namespace DS.Proofs.ErrL
open DS.ErrFmt

theorem decodeRune_width_le (bs : List Nat) : (decodeRune bs).2 ≤ bs.length := by
  unfold decodeRune
  split
  · simp
  · simp only [List.length_cons]
    repeat' split
    all_goals (first | (simp; done) | (simp; omega) | omega)

theorem runes_succ_back : ∀ (k : Nat) (bs : List Nat),
    runes (k + 1) bs = runes k bs ++ [(decodeRune (dropRunes k bs)).1] := by
  intro k
  induction k with
  | zero => intro bs; simp [runes, dropRunes]
  | succ k ih =>
    intro bs
    rw [runes, ih (bs.drop (decodeRune bs).2)]
    simp [runes, dropRunes]

theorem dropRunes_succ_back : ∀ (k : Nat) (bs : List Nat),
    dropRunes (k + 1) bs = (dropRunes k bs).drop (decodeRune (dropRunes k bs)).2 := by
  intro k
  induction k with
  | zero => intro bs; simp [dropRunes]
  | succ k ih =>
    intro bs
    rw [dropRunes, ih (bs.drop (decodeRune bs).2)]
    simp [dropRunes]

theorem runes_length : ∀ (k : Nat) (bs : List Nat), (runes k bs).length = k := by
  intro k
  induction k with
  | zero => intro bs; rfl
  | succ k ih => intro bs; simp [runes, ih]

/-- the engine's per-rune update of (line, col) -/
def lcStep (lc : Nat × Nat) (r : Nat) : Nat × Nat := if r == 10 then (lc.1 + 1, 0) else (lc.1, lc.2 + 1)

theorem foldl_lcStep : ∀ (rs : List Nat) (l c : Nat),
    rs.foldl lcStep (l, c) = (l + rs.count 10, if rs.contains 10 then sinceNewline rs else c + rs.length) := by
  intro rs
  induction rs with
  | nil => intro l c; simp
  | cons r rs ih =>
    intro l c
    simp only [List.foldl_cons]
    by_cases hr : r = 10
    · subst hr
      simp only [lcStep, beq_self_eq_true, if_true]
      rw [ih]
      simp only [List.count_cons_self, List.contains_cons, beq_self_eq_true, Bool.true_or, if_true, sinceNewline,
        List.length_cons]
      refine Prod.ext (by simp; omega) ?_
      simp only
      split <;> simp
    · have hb : (r == 10) = false := by simp [hr]
      simp only [lcStep, hb, Bool.false_eq_true, if_false]
      rw [ih]
      have hc : List.count 10 (r :: rs) = List.count 10 rs := by
        rw [List.count_cons]; simp [hr]
      have hcont : (r :: rs).contains 10 = rs.contains 10 := by
        simp only [List.contains_cons]
        have : (10 == r) = false := by simp; omega
        simp [this]
      rw [hc, hcont]
      refine Prod.ext rfl ?_
      simp only
      split
      · rename_i h; simp only [sinceNewline, h, if_true]
      · simp only [List.length_cons]; omega

/-- the invariant of `readN`: after k reads the engine has consumed exactly the first k runes and its
    (line, col) is the fold of `lcStep` over them -/
structure ReadInv (input : List Nat) (k : Nat) (p : Pos) : Prop where
  rest : input.drop (p.offset + p.w) = dropRunes k input
  lc : (p.line, p.col) = (runes k input).foldl lcStep (1, 0)
  bound : p.offset + p.w ≤ input.length
  cur : 0 < k → p.rn = (decodeRune (dropRunes (k - 1) input)).1 ∧ input.drop p.offset = dropRunes (k - 1) input

theorem read_eq (input : List Nat) (p : Pos) :
    DS.ErrFmt.read input p =
      (let d := decodeRune (input.drop (p.offset + p.w))
       if d.1 == 10 then { line := p.line + 1, col := 0, offset := p.offset + p.w, rn := d.1, w := d.2 }
       else { line := p.line, col := p.col + 1, offset := p.offset + p.w, rn := d.1, w := d.2 }) := by
  unfold DS.ErrFmt.read
  rfl

theorem readInv : ∀ (input : List Nat) (k : Nat), ReadInv input k (readN input k) := by
  intro input k
  induction k with
  | zero =>
    refine ⟨by simp [readN, pos0, dropRunes], by simp [readN, pos0, runes], by simp [readN, pos0], ?_⟩
    intro h; omega
  | succ k ih =>
    have hrest := ih.rest
    have hlc := ih.lc
    have hb := ih.bound
    simp only [readN]
    rw [read_eq]
    simp only
    rw [hrest]
    have hw := decodeRune_width_le (dropRunes k input)
    have hlen : (dropRunes k input).length = input.length - ((readN input k).offset + (readN input k).w) := by
      rw [← hrest]; simp
    by_cases hn : (decodeRune (dropRunes k input)).1 = 10
    · have : ((decodeRune (dropRunes k input)).1 == 10) = true := by simp [hn]
      simp only [this, if_true]
      refine ⟨?_, ?_, ?_, ?_⟩
      · simp only
        rw [dropRunes_succ_back, ← hrest, List.drop_drop]
      · simp only
        rw [runes_succ_back, List.foldl_append, ← hlc]
        simp [lcStep, hn]
      · simp only; omega
      · intro _
        have e : k + 1 - 1 = k := by omega
        rw [e]
        exact ⟨rfl, hrest⟩
    · have : ((decodeRune (dropRunes k input)).1 == 10) = false := by simp [hn]
      simp only [this, Bool.false_eq_true, if_false]
      refine ⟨?_, ?_, ?_, ?_⟩
      · simp only
        rw [dropRunes_succ_back, ← hrest, List.drop_drop]
      · simp only
        rw [runes_succ_back, List.foldl_append, ← hlc]
        simp [lcStep, hn]
      · simp only; omega
      · intro _
        have e : k + 1 - 1 = k := by omega
        rw [e]
        exact ⟨rfl, hrest⟩

end DS.Proofs.ErrL
