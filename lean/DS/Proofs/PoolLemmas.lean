/- the dice-pool loops (WoD, Double Cross) as chains of rounds (C04) -/
import DS.Proofs.DiceLemmas

namespace DS.Proofs
open DS.Roll DS.Rng

/-- a WoD die counts as a success -/
def wodSucc (threshold : Int) (isGE : Bool) (d : Int) : Bool := if isGE then decide (d ≥ threshold) else decide (d ≤ threshold)
/-- a WoD die adds a die to the next round -/
def wodAdd (addLine : Int) (d : Int) : Bool := addLine != 0 && decide (d ≥ addLine)
/-- a Double Cross die is critical -/
def dcAdd (addLine : Int) (d : Int) : Bool := decide (d ≥ addLine)

/-- number of dice of a round satisfying `p`, as the Int the code counts in -/
def cnt (p : Int → Bool) (dice : List Int) : Int := ((dice.filter p).length : Int)

theorem cnt_nonneg (p : Int → Bool) (dice : List Int) : 0 ≤ cnt p dice := by unfold cnt; omega

/-- **The chain of rounds**: the first round rolls `pool` dice; each further round rolls as many dice as the round before
    had dice reaching the add line; the roll ends with the first round in which no die reaches it. -/
inductive Chain (isAdd : Int → Bool) : Int → List (List Int) → Prop
  | last (pool : Int) (dice : List Int) : dice.length = pool.toNat → cnt isAdd dice = 0 → Chain isAdd pool [dice]
  | more (pool : Int) (dice : List Int) (rest : List (List Int)) : dice.length = pool.toNat → 0 < cnt isAdd dice →
      Chain isAdd (cnt isAdd dice) rest → Chain isAdd pool (dice :: rest)

theorem Chain.ne_nil {isAdd : Int → Bool} {pool : Int} {rs : List (List Int)} (h : Chain isAdd pool rs) : rs ≠ [] := by
  cases h <;> simp

theorem wodRound_spec (addLine points threshold : Int) (isGE : Bool) (mode : Int) :
    ∀ (k : Nat) (ws : List Nat) (s a : Int) (ts : List String) (rest : List Nat),
    wodRound addLine points threshold isGE mode k ws = some ((s, a, ts), rest) →
    ∃ dice : List Int, dice.length = k ∧ ts.length = k ∧
      s = cnt (wodSucc threshold isGE) dice ∧ a = cnt (wodAdd addLine) dice := by
  intro k
  induction k with
  | zero =>
    intro ws s a ts rest h
    simp [wodRound] at h
    obtain ⟨⟨rfl, rfl, rfl⟩, _⟩ := h
    exact ⟨[], rfl, rfl, rfl, rfl⟩
  | succ k ih =>
    intro ws s a ts rest h
    simp only [wodRound] at h
    split at h
    · simp at h
    · rename_i one ws' hr
      split at h
      · simp at h
      · rename_i s' a' ts' ws'' hrec
        simp at h
        obtain ⟨⟨rfl, rfl, rfl⟩, rfl⟩ := h
        obtain ⟨dice, hl, htl, rfl, rfl⟩ := ih ws' s' a' ts' ws'' hrec
        refine ⟨one :: dice, by simp [hl], by simp [htl], ?_, ?_⟩
        · unfold cnt wodSucc
          cases isGE
          · by_cases hc : one ≤ threshold
            · simp [hc]; omega
            · simp [hc]
          · by_cases hc : threshold ≤ one
            · simp [hc]; omega
            · simp [hc]
        · unfold cnt wodAdd
          by_cases h0 : addLine = 0
          · simp [h0]
          · by_cases hc : addLine ≤ one
            · simp [h0, hc]; omega
            · simp [h0, hc]

/-- total over rounds -/
def total (f : List Int → Int) (rounds : List (List Int)) : Int := (rounds.map f).sum

set_option hygiene false in
local macro "wod_rest" : tactic => `(tactic| (
   split at h
   · simp at h
   · rename_i s1 a1 ts1 ws1 hround
     obtain ⟨dice, hl, _, rfl, rfl⟩ := wodRound_spec _ _ _ _ _ _ _ _ _ _ _ hround
     split at h
     · rename_i hpos
       simp only [hpos] at h
       obtain ⟨rounds, hch, rfl, rfl, rfl⟩ := ih _ _ _ _ _ _ _ _ _ _ _ _ _ _ h
       refine ⟨dice :: rounds, Chain.more _ _ _ hl hpos hch, ?_, ?_, ?_⟩
       · simp [total] <;> omega
       · simp <;> omega
       · simp [List.foldl_cons]
     · rename_i hpos
       simp only [hpos] at h
       simp only [Option.some.injEq, Prod.mk.injEq] at h
       obtain ⟨⟨rfl, rfl, rfl, _, _, _⟩, _⟩ := h
       have h0 : cnt (wodAdd addLine) dice = 0 := by have := cnt_nonneg (wodAdd addLine) dice; omega
       refine ⟨[dice], Chain.last _ _ hl h0, ?_, ?_, ?_⟩
       · simp [total]
       · simp
       · simp [List.foldl_cons]))

/-- **RollWoD's round loop follows the rule**: whenever the loop completes (within the operation budget, if any), the dice
    it rolled form a chain of rounds from the starting pool; the successes are counted over ALL dice of ALL rounds; the
    round count grows by one per extra round; the dice total accumulates the added dice (in wrapped int64 arithmetic). -/
theorem wodLoop_rule (addLine points threshold : Int) (isGE : Bool) (mode : Int) (budget : Option Int) :
    ∀ (fuel : Nat) (charged pool succ allRoll addTimes : Int) (show_ : Bool) (details : List String) (ws : List Nat)
      (s a t : Int) (d : List String) (ch : Int) (ws' : List Nat),
      wodLoop addLine points threshold isGE mode budget fuel charged pool succ allRoll addTimes show_ details ws
        = some (some ((s, a, t, d, ch, false), ws')) →
      ∃ rounds : List (List Int), Chain (wodAdd addLine) pool rounds ∧
        s = succ + total (cnt (wodSucc threshold isGE)) rounds ∧
        t = addTimes + ((rounds.length : Int) - 1) ∧
        a = rounds.foldl (fun acc r => wrap64 (acc + cnt (wodAdd addLine) r)) allRoll := by
  intro fuel
  induction fuel with
  | zero => intro _ _ _ _ _ _ _ _ _ _ _ _ _ _ h; simp [wodLoop] at h
  | succ n ih =>
    intro charged pool succ allRoll addTimes show_ details ws s a t d ch ws' h
    simp only [wodLoop] at h
    cases budget with
    | none =>
      simp only [Bool.false_eq_true, if_false] at h
      wod_rest
    | some b =>
      simp only [decide_eq_true_eq] at h
      split at h
      · simp at h
      · wod_rest

/-- value of one Double Cross round: 10 if a die is critical, else the highest die -/
def dcValue (addLine : Int) (dice : List Int) : Int :=
  if 0 < cnt (dcAdd addLine) dice then 10 else dice.foldl (fun m d => if d > m then d else m) 0

theorem dcRound_spec (addLine points mode : Int) :
    ∀ (k : Nat) (mx : Int) (ws : List Nat) (m a : Int) (ts : List String) (rest : List Nat),
    dcRound addLine points mode k mx ws = some ((m, a, ts), rest) →
    ∃ dice : List Int, dice.length = k ∧ ts.length = k ∧
      m = dice.foldl (fun m d => if d > m then d else m) mx ∧ a = cnt (dcAdd addLine) dice := by
  intro k
  induction k with
  | zero =>
    intro mx ws m a ts rest h
    simp [dcRound] at h
    obtain ⟨⟨rfl, rfl, rfl⟩, _⟩ := h
    exact ⟨[], rfl, rfl, rfl, rfl⟩
  | succ k ih =>
    intro mx ws m a ts rest h
    simp only [dcRound] at h
    split at h
    · simp at h
    · rename_i one ws' hr
      split at h
      · simp at h
      · rename_i m' a' ts' ws'' hrec
        simp at h
        obtain ⟨⟨rfl, rfl, rfl⟩, rfl⟩ := h
        obtain ⟨dice, hl, htl, rfl, rfl⟩ := ih _ ws' m' a' ts' ws'' hrec
        refine ⟨one :: dice, by simp [hl], by simp [htl], by simp [List.foldl_cons], ?_⟩
        unfold cnt dcAdd
        by_cases hc : addLine ≤ one
        · simp [hc]; omega
        · simp [hc]

set_option hygiene false in
local macro "dc_rest" : tactic => `(tactic| (
   split at h
   · simp at h
   · rename_i m1 a1 ts1 ws1 hround
     obtain ⟨dice, hl, _, rfl, rfl⟩ := dcRound_spec _ _ _ _ _ _ _ _ _ _ hround
     split at h
     · rename_i hpos
       simp only [hpos] at h
       obtain ⟨rounds, hch, rfl, rfl, rfl⟩ := ih _ _ _ _ _ _ _ _ _ _ _ _ _ _ h
       refine ⟨dice :: rounds, Chain.more _ _ _ hl hpos hch, ?_, ?_, ?_⟩
       · simp [List.foldl_cons, dcValue, hpos]
       · simp <;> omega
       · simp [List.foldl_cons]
     · rename_i hpos
       simp only [hpos] at h
       simp only [Option.some.injEq, Prod.mk.injEq] at h
       obtain ⟨⟨rfl, rfl, rfl, _, _, _⟩, _⟩ := h
       have h0 : cnt (dcAdd addLine) dice = 0 := by have := cnt_nonneg (dcAdd addLine) dice; omega
       refine ⟨[dice], Chain.last _ _ hl h0, ?_, ?_, ?_⟩
       · simp [List.foldl_cons, dcValue, hpos]
       · simp
       · simp [List.foldl_cons]))

/-- **RollDoubleCross's round loop follows the rule**: a chain of rounds from the starting pool; the result is the sum of the
    round values (10 for a round with a critical die, else its highest die), in wrapped int64 arithmetic. -/
theorem dcLoop_rule (addLine points : Int) (mode : Int) (budget : Option Int) :
    ∀ (fuel : Nat) (charged pool result allRoll addTimes : Int) (show_ : Bool) (details : List String) (ws : List Nat)
      (s a t : Int) (d : List String) (ch : Int) (ws' : List Nat),
      dcLoop addLine points mode budget fuel charged pool result allRoll addTimes show_ details ws
        = some (some ((s, a, t, d, ch, false), ws')) →
      ∃ rounds : List (List Int), Chain (dcAdd addLine) pool rounds ∧
        s = rounds.foldl (fun acc r => wrap64 (acc + dcValue addLine r)) result ∧
        t = addTimes + ((rounds.length : Int) - 1) ∧
        a = rounds.foldl (fun acc r => wrap64 (acc + cnt (dcAdd addLine) r)) allRoll := by
  intro fuel
  induction fuel with
  | zero => intro _ _ _ _ _ _ _ _ _ _ _ _ _ _ h; simp [dcLoop] at h
  | succ n ih =>
    intro charged pool result allRoll addTimes show_ details ws s a t d ch ws' h
    simp only [dcLoop] at h
    cases budget with
    | none =>
      simp only [Bool.false_eq_true, if_false] at h
      dc_rest
    | some b =>
      simp only [decide_eq_true_eq] at h
      split at h
      · simp at h
      · dc_rest

end DS.Proofs
