/-
  Model of Context.makeDetailStr (rollvm.go): grouping of overlapping spans, sort by end, reverse splice into the
  matched source bytes.  Bytes are `List Nat`; a span's value is carried as the text its ToString yields.
  Out-of-range slicing (a Go panic) is the explicit outcome `none`.
-/
namespace DS.Detail

structure Span where
  b : Nat
  e : Nat
  ret : List Nat
  text : List Nat
  expr : List Nat
  tag : String
  textOnly : Bool
  exprSuffix : List Nat
  deriving Repr, DecidableEq

structure Group where
  b : Nat
  e : Nat
  tag : String
  spans : List Span
  deriving Repr, DecidableEq

def utf8 (s : String) : List Nat := s.toUTF8.toList.map (·.toNat)

/-- the grouping loop; `lastEnd` is an Int because it starts at -1 -/
def groupSpans : List Span → Int → List Group → List Group
  | [], _, acc => acc.reverse
  | s :: rest, lastEnd, acc =>
    let acc' :=
      if (s.b : Int) > lastEnd then { b := s.b, e := s.e, tag := s.tag, spans := [s] } :: acc
      else match acc with
        | [] => []          -- cannot happen: the first span always opens a group (b ≥ 0 > -1)
        | g :: gs => { g with spans := g.spans ++ [s], e := if s.e > g.e then s.e else g.e } :: gs
    groupSpans rest (if (s.e : Int) > lastEnd then s.e else lastEnd) acc'

/-- insertion sort by end, stable (sort.Sort on < 12 elements is an insertion sort) -/
def insertByEnd (s : Span) : List Span → List Span
  | [] => [s]
  | x :: xs => if s.e ≤ x.e then s :: x :: xs else x :: insertByEnd s xs

def sortByEnd : List Span → List Span
  | [] => []
  | s :: rest => insertByEnd s (sortByEnd rest)

/-- `buf[b:e]`, none when Go would panic -/
def slice (buf : List Nat) (b e : Nat) : Option (List Nat) :=
  if b ≤ e ∧ e ≤ buf.length then some ((buf.take e).drop b) else none

def joinComma : List (List Nat) → List Nat
  | [] => []
  | [x] => x
  | x :: xs => x ++ [44] ++ joinComma xs

/-- the sub-detail texts of all spans but the last -/
def subDetails (buf : List Nat) : List Span → Option (List (List Nat))
  | [] => some []
  | [_] => some []
  | s :: rest =>
    match slice buf s.b s.e, subDetails buf rest with
    | some t, some r => some ((t ++ [61] ++ s.ret) :: r)
    | _, _ => none

/-- the bracketed annotation of one group and the text that replaces the group's range -/
def renderGroup (buf : List Nat) (nGroups : Nat) (g : Group) : Option (List Nat) :=
  let spans := sortByEnd g.spans
  match spans.getLast? with
  | none => none
  | some last =>
    match subDetails buf spans, slice buf g.b g.e, slice buf 0 g.b, slice buf g.e buf.length with
    | some subs, some baseExpr, some pre, some post =>
      let subsNonEmpty := subs.filter (fun t => !t.isEmpty)
      let subText := if subsNonEmpty.isEmpty then [] else [44] ++ joinComma subsNonEmpty
      let exprText := if last.expr.isEmpty then baseExpr else last.expr
      let partRet := last.ret
      let suffix0 := if last.exprSuffix.isEmpty then [61] else last.exprSuffix
      let (detail, suffix) := if !last.textOnly then ([91] ++ exprText, suffix0) else ([91], [])
      let detail := if !last.text.isEmpty && partRet != last.text then detail ++ suffix ++ last.text else detail
      let detail :=
        if g.tag == "load" then
          if last.textOnly then
            (if !last.text.isEmpty then [91] ++ last.text else detail ++ [91, 45])
          else
            (let d := [91] ++ exprText
             if !last.text.isEmpty then d ++ [44] ++ last.text else d)
        else if g.tag == "load.computed" then detail ++ suffix ++ partRet
        else detail
      let detail := detail ++ subText ++ [93]
      let detail := if nGroups == 1 && detail == [91] ++ baseExpr ++ [93] then [] else detail
      let detail := if detail.length > 400 then utf8 "[略]" else detail
      some (pre ++ partRet ++ detail ++ post)
    | _, _, _, _ => none

def spliceGroups (nGroups : Nat) : List Group → List Nat → Option (List Nat)
  | [], buf => some buf
  | g :: rest, buf =>          -- `rest` are the groups to the LEFT (list is reversed): process g first
    match renderGroup buf nGroups g with
    | none => none
    | some buf' => spliceGroups nGroups rest buf'

def isSpace (b : Nat) : Bool := b == 32 || b == 9 || b == 10 || b == 13 || b == 11 || b == 12

def trimSpace (l : List Nat) : List Nat :=
  ((l.dropWhile isSpace).reverse.dropWhile isSpace).reverse

/-- makeDetailStr(details) with ctx.parser.data = src, pt.offset = offset, ctx.Ret.ToString() = ret -/
def makeDetail (src : List Nat) (offset : Nat) (spans : List Span) (ret : List Nat) : Option (List Nat) :=
  match slice src 0 offset with
  | none => none
  | some buf =>
    -- only spans that lie inside the parsed text take part (a span left behind by an abandoned parse alternative lies beyond it)
    let spans := spans.filter (fun s => s.b ≤ s.e && s.e ≤ offset)
    let groups := groupSpans spans (-1) []
    match spliceGroups groups.length groups.reverse buf with
    | none => none
    | some out => let t := trimSpace out; some (if t == ret then [] else t)

end DS.Detail
