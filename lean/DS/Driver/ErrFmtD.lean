import DS.Driver.Common
import DS.Model.ErrFmt
namespace DS.Driver
open DS.ErrFmt

def bytesOf (s : String) : Option (List Nat) := (DS.Hex.decodeBytes s).map (·.map (·.toNat))
def hexOf (bs : List Nat) : String := DS.Hex.encodeBytes (bs.map UInt8.ofNat)

def errfmtLine (toks : List String) : String :=
  match toks with
  | ["errfmt", lang, inp, off] =>
    match lang.toNat?, bytesOf inp, off.toNat? with
    | some l, some bs, some o =>
      let p := posAtOffset bs o
      if p.offset != o then "no-such-position"
      else s!"{p.line} {p.col} " ++ hexOf (friendly l bs p.line p.col o)
    | _, _, _ => "bad-op"
  | _ => "bad-op"

end DS.Driver
