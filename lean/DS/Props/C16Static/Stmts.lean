/- kernel evaluation of the static gating check for the `stmts` gate on the regenerated grammar -/
import DS.Props.C16Defs
namespace DS.Props.C16
open DS.Peg

set_option maxRecDepth 100000 in
theorem static_stmts : (rulesOK ge DS.Gen.Grammar.rules stmtsGate (okFor stmtsGate) && (okFor stmtsGate)[0]!) = true := by decide +kernel

end DS.Props.C16
