import DS.Driver.Common
import DS.Driver.ErrFmtD
import DS.Model.Peg
import DS.Gen.Grammar
import DS.Gen.Actions
import DS.Gen.Unicode
import DS.Gen.Opcodes
namespace DS.Driver
open DS.Peg

def pegActs : Array Act := DS.Gen.Actions.acts

def opNum (n : String) : Nat := ((DS.Gen.Opcodes.opcodes.find? (·.1 == n)).map (·.2)).getD 9999

def pegEnv (input : Array Nat) (maxCnt : Nat) : Env :=
  { input := input, rules := DS.Gen.Grammar.rules, acts := pegActs, nodeCount := DS.Gen.Grammar.nodeCount,
    tables := DS.Gen.Unicode.tables,
    bpush := opNum "typeBlockPush", bpop := opNum "typeBlockPop", jmp := opNum "typeJmp",
    maxCnt := maxCnt }

def pegFlags (tok : String) : Flags × Nat :=
  (tok.splitOn ",").foldl (fun (acc : Flags × Nat) p =>
    if p.startsWith "P" then (acc.1, ((p.drop 1).toString.toNat?).getD 0)
    else if p.startsWith "L" || p.startsWith "E" || p.startsWith "D" || p == "-" then acc
    else (p.toList.foldl (fun (f : Flags) ch =>
      if ch == 'w' then { f with wod := true } else if ch == 'c' then { f with coc := true }
      else if ch == 'f' then { f with fate := true } else if ch == 'd' then { f with dc := true }
      else if ch == 'B' then { f with disableBitwise := true } else if ch == 'S' then { f with disableStmts := true }
      else if ch == 'N' then { f with disableNDice := true } else f) acc.1, acc.2)) ({}, 0)

def traceStr (t : List Nat) : String := if t.isEmpty then "-" else ",".intercalate (t.reverse.map toString)

/-- pegtrace <cfg> <hexsrc> -/
def pegLine (toks : List String) : String :=
  match toks with
  | ["pegtrace", cfg, src] =>
    (match bytesOf src with
     | some bs =>
       let (flags, maxCnt) := pegFlags cfg
       let env := pegEnv bs.toArray maxCnt
       let (s, ok) := parseTop env flags 1000000
       match s.broken with
       | some w => "broken " ++ w
       | none =>
         if s.fuelOut then "diverge"
         else if ok then s!"ok {s.pos} {traceStr s.trace}" else s!"err {traceStr s.trace}"
     | none => "bad-op")
  | _ => "bad-op"

end DS.Driver
