package main

import (
	"bufio"
	"fmt"
	"os"
	"strings"
)

type handler func(t []string) string

var handlers = map[string]handler{}

func init() {
	for _, k := range []string{"rng", "roll", "common", "coc", "fate", "wod", "dc"} {
		handlers[k] = rollLine
	}
}

func main() {
	in := bufio.NewReaderSize(os.Stdin, 1<<20)
	out := bufio.NewWriterSize(os.Stdout, 1<<16)
	defer out.Flush()
	for {
		line, err := in.ReadString('\n')
		l := strings.TrimRight(line, "\r\n ")
		if l != "" {
			t := strings.Fields(l)
			h, ok := handlers[t[0]]
			var res string
			if !ok {
				res = "bad-op"
			} else {
				res = safely(func() string { return h(t) })
			}
			fmt.Fprintln(out, res)
			out.Flush()
		}
		if err != nil {
			break
		}
	}
}
