package main

import (
	"encoding/json"
	"fmt"
	"sort"
	"strings"

	ds "github.com/sealdice/dicescript"
)

// vmap <op>... : L:k load, S:k:v store, O:k:v loadOrStore, D:k loadAndDelete, X:k delete, C clear, J:k=v,k=v restore from JSON, R range, N length.
// prints "<ret> @ <shape>" per op, joined by " ; "
func vmapLine(t []string) string {
	m := &ds.ValueMap{}
	var outs []string
	str := func(v *ds.VMValue) string {
		if v == nil {
			return "NIL"
		}
		return v.ToString()
	}
	val := func(tok string) (*ds.VMValue, bool) {
		if tok == "nil" {
			return nil, true // a nil pointer is a legal value of the map
		}
		n, ok := atoi(tok)
		if !ok {
			return nil, false
		}
		return ds.NewIntVal(ds.IntType(n)), true
	}
	show := func(v *ds.VMValue, ok bool) string {
		if !ok {
			return "none"
		}
		return "v=" + str(v)
	}
	for _, op := range t[1:] {
		f := strings.Split(op, ":")
		var ret string
		switch {
		case f[0] == "L" && len(f) == 2:
			v, ok := m.Load(f[1])
			ret = show(v, ok)
		case f[0] == "S" && len(f) == 3:
			v, ok := val(f[2])
			if !ok {
				return "bad-op"
			}
			m.Store(f[1], v)
			ret = "-"
		case f[0] == "O" && len(f) == 3:
			nv, ok := val(f[2])
			if !ok {
				return "bad-op"
			}
			v, loaded := m.LoadOrStore(f[1], nv)
			ret = fmt.Sprintf("los=%s,%v", str(v), loaded)
		case f[0] == "D" && len(f) == 2:
			v, ok := m.LoadAndDelete(f[1])
			ret = show(v, ok)
		case f[0] == "X" && len(f) == 2:
			m.Delete(f[1])
			ret = "-"
		case f[0] == "C":
			m.Clear()
			ret = "-"
		case f[0] == "J" && len(f) == 2:
			// restore from a JSON document holding the given entries (k=v,k=v; "-" = the empty document): afterwards the map is that document
			doc := map[string]any{}
			if f[1] != "-" {
				for _, kv := range strings.Split(f[1], ",") {
					p := strings.SplitN(kv, "=", 2)
					n, ok := atoi(p[len(p)-1])
					if len(p) != 2 || !ok {
						return "bad-op"
					}
					doc[p[0]] = map[string]any{"t": 0, "v": n}
				}
			}
			b, _ := json.Marshal(doc)
			if err := json.Unmarshal(b, m); err != nil {
				return "bad-op"
			}
			ret = "-"
		case f[0] == "R":
			var ps []string
			m.Range(func(k string, v *ds.VMValue) bool {
				ps = append(ps, fmt.Sprintf("%x=%s", k, str(v)))
				return true
			})
			sort.Strings(ps)
			ret = "range[" + strings.Join(ps, ",") + "]"
		case f[0] == "N":
			ret = fmt.Sprintf("len=%d", m.Length())
		default:
			return "bad-op"
		}
		outs = append(outs, ret+" @ "+ds.VerifValueMapShape(m))
	}
	return strings.Join(outs, " ; ")
}

func init() { handlers["vmap"] = vmapLine }
