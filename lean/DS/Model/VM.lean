/-
  The stack VM (rollvm.go evaluate + the sub-VM machinery of types.go), bug-compatible:
  every place where Go would panic yields `.panic site`.
  One executing VM = a `Frame`; contexts (variable scope, caller chain, op counter) live in `G.ctxs` so that
  name lookup through UpCtx and the per-context NumOpCount bookkeeping are faithful.
-/
import DS.Model.Ops
import DS.Model.Detail

namespace DS.VM
open DS.Roll (wrap64)

structure Config where
  wod : Bool := false
  coc : Bool := false
  fate : Bool := false
  dc : Bool := false
  ignoreDiv0 : Bool := false
  minMode : Bool := false
  maxMode : Bool := false
  opLimit : Int := 0
  defaultDiceSideExpr : String := ""
  hasStCallback : Bool := true
  deriving Inhabited

structure Span where
  b : Int
  e : Int
  ret : Option Val := none
  text : String := ""
  expr : String := ""
  tag : String := ""
  deriving Inhabited

structure Ctx where
  attrs : Nat
  up : Option Nat
  numOp : Int
  depth : Nat
  deriving Inhabited

/-- global machine state threaded through everything -/
structure G where
  heap : Heap
  rng : Nat                 -- PCG state of the context's generator (the harness always seeds)
  cfg : Config
  ctxs : Array Ctx
  stLog : List String       -- CallbackSt invocations, rendered
  src : List Nat            -- source bytes of the top-level program (for push.def_expr's look at the dice text)
  calls : Nat := 0          -- function / computed-value calls in progress (the root context's callDepth)
  deriving Inhabited

structure DiceState where
  times : Int := 1
  keepLH : Int := 0
  low : Int := 0
  high : Int := 0
  dmin : Option Int := none
  dmax : Option Int := none
  deriving Inhabited

inductive LastPop where
  | none
  | slot (i : Nat)          -- pointer into the operand stack (aliases whatever is there now)
  | val (v : Val)           -- a fresh clone (stackPopN)
  deriving Inhabited

structure Frame where
  ctx : Nat
  code : Code
  pc : Nat := 0
  stack : Array Val
  top : Nat := 0
  details : List Span := []
  dice : List DiceState := []     -- diceStates[0..idx]; the head is diceStates[diceStateIndex]
  wodPool : Int := 0
  wodPoints : Int := 0
  wodThreshold : Int := 0
  wodGE : Bool := false
  dcPool : Int := 0
  dcPoints : Int := 0
  wodSaved : List (Int × Int × Int × Bool) := []   -- the parameters of the enclosing WoD terms while an inner one is being set up / rolled
  dcSaved : List (Int × Int) := []
  lastPop : LastPop := .none
  blocks : List Nat := []         -- blockStack[0..blockIndex), head = innermost
  fblocks : List Nat := []
  srcBytes : List Nat := []       -- text the frame's detail spans index into
  force : Bool := false
  deriving Inhabited

/-- what a finished VM hands back -/
structure SubOut where
  top : Option Val
  spans : List Span
  deriving Inhabited

abbrev SubRun := G → Frame → G × Res SubOut

def stackSize : Nat := 1000

def newStack : Array Val := Array.replicate stackSize .null

def mode (c : Config) : Int := if c.minMode then -1 else if c.maxMode then 1 else 0

/-! ### random numbers: the word-list dice functions driven by the PCG state -/

def drawWith {α} (st : Nat) (f : List Nat → Option (α × List Nat)) : Option (α × Nat) :=
  let rec go (fuel : Nat) (n : Nat) : Option (α × Nat) :=
    match fuel with
    | 0 => none
    | fuel+1 =>
      let ws := DS.Rng.words n st
      match f ws with
      | some (a, rest) => some (a, DS.Rng.advance (n - rest.length) st)
      | none => go fuel (n * 8)
  go 7 64

def drawLoop {α} (st : Nat) (f : List Nat → DS.Roll.LoopOut α) : Option (Option (α × Nat)) :=
  let rec go (fuel : Nat) (n : Nat) : Option (Option (α × Nat)) :=
    match fuel with
    | 0 => none
    | fuel+1 =>
      let ws := DS.Rng.words n st
      match f ws with
      | some (some (a, rest)) => some (some (a, DS.Rng.advance (n - rest.length) st))
      | some none => some none
      | none => go fuel (n * 8)
  go 7 64

/-! ### stack primitives -/

def Frame.push (f : Frame) (v : Val) : Res Frame :=
  if f.top < f.stack.size then .ok { f with stack := f.stack.set! f.top v, top := f.top + 1 }
  else .panic "index out of range@stackPush"

def Frame.pop (f : Frame) : Res (Val × Frame) :=
  if f.top == 0 then .panic "index out of range [-1]@stackPop"
  else .ok (f.stack[f.top - 1]!, { f with top := f.top - 1, lastPop := .slot (f.top - 1) })

/-- stackPop2: returns (v1, v2) with v1 the deeper one; lastPop = v1's slot -/
def Frame.pop2 (f : Frame) : Res (Val × Val × Frame) :=
  match f.pop with
  | .ok (v2, f1) =>
    (match f1.pop with
     | .ok (v1, f2) => .ok (v1, v2, f2)
     | .panic s => .panic s | .err e => .err e | .unsup w => .unsup w | .diverge => .diverge)
  | .panic s => .panic s | .err e => .err e | .unsup w => .unsup w | .diverge => .diverge

/-- stackPopN(num): clones, in stack order; lastPop = the first of them -/
def Frame.popN (f : Frame) (num : Int) : Res (List Val × Frame) :=
  let rec go (k : Nat) (f : Frame) (acc : List Val) : Res (List Val × Frame) :=
    match k with
    | 0 => .ok (acc, f)
    | k+1 =>
      match f.pop with
      | .ok (v, f') => go k f' (v :: acc)
      | .panic s => .panic s | .err e => .err e | .unsup w => .unsup w | .diverge => .diverge
  match go num.toNat f [] with
  | .ok (vs, f') => .ok (vs, if num ≥ 1 then { f' with lastPop := (match vs with | v :: _ => .val v | [] => f'.lastPop) } else f')
  | r => r

def readInt : Val → Option Int
  | .int i => some i
  | _ => none

/-! ### attribute / index helpers (types.go) -/

def protoMethods (tag : Nat) : List String :=
  if tag == 1 then ["kh", "kl", "sum", "len", "shuffle", "rand", "randSize", "pop", "shift", "push"]
  else if tag == 2 then ["keys", "values", "items", "len"]
  else if tag == 3 then ["compute"]
  else []

def protoPrefix (tag : Nat) : String := if tag == 1 then "Array." else if tag == 2 then "Dict." else "Computed."

def builtinNames : List String :=
  ["ceil", "floor", "round", "abs", "toInt", "toFloat", "toStr", "toBool", "repr", "load", "loadRaw", "store", "dir", "typeId"]

def nativeParams (name : String) : Nat :=
  if name == "store" || name == "Array.kh" && false then 2
  else if name ∈ ["Array.kh", "Array.kl", "Array.randSize", "Array.push"] then 1
  else if name.startsWith "Array." || name.startsWith "Dict." || name.startsWith "Computed." then 0
  else 1

def ctxAttrs (g : G) (c : Nat) : Nat := (g.ctxs[c]!).attrs

def attrsLoad (g : G) (attrs : Nat) (name : String) : Option Val := dictGet (g.heap.dictOf attrs) name

def attrsStore (g : G) (attrs : Nat) (name : String) (v : Val) : G :=
  { g with heap := g.heap.setDict attrs (dictSet (g.heap.dictOf attrs) name v) }

/-- numOpCountAdd: the counter saturates at MaxInt64 (it used to wrap) -/
def satAdd (a n : Int) : Int := if n > 0 && a > DS.Roll.maxInt64 - n then DS.Roll.maxInt64 else a + n

def addOps (g : G) (c : Nat) (n : Int) : G :=
  { g with ctxs := g.ctxs.modify c (fun x => { x with numOp := satAdd x.numOp n }) }

def getOps (g : G) (c : Nat) : Int := (g.ctxs[c]!).numOp
def setOps (g : G) (c : Nat) (n : Int) : G := { g with ctxs := g.ctxs.modify c (fun x => { x with numOp := n }) }

def overLimit (g : G) (n : Int) : Bool := g.cfg.opLimit > 0 && n > g.cfg.opLimit

/-- makeDetailStr for a finished computed-value VM: text = its own expression -/
def spanToDetail (h : Heap) (s : Span) : DS.Detail.Span :=
  { b := s.b.toNat, e := s.e.toNat
    ret := DS.Detail.utf8 (match s.ret with | some v => valToString h v | none => "NIL")
    text := DS.Detail.utf8 s.text, expr := DS.Detail.utf8 s.expr, tag := s.tag, textOnly := false, exprSuffix := [] }

def insertByBegin (s : Span) : List Span → List Span
  | [] => [s]
  | x :: xs => if s.b < x.b then s :: x :: xs else x :: insertByBegin s xs

/-- sort.Sort(spanByBegin) modelled as a stable insertion sort -/
def sortByBegin (l : List Span) : List Span := l.foldl (fun acc s => insertByBegin s acc) []

def bytesToString (bs : List Nat) : String :=
  match String.fromUTF8? (ByteArray.mk (bs.map UInt8.ofNat).toArray) with
  | some s => s
  | none => "≈bytes≈"

def hasDupBegin : List Span → Bool
  | [] => false
  | s :: r => r.any (fun x => x.b == s.b) || hasDupBegin r

def renderDetail (h : Heap) (src : List Nat) (offset : Nat) (spans : List Span) (ret : String) : Res String :=
  -- sort.Sort is not stable beyond 12 elements: with equal Begins the order (hence the grouping) is pdqsort's business
  if spans.length > 12 && hasDupBegin spans then .ok "≈sort≈" else
  -- spans outside the parsed text take no part (negative ends here, the rest of the test in `makeDetail`)
  let spans := spans.filter (fun s => 0 ≤ s.b && 0 ≤ s.e)
  match DS.Detail.makeDetail src offset (spans.map (spanToDetail h)) (DS.Detail.utf8 ret) with
  | some out => .ok (bytesToString out)
  | none => .panic "slice bounds out of range@makeDetailStr"

/-- ComputedExecute(ctx = c, detail) — the computed value lives at heap address `a` -/
def computedExecuteCore (sub : SubRun) (g : G) (c : Nat) (a : Nat) : G × Res (Val × String) :=
  match g.heap[a]? with
  | some (.comp expr attrsOpt code) =>
    -- cd.Attrs is created on first use and shared by every execution
    let (g, attrs) := match attrsOpt with
      | some at' => (g, at')
      | none =>
        let (h', at') := g.heap.alloc (.dict [])
        ({ g with heap := (if a < h'.size then h'.set! a (.comp expr (some at') code) else h') }, at')
    let parent := g.ctxs[c]!
    let n := satAdd parent.numOp 100
    let g := setOps g c n
    let newCtx : Ctx := { attrs := attrs, up := some c, numOp := n, depth := parent.depth + 1 }
    let cid := g.ctxs.size
    let g := { g with ctxs := g.ctxs.push newCtx }
    if overLimit g n then (g, .err "允许算力上限")
    else if code.size == 0 && expr != "" then (g, .unsup "computed value without cached code (needs the parser)")
    else
      let exprBytes := DS.Detail.utf8 expr
      let fr : Frame := { ctx := cid, code := code, stack := newStack, srcBytes := exprBytes, force := true }
      match sub g fr with
      | (g', .ok out) =>
        let g' := setOps g' c (getOps g' cid)
        (match out.top with
         | some v =>
           (match renderDetail g'.heap exprBytes exprBytes.length out.spans "NIL" with
            | .ok t => (g', .ok (v, t))
            | .panic s => (g', .panic s)
            | .err e => (g', .err e) | .unsup w => (g', .unsup w) | .diverge => (g', .diverge))
         | none => (g', .ok (.null, "")))
      | (g', .err e) => (setOps g' c (getOps g' cid), .err e)     -- a failed sub-evaluation is charged as well
      | (g', .panic s) => (g', .panic s)
      | (g', .unsup w) => (g', .unsup w)
      | (g', .diverge) => (g', .diverge)
  | _ => (g, .panic "nil dereference@ComputedExecute")

/-- at most `maxCallDepth` calls in progress (enterCall / leave on the root context) -/
def maxCallDepth : Nat := 1000

def withCall {α} (g : G) (k : G → G × Res α) : G × Res α :=
  if g.calls ≥ maxCallDepth then (g, .err "调用层数过多")
  else ({ (k { g with calls := g.calls + 1 }).1 with calls := g.calls }, (k { g with calls := g.calls + 1 }).2)

def computedExecute (sub : SubRun) (g : G) (c : Nat) (a : Nat) : G × Res (Val × String) :=
  withCall g (fun g => computedExecuteCore sub g c a)

/-- the detail a load writes through: (tag, text, ret) updates for the last span -/
structure DetailUpd where
  tag : Option String := none
  text : Option String := none
  ret : Option Val := none

/-- LoadNameWithDetail / LoadName for context `c` (isRaw: do not execute computed values) -/
def loadName (sub : SubRun) (g : G) (c : Nat) (name : String) (isRaw : Bool) : G × Res (Val × DetailUpd) :=
  let rec walk (fuel : Nat) (g : G) (cur : Nat) : G × Res (Val × DetailUpd) :=
    match fuel with
    | 0 => (g, .diverge)
    | fuel+1 =>
      let cx := g.ctxs[cur]!
      let v := (attrsLoad g cx.attrs name).getD .null
      let finish (g : G) (v : Val) (upd : DetailUpd) : G × Res (Val × DetailUpd) :=
        match v with
        | .null =>
          (match cx.up with
           | some u => walk fuel g u
           | none =>
             -- global scope: builtin functions
             let gv := if builtinNames.contains name then Val.nfunc name 0 0 else Val.null
             (g, .ok (gv, { upd with ret := some gv })))
        | _ => (g, .ok (v, upd))
      match v with
      | .comp a =>
        if isRaw then finish g v { ret := some v }
        else
          -- a computed value found in an enclosing context charges that context; the delta is added to the loading one too
          let sync (g' : G) : G := if cur != c then addOps g' c (getOps g' cur - getOps g cur) else g'
          (match computedExecute sub g cur a with
           | (g', .ok (rv, txt)) => finish (sync g') rv { tag := some "load.computed", text := some txt, ret := some rv }
           | (g', .err e) => (sync g', .err e)
           | (g', .panic s) => (g', .panic s)
           | (g', .unsup w) => (g', .unsup w)
           | (g', .diverge) => (g', .diverge))
      | _ => finish g v { ret := some v }
  walk (g.ctxs.size + 2) g c

/-- FuncInvokeRaw for the function object at heap address `a` -/
def funcInvokeCore (sub : SubRun) (g : G) (c : Nat) (a : Nat) (args : List Val) : G × Res Val :=
  match g.heap[a]? with
  | some (.func _ params expr code) =>
    if params.length != args.length then
      (g, .err ("调用参数个数与函数定义不符，需求" ++ toString params.length ++ "，传入" ++ toString args.length))
    else
      let (h', attrs) := g.heap.alloc (.dict ((params.zip args)))
      -- duplicate parameter names: later Store wins
      let h' := h'.setDict attrs ((params.zip args).foldl (fun acc p => dictSet acc p.1 p.2) [])
      let g := { g with heap := h' }
      let parent := g.ctxs[c]!
      let n := satAdd parent.numOp 100
      let g := setOps g c n
      let cid := g.ctxs.size
      let g := { g with ctxs := g.ctxs.push { attrs := attrs, up := some c, numOp := n, depth := parent.depth + 1 } }
      if overLimit g n then (g, .err "允许算力上限")
      else if code.size == 0 && expr != "" then (g, .unsup "function without cached code (needs the parser)")
      else
        let fr : Frame := { ctx := cid, code := code, stack := newStack, srcBytes := DS.Detail.utf8 expr }
        match sub g fr with
        | (g', .ok out) => (setOps g' c (getOps g' cid), .ok (out.top.getD .null))
        | (g', .err e) => (setOps g' c (getOps g' cid), .err e)
        | (g', .panic s) => (g', .panic s)
        | (g', .unsup w) => (g', .unsup w)
        | (g', .diverge) => (g', .diverge)
  | _ => (g, .panic "nil dereference@FuncInvokeRaw")

def funcInvoke (sub : SubRun) (g : G) (c : Nat) (a : Nat) (args : List Val) : G × Res Val :=
  withCall g (fun g => funcInvokeCore sub g c a args)

/-! ### native functions and methods -/

def floatKeep (h : Heap) (a : Nat) : List Float × Bool :=
  (h.arrOf a).foldl (fun (acc : List Float × Bool) v =>
    match v with
    | .int i => (acc.1 ++ [Float.ofInt i], acc.2)
    | .float f => (acc.1 ++ [f], false)
    | _ => acc) ([], true)

def insertF (desc : Bool) (x : Float) : List Float → List Float
  | [] => [x]
  | y :: ys => if (if desc then x > y else x < y) then x :: y :: ys else y :: insertF desc x ys

def sortF (desc : Bool) (l : List Float) : List Float := l.foldr (fun x acc => insertF desc x acc) []

def parseIntStr (s : String) : Option Int :=
  -- strconv.ParseInt(s, 10, 64): optional sign, decimal digits, range int64
  let cs := s.toList
  let (neg, ds) := match cs with
    | '-' :: r => (true, r)
    | '+' :: r => (false, r)
    | r => (false, r)
  if ds.isEmpty || !ds.all Char.isDigit then none else
  let n : Int := ds.foldl (fun a c => a * 10 + (c.toNat - 48)) (0 : Int)
  let v := if neg then -n else n
  if v < minInt64 || v > 9223372036854775807 then none else some v

def typeIdOf : Val → Int
  | .int _ => 0 | .float _ => 1 | .str _ => 2 | .null => 4 | .comp _ => 5 | .arr _ => 6 | .dict _ => 7 | .func _ => 8
  | .nfunc _ _ _ => 9 | .nobj _ => 10 | .local_ => 20

/-- Roll(src, n, 0) - 1 through the context's generator -/
def randIntn (g : G) (n : Int) : G × Int :=
  match drawWith g.rng (DS.Roll.roll n 0) with
  | some (r, st) => ({ g with rng := st }, r - 1)
  | none => (g, -1)

def shuffleList (g : G) (l : List Val) : G × List Val :=
  let arr := l.toArray
  let rec go (i : Nat) (g : G) (arr : Array Val) : G × Array Val :=
    match i with
    | 0 => (g, arr)
    | i+1 =>
      let (g', j) := randIntn g ((i : Int) + 2)
      let jn := j.toNat
      let a := arr[i + 1]!
      let b := arr[jn]!
      go i g' ((arr.set! (i + 1) b).set! jn a)
  if l.length ≤ 1 then (g, l) else
  let (g', arr') := go (l.length - 1) g arr
  (g', arr'.toList)

/-- store the variable `name` from context `c` (StoreName → StoreNameLocal) -/
def storeName (g : G) (c : Nat) (name : String) (v : Val) : G := attrsStore g (ctxAttrs g c) name v

def nativeCall (sub : SubRun) (g : G) (c : Nat) (name : String) (selfTag selfAddr : Nat) (params : List Val) : G × Res Val :=
  -- default parameter of kh / kl
  let params := if (name == "Array.kh" || name == "Array.kl") && params.isEmpty then [Val.int 1] else params
  let want := if name == "store" then 2 else nativeParams name
  if want != params.length then
    (g, .err ("调用参数个数与函数定义不符，需求" ++ toString want ++ "，传入" ++ toString params.length))
  else
  let p0 := params.headD .null
  let numOnly (fname : String) (f : Float → Float) : G × Res Val :=
    match p0 with
    | .int _ => (g, .ok p0)
    | .float x => (g, .ok (.int (floatToInt (f x))))
    | _ => (g, .err ("(" ++ fname ++ ")类型错误: 只能是数字类型"))
  if name == "ceil" then numOnly "ceil" Float.ceil
  else if name == "floor" then numOnly "floor" Float.floor
  else if name == "round" then numOnly "round" Float.round
  else if name == "abs" then
    (match p0 with
     | .int i => (g, .ok (if i < 0 then .int (wrap64 (-i)) else p0))
     | .float x => (g, .ok (if x < 0 then .float (-x) else p0))
     | _ => (g, .err "(abs)类型错误: 参数必须为int或float"))
  else if name == "toBool" then (g, .ok (b2v (asBool g.heap p0)))
  else if name == "toInt" then
    (match p0 with
     | .int _ => (g, .ok p0)
     | .float x => (g, .ok (.int (floatToInt x)))
     | .str s => (match parseIntStr s with
       | some i => (g, .ok (.int i))
       | none => (g, .err ("(toInt)值错误: 无法进行 toInt() 转换: " ++ s)))
     | _ => (g, .err "(toInt)类型错误: 只能是数字类型"))
  else if name == "toFloat" then
    (match p0 with
     | .int i => (g, .ok (.float (Float.ofInt i)))
     | .float _ => (g, .ok p0)
     | .str _ => (g, .unsup "toFloat(str): strconv.ParseFloat")
     | _ => (g, .err "(toFloat)类型错误: 只能是数字类型"))
  else if name == "toStr" then
    (if (valToString g.heap p0).utf8ByteSize > maxStringLength then (g, .err "不能一次性创建过长的字符串") else (g, .ok (.str (valToString g.heap p0))))
  else if name == "repr" then
    (if (valToRepr g.heap p0).utf8ByteSize > maxStringLength then (g, .err "不能一次性创建过长的字符串") else (g, .ok (.str (valToRepr g.heap p0))))
  else if name == "typeId" then (g, .ok (.int (typeIdOf p0)))
  else if name == "load" || name == "loadRaw" then
    (match p0 with
     | .str nm =>
       (match loadName sub g c nm (name == "loadRaw") with
        | (g', .ok (v, _)) => (g', .ok v)
        | (g', .err e) => (g', .err e) | (g', .panic s) => (g', .panic s)
        | (g', .unsup w) => (g', .unsup w) | (g', .diverge) => (g', .diverge))
     | _ => (g, .err "(load)类型错误: 参数类型必须为str"))
  else if name == "store" then
    (match p0, params.getD 1 .null with
     | .str nm, v => (storeName g c nm v, .ok v)
     | _, _ => (g, .err "(store)类型错误: 参数1类型必须为str"))
  else if name == "dir" then (g, .unsup "dir(): map iteration order")
  else if selfTag == 1 then
    let l := g.heap.arrOf selfAddr
    if name == "Array.kh" || name == "Array.kl" then
      (match p0 with
       | .int pick =>
         let (nums, allInt) := floatKeep g.heap selfAddr
         let sorted := sortF (name == "Array.kh") nums
         let total := (sorted.take pick.toNat).foldl (· + ·) 0.0
         (g, .ok (if allInt then .int (floatToInt total) else .float total))
       | _ => (g, .err (if name == "Array.kh" then "(arr.kh)类型错误: 参数必须为int" else "(arr.kl)类型错误: 参数必须为int")))
    else if name == "Array.sum" then
      let (nums, allInt) := floatKeep g.heap selfAddr
      let total := nums.foldl (· + ·) 0.0
      (g, .ok (if allInt then .int (floatToInt total) else .float total))
    else if name == "Array.len" then (g, .ok (.int l.length))
    else if name == "Array.shuffle" then
      let (g', l') := shuffleList g l
      ({ g' with heap := g'.heap.setArr selfAddr l' }, .ok (.arr selfAddr))
    else if name == "Array.rand" then
      if l.isEmpty then (g, .err "(arr.rand)值错误: 数组为空") else
      let (g', j) := randIntn g l.length
      (g', .ok (l.getD j.toNat .null))
    else if name == "Array.randSize" then
      let (g', l') := shuffleList g l
      (match p0 with
       | .int n =>
         if n < 0 || n > l'.length then (g', .err "(arr.randSize)值错误: 个数超出数组长度范围")
         else
           let (h', addr) := g'.heap.alloc (.arr (l'.take n.toNat))
           ({ g' with heap := h' }, .ok (.arr addr))
       | _ => (g', .err "(arr.randSize)类型不符"))
    else if name == "Array.pop" then
      (match l.getLast? with
       | some v => ({ g with heap := g.heap.setArr selfAddr l.dropLast }, .ok v)
       | none => (g, .ok .null))
    else if name == "Array.shift" then
      (match l with
       | v :: r => ({ g with heap := g.heap.setArr selfAddr r }, .ok v)
       | [] => (g, .ok .null))
    else if name == "Array.push" then
      ({ g with heap := g.heap.setArr selfAddr (l ++ [p0]) }, .ok (.arr selfAddr))
    else (g, .unsup ("native " ++ name))
  else if selfTag == 2 then
    let kv := g.heap.dictOf selfAddr
    if name == "Dict.len" then (g, .ok (.int kv.length))
    -- iteration is in key order (ValueMap.Range)
    else if name == "Dict.keys" then
      let (h', addr) := g.heap.alloc (.arr ((sortEntries kv).map (fun p => Val.str p.1))); ({ g with heap := h' }, .ok (.arr addr))
    else if name == "Dict.values" then
      let (h', addr) := g.heap.alloc (.arr ((sortEntries kv).map (·.2))); ({ g with heap := h' }, .ok (.arr addr))
    else if kv.length ≥ 2 then (g, .unsup "dict items of several entries")
    else if name == "Dict.items" then
      (match kv with
       | [] => let (h', addr) := g.heap.alloc (.arr []); ({ g with heap := h' }, .ok (.arr addr))
       | (k, v) :: _ =>
         let (h1, a1) := g.heap.alloc (.arr [.str k, v])
         let (h2, a2) := h1.alloc (.arr [.arr a1])
         ({ g with heap := h2 }, .ok (.arr a2)))
    else (g, .unsup ("native " ++ name))
  else if selfTag == 3 && name == "Computed.compute" then
    (match computedExecute sub g c selfAddr with
     | (g', .ok (v, _)) => (g', .ok v)
     | (g', .err e) => (g', .err e) | (g', .panic s) => (g', .panic s)
     | (g', .unsup w) => (g', .unsup w) | (g', .diverge) => (g', .diverge))
  else (g, .unsup ("native " ++ name))

/-- getBindMethod via builtinProto -/
def bindMethod (v : Val) (name : String) : Option Val :=
  let (tag, addr) := match v with
    | .arr a => (1, a) | .dict a => (2, a) | .comp a => (3, a) | _ => (0, 0)
  if (protoMethods tag).contains name then some (.nfunc (protoPrefix tag ++ name) tag addr) else none

/-- AttrGet; `none` = "this type does not support `.`" -/
def attrGet (sub : SubRun) (g : G) (c : Nat) (v : Val) (name : String) : G × Res (Option Val) :=
  let viaProto (g : G) : G × Res (Option Val) :=
    match bindMethod v name with
    | some m => (g, .ok (some m))
    | none =>
      (match v with
       | .int _ | .float _ | .str _ | .null => (g, .ok none)
       | _ => (g, .ok (some .null)))
  match v with
  | .comp a =>
    (match g.heap[a]? with
     | some (.comp _ (some at') _) => (g, .ok (some ((dictGet (g.heap.dictOf at') name).getD .null)))
     | _ => (g, .ok (some .null)))
  | .dict a =>
    (match dictGet (g.heap.dictOf a) name with
     | some r => (g, .ok (some r))
     | none =>
       -- __proto__ chain
       let rec chain (fuel : Nat) (cur : Nat) : Option Val :=
         match fuel with
         | 0 => none
         | fuel+1 =>
           match dictGet (g.heap.dictOf cur) "__proto__" with
           | some (.dict p) =>
             (match dictGet (g.heap.dictOf p) name with
              | some r => some r
              | none => chain fuel p)
           | _ => none
       match chain 64 a with
       | some r => (g, .ok (some r))
       | none => viaProto g)
  | .local_ =>
    -- LoadNameLocal(name, false): own scope only
    let cx := g.ctxs[c]!
    let lv := (attrsLoad g cx.attrs name).getD .null
    (match lv with
     | .comp a =>
       (match computedExecute sub g c a with
        | (g', .ok (rv, _)) => (g', .ok (some rv))
        | (g', .err e) => (g', .err e) | (g', .panic s) => (g', .panic s)
        | (g', .unsup w) => (g', .unsup w) | (g', .diverge) => (g', .diverge))
     | _ => (g, .ok (some lv)))
  | .nobj _ => viaProto g
  | _ => viaProto g

end DS.VM
