package main

import (
	"fmt"
	"strings"

	ds "github.com/sealdice/dicescript"
)

// strun <cfg> <seed> <hexsrc> : Run with a CallbackSt logger. "<ok|err MSG> m=<matched> r=<rest> st=<hex of entries joined by ';'>"
// entry = type|name|repr(value)|repr(extra)|op|detail
func stRunLine(t []string) string {
	if len(t) != 4 {
		return "bad-op"
	}
	cfg, ok := parseCfg(t[1])
	src, ok2 := unhx(t[3])
	if !ok || !ok2 {
		return "bad-op"
	}
	var log []string
	// the host keeps the values it was handed: they must be its own copies, unaffected by what the VM does afterwards
	type kept struct {
		typ, name, op, detail string
		val, extra            *ds.VMValue
	}
	var keep []kept
	inner := stLogger(&log)
	cfg.CallbackSt = func(_type string, name string, val *ds.VMValue, extra *ds.VMValue, op string, detail string) {
		inner(_type, name, val, extra, op, detail)
		keep = append(keep, kept{_type, name, op, detail, val, extra})
	}
	vm, ok := newVM(cfg, t[2])
	if !ok {
		return "bad-op"
	}
	late := func() string {
		var l2 []string
		for _, k := range keep {
			ex := ""
			if k.extra != nil {
				ex = k.extra.ToRepr()
			}
			l2 = append(l2, k.typ+"|"+k.name+"|"+k.val.ToRepr()+"|"+ex+"|"+k.op+"|"+k.detail)
		}
		if strings.Join(l2, ";") == strings.Join(log, ";") {
			return "same"
		}
		return "diff:" + hx(strings.Join(l2, ";"))
	}
	if err := vm.Run(src); err != nil {
		return fmt.Sprintf("err %s st=%s late=%s", hx(err.Error()), hx(strings.Join(log, ";")), late())
	}
	return fmt.Sprintf("ok m=%s r=%s st=%s late=%s", hx(vm.Matched), hx(vm.RestInput), hx(strings.Join(log, ";")), late())
}

func init() {
	handlers["strun"] = stRunLine
}
