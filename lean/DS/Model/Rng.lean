/-
  PCG-128 (XSL-RR 128/64) exactly as golang.org/x/exp/rand.PCGSource:
  state' = state * multiplier + increment (mod 2^128); output = rotr64 (hi ^ lo) (hi >> 58).
  Core-only, executable.
-/
namespace DS.Rng

def two64 : Nat := 18446744073709551616
def two128 : Nat := two64 * two64
def multiplier : Nat := 47026247687942121848144207491837523525
def increment : Nat := 117397592171526113268558934119004209487

/-- one LCG step on the 128-bit state -/
def step (s : Nat) : Nat := (s * multiplier + increment) % two128

def rotr64 (x : Nat) (r : Nat) : Nat :=
  let r := r % 64
  ((x >>> r) ||| (x <<< (64 - r))) % two64

/-- output function applied to the state *after* the step -/
def output (s : Nat) : Nat :=
  let hi := s / two64
  let lo := s % two64
  rotr64 (hi ^^^ lo) (hi >>> 58)

/-- `Uint64()`: advance then output -/
def next (s : Nat) : Nat × Nat :=
  let s' := step s
  (output s', s')

/-- state after `k` applications of a step function (generic, so that theorems never unfold the
    128-bit constants) -/
def advanceWith (f : Nat → Nat) : Nat → Nat → Nat
  | 0, s => s
  | k+1, s => advanceWith f k (f s)

/-- first `k` outputs of a generator with step `f` and output function `o` -/
def wordsWith (f : Nat → Nat) (o : Nat → Nat) : Nat → Nat → List Nat
  | 0, _ => []
  | k+1, s => o (f s) :: wordsWith f o k (f s)

/-- first `k` words from state `s` -/
def words : Nat → Nat → List Nat := wordsWith step output

/-- state after `k` draws -/
def advance : Nat → Nat → Nat := advanceWith step

/-- big-endian base-256 digits, `n` of them -/
def bytesBE : Nat → Nat → List Nat
  | 0, _ => []
  | n+1, s => bytesBE n (s / 256) ++ [s % 256]

/-- MarshalBinary: 16 bytes big-endian high‖low -/
def marshal (s : Nat) : List Nat := bytesBE 16 s

def fromBytesBE (bs : List Nat) : Nat := bs.foldl (fun acc b => acc * 256 + b % 256) 0

def unmarshal (bs : List Nat) : Option Nat :=
  if bs.length < 16 then none
  else some (fromBytesBE (bs.take 16))

end DS.Rng
