package main

import (
	"regexp"
	"strconv"

	ds "github.com/sealdice/dicescript"
)

var friendlyRe = regexp.MustCompile(`^(\d+):(\d+) \((\d+)\): (语法错误|Syntax Error)`)

// errparse <cfg> <hexinput> : "ok" | "err <hextext>"  (Parse only)
func errParseLine(t []string) string {
	if len(t) != 3 {
		return "bad-op"
	}
	cfg, ok := parseCfg(t[1])
	src, ok2 := unhx(t[2])
	if !ok || !ok2 {
		return "bad-op"
	}
	vm, _ := newVM(cfg, "-")
	err := vm.Parse(src)
	if err == nil {
		return "ok"
	}
	return "err " + hx(err.Error())
}

// errfmt <lang> <hexinput> <offset> : "<line> <col> <hextext>" when the input is rejected with a friendly
// error at exactly that offset
func errFmtLine(t []string) string {
	if len(t) != 4 {
		return "bad-op"
	}
	lang, err := strconv.Atoi(t[1])
	src, ok2 := unhx(t[2])
	if err != nil || !ok2 {
		return "bad-op"
	}
	vm, _ := newVM(ds.RollConfig{ParseErrorLanguage: lang}, "-")
	e := vm.Parse(src)
	if e == nil {
		return "accepted"
	}
	m := friendlyRe.FindStringSubmatch(e.Error())
	if m == nil {
		return "not-friendly"
	}
	if m[3] != t[3] {
		return "offset-mismatch " + m[3]
	}
	return m[1] + " " + m[2] + " " + hx(e.Error())
}

func init() {
	handlers["errparse"] = errParseLine
	handlers["errfmt"] = errFmtLine
}
