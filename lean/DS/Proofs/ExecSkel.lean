/- C08: every instruction of the model VM's `exec` refines the verifier's skeleton step (`Verify.sstep`):
   if the skeleton is not stuck at the frame's skeleton state, then `exec` never ends in a structural panic, and when it
   continues, the new frame is one of the skeleton's successors. -/
import DS.Proofs.ExecSkelBase
namespace DS.VM
open DS.Verify

/-- rewrite every pop whose success the height bound guarantees, reducing the matches as it goes -/
macro "pops" : tactic => `(tactic|
  repeat (first
    | (rw [pop2_eq _ (by dsimp only; omega)]; dsimp only)
    | (rw [pop_eq _ (by dsimp only; omega)]; dsimp only)))

macro "leaves" : tactic => `(tactic| (
  split_all
  all_goals simp only [Post]
  all_goals first | trivial | leaf_push | leaf_here | leaf_ns))

set_option hygiene false in
/-- instructions of kind `simple p q` whose pops are plain pop / pop2 -/
macro "simple_tac" : tactic => `(tactic| (
  intro hR hlt succs hs
  obtain ⟨htop, rfl⟩ := sstep_simple hs
  simp only [skOfFrame] at htop
  simp only [exec]
  pops
  leaves))

variable (sub : SubRun) (hsub : NoStructSub sub) (g : G) (f : Frame) (wod dc : Bool)
include hsub

theorem exec_pushInt (i : Int) : Goal sub g f wod dc (.pushInt i) := by simple_tac
theorem exec_pushFlt (x : Float) : Goal sub g f wod dc (.pushFlt x) := by simple_tac
theorem exec_pushStr (x : String) : Goal sub g f wod dc (.pushStr x) := by simple_tac
theorem exec_pushConst (x : Val) : Goal sub g f wod dc (.pushConst x) := by simple_tac
theorem exec_pushNull : Goal sub g f wod dc .pushNull := by simple_tac
theorem exec_pushThis : Goal sub g f wod dc .pushThis := by simple_tac
theorem exec_pushLast : Goal sub g f wod dc .pushLast := by simple_tac
theorem exec_ld (n : String) : Goal sub g f wod dc (.ld n) := by simple_tac
theorem exec_ldRaw (n : String) : Goal sub g f wod dc (.ldRaw n) := by simple_tac
theorem exec_diceCustom : Goal sub g f wod dc .diceCustom := by simple_tac
theorem exec_noop (n : String) : Goal sub g f wod dc (.noop n) := by simple_tac
theorem exec_bin (op : BinOp) : Goal sub g f wod dc (.bin op) := by simple_tac
theorem exec_logicAnd : Goal sub g f wod dc .logicAnd := by simple_tac
theorem exec_pushRange : Goal sub g f wod dc .pushRange := by simple_tac
theorem exec_attrSet (n : String) : Goal sub g f wod dc (.attrSet n) := by simple_tac
theorem exec_attrGet (n : String) : Goal sub g f wod dc (.attrGet n) := by simple_tac
theorem exec_neg : Goal sub g f wod dc .neg := by simple_tac
theorem exec_pos : Goal sub g f wod dc .pos := by simple_tac
theorem exec_pop : Goal sub g f wod dc .pop := by simple_tac
theorem exec_itemGet : Goal sub g f wod dc .itemGet := by simple_tac
theorem exec_itemSet : Goal sub g f wod dc .itemSet := by simple_tac
theorem exec_sliceGet : Goal sub g f wod dc .sliceGet := by simple_tac
theorem exec_sliceSet : Goal sub g f wod dc .sliceSet := by simple_tac
theorem exec_stSet : Goal sub g f wod dc .stSet := by simple_tac
theorem exec_stX0 : Goal sub g f wod dc .stX0 := by simple_tac
theorem exec_stX1 : Goal sub g f wod dc .stX1 := by simple_tac
theorem exec_stMod (a b : String) : Goal sub g f wod dc (.stMod a b) := by simple_tac


macro "arith" : tactic => `(tactic| first | rfl | omega | (simp only [skOfFrame] <;> omega) | (simp [skOfFrame, *] <;> omega))

omit hsub

theorem exec_halt : Goal sub g f wod dc .halt := by
  intro hR hlt succs hs; simp only [exec, Post]
theorem exec_ret : Goal sub g f wod dc .ret := by
  intro hR hlt succs hs; simp only [exec, Post]

theorem exec_store (n : String) : Goal sub g f wod dc (.store n) := by
  intro hR hlt succs hs
  obtain ⟨htop, rfl⟩ := sstep_peek hs
  simp only [skOfFrame] at htop
  simp only [exec]
  have : (f.top == 0) = false := by simp; omega
  simp only [this, Bool.false_eq_true, if_false, Post]
  leaf_here

theorem target_eq {size pc : Nat} {o : Int} {t : Nat} (h : target size pc (some o) = some t) :
    ¬ ((pc : Int) + 1 + o < 0) ∧ ((pc : Int) + 1 + o).toNat = t := by
  simp only [target] at h
  split at h
  · cases h
  · rename_i hc
    simp at h hc
    exact ⟨by omega, h⟩

theorem exec_jmp (off : Option Int) : Goal sub g f wod dc (.jmp off) := by
  intro hR hlt succs hs
  obtain ⟨t, ht, rfl⟩ := sstep_jmp hs
  simp only [skOfFrame] at ht
  cases off with
  | none => simp [target] at ht
  | some o =>
    obtain ⟨h1, h2⟩ := target_eq ht
    simp only [exec]
    have e : ((f.pc + 1 : Nat) : Int) + o = (f.pc : Int) + 1 + o := by omega
    simp only [e, h1, if_false, Post]
    (refine ⟨_, List.mem_singleton.mpr rfl, match_of_sameBut (sameBut_refl _) _ (by simp only [skOfFrame]; omega) rfl rfl rfl rfl rfl, ?_⟩; fin_sb (sameBut_refl _))


theorem exec_jne (off : Option Int) : Goal sub g f wod dc (.jne off) := by
  intro hR hlt succs hs
  obtain ⟨htop, t, ht, rfl⟩ := sstep_jne hs
  simp only [skOfFrame] at ht htop
  cases off with
  | none => simp [target] at ht
  | some o =>
    obtain ⟨h1, h2⟩ := target_eq ht
    simp only [exec]
    pops
    have e : ((f.pc + 1 : Nat) : Int) + o = (f.pc : Int) + 1 + o := by omega
    split
    · simp only [e, h1, if_false, Post]
      (refine ⟨_, List.mem_cons_of_mem _ (List.mem_singleton.mpr rfl), match_of_sameBut (sameBut_refl _) _ (by simp only []; omega) rfl rfl rfl rfl rfl, ?_⟩; fin_sb (sameBut_refl _))
    · simp only [Post]
      (refine ⟨_, List.mem_cons_self, match_of_sameBut (sameBut_refl _) _ rfl rfl rfl rfl rfl rfl, ?_⟩; fin_sb (sameBut_refl _))

theorem exec_je (off : Option Int) : Goal sub g f wod dc (.je off) := by
  intro hR hlt succs hs
  obtain ⟨htop, t, ht, rfl⟩ := sstep_je hs
  simp only [skOfFrame] at ht htop
  cases off with
  | none => simp [target] at ht
  | some o =>
    obtain ⟨h1, h2⟩ := target_eq ht
    simp only [exec]
    pops
    have e : ((f.pc + 1 : Nat) : Int) + o = (f.pc : Int) + 1 + o := by omega
    split
    · simp only [e, h1, if_false, Post]
      (refine ⟨_, List.mem_cons_of_mem _ (List.mem_singleton.mpr rfl), match_of_sameBut (sameBut_refl _) _ (by simp only []; omega) rfl rfl rfl rfl rfl, ?_⟩; fin_sb (sameBut_refl _))
    · simp only [Post]
      (refine ⟨_, List.mem_cons_self, match_of_sameBut (sameBut_refl _) _ rfl rfl rfl rfl rfl rfl, ?_⟩; fin_sb (sameBut_refl _))

theorem exec_jeDup (off : Option Int) : Goal sub g f wod dc (.jeDup off) := by
  intro hR hlt succs hs
  obtain ⟨htop, t, ht, rfl⟩ := sstep_jeDup hs
  simp only [skOfFrame] at ht htop
  cases off with
  | none => simp [target] at ht
  | some o =>
    obtain ⟨h1, h2⟩ := target_eq ht
    simp only [exec]
    pops
    have e : ((f.pc + 1 : Nat) : Int) + o = (f.pc : Int) + 1 + o := by omega
    split
    · simp only [e, h1, if_false]
      split
      · simp only [Post]
        have sb := push_ok_inv ‹Frame.push _ _ = Res.ok _›
        (refine ⟨_, List.mem_cons_of_mem _ (List.mem_singleton.mpr rfl), match_of_sameBut sb _ (by simp only []; omega) (by simp only [skOfFrame]; omega) rfl rfl rfl rfl, ?_⟩; fin_sb sb)
      · simp only [Post]; exact push_cast _ _ (by room)
    · simp only [Post]
      (refine ⟨_, List.mem_cons_self, match_of_sameBut (sameBut_refl _) _ rfl rfl rfl rfl rfl rfl, ?_⟩; fin_sb (sameBut_refl _))


theorem exec_blockPush : Goal sub g f wod dc .blockPush := by
  intro hR hlt succs hs
  have := sstep_blockPush hs; subst this
  simp only [exec]
  split
  · simp only [Post]; ns_leaf
  · simp only [Post]
    (refine ⟨_, List.mem_singleton.mpr rfl, match_of_sameBut (sameBut_refl _) _ rfl rfl rfl rfl rfl rfl, ?_⟩; fin_sb (sameBut_refl _))

theorem exec_fstrPush : Goal sub g f wod dc .fstrPush := by
  intro hR hlt succs hs
  have := sstep_fstrPush hs; subst this
  simp only [exec]
  split
  · simp only [Post]; ns_leaf
  · simp only [Post]
    (refine ⟨_, List.mem_singleton.mpr rfl, match_of_sameBut (sameBut_refl _) _ rfl rfl rfl rfl rfl rfl, ?_⟩; fin_sb (sameBut_refl _))

theorem exec_blockPop : Goal sub g f wod dc .blockPop := by
  intro hR hlt succs hs
  obtain ⟨t, r, hb, rfl⟩ := sstep_blockPop hs
  simp only [skOfFrame] at hb
  have ht : t < f.stack.size := by rw [hR.size]; exact hR.blocks t (by rw [hb]; exact List.mem_cons_self)
  simp only [exec, hb]
  split
  · simp only [Post]
    have sb := push_ok_inv ‹Frame.push _ _ = Res.ok _›
    (refine ⟨_, List.mem_singleton.mpr rfl, match_of_sameBut sb _ rfl rfl rfl rfl rfl rfl, ?_⟩; fin_sb sb)
  · simp only [Post]; exact push_cast _ _ (by room)

theorem exec_fstrPop : Goal sub g f wod dc .fstrPop := by
  intro hR hlt succs hs
  obtain ⟨t, r, hb, hc, rfl⟩ := sstep_fstrPop hs
  simp only [skOfFrame] at hb hc
  have ht : t < f.stack.size := by rw [hR.size]; exact hR.fblocks t (by rw [hb]; exact List.mem_cons_self)
  simp only [exec, hb]
  split
  · rename_i hne
    have hpos : 0 < f.top := by
      rcases hc with e | e
      · simp [e] at hne
      · exact e
    pops
    split
    · simp only [Post]; ns_leaf
    · split
      · simp only [Post]
        have sb := push_ok_inv ‹Frame.push _ _ = Res.ok _›
        (refine ⟨_, List.mem_singleton.mpr rfl, match_of_sameBut sb _ rfl rfl rfl rfl rfl rfl, ?_⟩; fin_sb sb)
      · simp only [Post]; exact push_cast _ _ (by room)
  · split
    · simp only [Post]
      have sb := push_ok_inv ‹Frame.push _ _ = Res.ok _›
      (refine ⟨_, List.mem_singleton.mpr rfl, match_of_sameBut sb _ rfl rfl rfl rfl rfl rfl, ?_⟩; fin_sb sb)
    · simp only [Post]; exact push_cast _ _ (by room)

theorem exec_diceInit : Goal sub g f wod dc .diceInit := by
  intro hR hlt succs hs
  have := sstep_diceInit hs; subst this
  simp only [exec, Post]
  (refine ⟨_, List.mem_singleton.mpr rfl, match_of_sameBut (sameBut_refl _) _ rfl rfl rfl rfl rfl rfl, ?_⟩; fin_sb (sameBut_refl _))

theorem exec_markDetail (b e : Int) : Goal sub g f wod dc (.markDetail b e) := by
  intro hR hlt succs hs
  have := sstep_markDetail hs; subst this
  simp only [exec, Post]
  (refine ⟨_, List.mem_singleton.mpr rfl, match_of_sameBut (sameBut_refl _) _ rfl rfl rfl rfl rfl (by simp [skOfFrame]), ?_⟩; fin_sb (sameBut_refl _))

theorem exec_wodInit : Goal sub g f wod dc .wodInit := by
  intro hR hlt succs hs
  have := sstep_wodInit hs; subst this
  simp only [exec, Post]
  (refine ⟨_, List.mem_singleton.mpr rfl, match_of_sameBut (sameBut_refl _) _ rfl rfl rfl rfl rfl rfl, ?_⟩; fin_sb (sameBut_refl _))

theorem exec_dcInit : Goal sub g f wod dc .dcInit := by
  intro hR hlt succs hs
  have := sstep_dcInit hs; subst this
  simp only [exec, Post]
  (refine ⟨_, List.mem_singleton.mpr rfl, match_of_sameBut (sameBut_refl _) _ rfl rfl rfl rfl rfl rfl, ?_⟩; fin_sb (sameBut_refl _))


theorem setHeadDice_some {F f2 : Frame} {fn : DiceState → DiceState} (h : setHeadDice F fn = some f2) : SameBut F f2 F.top := by
  unfold setHeadDice at h
  split at h
  · cases h
  · rename_i d r hd
    simp at h; subst h
    exact ⟨rfl, rfl, rfl, rfl, by simp [hd], rfl, rfl, rfl, rfl, rfl⟩

theorem setHeadDice_none {F : Frame} {fn : DiceState → DiceState} (h : setHeadDice F fn = none) : F.dice.length = 0 := by
  unfold setHeadDice at h
  split at h
  · rename_i hd; simp [hd]
  · cases h

theorem updLast_some {ds ds' : List Span} {fn : Span → Span} (h : updLast ds fn = some ds') : ds'.length = ds.length := by
  unfold updLast at h
  split at h
  · cases h
  · rename_i l rest hr
    simp at h; subst h
    have : ds.reverse.length = (l :: rest).length := by rw [hr]
    simp at this ⊢; omega

theorem updLast_none {ds : List Span} {fn : Span → Span} (h : updLast ds fn = none) : ds.length = 0 := by
  unfold updLast at h
  split at h
  · rename_i hr
    have : ds.reverse.length = 0 := by rw [hr]; rfl
    simpa using this
  · cases h

set_option hygiene false in
macro "diceSet_tac" : tactic => `(tactic| (
  intro hR hlt succs hs
  obtain ⟨htop, hdice, rfl⟩ := sstep_diceSet hs
  simp only [skOfFrame] at htop hdice
  simp only [exec]
  pops
  split_all
  all_goals simp only [Post]
  all_goals first
    | ns_leaf
    | (have sb := setHeadDice_some ‹setHeadDice _ _ = some _›
       (refine ⟨_, List.mem_singleton.mpr rfl, match_of_sameBut sb _ rfl rfl rfl rfl rfl rfl, ?_⟩; fin_sb sb))
    | (have h0 := setHeadDice_none ‹setHeadDice _ _ = none›
       (try simp only [] at h0); omega)))

theorem exec_diceSetTimes : Goal sub g f wod dc .diceSetTimes := by diceSet_tac
theorem exec_diceSetKL : Goal sub g f wod dc .diceSetKL := by diceSet_tac
theorem exec_diceSetKH : Goal sub g f wod dc .diceSetKH := by diceSet_tac
theorem exec_diceSetDL : Goal sub g f wod dc .diceSetDL := by diceSet_tac
theorem exec_diceSetDH : Goal sub g f wod dc .diceSetDH := by diceSet_tac
theorem exec_diceSetMin : Goal sub g f wod dc .diceSetMin := by diceSet_tac
theorem exec_diceSetMax : Goal sub g f wod dc .diceSetMax := by diceSet_tac


theorem exec_dice : Goal sub g f wod dc .dice := by
  intro hR hlt succs hs
  obtain ⟨htop, hdice, hdet, rfl⟩ := sstep_dice hs
  simp only [skOfFrame] at htop hdice hdet
  simp only [exec]
  cases hd : f.dice with
  | nil => simp [hd] at hdice
  | cons ds drest =>
    simp only []
    pops
    split_all
    all_goals simp only [Post]
    all_goals first
      | ns_leaf
      | exact push_cast _ _ (by room)
      | (have h0 := updLast_none ‹updLast _ _ = none›
         (try simp only [] at h0); omega)
      | (have hl := updLast_some ‹updLast _ _ = some _›
         have sb := push_ok_inv ‹Frame.push _ _ = Res.ok _›
         (try simp only [] at hl)
         (refine ⟨_, List.mem_singleton.mpr rfl, match_of_sameBut sb _ rfl (by arith) rfl rfl (by simp [skOfFrame, hd]) (by arith), ?_⟩; fin_sb sb))

theorem exec_diceFate : Goal sub g f wod dc .diceFate := by
  intro hR hlt succs hs
  obtain ⟨htop, hdet, rfl⟩ := sstep_detUse hs
  simp only [skOfFrame] at htop hdet
  simp only [exec]
  split_all
  all_goals simp only [Post]
  all_goals first
    | ns_leaf
    | exact push_cast _ _ (by room)
    | (have h0 := updLast_none ‹updLast _ _ = none›
       (try simp only [] at h0); omega)
    | (have hl := updLast_some ‹updLast _ _ = some _›
       have sb := push_ok_inv ‹Frame.push _ _ = Res.ok _›
       (try simp only [] at hl)
       (refine ⟨_, List.mem_singleton.mpr rfl, match_of_sameBut sb _ rfl (by arith) rfl rfl rfl (by arith), ?_⟩; fin_sb sb))

set_option hygiene false in
macro "coc_tac" : tactic => `(tactic| (
  intro hR hlt succs hs
  obtain ⟨htop, hdet, rfl⟩ := sstep_detUse hs
  simp only [skOfFrame] at htop hdet
  simp only [exec]
  pops
  split_all
  all_goals simp only [Post]
  all_goals first
    | ns_leaf
    | exact push_cast _ _ (by room)
    | (have h0 := updLast_none ‹updLast _ _ = none›
       (try simp only [] at h0); omega)
    | (have hl := updLast_some ‹updLast _ _ = some _›
       have sb := push_ok_inv ‹Frame.push _ _ = Res.ok _›
       (try simp only [] at hl)
       (refine ⟨_, List.mem_singleton.mpr rfl, match_of_sameBut sb _ rfl (by arith) rfl rfl rfl (by arith), ?_⟩; fin_sb sb))))

theorem exec_cocBonus : Goal sub g f wod dc .cocBonus := by coc_tac
theorem exec_cocPenalty : Goal sub g f wod dc .cocPenalty := by coc_tac


include hsub

theorem updLast_getD_len_ : True := trivial

omit hsub in
theorem updLast_getD_len (ds : List Span) (fn : Span → Span) : ((updLast ds fn).getD ds).length = ds.length := by
  cases h : updLast ds fn with
  | none => rfl
  | some d => simp [updLast_some h]

theorem exec_ldD (n : String) : Goal sub g f wod dc (.ldD n) := by
  intro hR hlt succs hs
  obtain ⟨htop, hdet, rfl⟩ := sstep_detUse hs
  simp only [skOfFrame] at htop hdet
  simp only [exec]
  split_all
  all_goals simp only [Post]
  all_goals first
    | ns_leaf
    | leaf_ns
    | (have h0 := updLast_none ‹updLast _ _ = none›
       (try simp only [] at h0); omega)
    | (have hl := updLast_some ‹updLast _ _ = some _›
       have sb := push_ok_inv ‹Frame.push _ _ = Res.ok _›
       (refine ⟨_, List.mem_singleton.mpr rfl, match_of_sameBut sb _ rfl (by arith) rfl rfl rfl (by simp only [skOfFrame, updLast_getD_len]; omega), ?_⟩; fin_sb sb))

omit hsub in
theorem getLast?_none_len {α} {l : List α} (h : l.getLast? = none) : l.length = 0 := by
  cases l with
  | nil => rfl
  | cons a t => simp at h

theorem exec_pushDefExpr : Goal sub g f wod dc .pushDefExpr := by
  intro hR hlt succs hs
  obtain ⟨hdet, hdice, rfl⟩ := sstep_defExpr hs
  simp only [skOfFrame] at hdet hdice
  simp only [exec]
  split
  · simp only [Post]; ns_leaf
  · split
    · rename_i f1 hpush
      have sb := push_ok_inv hpush
      have hd1 : f1.details.length = f.details.length := sb.details
      have hd2 : f1.dice.length = f.dice.length := sb.dice
      split_all
      all_goals simp only [Post]
      all_goals first
        | ns_leaf
        | (have h0 := getLast?_none_len ‹List.getLast? f1.details = none›; omega)
        | (have h0 : f1.dice.length = 0 := by rw [‹f1.dice = []›]; rfl
           omega)
        | (have h0 := updLast_none ‹updLast _ _ = none›; omega)
        | (refine ⟨_, List.mem_singleton.mpr rfl, match_of_sameBut sb _ rfl (by arith) rfl rfl rfl rfl, ?_⟩; fin_sb sb)
        | (have hl := updLast_some ‹updLast _ _ = some _›
           refine ⟨_, List.mem_singleton.mpr rfl, ?_, ?_⟩
           · apply match_of_sameBut (F := { f with pc := f.pc + 1 }) (t := f.top + 1)
             · exact ⟨sb.pc, sb.top, sb.blocks, sb.fblocks, sb.dice, (by show _ = f.details.length; (try simp only [] at hl); rw [hl]; exact hd1), sb.code, sb.wodPool, sb.dcPool, sb.ssize⟩
             all_goals arith
           · first | exact ⟨sb.code, sb.ssize⟩ | exact sb.code | exact sb.ssize | trivial)
    · simp only [Post]; exact push_cast _ _ (by room)


set_option hygiene false in
macro "poolset_tac" inv:term : tactic => `(tactic| (
  intro hR hlt succs hs
  obtain ⟨htop, rfl⟩ := $inv hs
  simp only [skOfFrame] at htop
  simp only [exec]
  pops
  split_all
  all_goals simp only [Post]
  all_goals first
    | ns_leaf
    | (refine ⟨_, List.mem_singleton.mpr rfl, match_of_sameBut (sameBut_refl _) _ rfl (by arith) rfl rfl rfl rfl, ?_⟩; fin_sb (sameBut_refl _))))

theorem exec_wodPool : Goal sub g f wod dc .wodPool := by poolset_tac sstep_wodSet
theorem exec_wodPoints : Goal sub g f wod dc .wodPoints := by poolset_tac sstep_wodSet
theorem exec_wodThreshold : Goal sub g f wod dc .wodThreshold := by poolset_tac sstep_wodSet
theorem exec_wodThresholdQ : Goal sub g f wod dc .wodThresholdQ := by poolset_tac sstep_wodSet
theorem exec_dcPool : Goal sub g f wod dc .dcPool := by poolset_tac sstep_dcSet
theorem exec_dcPoints : Goal sub g f wod dc .dcPoints := by poolset_tac sstep_dcSet

set_option hygiene false in
macro "poolroll_tac" inv:term : tactic => `(tactic| (
  intro hR hlt succs hs
  obtain ⟨htop, hdet, rfl⟩ := $inv hs
  simp only [skOfFrame] at htop hdet
  simp only [exec]
  pops
  split_all
  all_goals simp only [Post]
  all_goals first
    | ns_leaf
    | exact push_cast _ _ (by room)
    | (have h0 := updLast_none ‹updLast _ _ = none›
       (try simp only [] at h0); omega)
    | (have hl := updLast_some ‹updLast _ _ = some _›
       have sb := push_ok_inv ‹Frame.push _ _ = Res.ok _›
       (try simp only [] at hl)
       (refine ⟨_, List.mem_singleton.mpr rfl, match_of_sameBut sb _ rfl (by arith) rfl rfl rfl (by arith), ?_⟩; fin_sb sb))))

theorem exec_diceWod : Goal sub g f wod dc .diceWod := by poolroll_tac sstep_wodRoll
theorem exec_diceDC : Goal sub g f wod dc .diceDC := by poolroll_tac sstep_dcRoll


omit hsub in
theorem SameBut.trans {a b c : Frame} {t1 t2 : Nat} (h1 : SameBut a b t1) (h2 : SameBut b c t2) : SameBut a c t2 :=
  ⟨by rw [h2.pc, h1.pc], h2.top, by rw [h2.blocks, h1.blocks], by rw [h2.fblocks, h1.fblocks], by rw [h2.dice, h1.dice],
   by rw [h2.details, h1.details], by rw [h2.code, h1.code], by rw [h2.wodPool, h1.wodPool], by rw [h2.dcPool, h1.dcPool], by rw [h2.ssize, h1.ssize]⟩

theorem exec_popN (n : Int) : Goal sub g f wod dc (.popN n) := by
  intro hR hlt succs hs
  obtain ⟨htop, rfl⟩ := sstep_simple hs
  simp only [skOfFrame] at htop
  simp only [exec]
  split
  · rename_i vs f1 hp
    obtain ⟨_, sb⟩ := popN_ok_inv hp
    have hroom1 : f1.top < f1.stack.size := by rw [sb.top, sb.ssize]; dsimp only; omega
    simp only [Post]
    (refine ⟨_, List.mem_singleton.mpr rfl, match_of_sameBut sb _ rfl (by arith) rfl rfl rfl rfl, ?_⟩; fin_sb sb)
  · simp only [Post]; exact popN_cast (by simp only []; omega)

theorem exec_pushArr (n : Int) : Goal sub g f wod dc (.pushArr n) := by
  intro hR hlt succs hs
  obtain ⟨htop, rfl⟩ := sstep_simple hs
  simp only [skOfFrame] at htop
  simp only [exec]
  split
  · rename_i vs f1 hp
    obtain ⟨_, sb⟩ := popN_ok_inv hp
    have hroom1 : f1.top < f1.stack.size := by rw [sb.top, sb.ssize]; dsimp only; omega
    split_all
    all_goals simp only [Post]
    · have sb2 := push_ok_inv ‹Frame.push _ _ = Res.ok _›
      (refine ⟨_, List.mem_singleton.mpr rfl, match_of_sameBut (sb.trans sb2) _ rfl (by simp only [skOfFrame, sb.top]) rfl rfl rfl rfl, ?_⟩; fin_sb (sb.trans sb2))
    · exact push_cast _ _ (by room)
  · simp only [Post]; exact popN_cast (by simp only []; omega)

theorem exec_pushDict (n : Int) : Goal sub g f wod dc (.pushDict n) := by
  intro hR hlt succs hs
  obtain ⟨htop, rfl⟩ := sstep_simple hs
  simp only [skOfFrame] at htop
  simp only [exec]
  have e : (n * 2).toNat = 2 * n.toNat := by omega
  split
  · rename_i vs f1 hp
    obtain ⟨_, sb⟩ := popN_ok_inv hp
    have hroom1 : f1.top < f1.stack.size := by rw [sb.top, sb.ssize]; dsimp only; omega
    split_all
    all_goals simp only [Post]
    all_goals first
      | ns_leaf
      | exact push_cast _ _ (by room)
      | (have sb2 := push_ok_inv ‹Frame.push _ _ = Res.ok _›
         (refine ⟨_, List.mem_singleton.mpr rfl, match_of_sameBut (sb.trans sb2) _ rfl (by simp only [skOfFrame, sb.top, e]) rfl rfl rfl rfl, ?_⟩; fin_sb (sb.trans sb2)))
  · simp only [Post]; exact popN_cast (by simp only [e]; omega)

theorem exec_invoke (n : Int) : Goal sub g f wod dc (.invoke n) := by
  intro hR hlt succs hs
  obtain ⟨htop, rfl⟩ := sstep_simple hs
  simp only [skOfFrame] at htop
  simp only [exec]
  split
  · rename_i vs f1 hp
    obtain ⟨_, sb⟩ := popN_ok_inv hp
    have hroom1 : f1.top < f1.stack.size := by rw [sb.top, sb.ssize]; dsimp only; omega
    have ht1 : 0 < f1.top := by rw [sb.top]; simp only []; omega
    rw [pop_eq f1 ht1]
    dsimp only
    have sb1 : SameBut f1 { f1 with top := f1.top - 1, lastPop := .slot (f1.top - 1) } (f1.top - 1) := ⟨rfl, rfl, rfl, rfl, rfl, rfl, rfl, rfl, rfl, rfl⟩
    split_all
    all_goals simp only [Post]
    all_goals first
      | ns_leaf
      | leaf_ns
      | (have sb2 := push_ok_inv ‹Frame.push _ _ = Res.ok _›
         (refine ⟨_, List.mem_singleton.mpr rfl, match_of_sameBut ((sb.trans sb1).trans sb2) _ rfl (by simp only [skOfFrame, sb.top]; omega) rfl rfl rfl rfl, ?_⟩; fin_sb ((sb.trans sb1).trans sb2)))
  · simp only [Post]; exact popN_cast (by simp only []; omega)

theorem exec_ldFs (n : Int) : Goal sub g f wod dc (.ldFs n) := by
  intro hR hlt succs hs
  obtain ⟨htop, rfl⟩ := sstep_simple hs
  simp only [skOfFrame] at htop
  simp only [exec]
  split_all
  all_goals simp only [Post]
  all_goals first
    | ns_leaf
    | exact push_cast _ _ (by room)
    | (have sb2 := push_ok_inv ‹Frame.push _ _ = Res.ok _›
       (refine ⟨_, List.mem_singleton.mpr rfl, match_of_sameBut sb2 _ rfl (by arith) rfl rfl rfl rfl, ?_⟩; fin_sb sb2))


/-- **exec refines the skeleton**, for every instruction -/
theorem exec_refines (ins : Instr) : Goal sub g f wod dc ins := by
  cases ins with
  | pushInt i => exact exec_pushInt sub hsub g f wod dc i
  | pushFlt x => exact exec_pushFlt sub hsub g f wod dc x
  | pushStr x => exact exec_pushStr sub hsub g f wod dc x
  | pushArr n => exact exec_pushArr sub hsub g f wod dc n
  | pushDict n => exact exec_pushDict sub hsub g f wod dc n
  | pushRange => exact exec_pushRange sub hsub g f wod dc
  | pushConst v => exact exec_pushConst sub hsub g f wod dc v
  | pushNull => exact exec_pushNull sub hsub g f wod dc
  | pushThis => exact exec_pushThis sub hsub g f wod dc
  | pushLast => exact exec_pushLast sub hsub g f wod dc
  | pushDefExpr => exact exec_pushDefExpr sub hsub g f wod dc
  | ldFs n => exact exec_ldFs sub hsub g f wod dc n
  | ld n => exact exec_ld sub hsub g f wod dc n
  | ldD n => exact exec_ldD sub hsub g f wod dc n
  | ldRaw n => exact exec_ldRaw sub hsub g f wod dc n
  | store n => exact exec_store sub g f wod dc n
  | noop n => exact exec_noop sub hsub g f wod dc n
  | invoke n => exact exec_invoke sub hsub g f wod dc n
  | itemGet => exact exec_itemGet sub hsub g f wod dc
  | itemSet => exact exec_itemSet sub hsub g f wod dc
  | attrGet n => exact exec_attrGet sub hsub g f wod dc n
  | attrSet n => exact exec_attrSet sub hsub g f wod dc n
  | sliceGet => exact exec_sliceGet sub hsub g f wod dc
  | sliceSet => exact exec_sliceSet sub hsub g f wod dc
  | bin op => exact exec_bin sub hsub g f wod dc op
  | logicAnd => exact exec_logicAnd sub hsub g f wod dc
  | neg => exact exec_neg sub hsub g f wod dc
  | pos => exact exec_pos sub hsub g f wod dc
  | diceInit => exact exec_diceInit sub g f wod dc
  | diceSetTimes => exact exec_diceSetTimes sub g f wod dc
  | diceSetKL => exact exec_diceSetKL sub g f wod dc
  | diceSetKH => exact exec_diceSetKH sub g f wod dc
  | diceSetDL => exact exec_diceSetDL sub g f wod dc
  | diceSetDH => exact exec_diceSetDH sub g f wod dc
  | diceSetMin => exact exec_diceSetMin sub g f wod dc
  | diceSetMax => exact exec_diceSetMax sub g f wod dc
  | dice => exact exec_dice sub g f wod dc
  | diceCustom => exact exec_diceCustom sub hsub g f wod dc
  | cocPenalty => exact exec_cocPenalty sub g f wod dc
  | cocBonus => exact exec_cocBonus sub g f wod dc
  | diceFate => exact exec_diceFate sub g f wod dc
  | diceWod => exact exec_diceWod sub hsub g f wod dc
  | wodInit => exact exec_wodInit sub g f wod dc
  | wodPool => exact exec_wodPool sub hsub g f wod dc
  | wodPoints => exact exec_wodPoints sub hsub g f wod dc
  | wodThreshold => exact exec_wodThreshold sub hsub g f wod dc
  | wodThresholdQ => exact exec_wodThresholdQ sub hsub g f wod dc
  | diceDC => exact exec_diceDC sub hsub g f wod dc
  | dcInit => exact exec_dcInit sub g f wod dc
  | dcPool => exact exec_dcPool sub hsub g f wod dc
  | dcPoints => exact exec_dcPoints sub hsub g f wod dc
  | halt => exact exec_halt sub g f wod dc
  | markDetail b e => exact exec_markDetail sub g f wod dc b e
  | pop => exact exec_pop sub hsub g f wod dc
  | popN n => exact exec_popN sub hsub g f wod dc n
  | jmp o => exact exec_jmp sub g f wod dc o
  | je o => exact exec_je sub g f wod dc o
  | jne o => exact exec_jne sub g f wod dc o
  | jeDup o => exact exec_jeDup sub g f wod dc o
  | ret => exact exec_ret sub g f wod dc
  | fstrPush => exact exec_fstrPush sub g f wod dc
  | fstrPop => exact exec_fstrPop sub g f wod dc
  | blockPush => exact exec_blockPush sub g f wod dc
  | blockPop => exact exec_blockPop sub g f wod dc
  | stSet => exact exec_stSet sub hsub g f wod dc
  | stMod a b => exact exec_stMod sub hsub g f wod dc a b
  | stX0 => exact exec_stX0 sub hsub g f wod dc
  | stX1 => exact exec_stX1 sub hsub g f wod dc

end DS.VM
