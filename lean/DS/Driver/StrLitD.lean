import DS.Driver.Common
import DS.Model.StrLit
namespace DS.Driver
open DS.StrLit

def qOf (t : String) : Option Char :=
  if t == "1" then some '\'' else if t == "2" then some '"' else if t == "3" then some '`'
  else if t == "4" then some '\x1e' else none

def hxc (l : List Char) : String := DS.Hex.encode (String.ofList l)

def strlitLine (toks : List String) : String :=
  match toks with
  | ["strscan", q, body] =>      -- what the literal `q body q` denotes
    match qOf q, DS.Hex.decode body with
    | some q, some b =>
      match scan q (b.toList ++ [q]) [] with
      | .closed v [] => "ok " ++ hxc v
      | .closed v r => "early " ++ hxc v ++ " " ++ hxc r
      | .hole v r => "hole " ++ hxc v ++ " " ++ hxc r
      | .unterminated => "err"
    | _, _ => "bad-op"
  | ["strescape", q, text] =>    -- the documented literal for a text
    match qOf q, DS.Hex.decode text with
    | some q, some s => hxc (escape q s.toList)
    | _, _ => "bad-op"
  | _ => "bad-op"

end DS.Driver
