"""C03 — the result belongs to the consumed text (Matched / RestInput contract).

Proof: DS/Props/C03.lean — `matched_rest` (Matched ++ RestInput = input, Matched = consumed text without trailing white
space, for every input and stopping offset); `lookahead_contributes_nothing` — engine-generic `skip_pure` (DS/Proofs/
PegSkip.lean) instantiated by kernel evaluation on the REGENERATED grammar: whatever a look-ahead predicate inspects,
ParserData (flags, flags stack, loop bookkeeping, emitted code) is unchanged.  What the code does NOT guarantee — text an
ordinary alternative consumed and gave back can leave code behind, because a failing sequence restores only the text position
— is the known finding C03-emit-then-fail-leak; the engine model reproduces it opcode for opcode (peg stream).
Tie: peg stream (success, offset, emission trace) on <valid program><tail> inputs; matchrest stream (Matched / RestInput from
the final offset).  Oracle on the implementation: run the whole input; run Matched alone from the same seed and prior state;
value, process text, variables, final seed must agree, Matched alone must be consumed entirely.
"""
from lib.common import Run, hx, unhx, go_child, lean_child, fingerprint_mismatches
from lib.proggen import ProgGen
from lib.props.c08 import STRUCT, TAILS

MORE_TAILS = [" {'a':1", "\n{'a':1", ";{'a':1", " [1,2", " f(1,", " x[1", " x.y.", " `a{1", " 'abc", ' "abc', " if 1 {2", " while 1 {", " func f(", " func f(){", " &c=", " ? 1 :",
              " 1 +", " reason text", " 理由", "　全角", " (", " ((1)", " {", " {%", " -", " !", " !=", " == 2 ==", " 2 3", "\t\n x y", " d", " 2d", " d(", " 3dk", " 2d6k", " b", " a", "a",
              " .5", " 1..", " [1..", " x=", " x==", " &", " &&", " |", " ||", " ?", " ??", " ,", " ;", " ;;", " //c", " /*", " #", " @", " $", " \\", " \x00", " \xff"]
# complete-looking constructs that fail at the very end (a blank before a closer is not allowed), as a new statement and as an operand
ALMOST = ["{'a':1, }", "{'a':1 }", "{'x': k=9, }", "{'a':1,\n}", "[1,2, ]", "[1 ]", "[k=9 ]", "(1 )", "(k=9 )", "abs(1 )", "abs(k=9, )", "x[1 ]", "x[k=9 ]", "x[1:2 ]",
          "`a{1 }", "{'a':1}[ 'a' ]", "[1,2][1 ]", "{'a': [1, {'b': 2, }]}", "[[1], [2, ]]", "(1, 2)", "{'a' :1}", "{ 'a':1 ,}", "{a:1 }", "{'a':1}.a.b.( )"]
MORE_TAILS += [pre + a for a in ALMOST for pre in (";", "\n", " + ", " ")]
# carriage returns before an unparsable tail belong to RestInput like any other blank
MORE_TAILS += ["\r\n（攻击）", "\r", " \r", "\r\n#check", "\r\n x y", "\t\r\n\r\n)", " \r\n \r\n理由", "\x0b", "\x0c", "\u00a0x", "\u3000"]
# white space only, up to the very end of the input
MORE_TAILS += [" ", "  ", "\t", "\n", "\r\n", " \n ", "\n\n", " \t \r\n"]
ALL_TAILS = TAILS + MORE_TAILS


def main(tier):
    run = Run("C03", tier, module="DS.Props.C03", props_file="DS/Props/C03.lean",
              extra_files=["DS/Proofs/PegSkip.lean", "DS/Model/Peg.lean", "DS/Props/C16Defs.lean"])
    if run.prepare():
        run.proofs()
        r = run.rng
        fp = fingerprint_mismatches()
        for name in fp:
            run.broken.append(("fingerprint:ParserData." + name, "the body differs from lib/fingerprints_expected.json (the engine model implements this method by name)"))
        widen = 3 if fp else 1
        CF = ["-", "wcfd", "w", "c", "f", "d", "S", "N", "B", "wcfd,S,N,B"]
        cases = []  # (prior, src bytes, cfg)
        for s in ["2d(6)", "3d(4)k(2)", "b(2)", "p(1)", "2a(10)", "(2)d(6)", "1 + 2d(6)", "x = 2d(3+3)", "d(20)", "2d6max(3)", "3c(8)", "(1+1)d(2+4)"]:
            for t in [" ", "  ", "\t", "\n", "\r\n", " \n ", "", " reason", "\n理由"]:
                cases.append(("", (s + t).encode("utf-8"), "wcfd"))
        # a dice term whose modifier is followed by an operand that breaks off: the term ends before the modifier's operand would begin,
        # and nothing of the attempt is left in the code (each modifier spelling, each bracket kind the operand may start with)
        for term in ["2d20", "4d6", "3D10", "2d", "d20"]:
            for mod in ["k", "kh", "kl", "q", "dh", "dl", "min", "max"]:
                if term in ("d20",) and mod in ("k", "kh", "kl", "q", "dh", "dl"):
                    continue
                for tail in ["(1 for the lucky roll)", "(5 at least", "(2 x", "(1 +", "(", "(1", "(1 2)", "( )", "(1,2)", "((1)"]:
                    cases.append(("", (term + mod + tail).encode("utf-8"), r.choice(["-", "wcfd"])))
                    cases.append(("", ("1 + " + term + mod + tail).encode("utf-8"), "-"))
        # consumed text ending in a character whose LAST BYTE looks like a blank when read alone (0x85, 0xA0): Matched ends after the character
        for nm in ["乔装", "魅", "你", "映", "a = '装'; 装", "力量 + 魅", "x装", "[1,2].len() + 你"]:
            for t in [" 检定", " ", "\t#", "\n理由", "", " 你 好"]:
                cases.append(("", (nm + t).encode("utf-8"), "-"))
        # CR LF between statements (as LF): the whole program is consumed
        for prog in ["a = 1\r\na + 1", "5\r\n6", "x = 2d1\r\n\r\ny = x + 1\r\ny", "a = 1 \r\n a + 1", "`{% a = 1\r\na + 2 %}`", "i = 0\r\nwhile i < 2 { i = i + 1 }\r\ni"]:
            for t in ["", " ", "\r\n", "\r\n#x", " tail"]:
                cases.append(("", (prog + t).encode("utf-8"), "-"))
        # an indexed array / range literal followed by a bracket that starts an expression but is not a complete index: every index is
        # looked at before its code is written, the second and later ones too
        for base in ["[[1,2],[3]][0]", "[[1..3]][0]", "x = [[4,5],[6]][0]", "[1,2,3][1]", "[[1,2],[3]][0][1]", "[2..5][1]", "[[[1]]][0][0]", "1 + [[1,2],[3]][0][0]"]:
            for t in ["[1 x", "\n[7, 8", " [0:1 and so on", "[1:", "\n[9 ", "[", "[0", "[0 1]", " [1,", "[0][", "[0][1 x", "[0:1][2 x"]:
                cases.append(("", (base + t).encode("utf-8"), "-"))
        # a counted CoC die / an index chain whose next element breaks off: looked at before compiled (formerly known leak sites)
        for src in ["p(1) bp", "b(0) 1 = 2", "1+b(3)x", "b(2)y + 1", "p(1+1)z", "x[1] [1,", "a=[[1]]; a[0][1 x", "x = [1,2]; x[0] [", "y = {'k': [1]}; y['k'][0][", "b(3)+1 [2", "B(1)b"]:
            cases.append(("x = [1,2]", src.encode("utf-8"), "wcfd"))
        # statement-level tails that START a construct which writes into its own code buffer (computed value, function) and then break off
        STMT_TAILS = ["; &note = ???", ";&c=", "\n&c = )", "; &c = 1 +", "; &c.x = ", "; func f(", "; func f() {", "; func f() { 1 +", "; &c = `a{", "; if 1 {", "; while 1 { &d = "]
        for s in ["hp = 10; hp = hp - 3", "a = 3d6", "x = 1; y = x + 1", "2d6 + 1", "i=0; while i<3 { i=i+1 }; i", "&q = 2; q + 1", "func g(){ 5 }; g()"]:
            for t in STMT_TAILS:
                cases.append(("hp = 10", (s + t).encode("utf-8"), r.choice(["-", "wcfd"])))
        for s in STRUCT:
            for t in r.sample(ALL_TAILS, 5 * widen):
                cases.append(("", (s + t).encode("utf-8", "replace"), r.choice(CF)))
        n = (3000 if tier == "thorough" else 700) * widen
        for _ in range(n):
            g = ProgGen(r, illtyped=0.04)
            prior = ""
            if r.random() < 0.3:
                prior, _ = g.program(r.randint(1, 2))
            src, c2 = g.program(r.randint(1, 3))
            t = r.choice(ALL_TAILS)
            if r.random() < 0.15:
                t = ""
            cases.append((prior, (src + t).encode("utf-8", "replace"), c2 or "-"))
        # ---- (a) peg stream
        lines = [f"pegtrace {cfg} {hx(src)}" for prior, src, cfg in cases]
        g_out = go_child().run(lines)
        m_out = lean_child().run(lines)
        st = run.streams.setdefault("peg", {"cases": 0, "agree": 0})
        offs = []
        for (prior, src, cfg), a, b in zip(cases, g_out, m_out):
            st["cases"] += 1
            run.evaluations += 1
            if a == b:
                st["agree"] += 1
            else:
                run.violation("correspondence:peg", {"stream": "peg", "source": src.decode("utf-8", "replace"), "cfg": cfg, "implementation": a[:400], "model": b[:400]})
            f = a.split()
            offs.append(int(f[1]) if f and f[0] == "ok" else None)
        # ---- (b) matchrest stream + (c) metamorphic oracle
        sel = [(c, o) for c, o in zip(cases, offs) if o is not None]
        sp_lines = [f"splitrun {cfg},L30000 {r.getrandbits(128):032x} {hx(prior)} {hx(src)}" for (prior, src, cfg), o in sel]
        sp_out = go_child(line_timeout=20).run(sp_lines)
        mr_lines = [f"matchrest {o} {hx(src)}" for (prior, src, cfg), o in sel]
        mr_out = lean_child().run(mr_lines)
        # emission traces of Matched alone, for the leak classification
        ms = run.streams.setdefault("matchrest", {"cases": 0, "agree": 0})
        leak_checks = []
        for ((prior, src, cfg), o), sp, mr in zip(sel, sp_out, mr_out):
            run.evaluations += 1
            text = src.decode("utf-8", "replace")
            parts = sp.split(" ## ")
            rep = {"prior": prior, "source": text, "source_hex": src.hex(), "cfg": cfg, "parsed_offset": o, "implementation": sp[:700]}
            if sp.startswith("died") or sp.startswith("panic"):
                leak_checks.append((prior, src, cfg, o, "crash", rep))
                continue
            if not parts[0].startswith("ok "):
                run.count("oracle.whole-run-error")
                continue
            f1 = dict(x.split("=", 1) for x in parts[0].split()[2:] if "=" in x)
            # matchrest: the model's Matched / RestInput from the offset
            ms["cases"] += 1
            if mr == f"m={f1.get('m')} r={f1.get('r')}":
                ms["agree"] += 1
            else:
                run.violation("correspondence:matchrest", dict(rep, model=mr))
            m_bytes = unhx(f1.get("m", "-"))
            r_bytes = unhx(f1.get("r", "-"))
            if m_bytes + r_bytes != src:
                run.violation("matched+rest != input", rep)
            run.nontriv(("split", src, cfg, prior))
            run.count("oracle.rest-empty" if not r_bytes else "oracle.rest-nonempty")
            if len(parts) < 4:
                run.violation("splitrun:shape", rep)
                continue
            o1 = parts[0].split()
            o2 = parts[1].split()
            f2 = dict(x.split("=", 1) for x in o2[2:] if "=" in x) if o2 and o2[0] == "ok" else {}
            diffs = []
            if not o2 or o2[0] != "ok":
                diffs.append("Matched alone fails: " + parts[1][:120])
            else:
                if o1[1] != o2[1]:
                    diffs.append("value")
                d1 = unhx(f1.get("d", "-")).decode("utf-8", "replace")
                if f1.get("d") != f2.get("d"):
                    diffs.append("process text")
                if f1.get("seed") != f2.get("seed"):
                    diffs.append("final seed")
                if f2.get("r") != "-" or f2.get("m") != f1.get("m"):
                    diffs.append("Matched alone is not consumed entirely")
                if parts[2].replace("vars1=", "") != parts[3].replace("vars2=", ""):
                    diffs.append("variables")
            if diffs:
                leak_checks.append((prior, src, cfg, o, ", ".join(diffs), dict(rep, differs=diffs)))
            else:
                run.count("oracle.agree")
        # classification: a disagreement is the emit-then-fail leak iff the emission trace of the whole input differs from the
        # trace of Matched alone (the tail made the parser write code that is not Matched's)
        if leak_checks:
            def matched_of(src, o):
                return src[:o]
            tl = [f"pegtrace {cfg} {hx(matched_of(src, o).rstrip())}" for prior, src, cfg, o, what, rep in leak_checks]
            tw = [f"pegtrace {cfg} {hx(src)}" for prior, src, cfg, o, what, rep in leak_checks]
            ta = go_child().run(tl)
            tb = go_child().run(tw)
            # where the leak happened: the engine model's journal (rule in which a sequence failed after writing code)
            sites = lean_child().run([f"pegleaks {cfg} {hx(src)}" for prior, src, cfg, o, what, rep in leak_checks])
            known_sites = set(run.known.get("C03-emit-then-fail-leak", {}).get("witness", {}).get("sites", []))
            for (prior, src, cfg, o, what, rep), a, b, ls in zip(leak_checks, ta, tb, sites):
                rep["trace_matched_alone"] = a[:300]
                rep["trace_whole"] = b[:300]
                rep["leak_sites"] = ls
                wa = a.split()
                wb = b.split()
                here = set(ls.split()[1].split(",")) if ls.startswith("ok ") and ls.split()[1] != "-" else set()
                if wa and wb and wa[0] == "ok" and wb[0] == "ok" and wa[-1] != wb[-1] and o < len(src) and here:
                    new = here - known_sites
                    # per-site class: the leak at `sub` is known only inside an st command (site_conditions in known_findings.json)
                    if "sub" in here and not src.decode("utf-8", "replace").lstrip().startswith("^st"):
                        new = new | {"sub(outside an st command)"}
                    if new:
                        run.violation("new-emit-then-fail-site:" + ",".join(sorted(new)), rep)
                    else:
                        run.known_finding("C03-emit-then-fail-leak", rep)
                        for s_ in here:
                            run.count("oracle.leak@" + s_)
                else:
                    run.violation("matched-alone-differs:" + what, rep)
        run.sample({"stream": "peg", "line": lines[0][:200], "out": g_out[0][:200]})
        if sp_lines:
            run.sample({"oracle": "splitrun", "line": sp_lines[0][:200], "out": sp_out[0][:300]})
    return run.finish(
        trusted=["Lean 4.33 kernel (incl. kernel evaluation `decide +kernel`)", "axioms: propext, Classical.choice, Quot.sound",
                 "the translator harness/extract (grammar literal, action digests) — validated by the peg stream's emission traces",
                 "Go harness + emission-trace hook + Lean driver"],
        rule="<valid program><tail>: structural corpus and generated programs (30% with a prior program on the same VM) x 100 tails that begin like a literal, "
             "call, index, dict, block, template hole, operator, comment, text, full-width space, invalid bytes and break off x flag settings; "
             "non-trivial = the whole input parsed (metamorphic pair executed)",
        assumptions=["prefix-closure of the grammar (Matched alone parses to the same offset) is validated by the oracle, not proved: PEG look-aheads read beyond the match"])
