/-
  C08 — every compiled program is structurally well-formed bytecode.

  `Reach code s`: the skeleton state `s` is reachable from the initial state by ANY sequence of skeleton steps — both
  directions of every conditional jump, any number of loop iterations, no bound on the length of the run.
  `verified_never_stuck`: if the certificate check accepts an annotation for `code`, then at every reachable state inside
  the code the next instruction is not a structural fault: it does not pop an empty stack, its jump has an operand and
  lands in [0, size], its block.pop / fstr.block.pop has a matching push, and the dice / annotation / pool-dice state it
  uses was set up by an earlier instruction.
  `same_open_blocks`: every reachable state at one program point has the same numbers of open blocks and template holes
  (they are fixed by the annotation).
  The verifier is run on the real compiler's output for every accepted input (lib/props/c08.py); the skeleton is tied to
  the VM by the D1/D2 run-time cross-check (DS/Model/VerifyRun.lean).
-/
import DS.Proofs.VerifyLemmas

namespace DS.Props.C08
open DS.VM DS.Verify

inductive Reach (code : Code) : SK → Prop
  | init : Reach code SK.init
  | step {s s' : SK} {l : List SK} : Reach code s → s.pc < code.size →
      sstep code.size (kindOf code[s.pc]!) s = some l → s' ∈ l → Reach code s'

/-- what the certificate check establishes -/
structure Cert (code : Code) (ann : Ann) : Prop where
  init : 0 < code.size → ∃ a0, ann[0]! = some a0 ∧ a0.le Abs.init = true
  closed : ∀ pc, pc < code.size → ∀ a, ann[pc]! = some a →
    ∃ succs, transfer code.size pc (kindOf code[pc]!) a = .ok succs ∧
      ∀ p ∈ succs, code.size ≤ p.1 ∨ ∃ b, ann[p.1]! = some b ∧ b.le p.2 = true

theorem checkAnn_cert (code : Code) (ann : Ann) (h : checkAnn code ann = true) : Cert code ann := by
  simp only [checkAnn, Bool.and_eq_true, beq_iff_eq, List.all_eq_true, List.mem_range] at h
  obtain ⟨⟨hsz, h0⟩, hall⟩ := h
  constructor
  · intro hpos
    have hlt : 0 < ann.size := by omega
    have e1 : ann[0]? = some ann[0] := Array.getElem?_eq_getElem hlt
    have e2 : ann[0]! = ann[0] := getElem!_pos ann 0 hlt
    rw [e1] at h0
    cases hv : ann[0] with
    | none => rw [hv] at h0; simp at h0
    | some a0 => rw [hv] at h0; exact ⟨a0, by rw [e2, hv], h0⟩
  · intro pc hpc a ha
    have := hall pc hpc
    rw [ha] at this
    simp only at this
    split at this
    · cases this
    · rename_i succs hs
      refine ⟨succs, hs, ?_⟩
      intro p hp
      simp only [List.all_eq_true] at this
      have hp' := this p hp
      simp only [Bool.or_eq_true, decide_eq_true_eq] at hp'
      rcases hp' with hp' | hp'
      · exact Or.inl hp'
      · right
        split at hp'
        · rename_i b hb; exact ⟨b, hb, hp'⟩
        · cases hp'

theorem verifyCode_cert (code : Code) (ann : Ann) (h : verifyCode code = .ok ann) : Cert code ann := by
  simp only [verifyCode] at h
  split at h
  · cases h
  · split at h
    · rename_i hc; injection h with h; subst h; exact checkAnn_cert _ _ hc
    · cases h

theorem rel_init : Rel Abs.init SK.init := by
  refine ⟨by simp [base, SK.init, Abs.init], by simp [Tail, SK.init, Abs.init], by simp [SK.init, Abs.init], ?_, ?_, ?_⟩ <;>
    simp [Abs.init]

/-- the invariant: every reachable state inside the code is described by the annotation of its program point -/
theorem reach_inv (code : Code) (ann : Ann) (hc : Cert code ann) (s : SK) (hr : Reach code s) :
    s.pc < code.size → ∃ a, ann[s.pc]! = some a ∧ Rel a s := by
  induction hr with
  | init =>
    intro hpos
    obtain ⟨a0, h0, hle⟩ := hc.init hpos
    exact ⟨a0, h0, le_sound _ _ _ hle rel_init⟩
  | step hreach hpc hstep hmem ih =>
    rename_i s s' l
    intro hpc'
    obtain ⟨a, ha, hrel⟩ := ih hpc
    obtain ⟨succs, ht, hclosed⟩ := hc.closed s.pc hpc a ha
    have hg := transfer_sound code.size (kindOf code[s.pc]!) a s succs hrel ht
    rw [hstep] at hg
    obtain ⟨p, hp, hpcEq, hrel'⟩ := hg s' hmem
    rcases hclosed p hp with hge | ⟨b, hb, hle⟩
    · omega
    · exact ⟨b, by rw [← hpcEq]; exact hb, le_sound _ _ _ hle hrel'⟩

/-- C08, main theorem: verified code never reaches a structural fault, on any path, at any depth -/
theorem verified_never_stuck (code : Code) (ann : Ann) (hv : verifyCode code = .ok ann) (s : SK) (hr : Reach code s)
    (hpc : s.pc < code.size) : (sstep code.size (kindOf code[s.pc]!) s).isSome = true := by
  have hc := verifyCode_cert code ann hv
  obtain ⟨a, ha, hrel⟩ := reach_inv code ann hc s hr hpc
  obtain ⟨succs, ht, _⟩ := hc.closed s.pc hpc a ha
  have hg := transfer_sound code.size (kindOf code[s.pc]!) a s succs hrel ht
  cases hs : sstep code.size (kindOf code[s.pc]!) s with
  | none => rw [hs] at hg; exact hg.elim
  | some l => rfl

/-- every reachable state has its program counter in [0, size]: jumps land inside the code or exactly one past its end -/
theorem verified_targets_in_bounds (code : Code) (s : SK) (hr : Reach code s) : s.pc ≤ code.size := by
  cases hr with
  | init => simp [SK.init]
  | step hreach hpc hstep hmem => exact sstep_pc_le _ _ _ _ _ hpc hstep hmem

/-- each program point is always reached with the same numbers of open blocks and template holes -/
theorem same_open_blocks (code : Code) (ann : Ann) (hv : verifyCode code = .ok ann) (s₁ s₂ : SK)
    (h₁ : Reach code s₁) (h₂ : Reach code s₂) (hpc : s₁.pc = s₂.pc) (hin : s₁.pc < code.size) :
    s₁.blocks.length = s₂.blocks.length ∧ s₁.fblocks.length = s₂.fblocks.length := by
  have hc := verifyCode_cert code ann hv
  obtain ⟨a₁, ha₁, r₁⟩ := reach_inv code ann hc s₁ h₁ hin
  obtain ⟨a₂, ha₂, r₂⟩ := reach_inv code ann hc s₂ h₂ (by omega)
  rw [hpc] at ha₁
  have : a₁ = a₂ := by rw [ha₁] at ha₂; injection ha₂
  subst this
  have l₁ := tail_lengths _ _ _ r₁.2.1
  have l₂ := tail_lengths _ _ _ r₂.2.1
  omega

/-! ### what "not stuck" means, instruction by instruction (the faults the property lists) -/

theorem stuck_pop (size p q : Nat) (s : SK) : (sstep size (.simple p q) s).isSome = true ↔ p ≤ s.top := by
  simp only [sstep]; split <;> simp <;> omega

theorem stuck_jump (size : Nat) (off : Option Int) (s : SK) :
    (sstep size (.jmp off) s).isSome = true ↔ ∃ o, off = some o ∧ 0 ≤ (s.pc : Int) + 1 + o ∧ (s.pc : Int) + 1 + o ≤ size := by
  simp only [sstep, target]
  cases off with
  | none => simp
  | some o =>
    simp only
    split
    · rename_i h
      split at h
      · cases h
      · rename_i hc
        simp only [Bool.or_eq_true, decide_eq_true_eq, not_or, Int.not_lt] at hc
        simp; omega
    · rename_i h
      split at h
      · rename_i hc
        simp only [Bool.or_eq_true, decide_eq_true_eq] at hc
        simp; omega
      · cases h

theorem stuck_blockPop (size : Nat) (s : SK) : (sstep size .blockPop s).isSome = true ↔ s.blocks ≠ [] := by
  simp only [sstep]; cases s.blocks <;> simp

theorem stuck_dice (size : Nat) (s : SK) : (sstep size .dice s).isSome = true ↔ 1 ≤ s.top ∧ 1 ≤ s.dice ∧ 1 ≤ s.det := by
  simp only [sstep]; split <;> rename_i h <;> simp at h ⊢ <;> omega

/-! ### non-vacuity: a loop with a conditional exit verifies; malformed code does not -/

def loopCode : Code := #[.pushInt 0, .blockPush, .pushInt 1, .jne (some 3), .pushInt 7, .pop, .jmp (some (-5)), .blockPop]

example : (verifyCode loopCode).isOk = true := by decide
example : (verifyCode #[.pop]).isOk = false := by decide
example : (verifyCode #[.jmp none]).isOk = false := by decide
example : (verifyCode #[.blockPop]).isOk = false := by decide
example : (verifyCode #[.pushInt 1, .je (some 1), .blockPush, .blockPop]).isOk = false := by decide
example : (verifyCode #[.pushInt 6, .dice]).isOk = false := by decide

end DS.Props.C08
