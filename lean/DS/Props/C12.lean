/-
  C12 — ValueMap is a correct map (sequential part): for EVERY history of Store, Load, LoadOrStore,
  LoadAndDelete, Delete, Clear, Range and Length calls the results equal those of an ordinary
  string-keyed map.  Refinement of the two-level read/dirty model to `String → Option α`.
  Property theorems only (helper lemmas: DS/Proofs/VMapLemmas.lean).
-/
import DS.Proofs.VMapLemmas

namespace DS.Props.C12
open DS.VMap DS.Proofs.VMapL

variable {α : Type}

/-- the ordinary map: what each operation does to the contents -/
def specNext (m : String → Option α) : Op α → (String → Option α)
  | .load _ => m
  | .store k v => upd m k (some v)
  | .loadOrStore k v => match m k with
    | some _ => m
    | none => upd m k (some v)
  | .loadAndDelete k => upd m k none
  | .delete k => upd m k none
  | .clear => fun _ => none
  | .range => m
  | .length => m

/-- `l` lists exactly the live pairs of `m`, each key once -/
def LivePairs (m : String → Option α) (l : List (String × α)) : Prop :=
  (l.map Prod.fst).Nodup ∧ ∀ k v, (k, v) ∈ l ↔ m k = some v

/-- the ordinary map: what each operation returns -/
def RetOK (m : String → Option α) : Op α → Ret α → Prop
  | .load k, r => r = .val (m k)
  | .store _ _, r => r = .unit
  | .loadOrStore k v, r => r = (match m k with
    | some x => .los x true
    | none => .los v false)
  | .loadAndDelete k, r => r = .val (m k)
  | .delete _, r => r = .unit
  | .clear, r => r = .unit
  | .range, r => ∃ l, r = .pairs l ∧ LivePairs m l
  | .length, r => ∃ l, r = .len l.length ∧ LivePairs m l

/-! ### one theorem per operation: invariant kept, return value and new contents as the ordinary map -/

theorem load_refines (s : St α) (hi : Inv s) (k : String) :
    Inv (load s k).2 ∧ (load s k).1 = abs s k ∧ abs (load s k).2 = abs s := by
  cases hr : s.inRead k with
  | true => rw [load_read s k hr]; exact ⟨hi, rfl, rfl⟩
  | false =>
    cases ha : s.amended with
    | true =>
      rw [load_dirty s k hr ha]
      have hd := hi.amended_dirty ha
      refine ⟨inv_missLocked hi hd, ?_, abs_missLocked hi hd⟩
      cases hdk : s.inDirty k with
      | true => simp [abs]
      | false =>
        have := abs_none_of_not_dom hi k (not_dom_of hi k hr hdk)
        simp [this]
    | false =>
      rw [load_none s k hr ha]
      have hdk : s.inDirty k = false := by
        cases h : s.inDirty k with
        | false => rfl
        | true => have := hi.clean_sub ha k h; simp [hr] at this
      have := abs_none_of_not_dom hi k (not_dom_of hi k hr hdk)
      exact ⟨hi, this.symm, rfl⟩

theorem store_refines (s : St α) (hi : Inv s) (k : String) (v : α) :
    Inv (store s k v) ∧ abs (store s k v) = upd (abs s) k (some v) := by
  cases hr : s.inRead k with
  | true =>
    have hk : k ∈ s.dom := (hi.dom_iff k).2 (Or.inl hr)
    cases he : isExpunged (s.ent k) with
    | true =>
      have he' : s.ent k = some .expunged := by
        unfold isExpunged at he
        split at he
        · assumption
        · simp at he
      rw [store_unexp s k v hr he]
      exact ⟨inv_unexpunge hi k v he', abs_unexpunge s k v⟩
    | false =>
      have he' : s.ent k ≠ some .expunged := by
        intro h; simp [h, isExpunged] at he
      rw [store_fast s k v hr he]
      exact ⟨inv_set_val hi k v hk he', abs_set_val s k v⟩
  | false =>
    cases hd : s.inDirty k with
    | true =>
      have hk : k ∈ s.dom := (hi.dom_iff k).2 (Or.inr hd)
      have he' : s.ent k ≠ some .expunged := by
        intro h; have := (hi.exp_shape k h).1; simp [hr] at this
      rw [store_dirty s k v hr hd]
      exact ⟨inv_set_val hi k v hk he', abs_set_val s k v⟩
    | false =>
      rw [store_new s k v hr hd]
      exact ⟨inv_insertNew hi k v hr hd, abs_insertNew s k v⟩

theorem loadOrStore_refines (s : St α) (hi : Inv s) (k : String) (v : α) :
    Inv (loadOrStore s k v).2 ∧
    (loadOrStore s k v).1 = (match abs s k with
      | some x => (x, true)
      | none => (v, false)) ∧
    abs (loadOrStore s k v).2 = (match abs s k with
      | some _ => abs s
      | none => upd (abs s) k (some v)) := by
  cases hr : s.inRead k with
  | true =>
    have hk : k ∈ s.dom := (hi.dom_iff k).2 (Or.inl hr)
    cases he : s.ent k with
    | none => exact absurd he ((hi.ent_iff k).2 hk)
    | some sl =>
      cases sl with
      | val x =>
        have ha : abs s k = some x := by simp [abs, he, slotLoad]
        rw [los_read_val s k v x hr he, ha]
        exact ⟨hi, rfl, rfl⟩
      | expunged =>
        have ha : abs s k = none := by simp [abs, he, slotLoad]
        rw [los_read_exp s k v hr he, ha]
        exact ⟨inv_unexpunge hi k v he, rfl, abs_unexpunge s k v⟩
      | nil =>
        have ha : abs s k = none := by simp [abs, he, slotLoad]
        rw [los_read_nil s k v hr he, ha]
        exact ⟨inv_set_val hi k v hk (by simp [he]), rfl, abs_set_val s k v⟩
  | false =>
    cases hd : s.inDirty k with
    | true =>
      have hk : k ∈ s.dom := (hi.dom_iff k).2 (Or.inr hd)
      have hdn : s.dirtyNil = false := by
        cases h : s.dirtyNil with
        | false => rfl
        | true => have := hi.nil_dirty h k; simp [hd] at this
      have hne : s.ent k ≠ some .expunged := by
        intro h; have := (hi.exp_shape k h).1; simp [hr] at this
      cases he : s.ent k with
      | none => exact absurd he ((hi.ent_iff k).2 hk)
      | some sl =>
        cases sl with
        | val x =>
          have ha : abs s k = some x := by simp [abs, he, slotLoad]
          rw [los_dirty_val s k v x hr hd he, ha]
          exact ⟨inv_missLocked hi hdn, rfl, abs_missLocked hi hdn⟩
        | expunged => exact absurd he hne
        | nil =>
          have ha : abs s k = none := by simp [abs, he, slotLoad]
          rw [los_dirty_nil s k v hr hd he, ha]
          have hi2 := inv_set_val hi k v hk hne
          refine ⟨inv_missLocked hi2 hdn, rfl, ?_⟩
          show abs (missLocked _) = _
          rw [abs_missLocked hi2 hdn]
          exact abs_set_val s k v
    | false =>
      have hnone := abs_none_of_not_dom hi k (not_dom_of hi k hr hd)
      rw [los_new s k v hr hd, hnone]
      exact ⟨inv_insertNew hi k v hr hd, rfl, abs_insertNew s k v⟩

theorem loadAndDelete_refines (s : St α) (hi : Inv s) (k : String) :
    Inv (loadAndDelete s k).2 ∧ (loadAndDelete s k).1 = abs s k ∧
    abs (loadAndDelete s k).2 = upd (abs s) k none := by
  cases hr : s.inRead k with
  | true =>
    have hk : k ∈ s.dom := (hi.dom_iff k).2 (Or.inl hr)
    cases he : s.ent k with
    | none => exact absurd he ((hi.ent_iff k).2 hk)
    | some sl =>
      cases sl with
      | val x =>
        have ha : abs s k = some x := by simp [abs, he, slotLoad]
        rw [lad_read_val s k x hr he, ha]
        exact ⟨inv_set_nil hi k hk (by simp [he]), rfl, abs_set_nil s k⟩
      | expunged =>
        have ha : abs s k = none := by simp [abs, he, slotLoad]
        rw [lad_read_dead s k hr (by intro x; simp [he]), ha]
        exact ⟨hi, rfl, (abs_upd_none_of_none s k ha).symm⟩
      | nil =>
        have ha : abs s k = none := by simp [abs, he, slotLoad]
        rw [lad_read_dead s k hr (by intro x; simp [he]), ha]
        exact ⟨hi, rfl, (abs_upd_none_of_none s k ha).symm⟩
  | false =>
    cases ha : s.amended with
    | true =>
      have hdn := hi.amended_dirty ha
      have hi1 := inv_remove hi k hr ha
      rw [lad_dirty s k hr ha]
      refine ⟨inv_missLocked hi1 hdn, ?_, ?_⟩
      · cases hd : s.inDirty k with
        | true => simp [abs]
        | false =>
          have := abs_none_of_not_dom hi k (not_dom_of hi k hr hd)
          simp [this]
      · show abs (missLocked _) = _
        rw [abs_missLocked hi1 hdn]
        exact abs_remove s k
    | false =>
      have hdk : s.inDirty k = false := by
        cases h : s.inDirty k with
        | false => rfl
        | true => have := hi.clean_sub ha k h; simp [hr] at this
      have hnone := abs_none_of_not_dom hi k (not_dom_of hi k hr hdk)
      rw [lad_none s k hr ha]
      exact ⟨hi, hnone.symm, (abs_upd_none_of_none s k hnone).symm⟩

theorem clear_refines (s : St α) (hi : Inv s) :
    Inv (clear s) ∧ abs (clear s) = fun _ => none := by
  by_cases h : lenRead s = 0 ∧ s.amended = false
  · obtain ⟨hl, ha⟩ := h
    rw [clear_noop s hl ha]
    refine ⟨hi, ?_⟩
    funext k
    apply abs_none_of_not_dom hi
    intro hk
    have hr : s.inRead k = true := by
      rcases (hi.dom_iff k).1 hk with hr | hd
      · exact hr
      · exact hi.clean_sub ha k hd
    have : k ∈ s.dom.filter s.inRead := List.mem_filter.2 ⟨hk, hr⟩
    unfold lenRead at hl
    rw [List.length_eq_zero_iff.1 hl] at this
    simp at this
  · rw [clear_wipe s h]
    refine ⟨?_, ?_⟩
    · constructor <;> simp
    · funext k; simp [abs, slotLoad]

/-- Range visits exactly the live pairs, each key once, and leaves the contents unchanged -/
theorem range_refines (s : St α) (hi : Inv s) :
    Inv (range s).2 ∧ LivePairs (abs s) (range s).1 ∧ abs (range s).2 = abs s := by
  -- the state Range iterates over
  have key : ∀ s1 : St α, Inv s1 → s1.amended = false →
      LivePairs (abs s1) ((s1.dom.filter s1.inRead).filterMap (fun k => (slotLoad (s1.ent k)).map (fun v => (k, v)))) := by
    intro s1 hi1 ha1
    constructor
    · -- keys come from a sub-list of dom, in order, no duplicates
      have hnd : (s1.dom.filter s1.inRead).Nodup := hi1.dom_nodup.filter _
      generalize s1.dom.filter s1.inRead = l at hnd
      induction l with
      | nil => simp
      | cons a t ih =>
        rw [List.nodup_cons] at hnd
        simp only [List.filterMap_cons]
        cases hsl : slotLoad (s1.ent a) with
        | none => simpa [hsl] using ih hnd.2
        | some v =>
          simp only [hsl, Option.map_some, List.map_cons, List.nodup_cons]
          refine ⟨?_, ih hnd.2⟩
          intro hmem
          rw [List.mem_map] at hmem
          obtain ⟨⟨k', v'⟩, hm, hk'⟩ := hmem
          simp only at hk'
          subst hk'
          rw [List.mem_filterMap] at hm
          obtain ⟨x, hx, hxe⟩ := hm
          cases hsx : slotLoad (s1.ent x) with
          | none => simp [hsx] at hxe
          | some w =>
            simp [hsx] at hxe
            obtain ⟨rfl, _⟩ := hxe
            exact hnd.1 hx
    · intro k v
      rw [List.mem_filterMap]
      constructor
      · rintro ⟨x, _, hxe⟩
        cases hsx : slotLoad (s1.ent x) with
        | none => simp [hsx] at hxe
        | some w =>
          simp [hsx] at hxe
          obtain ⟨rfl, rfl⟩ := hxe
          simpa [abs] using hsx
      · intro h
        refine ⟨k, ?_, by simp [abs] at h; simp [h]⟩
        -- a live key has an entry, hence is in dom, hence (not amended) in read
        have hne : s1.ent k ≠ none := by
          intro hn; simp [abs, hn, slotLoad] at h
        have hk : k ∈ s1.dom := (hi1.ent_iff k).1 hne
        rw [List.mem_filter]
        refine ⟨hk, ?_⟩
        rcases (hi1.dom_iff k).1 hk with hr | hd
        · exact hr
        · exact hi1.clean_sub ha1 k hd
  cases ha : s.amended with
  | true =>
    have hd := hi.amended_dirty ha
    have hi1 := inv_promote hi hd
    have := key (promote s) hi1 rfl
    rw [abs_promote hi hd] at this
    rw [range_amended s ha]
    exact ⟨hi1, this, abs_promote hi hd⟩
  | false =>
    rw [range_clean s ha]
    exact ⟨hi, key s hi ha, rfl⟩

/-- Length is the number of live keys -/
theorem length_refines (s : St α) (hi : Inv s) :
    ∃ l, length s = l.length ∧ LivePairs (abs s) l := by
  -- list the live keys of the measured map
  have key : ∀ (p : String → Bool), (∀ k, abs s k ≠ none → k ∈ s.dom ∧ p k = true) →
      ∃ l, ((s.dom.filter p).filter (isLive s)).length = l.length ∧ LivePairs (abs s) l := by
    intro p hp
    refine ⟨((s.dom.filter p).filter (isLive s)).filterMap (fun k => (slotLoad (s.ent k)).map (fun v => (k, v))), ?_, ?_, ?_⟩
    · -- every element is live, so filterMap keeps all of them
      have : ∀ l : List String, (∀ x ∈ l, isLive s x = true) →
          l.length = (l.filterMap (fun k => (slotLoad (s.ent k)).map (fun v => (k, v)))).length := by
        intro l
        induction l with
        | nil => simp
        | cons a t ih =>
          intro h
          have ha := h a (by simp)
          unfold isLive at ha
          cases hsl : slotLoad (s.ent a) with
          | none => simp [hsl] at ha
          | some v =>
            simp only [List.filterMap_cons, hsl, Option.map_some, List.length_cons]
            rw [ih (fun x hx => h x (by simp [hx]))]
      exact this _ (fun x hx => (List.mem_filter.1 hx).2)
    · have hnd : ((s.dom.filter p).filter (isLive s)).Nodup := (hi.dom_nodup.filter _).filter _
      generalize (s.dom.filter p).filter (isLive s) = l at hnd
      induction l with
      | nil => simp
      | cons a t ih =>
        rw [List.nodup_cons] at hnd
        simp only [List.filterMap_cons]
        cases hsl : slotLoad (s.ent a) with
        | none => simpa [hsl] using ih hnd.2
        | some v =>
          simp only [hsl, Option.map_some, List.map_cons, List.nodup_cons]
          refine ⟨?_, ih hnd.2⟩
          intro hmem
          rw [List.mem_map] at hmem
          obtain ⟨⟨k', v'⟩, hm, hk'⟩ := hmem
          simp only at hk'
          subst hk'
          rw [List.mem_filterMap] at hm
          obtain ⟨x, hx, hxe⟩ := hm
          cases hsx : slotLoad (s.ent x) with
          | none => simp [hsx] at hxe
          | some w =>
            simp [hsx] at hxe
            obtain ⟨rfl, _⟩ := hxe
            exact hnd.1 hx
    · intro k v
      rw [List.mem_filterMap]
      constructor
      · rintro ⟨x, _, hxe⟩
        cases hsx : slotLoad (s.ent x) with
        | none => simp [hsx] at hxe
        | some w =>
          simp [hsx] at hxe
          obtain ⟨rfl, rfl⟩ := hxe
          simpa [abs] using hsx
      · intro h
        have h' : slotLoad (s.ent k) = some v := by simpa [abs] using h
        refine ⟨k, ?_, by simp [h']⟩
        obtain ⟨hk, hpk⟩ := hp k (by simp [h])
        rw [List.mem_filter, List.mem_filter]
        exact ⟨⟨hk, hpk⟩, by simp [isLive, h']⟩
  unfold length
  by_cases ha : s.amended = true
  · simp only [ha, if_true]
    have hd := hi.amended_dirty ha
    apply key
    intro k hk
    have hne : s.ent k ≠ none := by
      intro hn; simp [abs, hn, slotLoad] at hk
    have hdom : k ∈ s.dom := (hi.ent_iff k).1 hne
    refine ⟨hdom, ?_⟩
    rcases (hi.dom_iff k).1 hdom with hr | hdk
    · apply hi.dirty_sup hd k hr
      intro he; simp [abs, he, slotLoad] at hk
    · exact hdk
  · have ha' : s.amended = false := by simpa using ha
    simp only [ha', Bool.false_eq_true, if_false]
    apply key
    intro k hk
    have hne : s.ent k ≠ none := by
      intro hn; simp [abs, hn, slotLoad] at hk
    have hdom : k ∈ s.dom := (hi.ent_iff k).1 hne
    refine ⟨hdom, ?_⟩
    rcases (hi.dom_iff k).1 hdom with hr | hdk
    · exact hr
    · exact hi.clean_sub ha' k hdk

/-! ### every operation, then every history -/

theorem step_refines (s : St α) (hi : Inv s) (op : Op α) :
    Inv (step s op).2 ∧ RetOK (abs s) op (step s op).1 ∧ abs (step s op).2 = specNext (abs s) op := by
  cases op with
  | load k =>
    obtain ⟨h1, h2, h3⟩ := load_refines s hi k
    exact ⟨h1, by simp [step, RetOK, h2], by simp [step, specNext, h3]⟩
  | store k v =>
    obtain ⟨h1, h2⟩ := store_refines s hi k v
    exact ⟨h1, by simp [step, RetOK], by simp [step, specNext, h2]⟩
  | loadOrStore k v =>
    obtain ⟨h1, h2, h3⟩ := loadOrStore_refines s hi k v
    refine ⟨h1, ?_, ?_⟩
    · simp only [step, RetOK]
      rcases hr : loadOrStore s k v with ⟨⟨a, l⟩, s'⟩
      rw [hr] at h2
      simp only at h2
      cases hm : abs s k with
      | none => simp [hm] at h2 ⊢; exact ⟨h2.1, h2.2⟩
      | some x => simp [hm] at h2 ⊢; exact ⟨h2.1, h2.2⟩
    · simp only [step, specNext]
      rcases hr : loadOrStore s k v with ⟨⟨a, l⟩, s'⟩
      rw [hr] at h3
      exact h3
  | loadAndDelete k =>
    obtain ⟨h1, h2, h3⟩ := loadAndDelete_refines s hi k
    exact ⟨h1, by simp [step, RetOK, h2], by simp [step, specNext, h3]⟩
  | delete k =>
    obtain ⟨h1, _, h3⟩ := loadAndDelete_refines s hi k
    exact ⟨h1, by simp [step, RetOK], by simp [step, specNext, h3]⟩
  | clear =>
    obtain ⟨h1, h2⟩ := clear_refines s hi
    exact ⟨h1, by simp [step, RetOK], by simp [step, specNext, h2]⟩
  | range =>
    obtain ⟨h1, h2, h3⟩ := range_refines s hi
    exact ⟨h1, ⟨_, rfl, h2⟩, by simp [step, specNext, h3]⟩
  | length =>
    obtain ⟨l, h1, h2⟩ := length_refines s hi
    exact ⟨hi, ⟨l, by simp [step, h1], h2⟩, by simp [step, specNext]⟩

/-- running a history on the implementation model, checking every return value against the ordinary map -/
def Refines (s : St α) (m : String → Option α) : List (Op α) → Prop
  | [] => True
  | op :: ops => RetOK m op (step s op).1 ∧ Refines (step s op).2 (specNext m op) ops

theorem refines_from (ops : List (Op α)) : ∀ (s : St α), Inv s → Refines s (abs s) ops := by
  induction ops with
  | nil => intro _ _; trivial
  | cons op ops ih =>
    intro s hi
    obtain ⟨h1, h2, h3⟩ := step_refines s hi op
    refine ⟨h2, ?_⟩
    rw [← h3]
    exact ih _ h1

/-- C12, sequential clause: EVERY history from the empty map behaves like an ordinary string-keyed map -/
theorem history_refines (ops : List (Op α)) : Refines (init : St α) (fun _ => none) ops := by
  have := refines_from ops (init : St α) inv_init
  have e : abs (init : St α) = fun _ => none := by funext k; simp [abs, init, slotLoad]
  rwa [e] at this

/-- the pre-fix Length (len of the map, tombstones included) did NOT refine the ordinary map:
    Store a; Load a; Delete a; Length gave 1.  Kept as the witness of the repaired defect. -/
theorem KF_lengthOld_witness :
    lengthOld (loadAndDelete (load (store (init : St Nat) "a" 1) "a").2 "a").2 = 1 ∧
    length (loadAndDelete (load (store (init : St Nat) "a" 1) "a").2 "a").2 = 0 := by
  constructor <;> decide

/- non-vacuity: a history that expunges, un-expunges and promotes -/
example : Inv (store (init : St Nat) "a" 1) := (store_refines _ inv_init "a" 1).1
example : (step (store (init : St Nat) "a" 1) (.load "a")).1 = .val (some 1) := by decide

end DS.Props.C12
