import DS.Driver.Common
import DS.Model.VMap
namespace DS.Driver
open DS.VMap

def slotName : Option (Slot Nat) → String
  | some .nil => "nil"
  | some .expunged => "exp"
  | some (.val _) => "val"
  | none => "none"


def shape (s : St Nat) : String :=
  let rk := sortStrings ((s.dom.filter s.inRead).map fun k => DS.Hex.encode k ++ ":" ++ slotName (s.ent k))
  let d := if s.dirtyNil then "dirty=nil" else
    "dirty{" ++ ",".intercalate (sortStrings ((s.dom.filter s.inDirty).map fun k => DS.Hex.encode k ++ ":" ++ slotName (s.ent k))) ++ "}"
  "read{" ++ ",".intercalate rk ++ "} amended=" ++ (if s.amended then "true" else "false") ++ " " ++ d ++
    " misses=" ++ toString s.misses

/-- the stored nil pointer (a legal value of the map) is one more value for the model: token `nil`, shown `NIL` -/
def nilTok : Nat := 4294967295
def showV (v : Nat) : String := if v == nilTok then "NIL" else toString v

def retStr : Ret Nat → String
  | .unit => "-"
  | .val none => "none"
  | .val (some v) => s!"v={showV v}"
  | .los v l => s!"los={showV v},{l}"
  | .pairs l => "range[" ++ ",".intercalate (sortStrings (l.map fun (k, v) => DS.Hex.encode k ++ "=" ++ showV v)) ++ "]"
  | .len n => s!"len={n}"

def parseOp (t : String) : Option (Op Nat) :=
  match t.splitOn ":" with
  | ["L", k] => some (.load k)
  | ["S", k, v] => (if v == "nil" then some nilTok else v.toNat?).map (.store k)
  | ["O", k, v] => (if v == "nil" then some nilTok else v.toNat?).map (.loadOrStore k)
  | ["D", k] => some (.loadAndDelete k)
  | ["X", k] => some (.delete k)
  | ["C"] => some .clear
  | ["R"] => some .range
  | ["N"] => some .length
  | _ => none

/-- `J:k=v,k=v` — UnmarshalJSON into the map in use: specified as Clear followed by one Store per entry of the document -/
def parseRestore (t : String) : Option (List (Op Nat)) :=
  match t.splitOn ":" with
  | ["J", body] =>
    if body == "-" then some [.clear] else
    ((body.splitOn ",").mapM (fun (kv : String) => match kv.splitOn "=" with
      | [k, v] => (String.toNat? v).map (fun n => Op.store k n)
      | _ => none)).map (fun l => Op.clear :: l)
  | _ => none

def vmapLine (toks : List String) : String :=
  match toks with
  | "vmap" :: ops =>
    -- every token is one operation, or (J) a group of operations reported as one
    match ops.mapM (fun t => match parseRestore t with | some l => some (true, l) | none => (parseOp t).map (fun o => (false, [o]))) with
    | none => "bad-op"
    | some groups =>
      let (outs, _) := groups.foldl (fun (acc : List String × St Nat) (grp : Bool × List (Op Nat)) =>
        let (r, s') := grp.2.foldl (fun (rs : Ret Nat × St Nat) op => step rs.2 op) (.unit, acc.2)
        (acc.1 ++ [(if grp.1 then "-" else retStr r) ++ " @ " ++ shape s'], s')) ([], init)
      " ; ".intercalate outs
  | _ => "bad-op"

end DS.Driver
