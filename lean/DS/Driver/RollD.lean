import DS.Driver.Common
import DS.Model.Roll
namespace DS.Driver
open DS DS.Rng DS.Roll

/-- run a word-list model function from a PCG state; word list grows until the model stops asking -/
def withWords {α} (st : Nat) (f : List Nat → Option (α × List Nat)) : Option (α × Nat) :=
  let rec go (fuel : Nat) (n : Nat) : Option (α × Nat) :=
    match fuel with
    | 0 => none
    | fuel+1 =>
      let ws := Rng.words n st
      match f ws with
      | some (a, rest) => some (a, Rng.advance (n - rest.length) st)
      | none => go fuel (n * 8)
  go 7 64

def withWordsLoop {α} (st : Nat) (f : List Nat → LoopOut α) : Option (Option (α × Nat)) :=
  let rec go (fuel : Nat) (n : Nat) : Option (Option (α × Nat)) :=
    match fuel with
    | 0 => none
    | fuel+1 =>
      let ws := Rng.words n st
      match f ws with
      | some (some (a, rest)) => some (some (a, Rng.advance (n - rest.length) st))
      | some none => some none
      | none => go fuel (n * 8)
  go 7 64

def stHex (s : Nat) : String := natToHex s 32

def rollLine (toks : List String) : String :=
  match toks with
  | ["rng", st, k] =>
    match hexToNat? st, k.toNat? with
    | some s, some k =>
      " ".intercalate ((Rng.words k s).map toString) ++ " " ++ stHex (Rng.advance k s)
        ++ " " ++ DS.Hex.encodeBytes ((Rng.marshal (Rng.advance k s)).map UInt8.ofNat)
    | _, _ => "bad-op"
  | ["roll", st, n, mode] =>
    match hexToNat? st, n.toInt?, mode.toInt? with
    | some s, some n, some m =>
      match withWords s (roll n m) with
      | some (r, s') => s!"{r} {stHex s'}"
      | none => "exhausted"
    | _, _, _ => "bad-op"
  | ["common", st, times, sides, dmin, dmax, keep, low, high, mode] =>
    match hexToNat? st, times.toInt?, sides.toInt?, parseOptInt? dmin, parseOptInt? dmax,
          keep.toInt?, low.toInt?, high.toInt?, mode.toInt? with
    | some s, some t, some sd, some mn, some mx, some k, some l, some h, some m =>
      match withWords s (rollCommon t sd mn mx k l h m) with
      | some (r, s') => s!"{r.num} {hx r.text} {stHex s'}"
      | none => "exhausted"
    | _, _, _, _, _, _, _, _, _ => "bad-op"
  | ["coc", st, bonus, num, mode] =>
    match hexToNat? st, num.toInt?, mode.toInt? with
    | some s, some n, some m =>
      match withWords s (rollCoC (bonus == "1") n m) with
      | some ((v, t), s') => s!"{v} {hx t} {stHex s'}"
      | none => "exhausted"
    | _, _, _ => "bad-op"
  | ["fate", st, mode] =>
    match hexToNat? st, mode.toInt? with
    | some s, some m =>
      match withWords s (rollFate m) with
      | some ((v, t), s') => s!"{v} {hx t} {stHex s'}"
      | none => "exhausted"
    | _, _ => "bad-op"
  | ["wod", st, addLine, pool, points, thr, ge, mode] =>
    match hexToNat? st, addLine.toInt?, pool.toInt?, points.toInt?, thr.toInt?, mode.toInt? with
    | some s, some a, some p, some pt, some t, some m =>
      match withWordsLoop s (rollWoD 100000 a p pt t (ge == "1") m) with
      | some (some (r, s')) => s!"{r.value} {r.allRoll} {r.rounds} {hx r.text} {stHex s'}"
      | some none => "diverges"
      | none => "exhausted"
    | _, _, _, _, _, _ => "bad-op"
  | ["dc", st, addLine, pool, points, mode] =>
    match hexToNat? st, addLine.toInt?, pool.toInt?, points.toInt?, mode.toInt? with
    | some s, some a, some p, some pt, some m =>
      match withWordsLoop s (rollDC 100000 a p pt m) with
      | some (some (r, s')) => s!"{r.value} {r.allRoll} {r.rounds} {hx r.text} {stHex s'}"
      | some none => "diverges"
      | none => "exhausted"
    | _, _, _, _, _ => "bad-op"
  | _ => "bad-op"

end DS.Driver
