/-
  C07 — budgets and capacity limits fail closed.

  On the Lean VM model (tied to rollvm.go / roll_func.go by the vm stream, which compares NumOpCount):
  * `dispatch_guard`    — the loop charges a dispatch BEFORE executing it and executes nothing once the counter is over the limit;
  * `stack_guard`       — an instruction is never executed with a full operand stack;
  * `blockPush_cap`, `fstrPush_cap` — block / template nesting beyond 20 is an error before the write;
  * `concat_cap`, `string_cap`, `repeat_cap` — container and string sizes are checked before the value is built;
  * `wod_charged_all`, `dc_charged_all` — for every word stream and ANY number of rounds the amount charged by a pool roll
    that completes equals the number of dice it rolled (the final `allRoll`), i.e. every die of every round is charged;
  * `wod_budget`, `dc_budget` — with a budget, a pool roll that completes stayed within it, and one that is aborted has
    charged more than the budget (so the caller reports the error) — and it is aborted BEFORE rolling the round.
-/
import DS.Model.VMRun
import DS.Proofs.DiceLemmas

namespace DS.Props.C07
open DS.VM DS.Roll

/-! ### the dispatch loop -/

theorem dispatch_guard (fuel : Nat) (g : G) (f : Frame) (hpc : f.pc < f.code.size)
    (hover : overLimit (addOps g f.ctx 1) (getOps (addOps g f.ctx 1) f.ctx) = true) :
    evalLoop (fuel + 1) g f = (addOps g f.ctx 1, .err "允许算力上限") := by
  have : ¬ f.pc ≥ f.code.size := by omega
  simp only [evalLoop, this, if_false, hover, if_true]

theorem stack_guard (fuel : Nat) (g : G) (f : Frame) (hpc : f.pc < f.code.size)
    (hin : overLimit (addOps g f.ctx 1) (getOps (addOps g f.ctx 1) f.ctx) = false) (hfull : f.top = stackSize) :
    evalLoop (fuel + 1) g f = (addOps g f.ctx 1, .err "执行栈到达溢出线") := by
  have : ¬ f.pc ≥ f.code.size := by omega
  simp [evalLoop, this, hin, hfull]

/-- the counter seen by the guard is the old one plus one: a dispatch is never free -/
theorem dispatch_charges_one (g : G) (c : Nat) (hc : c < g.ctxs.size) (hroom : getOps g c < DS.Roll.maxInt64) :
    getOps (addOps g c 1) c = getOps g c + 1 := by
  simp only [getOps] at hroom
  simp [getOps, addOps, hc, Array.getElem_modify, satAdd]
  intro h; simp only [getElem!_pos, hc] at hroom; omega

/-- a charge is never lost: the counter grows by the charge, or sits at MaxInt64 (which is above every budget) -/
theorem charge_n (g : G) (c : Nat) (n : Int) (hc : c < g.ctxs.size) :
    getOps (addOps g c n) c = getOps g c + n ∨ getOps (addOps g c n) c = DS.Roll.maxInt64 := by
  simp only [getOps, addOps, Array.getElem!_eq_getD, Array.getD_eq_getD_getElem?, Array.getElem?_modify, hc, Array.getElem?_eq_getElem,
    if_true, Option.map_some, Option.getD_some, satAdd]
  split
  · right; rfl
  · left; rfl

/-! ### capacities -/

theorem blockPush_cap (sub : SubRun) (g : G) (f : Frame) (h : 20 ≤ f.blocks.length) :
    exec sub g f .blockPush = .stop g { f with pc := f.pc + 1 } (.err "语句块嵌套层数过多") := by
  simp [exec, h]

theorem fstrPush_cap (sub : SubRun) (g : G) (f : Frame) (h : 20 ≤ f.fblocks.length) :
    exec sub g f .fstrPush = .stop g { f with pc := f.pc + 1 } (.err "字符串模板嵌套层数过多") := by
  simp [exec, h]

theorem concat_cap (h : Heap) (z : Bool) (x y : Nat) (hl : 512 < (h.arrOf x ++ h.arrOf y).length) :
    binOp h z .add (.arr x) (.arr y) = (h, .err "不能一次性创建过长的数组") := by
  simp only [binOp]
  simp only [List.length_append] at hl
  simp [hl]

theorem string_cap (h : Heap) (z : Bool) (x y : String) (hl : maxStringLength < x.utf8ByteSize + y.utf8ByteSize) :
    binOp h z .add (.str x) (.str y) = (h, .err "不能一次性创建过长的字符串") := by
  simp only [binOp]
  simp [hl]

theorem string_within (h : Heap) (z : Bool) (x y : String) (v : Val) (h' : Heap)
    (hr : binOp h z .add (.str x) (.str y) = (h', .ok v)) : x.utf8ByteSize + y.utf8ByteSize ≤ maxStringLength := by
  simp only [binOp] at hr
  split at hr
  · simp at hr
  · omega

/-! ### pool dice: every round is charged, and a budget stops the roll before the round that would exceed it -/

theorem wrap64_add_wrap64 (x y : Int) : wrap64 (wrap64 x + y) = wrap64 (x + y) := by
  unfold wrap64 DS.Rng.two64 DS.Roll.two63
  omega

theorem wodRound_add_nonneg (addLine points threshold : Int) (isGE : Bool) (mode : Int) :
    ∀ (k : Nat) (ws : List Nat) (s a : Int) (ts : List String) (ws' : List Nat),
      wodRound addLine points threshold isGE mode k ws = some ((s, a, ts), ws') → 0 ≤ a := by
  intro k
  induction k with
  | zero => intro ws s a ts ws' h; simp [wodRound] at h; omega
  | succ n ih =>
    intro ws s a ts ws' h
    simp only [wodRound] at h
    split at h
    · simp at h
    · split at h
      · simp at h
      · rename_i s1 a1 ts1 ws1 hr
        have := ih _ _ _ _ _ hr
        simp only [Option.some.injEq, Prod.mk.injEq] at h
        obtain ⟨⟨_, h2, _⟩, _⟩ := h
        split at h2 <;> omega

theorem dcRound_add_nonneg (addLine points : Int) (mode : Int) :
    ∀ (k : Nat) (mx : Int) (ws : List Nat) (m a : Int) (ts : List String) (ws' : List Nat),
      dcRound addLine points mode k mx ws = some ((m, a, ts), ws') → 0 ≤ a := by
  intro k
  induction k with
  | zero => intro mx ws m a ts ws' h; simp [dcRound] at h; omega
  | succ n ih =>
    intro mx ws m a ts ws' h
    simp only [dcRound] at h
    split at h
    · simp at h
    · split at h
      · simp at h
      · rename_i m1 a1 ts1 ws1 hr
        have := ih _ _ _ _ _ _ hr
        simp only [Option.some.injEq, Prod.mk.injEq] at h
        obtain ⟨⟨_, h2, _⟩, _⟩ := h
        split at h2 <;> omega

/-- WoD: when the loop completes, charged-so-far + pool = allRoll is preserved, hence charged = allRoll at the end
    (stated for un-wrapped counters: the pool is at most 20000 per round, far from 2^63) -/
theorem wodLoop_charged (addLine points threshold : Int) (isGE : Bool) (mode : Int) (budget : Option Int) :
    ∀ (fuel : Nat) (charged pool succ allRoll addTimes : Int) (show_ : Bool) (details : List String) (ws : List Nat)
      (s a t : Int) (d : List String) (ch : Int) (ws' : List Nat),
      wodLoop addLine points threshold isGE mode budget fuel charged pool succ allRoll addTimes show_ details ws
        = some (some ((s, a, t, d, ch, false), ws')) →
      wrap64 (charged + pool) = allRoll → wrap64 ch = a := by
  intro fuel
  induction fuel with
  | zero => intro _ _ _ _ _ _ _ _ _ _ _ _ _ _ h; simp [wodLoop] at h
  | succ n ih =>
    intro charged pool succ allRoll addTimes show_ details ws s a t d ch ws' h hinv
    simp only [wodLoop] at h
    cases budget with
    | none =>
      simp only [Bool.false_eq_true, if_false] at h
      split at h
      · simp at h
      · rename_i s1 a1 ts1 ws1 hround
        split at h
        · rename_i hpos
          simp only [hpos] at h
          exact ih _ _ _ _ _ _ _ _ _ _ _ _ _ _ h (by rw [← hinv, wrap64_add_wrap64])
        · rename_i hpos
          simp only [hpos] at h
          simp only [Option.some.injEq, Prod.mk.injEq] at h
          obtain ⟨⟨_, h2, _, _, h5, _⟩, _⟩ := h
          have := wodRound_add_nonneg _ _ _ _ _ _ _ _ _ _ _ hround
          have ha0 : a1 = 0 := by omega
          subst ha0
          rw [← h5, ← h2, ← hinv, wrap64_add_wrap64, Int.add_zero]
    | some b =>
      simp only [decide_eq_true_eq] at h
      split at h
      · simp at h
      · split at h
        · simp at h
        · rename_i s1 a1 ts1 ws1 hround
          split at h
          · rename_i hpos
            simp only [hpos] at h
            exact ih _ _ _ _ _ _ _ _ _ _ _ _ _ _ h (by rw [← hinv, wrap64_add_wrap64])
          · rename_i hpos
            simp only [hpos] at h
            simp only [Option.some.injEq, Prod.mk.injEq] at h
            obtain ⟨⟨_, h2, _, _, h5, _⟩, _⟩ := h
            have := wodRound_add_nonneg _ _ _ _ _ _ _ _ _ _ _ hround
            have ha0 : a1 = 0 := by omega
            subst ha0
            rw [← h5, ← h2, ← hinv, wrap64_add_wrap64, Int.add_zero]

theorem dcLoop_charged (addLine points : Int) (mode : Int) (budget : Option Int) :
    ∀ (fuel : Nat) (charged pool result allRoll addTimes : Int) (show_ : Bool) (details : List String) (ws : List Nat)
      (s a t : Int) (d : List String) (ch : Int) (ws' : List Nat),
      dcLoop addLine points mode budget fuel charged pool result allRoll addTimes show_ details ws
        = some (some ((s, a, t, d, ch, false), ws')) →
      wrap64 (charged + pool) = allRoll → wrap64 ch = a := by
  intro fuel
  induction fuel with
  | zero => intro _ _ _ _ _ _ _ _ _ _ _ _ _ _ h; simp [dcLoop] at h
  | succ n ih =>
    intro charged pool result allRoll addTimes show_ details ws s a t d ch ws' h hinv
    simp only [dcLoop] at h
    cases budget with
    | none =>
      simp only [Bool.false_eq_true, if_false] at h
      split at h
      · simp at h
      · rename_i s1 a1 ts1 ws1 hround
        split at h
        · rename_i hpos
          simp only [hpos] at h
          exact ih _ _ _ _ _ _ _ _ _ _ _ _ _ _ h (by rw [← hinv, wrap64_add_wrap64])
        · rename_i hpos
          simp only [hpos] at h
          simp only [Option.some.injEq, Prod.mk.injEq] at h
          obtain ⟨⟨_, h2, _, _, h5, _⟩, _⟩ := h
          have := dcRound_add_nonneg _ _ _ _ _ _ _ _ _ _ hround
          have ha0 : a1 = 0 := by omega
          subst ha0
          rw [← h5, ← h2, ← hinv, wrap64_add_wrap64, Int.add_zero]
    | some b =>
      simp only [decide_eq_true_eq] at h
      split at h
      · simp at h
      · split at h
        · simp at h
        · rename_i s1 a1 ts1 ws1 hround
          split at h
          · rename_i hpos
            simp only [hpos] at h
            exact ih _ _ _ _ _ _ _ _ _ _ _ _ _ _ h (by rw [← hinv, wrap64_add_wrap64])
          · rename_i hpos
            simp only [hpos] at h
            simp only [Option.some.injEq, Prod.mk.injEq] at h
            obtain ⟨⟨_, h2, _, _, h5, _⟩, _⟩ := h
            have := dcRound_add_nonneg _ _ _ _ _ _ _ _ _ _ hround
            have ha0 : a1 = 0 := by omega
            subst ha0
            rw [← h5, ← h2, ← hinv, wrap64_add_wrap64, Int.add_zero]


theorem wodLoop_budget (addLine points threshold : Int) (isGE : Bool) (mode : Int) (b : Int) :
    ∀ (fuel : Nat) (charged pool acc allRoll addTimes : Int) (show_ : Bool) (details : List String) (ws : List Nat)
      (s a t : Int) (d : List String) (ch : Int) (ov : Bool) (ws' : List Nat),
      wodLoop addLine points threshold isGE mode (some b) fuel charged pool acc allRoll addTimes show_ details ws
        = some (some ((s, a, t, d, ch, ov), ws')) →
      (ov = true → b < ch) ∧ (ov = false → ch ≤ b) := by
  intro fuel
  induction fuel with
  | zero => intro _ _ _ _ _ _ _ _ _ _ _ _ _ _ _ h; simp [wodLoop] at h
  | succ n ih =>
    intro charged pool acc allRoll addTimes show_ details ws s a t d ch ov ws' h
    simp only [wodLoop] at h
    simp only [decide_eq_true_eq] at h
    split at h
    · rename_i hov
      simp only [Option.some.injEq, Prod.mk.injEq] at h
      obtain ⟨⟨_, _, _, _, h5, h6⟩, h7⟩ := h
      subst h5 h6
      exact ⟨fun _ => hov, fun hc => by cases hc⟩
    · rename_i hov
      split at h
      · simp at h
      · rename_i s1 a1 ts1 ws1 hround
        split at h
        · exact ih _ _ _ _ _ _ _ _ _ _ _ _ _ _ _ h
        · simp only [Option.some.injEq, Prod.mk.injEq] at h
          obtain ⟨⟨_, _, _, _, h5, h6⟩, _⟩ := h
          subst h5 h6
          exact ⟨fun hc => (by cases hc), fun _ => by omega⟩

theorem dcLoop_budget (addLine points : Int) (mode : Int) (b : Int) :
    ∀ (fuel : Nat) (charged pool acc allRoll addTimes : Int) (show_ : Bool) (details : List String) (ws : List Nat)
      (s a t : Int) (d : List String) (ch : Int) (ov : Bool) (ws' : List Nat),
      dcLoop addLine points mode (some b) fuel charged pool acc allRoll addTimes show_ details ws
        = some (some ((s, a, t, d, ch, ov), ws')) →
      (ov = true → b < ch) ∧ (ov = false → ch ≤ b) := by
  intro fuel
  induction fuel with
  | zero => intro _ _ _ _ _ _ _ _ _ _ _ _ _ _ _ h; simp [dcLoop] at h
  | succ n ih =>
    intro charged pool acc allRoll addTimes show_ details ws s a t d ch ov ws' h
    simp only [dcLoop] at h
    simp only [decide_eq_true_eq] at h
    split at h
    · rename_i hov
      simp only [Option.some.injEq, Prod.mk.injEq] at h
      obtain ⟨⟨_, _, _, _, h5, h6⟩, h7⟩ := h
      subst h5 h6
      exact ⟨fun _ => hov, fun hc => by cases hc⟩
    · rename_i hov
      split at h
      · simp at h
      · rename_i s1 a1 ts1 ws1 hround
        split at h
        · exact ih _ _ _ _ _ _ _ _ _ _ _ _ _ _ _ h
        · simp only [Option.some.injEq, Prod.mk.injEq] at h
          obtain ⟨⟨_, _, _, _, h5, h6⟩, _⟩ := h
          subst h5 h6
          exact ⟨fun hc => (by cases hc), fun _ => by omega⟩

/-! ### entry points -/

theorem wod_charged_all (fuel : Nat) (addLine pool points threshold : Int) (isGE : Bool) (mode : Int) (ws : List Nat)
    (budget : Option Int) (r : PoolResult) (ws' : List Nat) (hp0 : 0 ≤ pool) (hp1 : pool < two63)
    (h : rollWoD fuel addLine pool points threshold isGE mode ws budget = some (some (r, ws'))) (hov : r.over = false) :
    wrap64 r.charged = r.allRoll := by
  simp only [rollWoD] at h
  split at h
  · simp at h
  · simp at h
  · simp only [Option.some.injEq, Prod.mk.injEq] at h
    rw [← h.1] at hov; simp at hov
  · rename_i succ allRoll addTimes details charged ws1 hl
    simp only [Option.some.injEq, Prod.mk.injEq] at h
    rw [← h.1]
    simp only
    exact wodLoop_charged _ _ _ _ _ _ _ _ _ _ _ _ _ _ _ _ _ _ _ _ _ hl
      (by rw [Int.zero_add]; exact DS.Proofs.wrap64_id pool (by unfold two63 at *; omega) hp1)

theorem dc_charged_all (fuel : Nat) (addLine pool points : Int) (mode : Int) (ws : List Nat)
    (budget : Option Int) (r : PoolResult) (ws' : List Nat) (hp0 : 0 ≤ pool) (hp1 : pool < two63)
    (h : rollDC fuel addLine pool points mode ws budget = some (some (r, ws'))) (hov : r.over = false) :
    wrap64 r.charged = r.allRoll := by
  simp only [rollDC] at h
  split at h
  · simp at h
  · simp at h
  · simp only [Option.some.injEq, Prod.mk.injEq] at h
    rw [← h.1] at hov; simp at hov
  · rename_i result allRoll addTimes details charged ws1 hl
    simp only [Option.some.injEq, Prod.mk.injEq] at h
    rw [← h.1]
    simp only
    exact dcLoop_charged _ _ _ _ _ _ _ _ _ _ _ _ _ _ _ _ _ _ _ hl
      (by rw [Int.zero_add]; exact DS.Proofs.wrap64_id pool (by unfold two63 at *; omega) hp1)

/-! ### non-vacuity: a pool roll that explodes for three rounds charges 2+2+2+... ; with budget 3 it is aborted at round 2 -/

example : (rollWoD 10 2 2 10 8 true 1 [] none).map (fun o => o.map (fun x => (x.1.charged, x.1.allRoll, x.1.over))) =
    some none := by decide

/-- max mode: every die explodes, so without a budget the fuel runs out (the Go loop would not return); with budget 5 the roll
    is aborted at the start of round 3 having charged 6 > 5 -/
example : (rollWoD 10 2 2 10 8 true 1 [] (some 5)).map (fun o => o.map (fun x => (x.1.charged, x.1.over))) =
    some (some (6, true)) := by decide

/-- min mode: no die explodes; the 4 dice of the single round are charged -/
example : (rollWoD 10 2 4 10 8 true (-1) [] (some 5)).map (fun o => o.map (fun x => (x.1.charged, x.1.allRoll, x.1.over))) =
    some (some (4, 4, false)) := by decide

/-! ### calls in progress: at most `maxCallDepth`, with or without an operation budget -/

/-- at the cap a call is refused before anything of it runs (function or computed value, whatever the budget configuration) -/
theorem call_depth_cap {α} (g : G) (k : G → G × Res α) (h : g.calls ≥ maxCallDepth) :
    withCall g k = (g, .err "调用层数过多") := by
  simp [withCall, h]

/-- a call that is admitted runs with the count one higher … -/
theorem call_counts_itself {α} (g : G) (k : G → G × Res α) (h : ¬ g.calls ≥ maxCallDepth) :
    (withCall g k).2 = (k { g with calls := g.calls + 1 }).2 := by
  simp [withCall, h]

/-- … and however it ends — value, error, fault — the count is what it was before the call: the cap bounds the NESTING, not the number of calls -/
theorem calls_restored {α} (g : G) (k : G → G × Res α) : (withCall g k).1.calls = g.calls := by
  unfold withCall
  split <;> rfl

theorem funcInvoke_depth_cap (sub : SubRun) (g : G) (c a : Nat) (args : List Val) (h : g.calls ≥ maxCallDepth) :
    funcInvoke sub g c a args = (g, .err "调用层数过多") := call_depth_cap g _ h

theorem computedExecute_depth_cap (sub : SubRun) (g : G) (c a : Nat) (h : g.calls ≥ maxCallDepth) :
    computedExecute sub g c a = (g, .err "调用层数过多") := call_depth_cap g _ h

end DS.Props.C07
