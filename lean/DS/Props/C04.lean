/-
  C04 — every dice outcome is legal and equals what its displayed dice imply.
  Property theorems only.  Quantifiers: all parameter tuples, all 64-bit word streams, all modes.
  Sums are stated under the explicit guard `NoOverflow`; without it the wrapped sum is what is returned.
-/
import DS.Proofs.CocLemmas
import DS.Proofs.PoolLemmas
import DS.Model.VMRun

namespace DS.Props.C04
open DS.Roll DS.Rng DS.Proofs

/-- legal face count for a die (what the VM lets through and `_roll64` supports) -/
def LegalSides (sides : Int) : Prop := 0 < sides ∧ sides ≤ maxInt64 - 1

/-! ### XdY with keep/drop/min/max (RollCommon) -/

/-- exactly `times` dice are produced (and shown); each is a face 1..sides after the min/max clamp -/
theorem common_dice (times sides : Int) (hs : LegalSides sides) (dmin dmax : Option Int)
    (keepLH lowNum highNum : Int) (ws : List Nat) (hws : Words64 ws) (r : CommonResult) (rest : List Nat)
    (h : rollCommon times sides dmin dmax keepLH lowNum highNum 0 ws = some (r, rest)) :
    r.nums.length = times.toNat ∧
    ∀ d ∈ r.nums, ∃ x, 1 ≤ x ∧ x ≤ sides ∧ d = clampDie dmin dmax x := by
  unfold rollCommon at h
  split at h
  · simp at h
  · rename_i raw ws' hd
    simp at h
    obtain ⟨rfl, rfl⟩ := h
    obtain ⟨hl, hf⟩ := rollDice_faces sides hs.1 hs.2 dmin dmax _ ws hws raw ws' hd
    have hp := sortFor_perm keepLH raw
    refine ⟨by simp [hp.length_eq, hl], ?_⟩
    intro d hd'
    exact hf d (hp.mem_iff.1 hd')

/-- the number of kept dice: k for kl/kh, times−k for dl/dh, clamped to [0, times]; it does not
    depend on the stream or on the mode -/
theorem common_pick (times sides : Int) (dmin dmax : Option Int) (keepLH lowNum highNum mode : Int)
    (ws : List Nat) (r : CommonResult) (rest : List Nat)
    (h : rollCommon times sides dmin dmax keepLH lowNum highNum mode ws = some (r, rest)) :
    r.pick = pickNum times keepLH lowNum highNum := by
  unfold rollCommon at h
  split at h
  · simp at h
  · simp at h; obtain ⟨rfl, _⟩ := h; rfl

theorem pick_range (times keepLH lowNum highNum : Int) (ht : 0 ≤ times) :
    0 ≤ pickNum times keepLH lowNum highNum ∧ pickNum times keepLH lowNum highNum ≤ times :=
  pickNum_range times keepLH lowNum highNum ht

theorem pick_keep_low (times k h : Int) (hk : 0 ≤ k) (hk' : k ≤ times) :
    pickNum times 1 k h = k := by
  unfold pickNum; simp; omega

theorem pick_keep_high (times l k : Int) (hk : 0 ≤ k) (hk' : k ≤ times) :
    pickNum times 2 l k = k := by
  unfold pickNum; simp; omega

theorem pick_drop_low (times k h : Int) (ht' : times < two63) (hk : 0 ≤ k) (hk' : k ≤ times) :
    pickNum times 3 k h = times - k := by
  unfold pickNum
  have : wrap64 (times - k) = times - k := wrap64_id _ (by unfold two63 at *; omega) (by omega)
  simp [this]; omega

theorem pick_drop_high (times l k : Int) (ht' : times < two63) (hk : 0 ≤ k) (hk' : k ≤ times) :
    pickNum times 4 l k = times - k := by
  unfold pickNum
  have : wrap64 (times - k) = times - k := wrap64_id _ (by unfold two63 at *; omega) (by omega)
  simp [this]; omega

/-- the shown dice are a permutation of the rolled dice, ordered so that the kept ones come first:
    ascending for kl / dh, descending for kh / dl -/
theorem common_order (raw : List Int) (keepLH : Int) :
    (sortFor keepLH raw).Perm raw ∧
    ((keepLH = 1 ∨ keepLH = 4) → (sortFor keepLH raw).Pairwise (fun a b => a ≤ b)) ∧
    ((keepLH = 2 ∨ keepLH = 3) → (sortFor keepLH raw).Pairwise (fun a b => a ≥ b)) := by
  refine ⟨sortFor_perm _ _, ?_, ?_⟩
  · intro hk
    have : sortFor keepLH raw = sortAsc raw := by
      rcases hk with rfl | rfl <;> simp [sortFor]
    rw [this]; exact sortAsc_sorted raw
  · intro hk
    have : sortFor keepLH raw = sortDesc raw := by
      rcases hk with rfl | rfl <;> simp [sortFor]
    rw [this]; exact sortDesc_sorted raw

/-- the kept dice are the `pick` lowest (kl, dh): nothing kept exceeds anything dropped -/
theorem kept_are_lowest (nums : List Int) (hs : nums.Pairwise (fun a b => a ≤ b)) (p : Nat) :
    ∀ x ∈ nums.take p, ∀ y ∈ nums.drop p, x ≤ y := by
  intro x hx y hy
  have := List.pairwise_append.1 ((List.take_append_drop p nums).symm ▸ hs)
  exact this.2.2 x hx y hy

/-- the kept dice are the `pick` highest (kh, dl) -/
theorem kept_are_highest (nums : List Int) (hs : nums.Pairwise (fun a b => a ≥ b)) (p : Nat) :
    ∀ x ∈ nums.take p, ∀ y ∈ nums.drop p, x ≥ y := by
  intro x hx y hy
  have := List.pairwise_append.1 ((List.take_append_drop p nums).symm ▸ hs)
  exact this.2.2 x hx y hy

/-- the total is the sum of the kept dice (wrapped like Go's int; the true sum under NoOverflow) -/
theorem common_total (times sides : Int) (dmin dmax : Option Int) (keepLH lowNum highNum mode : Int)
    (ws : List Nat) (r : CommonResult) (rest : List Nat)
    (h : rollCommon times sides dmin dmax keepLH lowNum highNum mode ws = some (r, rest)) :
    r.num = sumWrap (r.nums.take r.pick.toNat) ∧
    (NoOverflow (r.nums.take r.pick.toNat) → r.num = (r.nums.take r.pick.toNat).sum) := by
  unfold rollCommon at h
  split at h
  · simp at h
  · simp at h
    obtain ⟨rfl, _⟩ := h
    exact ⟨rfl, fun hno => sumWrap_eq_sum _ hno⟩

/-- the text lists all dice joined by `+` when everything is kept, otherwise `{kept | dropped}` -/
theorem common_text (times sides : Int) (dmin dmax : Option Int) (keepLH lowNum highNum mode : Int)
    (ws : List Nat) (r : CommonResult) (rest : List Nat)
    (h : rollCommon times sides dmin dmax keepLH lowNum highNum mode ws = some (r, rest)) :
    r.text = (if r.pick == times then joinWith "+" (r.nums.map toString)
              else "{" ++ joinWith " " (commonItems r.pick r.nums 0) ++ "}") := by
  unfold rollCommon at h
  split at h
  · simp at h
  · simp at h
    obtain ⟨rfl, _⟩ := h
    simp [commonText]

/-- `commonItems` puts the bar exactly in front of the die with index `pick` -/
theorem commonItems_shape (pick : Int) : ∀ (nums : List Int) (i : Int),
    (commonItems pick nums i).length = nums.length ∧
    ∀ (j : Nat) (hj : j < nums.length),
      (commonItems pick nums i)[j]? =
        some (if i + j == pick then "| " ++ toString nums[j] else toString nums[j]) := by
  intro nums
  induction nums with
  | nil => intro i; simp [commonItems]
  | cons x xs ih =>
    intro i
    obtain ⟨hl, hg⟩ := ih (i + 1)
    refine ⟨by simp [commonItems, hl], ?_⟩
    intro j hj
    cases j with
    | zero => simp [commonItems]
    | succ j =>
      have := hg j (by simpa using hj)
      simp only [commonItems, List.getElem?_cons_succ, this, List.getElem_cons_succ]
      have e : i + 1 + (j : Int) = i + ((j + 1 : Nat) : Int) := by omega
      rw [e]

/-! ### Fate -/

/-- four dice, each −1/0/+1, shown as `-`/`0`/`+`, and the result is their sum -/
def fateSym (n : Int) : String := if n == -1 then "-" else if n == 0 then "0" else if n == 1 then "+" else ""

theorem fate_spec (mode : Int) : ∀ (k : Nat) (ws : List Nat) (v : Int) (t : String) (rest : List Nat),
    fateLoop mode k ws = some ((v, t), rest) →
    ∃ ds : List Int, ds.length = k ∧ v = ds.sum ∧ t = (ds.map fateSym).foldr (· ++ ·) "" := by
  intro k
  induction k with
  | zero =>
    intro ws v t rest h
    simp [fateLoop] at h
    obtain ⟨⟨rfl, rfl⟩, _⟩ := h
    exact ⟨[], rfl, by simp, by simp⟩
  | succ k ih =>
    intro ws v t rest h
    simp only [fateLoop] at h
    split at h
    · simp at h
    · rename_i r ws' hr
      split at h
      · simp at h
      · rename_i s d ws'' hl
        simp at h
        obtain ⟨⟨rfl, rfl⟩, rfl⟩ := h
        obtain ⟨ds, hlen, rfl, rfl⟩ := ih ws' s d ws'' hl
        refine ⟨(r - 2) :: ds, by simp [hlen], by simp, ?_⟩
        simp [fateSym]

/-- each Fate die is −1, 0 or +1 in random mode -/
theorem fate_die_range (ws : List Nat) (hws : Words64 ws) (r : Int) (rest : List Nat)
    (h : roll 3 0 ws = some (r, rest)) : -1 ≤ r - 2 ∧ r - 2 ≤ 1 := by
  obtain ⟨h1, h2, _⟩ := roll_face 3 (by decide) (by decide) ws hws r rest h
  omega

/-! ### CoC bonus / penalty: the independent rule -/

/-- value of a percentile roll with tens digit `d` (10 counts as digit 0) and units `u`: 00+0 is 100 -/
def cocValue (d u : Int) : Int := if d % 10 == 0 && u == 0 then 100 else (d % 10) * 10 + u

/-- **The CoC bonus / penalty rule.**  `rollCoC` (a transcription of RollCoC: one d100, `diceNum` extra tens dice, and the
    code's bookkeeping of least die / greatest die / "a 10 was shown") returns, for every stream, mode and number of dice:
    with the d100 showing `d100` (1..100) and the extra tens dice showing `dice` (each 1..10, a 10 standing for the digit 0),
    the LEAST (bonus) or GREATEST (penalty) of the percentile values `pct t (d100 % 10)` over the candidate tens digits
    `t` — the d100's own and each extra die's — where tens digit 0 with units digit 0 reads 100.
    The shown text lists the d100 and the extra dice in rolling order. -/
theorem coc_rule (isBonus : Bool) (diceNum mode : Int) (ws : List Nat) (hws : Words64 ws)
    (v : Int) (t : String) (rest : List Nat)
    (h : rollCoC isBonus diceNum mode ws = some ((v, t), rest)) :
    ∃ (d100 : Int) (dice : List Int), 1 ≤ d100 ∧ d100 ≤ 100 ∧ dice.length = diceNum.toNat ∧ (∀ d ∈ dice, 1 ≤ d ∧ d ≤ 10) ∧
      v = (if isBonus
            then dice.foldl (fun v n => imin v (pct (cocDigit n) (d100 % 10))) (pct (d100 / 10 % 10) (d100 % 10))
            else dice.foldl (fun v n => imax v (pct (cocDigit n) (d100 % 10))) (pct (d100 / 10 % 10) (d100 % 10))) ∧
      t = "(D100=" ++ toString d100 ++ (if isBonus then ",奖励" else ",惩罚") ++ joinWith " " (dice.map cocShow) ++ ")" := by
  unfold rollCoC at h
  split at h
  · simp at h
  · rename_i d100 ws1 hr
    obtain ⟨h1, h100, hws1⟩ := roll_range_any 100 (by decide) (by decide) mode ws hws d100 ws1 hr
    have etd : Int.tdiv d100 10 = d100 / 10 := Int.tdiv_eq_ediv_of_nonneg (by omega)
    have etm : Int.tmod d100 10 = d100 % 10 := Int.tmod_eq_emod_of_nonneg (by omega)
    simp only [etd, etm] at h
    split at h
    · simp at h
    · rename_i ts mn mx e ws2 hl
      obtain ⟨dice, hlen, hrange, rfl, hf, _⟩ := cocLoop_fold mode _ _ _ _ ws1 hws1 _ _ _ _ _ hl
      have hmn : mn = (cocFold dice (d100 / 10) (d100 / 10) false).1 := by rw [← hf]
      have hmx : mx = (cocFold dice (d100 / 10) (d100 / 10) false).2.1 := by rw [← hf]
      have he : e = (cocFold dice (d100 / 10) (d100 / 10) false).2.2 := by rw [← hf]
      have hu0 : 0 ≤ d100 % 10 := by omega
      have hu9 : d100 % 10 ≤ 9 := by omega
      have hbase : pct (d100 / 10 % 10) (d100 % 10) = d100 / 10 * 10 + d100 % 10 := by
        unfold pct
        by_cases h0 : d100 / 10 % 10 = 0
        · by_cases hu : d100 % 10 = 0
          · simp [h0, hu]; omega
          · simp [h0, hu]; omega
        · have : (d100 / 10 % 10 == 0) = false := by simp [h0]
          simp [this]; omega
      refine ⟨d100, dice, h1, h100, hlen, hrange, ?_⟩
      cases isBonus
      · simp only [Bool.false_eq_true, if_false] at h ⊢
        simp at h
        obtain ⟨⟨rfl, rfl⟩, _⟩ := h
        refine ⟨?_, by simp [String.append_assoc]⟩
        have := penalty_fold (d100 % 10) hu0 hu9 dice hrange (d100 / 10) (d100 / 10) false (by omega) (by omega) (by omega)
        rw [← hmx, ← he] at this
        rw [hbase]
        simpa [penaltyVal] using this
      · simp only [if_true] at h ⊢
        simp at h
        obtain ⟨⟨rfl, rfl⟩, _⟩ := h
        refine ⟨?_, by simp [String.append_assoc]⟩
        have := bonus_fold (d100 % 10) hu0 hu9 dice hrange (d100 / 10) (d100 / 10) false (by omega) (by omega)
        rw [← hmn, ← he] at this
        rw [hbase]
        simpa [bonusVal] using this

/-- the rule in the usual words, for one bonus die: the better (lower) of the two percentile readings -/
theorem coc_one_bonus (d100 n : Int) :
    [n].foldl (fun v n => imin v (pct (cocDigit n) (d100 % 10))) (pct (d100 / 10 % 10) (d100 % 10)) =
      imin (pct (d100 / 10 % 10) (d100 % 10)) (pct (cocDigit n) (d100 % 10)) := rfl

/-! ### WoD / Double Cross rounds -/

/-- a Double Cross round scores 10 if any die reached the critical value, else its highest die
    (this is the rule; `dcRound`/`dcLoop` implement it — see `dc_round_value`) -/
def dcRoundValue (addLine : Int) (dice : List Int) : Int :=
  if dice.any (fun d => d ≥ addLine) then 10 else dice.foldl (fun m d => if d > m then d else m) 0

/-- `dcRound` returns the highest die (≥ the running maximum) and the number of critical dice -/
theorem dc_round_value (addLine points mode : Int) :
    ∀ (k : Nat) (mx : Int) (ws : List Nat) (m a : Int) (ts : List String) (rest : List Nat),
    dcRound addLine points mode k mx ws = some ((m, a, ts), rest) →
    ∃ dice : List Int, dice.length = k ∧ ts.length = k ∧
      m = dice.foldl (fun m d => if d > m then d else m) mx ∧
      a = (dice.filter (fun d => d ≥ addLine)).length ∧
      (0 < a ↔ dice.any (fun d => d ≥ addLine) = true) := by
  intro k
  induction k with
  | zero =>
    intro mx ws m a ts rest h
    simp [dcRound] at h
    obtain ⟨⟨rfl, rfl, rfl⟩, _⟩ := h
    exact ⟨[], rfl, rfl, rfl, rfl, by simp⟩
  | succ k ih =>
    intro mx ws m a ts rest h
    simp only [dcRound] at h
    split at h
    · simp at h
    · rename_i one ws' hr
      split at h
      · simp at h
      · rename_i m' a' ts' ws'' hrec
        simp at h
        obtain ⟨⟨rfl, rfl, rfl⟩, rfl⟩ := h
        obtain ⟨dice, hl, htl, rfl, rfl, hany⟩ := ih _ ws' m' a' ts' ws'' hrec
        refine ⟨one :: dice, by simp [hl], by simp [htl], by simp [List.foldl_cons], ?_, ?_⟩
        · by_cases hc : one ≥ addLine
          · simp [hc]; omega
          · simp [hc]
        · by_cases hc : one ≥ addLine
          · simp [hc]; omega
          · have hc' : ¬ addLine ≤ one := by omega
            rw [if_neg hc']
            simp only [List.any_cons, hc, decide_false, Bool.false_or]
            simpa using hany

/-- **The WoD pool rule, end to end.**  Whenever RollWoD completes (any stream, any mode, with or without an operation
    budget), the dice it rolled form a chain of rounds — `pool` dice first, then as many dice as the previous round had
    dice at or above the add line (`addLine = 0` switches adding off), ending with the first round that adds none — and
    the result is the number of successes (dice ≥ / ≤ the threshold) over ALL dice of ALL rounds; `rounds` is the number
    of rounds; the dice total is the pool plus every added die (int64-wrapped). -/
theorem wod_rule (fuel : Nat) (addLine pool points threshold : Int) (isGE : Bool) (mode : Int) (ws : List Nat)
    (budget : Option Int) (r : PoolResult) (ws' : List Nat)
    (h : rollWoD fuel addLine pool points threshold isGE mode ws budget = some (some (r, ws'))) (hov : r.over = false) :
    ∃ rounds : List (List Int), Chain (wodAdd addLine) pool rounds ∧
      r.value = total (cnt (wodSucc threshold isGE)) rounds ∧
      r.rounds = (rounds.length : Int) ∧
      r.allRoll = rounds.foldl (fun acc rd => wrap64 (acc + cnt (wodAdd addLine) rd)) pool := by
  simp only [rollWoD] at h
  split at h
  · simp at h
  · simp at h
  · simp only [Option.some.injEq, Prod.mk.injEq] at h
    rw [← h.1] at hov; simp at hov
  · rename_i succ allRoll addTimes details charged ws1 hl
    simp only [Option.some.injEq, Prod.mk.injEq] at h
    obtain ⟨rounds, hch, rfl, rfl, rfl⟩ := wodLoop_rule _ _ _ _ _ _ _ _ _ _ _ _ _ _ _ _ _ _ _ _ _ hl
    rw [← h.1]
    exact ⟨rounds, hch, by simp, by simp, rfl⟩

/-- **The Double Cross rule, end to end.**  A chain of rounds as for WoD (a die is critical when it reaches the critical
    value); the result is the sum over rounds of: 10 if the round had a critical die, else its highest die. -/
theorem dc_rule (fuel : Nat) (addLine pool points : Int) (mode : Int) (ws : List Nat)
    (budget : Option Int) (r : PoolResult) (ws' : List Nat)
    (h : rollDC fuel addLine pool points mode ws budget = some (some (r, ws'))) (hov : r.over = false) :
    ∃ rounds : List (List Int), Chain (dcAdd addLine) pool rounds ∧
      r.value = rounds.foldl (fun acc rd => wrap64 (acc + dcValue addLine rd)) 0 ∧
      r.rounds = (rounds.length : Int) ∧
      r.allRoll = rounds.foldl (fun acc rd => wrap64 (acc + cnt (dcAdd addLine) rd)) pool := by
  simp only [rollDC] at h
  split at h
  · simp at h
  · simp at h
  · simp only [Option.some.injEq, Prod.mk.injEq] at h
    rw [← h.1] at hov; simp at hov
  · rename_i result allRoll addTimes details charged ws1 hl
    simp only [Option.some.injEq, Prod.mk.injEq] at h
    obtain ⟨rounds, hch, rfl, rfl, rfl⟩ := dcLoop_rule _ _ _ _ _ _ _ _ _ _ _ _ _ _ _ _ _ _ _ hl
    rw [← h.1]
    exact ⟨rounds, hch, rfl, by simp, rfl⟩

/-- the round value of `dc_rule` is the rule stated above -/
theorem dcValue_eq (addLine : Int) (dice : List Int) : dcValue addLine dice = dcRoundValue addLine dice := by
  unfold dcValue dcRoundValue cnt dcAdd
  by_cases hany : dice.any (fun d => decide (d ≥ addLine)) = true
  · rw [if_pos hany, if_pos]
    simp only [List.any_eq_true] at hany
    obtain ⟨x, hx, hp⟩ := hany
    have : 0 < (dice.filter (fun d => decide (d ≥ addLine))).length :=
      List.length_pos_of_mem (List.mem_filter.mpr ⟨hx, hp⟩)
    omega
  · rw [if_neg hany, if_neg]
    have : dice.filter (fun d => decide (d ≥ addLine)) = [] := by
      rw [List.filter_eq_nil_iff]
      intro a ha hp
      exact hany (List.any_eq_true.mpr ⟨a, ha, hp⟩)
    rw [this]; simp

/- Non-vacuity -/
example : (rollCommon 3 6 none none 0 0 0 0 [7, 8, 9]).map (fun p => (p.1.nums, p.1.num, p.1.text)) =
    some ([2, 3, 4], 9, "2+3+4") := by decide
example : Words64 [7, 8, 9] ∧ LegalSides 6 := by
  refine ⟨?_, by unfold LegalSides maxInt64; omega⟩
  intro w hw; simp at hw; rcases hw with rfl | rfl | rfl <;> decide
-- D100=47 with bonus dice showing 2 and 10(→digit 0): candidates 47, 27, 07 → 7;  D100=40, penalty 10 → 00+0 = 100
example : [2, 10].foldl (fun v n => imin v (pct (cocDigit n) (47 % 10))) (pct (47 / 10 % 10) (47 % 10)) = 7 := by decide
example : [10].foldl (fun v n => imax v (pct (cocDigit n) (40 % 10))) (pct (40 / 10 % 10) (40 % 10)) = 100 := by decide
example : [10].foldl (fun v n => imin v (pct (cocDigit n) (40 % 10))) (pct (40 / 10 % 10) (40 % 10)) = 40 := by decide
example : (rollCoC true 2 1 []).map (·.1) = some (100, "(D100=100,奖励0 0)") := by decide
example : Chain (wodAdd 10) 3 [[10, 4, 10], [8, 10], [2]] :=
  .more _ _ _ rfl (by decide) (.more _ _ _ rfl (by decide) (.last _ _ rfl (by decide)))
example : total (cnt (wodSucc 8 true)) [[10, 4, 10], [8, 10], [2]] = 4 := by decide
example : dcRoundValue 18 [18, 20, 13] = 10 := by decide
example : dcRoundValue 18 [7, 17, 13] = 17 := by decide

/-! ### nested pool terms (VM model) -/

section nested
open DS.VM

/-- a pool term starts by putting the enclosing term's parameters aside (and taking the defaults) … -/
theorem wodInit_saves (sub : SubRun) (g : G) (f : Frame) :
    ∃ f', exec sub g f .wodInit = .next g f' ∧ f'.wodSaved = (f.wodPool, f.wodPoints, f.wodThreshold, f.wodGE) :: f.wodSaved ∧
      f'.wodPool = 1 ∧ f'.wodPoints = 10 ∧ f'.wodThreshold = 8 ∧ f'.wodGE = true :=
  by simp only [exec]; exact ⟨_, rfl, rfl, rfl, rfl, rfl, rfl⟩

theorem push_keeps_pool_fields {f f' : Frame} {v : Val} (h : f.push v = .ok f') :
    f'.wodPool = f.wodPool ∧ f'.wodPoints = f.wodPoints ∧ f'.wodThreshold = f.wodThreshold ∧ f'.wodGE = f.wodGE ∧ f'.wodSaved = f.wodSaved := by
  unfold Frame.push at h
  split at h
  · simp at h; subst h; exact ⟨rfl, rfl, rfl, rfl, rfl⟩
  · simp at h

/-- … and whenever its roll completes, the enclosing term gets exactly those parameters back: a pool term nested in another
    one's operand cannot leak its `m` / `k` / `q` (for every value on the stack, heap, random stream, budget) -/
theorem diceWod_restores (sub : SubRun) (g g' : G) (f f' : Frame) (p q t : Int) (ge : Bool) (rest : List (Int × Int × Int × Bool))
    (hs : f.wodSaved = (p, q, t, ge) :: rest) (h : exec sub g f .diceWod = .next g' f') :
    f'.wodPool = p ∧ f'.wodPoints = q ∧ f'.wodThreshold = t ∧ f'.wodGE = ge ∧ f'.wodSaved = rest := by
  simp only [exec] at h
  split at h
  · rename_i v f1 hp
    have hs1 : f1.wodSaved = (p, q, t, ge) :: rest := by
      unfold Frame.pop at hp; split at hp <;> simp at hp; obtain ⟨_, rfl⟩ := hp; exact hs
    repeat' (first | split at h | (dsimp only at h))
    all_goals (try (cases h))
    all_goals (have hpf := push_keeps_pool_fields ‹Frame.push _ _ = Res.ok f'›; simp_all)
  · cases h

end nested

end DS.Props.C04
