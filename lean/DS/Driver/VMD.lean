import DS.Driver.Common
import DS.Driver.ErrFmtD
import DS.Model.VMRun
import DS.Model.Verify
import DS.Model.VerifyRun
namespace DS.Driver
open DS.VM

def parseBin (s : String) : Option BinOp :=
  if s == "add" then some .add else if s == "sub" then some .sub else if s == "mul" then some .mul
  else if s == "div" then some .div else if s == "mod" then some .mod else if s == "pow" then some .pow
  else if s == "nullCoalescing" then some .nullCoalescing else if s == "comp.lt" then some .lt
  else if s == "comp.le" then some .le else if s == "comp.eq" then some .eq else if s == "comp.ne" then some .ne
  else if s == "comp.ge" then some .ge else if s == "comp.gt" then some .gt else if s == "&" then some .bitAnd
  else if s == "|" then some .bitOr else none

def hexStr (s : String) : Option String := DS.Hex.decode s

def floatOfBitsHex (s : String) : Option Float := (hexToNat? s).map (fun n => Float.ofBits (UInt64.ofNat n))

def jumpOff (arg : String) : Option (Option Int) :=
  if arg == "N" then some none else if arg.startsWith "i" then ((arg.drop 1).toString.toInt?).map some else none

/-- one instruction token without nested operand -/
def parseSimple (name arg : String) : Option Instr :=
  let iarg : Option Int := if arg.startsWith "i" then (arg.drop 1).toString.toInt? else none
  let sarg : Option String := if arg.startsWith "s" then hexStr (arg.drop 1).toString else none
  match parseBin name with
  | some op => some (.bin op)
  | none =>
    if name == "push.int" then iarg.map .pushInt
    else if name == "push.flt" then (if arg.startsWith "f" then (floatOfBitsHex (arg.drop 1).toString).map .pushFlt else none)
    else if name == "push.str" then sarg.map .pushStr
    else if name == "push.arr" then iarg.map .pushArr
    else if name == "push.dict" then iarg.map .pushDict
    else if name == "push.range" then some .pushRange
    else if name == "push.null" then some .pushNull
    else if name == "push.this" then some .pushThis
    else if name == "push.last" then some .pushLast
    else if name == "push.def_expr" then some .pushDefExpr
    else if name == "ld.fs" then iarg.map .ldFs
    else if name == "ld" then sarg.map .ld
    else if name == "ld.d" then sarg.map .ldD
    else if name == "ld.raw" then sarg.map .ldRaw
    else if name == "store" then sarg.map .store
    else if name == "invoke" then iarg.map .invoke
    else if name == "item.get" then some .itemGet
    else if name == "item.set" then some .itemSet
    else if name == "attr.get" then sarg.map .attrGet
    else if name == "attr.set" then sarg.map .attrSet
    else if name == "slice.get" then some .sliceGet
    else if name == "slice.set" then some .sliceSet
    else if name == "and" then some .logicAnd
    else if name == "neg" then some .neg
    else if name == "pos" then some .pos
    else if name == "dice.init" then some .diceInit
    else if name == "dice.setTimes" then some .diceSetTimes
    else if name == "dice.setKeepLow" then some .diceSetKL
    else if name == "dice.setKeepHigh" then some .diceSetKH
    else if name == "dice.setDropLow" then some .diceSetDL
    else if name == "dice.setDropHigh" then some .diceSetDH
    else if name == "dice.setMin" then some .diceSetMin
    else if name == "dice.setMax" then some .diceSetMax
    else if name == "dice" then some .dice
    else if name == "dice.custom" then some .diceCustom
    else if name == "coc.penalty" then some .cocPenalty
    else if name == "coc.bonus" then some .cocBonus
    else if name == "dice.fate" then some .diceFate
    else if name == "dice.wod" then some .diceWod
    else if name == "wod.init" then some .wodInit
    else if name == "wod.pool" then some .wodPool
    else if name == "wod.points" then some .wodPoints
    else if name == "wod.threshold" then some .wodThreshold
    else if name == "wod.thresholdQ" then some .wodThresholdQ
    else if name == "dice.dc" then some .diceDC
    else if name == "dc.setInit" then some .dcInit
    else if name == "dc.setPool" then some .dcPool
    else if name == "dc.setPoints" then some .dcPoints
    else if name == "halt" then some .halt
    else if name == "mark.detail" then
      (if arg.startsWith "d" then
        match (arg.drop 1).toString.splitOn "," with
        | [b, e] => (match b.toInt?, e.toInt? with | some b, some e => some (.markDetail b e) | _, _ => none)
        | _ => none
       else none)
    else if name == "pop" then some .pop
    else if name == "popn" then iarg.map .popN
    else if name == "jmp" then (jumpOff arg).map .jmp
    else if name == "je" then (jumpOff arg).map .je
    else if name == "jne" then (jumpOff arg).map .jne
    else if name == "je.dup" then (jumpOff arg).map .jeDup
    else if name == "ret" then some .ret
    else if name == "fstr.block.push" then some .fstrPush
    else if name == "fstr.block.pop" then some .fstrPop
    else if name == "block.push" then some .blockPush
    else if name == "block.pop" then some .blockPop
    else if name == "st.set" then some .stSet
    else if name == "st.x0" then some .stX0
    else if name == "st.x1" then some .stX1
    else if name == "st.mod" then
      (if arg.startsWith "t" then
        match (arg.drop 1).toString.splitOn "," with
        | [o, t] => (match hexStr o, hexStr t with | some o, some t => some (.stMod o t) | _, _ => none)
        | _ => none
       else none)
    else if name ∈ ["store.local", "store.global", "push.global", "invoke.self", "or", "nop"] then some (.noop name)
    else none

/-- parses "[ instr ... ]" allocating function / computed constants on the heap -/
def parseCode : Nat → List String → Heap → Option (Code × Heap × List String)
  | 0, _, _ => none
  | fuel+1, toks, heap =>
    match toks with
    | "[" :: rest =>
      let rec items (fuel2 : Nat) (toks : List String) (heap : Heap) (acc : Array Instr) : Option (Code × Heap × List String) :=
        match fuel2 with
        | 0 => none
        | fuel2+1 =>
          match toks with
          | "]" :: rest => some (acc, heap, rest)
          | t :: rest =>
            let (name, arg) := match t.splitOn "=" with
              | [n] => (n, "")
              | n :: a => (n, "=".intercalate a)
              | [] => ("", "")
            if arg == "F(" then
              match rest with
              | nm :: ps :: ex :: rest2 =>
                (match hexStr nm, hexStr ex, parseCode fuel rest2 heap with
                 | some nm, some ex, some (body, heap2, ")" :: rest3) =>
                   let params := if ps == "-" then [] else (ps.splitOn ",").filterMap hexStr
                   let (heap3, addr) := heap2.alloc (.func nm params ex body)
                   items fuel2 rest3 heap3 (acc.push (.pushConst (.func addr)))
                 | _, _, _ => none)
              | _ => none
            else if arg == "C(" then
              match rest with
              | ex :: rest2 =>
                (match hexStr ex, parseCode fuel rest2 heap with
                 | some ex, some (body, heap2, ")" :: rest3) =>
                   let (heap3, addr) := heap2.alloc (.comp ex none body)
                   items fuel2 rest3 heap3 (acc.push (.pushConst (.comp addr)))
                 | _, _ => none)
              | _ => none
            else
              match parseSimple name arg with
              | some i => items fuel2 rest heap (acc.push i)
              | none => none
          | [] => none
      items (rest.length + 2) rest heap #[]
    | _ => none

def parseCfgTok (t : String) : Config :=
  let parts := t.splitOn ","
  parts.foldl (fun (c : Config) p =>
    if p.startsWith "L" then { c with opLimit := ((p.drop 1).toString.toInt?).getD 0 }
    else if p.startsWith "D" then { c with defaultDiceSideExpr := ((hexStr (p.drop 1).toString).getD "") }
    else if p.startsWith "P" || p.startsWith "E" || p == "-" then c
    else p.toList.foldl (fun (c : Config) ch =>
      if ch == 'w' then { c with wod := true } else if ch == 'c' then { c with coc := true }
      else if ch == 'f' then { c with fate := true } else if ch == 'd' then { c with dc := true }
      else if ch == 'z' then { c with ignoreDiv0 := true } else if ch == 'm' then { c with minMode := true }
      else if ch == 'M' then { c with maxMode := true } else c) c) {}

partial def canonVal (h : Heap) (seen : List Nat) (depth : Nat) (v : Val) : String :=
  if depth > 40 then "DEEP" else
  match v with
  | .int i => s!"i{i}"
  | .float f => "f" ++ floatBitsHex f
  | .str s => "s" ++ hx s
  | .null => "n"
  | .arr a => if seen.contains a then "[...]" else "[" ++ " ".intercalate ((h.arrOf a).map (canonVal h (a :: seen) (depth + 1))) ++ "]"
  | .dict a =>
    if seen.contains a then "{...}" else
    "{" ++ " ".intercalate (sortStrings ((h.dictOf a).map (fun (k, x) => hx k ++ "=" ++ canonVal h (a :: seen) (depth + 1) x))) ++ "}"
  | .func a =>
    (match h[a]? with
     | some (.func n ps e _) => "F" ++ hx n ++ "(" ++ ",".intercalate (ps.map hx) ++ ")" ++ hx e
     | _ => "F?")
  | .nfunc n _ _ => "N" ++ hx n
  | .comp a =>
    (match h[a]? with
     | some (.comp e none _) => "C" ++ hx e
     | some (.comp e (some at') _) =>
       "C" ++ hx e ++ "{" ++ " ".intercalate (sortStrings ((h.dictOf at').map (fun (k, x) => hx k ++ "=" ++ canonVal h seen (depth + 1) x))) ++ "}"
     | _ => "C?")
  | .nobj n => "O" ++ hx n
  | .local_ => "T20"

def canonAttrsOf (h : Heap) (attrs : Nat) : String :=
  "{" ++ " ".intercalate (sortStrings ((h.dictOf attrs).map (fun (k, x) => hx k ++ "=" ++ canonVal h [] 0 x))) ++ "}"

/-- vmexec <cfg> <seedhex> <hexsrc> <offset> <dump tokens...> -/
def vmLine (toks : List String) : String :=
  match toks with
  | cmd :: cfg :: seed :: src :: off :: dump =>
    if cmd != "vmexec" && cmd != "skelexec" then "bad-op" else
    match hexToNat? seed, bytesOf src, off.toNat?, parseCode 64 dump #[] with
    | some sd, some srcB, some offset, some (code, heap, []) =>
      let (heap, attrs) := heap.alloc (.dict [])
      let g : G := { heap := heap, rng := sd, cfg := parseCfgTok cfg, ctxs := #[{ attrs := attrs, up := none, numOp := 0, depth := 0 }],
                     stLog := [], src := srcB }
      let fr : Frame := { ctx := 0, code := code, stack := newStack, srcBytes := srcB }
      (match (if cmd == "skelexec" then evalLoopSk 400000 g fr false false else evalLoop 400000 g fr) with
       | (g', .ok out) =>
         let ret := out.top.getD .null
         let retS := valToString g'.heap ret
         let det := if out.spans.isEmpty then Res.ok "" else renderDetail g'.heap srcB offset out.spans retS
         (match det with
          | .ok d =>
            s!"ok {canonVal g'.heap [] 0 ret} d={hx d} ops={getOps g' 0} seed={natToHex g'.rng 32} vars={canonAttrsOf g'.heap attrs} st={hx (";".intercalate g'.stLog)}"
          | .panic s => "panic detail " ++ s
          | _ => "unsup detail")
       | (g', .err e) => s!"err {hx e} ops={getOps g' 0}"
       | (_, .panic s) => "panic " ++ s
       | (_, .unsup w) => "unsup " ++ w
       | (_, .diverge) => "diverge")
    | _, _, _, _ => "bad-dump"
  | _ => "bad-op"

/-- annotation spans of a body must lie inside the text that body's VM indexes (Matched for the main program, the
    stored expression text for a function / computed body) -/
def spansInside (c : Code) (len : Nat) : Option String :=
  let rec go (i : Nat) (l : List Instr) : Option String :=
    match l with
    | [] => none
    | .markDetail b e :: r =>
      if b < 0 || e < b || e > (len : Int) then some s!"pc {i}: annotation span [{b},{e}) outside the body's own text (length {len})"
      else go (i + 1) r
    | _ :: r => go (i + 1) r
  go 0 c.toList

/-- verify <matched-length> <dump tokens...> : runs the bytecode verifier over the main program and every nested body -/
def verifyLine (toks : List String) : String :=
  match toks with
  | "verify" :: off :: dump =>
    (match off.toNat?, parseCode 64 dump #[] with
     | some offset, some (code, heap, []) =>
       let bodies : List (Code × Nat) := (code, offset) :: heap.toList.filterMap (fun o => match o with
         | .func _ _ e c => some (c, e.utf8ByteSize)
         | .comp e _ c => some (c, e.utf8ByteSize)
         | _ => none)
       let rec go (i : Nat) (l : List (Code × Nat)) (n : Nat) : String :=
         match l with
         | [] => s!"ok bodies={i} instrs={n}"
         | (c, len) :: r =>
           (match DS.Verify.verifyCode c with
            | .ok _ =>
              (match spansInside c len with
               | none => go (i + 1) r (n + c.size)
               | some e => s!"bad body={i} {hx e}")
            | .error e => s!"bad body={i} {hx e}")
       go 0 bodies 0
     | _, _ => "bad-dump")
  | _ => "bad-op"

end DS.Driver
