import DS.Driver.Common
import DS.Driver.ErrFmtD
import DS.Model.Peg
import DS.Model.StList
import DS.Gen.Grammar
import DS.Gen.Actions
import DS.Gen.Unicode
import DS.Gen.Opcodes
namespace DS.Driver
open DS.Peg

def pegActs : Array Act := DS.Gen.Actions.acts

def opNum (n : String) : Nat := ((DS.Gen.Opcodes.opcodes.find? (·.1 == n)).map (·.2)).getD 9999

def pegEnv (input : Array Nat) (maxCnt : Nat) (custom : Nat → Nat := fun _ => 0) : Env :=
  { input := input, rules := DS.Gen.Grammar.rules, acts := pegActs, nodeCount := DS.Gen.Grammar.nodeCount,
    tables := DS.Gen.Unicode.tables,
    bpush := opNum "typeBlockPush", bpop := opNum "typeBlockPop", fpush := opNum "typeFStringBlockPush", fpop := opNum "typeFStringBlockPop", jmp := opNum "typeJmp",
    maxCnt := maxCnt, custom := custom, customOp := opNum "typeCustomDice" }

def pegFlags (tok : String) : Flags × Nat :=
  (tok.splitOn ",").foldl (fun (acc : Flags × Nat) p =>
    if p.startsWith "P" then (acc.1, ((p.drop 1).toString.toNat?).getD 0)
    else if p.startsWith "L" || p.startsWith "E" || p.startsWith "D" || p == "-" then acc
    else (p.toList.foldl (fun (f : Flags) ch =>
      if ch == 'w' then { f with wod := true } else if ch == 'c' then { f with coc := true }
      else if ch == 'f' then { f with fate := true } else if ch == 'd' then { f with dc := true }
      else if ch == 'B' then { f with disableBitwise := true } else if ch == 'S' then { f with disableStmts := true }
      else if ch == 'N' then { f with disableNDice := true } else f) acc.1, acc.2)) ({}, 0)

def traceStr (t : List Nat) : String := if t.isEmpty then "-" else ",".intercalate (t.reverse.map toString)

/-- pegtrace <cfg> <hexsrc> -/
def pegLine (toks : List String) : String :=
  match toks with
  | ["pegtrace", cfg, src] =>
    (match bytesOf src with
     | some bs =>
       let (flags, maxCnt) := pegFlags cfg
       let env := pegEnv bs.toArray maxCnt
       let (s, ok) := parseTop env flags 1000000
       match s.broken with
       | some w => "broken " ++ w
       | none =>
         if s.fuelOut then "diverge"
         else if ok then s!"ok {s.pos} {traceStr s.trace}" else s!"err {traceStr s.trace}"
     | none => "bad-op")
  | ["pegtracec", cfg, tbl, src] =>
    -- with registered custom dice parsers: tbl = "off:len,off:len,…" (match length at each offset where one matches) or "-"
    (match bytesOf src with
     | some bs =>
       let (flags, maxCnt) := pegFlags cfg
       let pairs : List (Nat × Nat) := if tbl == "-" then [] else (tbl.splitOn ",").filterMap (fun p =>
         match p.splitOn ":" with
         | [a, b] => (match a.toNat?, b.toNat? with | some x, some y => some (x, y) | _, _ => none)
         | _ => none)
       let custom (off : Nat) : Nat := ((pairs.find? (·.1 == off)).map (·.2)).getD 0
       let env := pegEnv bs.toArray maxCnt custom
       let (s, ok) := parseTop env flags 1000000
       match s.broken with
       | some w => "broken " ++ w
       | none =>
         if s.fuelOut then "diverge"
         else if ok then s!"ok {s.pos} {traceStr s.trace}" else s!"err {traceStr s.trace}"
     | none => "bad-op")
  | ["pegacts", cfg, src] =>
    -- coverage probe: which grammar actions / code predicates ran (every action additionally writes the pseudo-opcode 1000+index)
    (match bytesOf src with
     | some bs =>
       let (flags, maxCnt) := pegFlags cfg
       let env0 := pegEnv bs.toArray maxCnt
       let env := { env0 with acts := (List.range env0.acts.size).toArray.map (fun i => { (env0.acts[i]!) with effs := Eff.emit (1000 + i) :: (env0.acts[i]!).effs }) }
       let (s, ok) := parseTop env flags 1000000
       let seen : Array Bool := s.trace.foldl (fun (acc : Array Bool) x => if x ≥ 1000 && x - 1000 < acc.size then acc.set! (x - 1000) true else acc) (Array.replicate env0.acts.size false)
       let ids := (List.range env0.acts.size).filter (fun i => seen[i]!)
       (if ok then "ok " else "err ") ++ (if ids.isEmpty then "-" else ",".intercalate (ids.map toString))
     | none => "bad-op")
  | ["pegleaks", cfg, src] =>
    -- the rules in which a sequence failed after code had been written inside it (emit-then-fail sites), in order of occurrence
    (match bytesOf src with
     | some bs =>
       let (flags, maxCnt) := pegFlags cfg
       let env := pegEnv bs.toArray maxCnt
       let (s, ok) := parseTop env flags 1000000
       let ruleOf (id : Nat) : String :=
         let idx := (List.range DS.Gen.Grammar.ruleStarts.size).foldl (fun acc i => if DS.Gen.Grammar.ruleStarts[i]! ≤ id then i else acc) 0
         DS.Gen.Grammar.ruleNames[idx]!
       let names := (s.leaks.reverse.map ruleOf).eraseDups
       match s.broken with
       | some w => "broken " ++ w
       | none => (if ok then "ok " else "err ") ++ (if names.isEmpty then "-" else ",".intercalate names)
     | none => "bad-op")
  | _ => "bad-op"


/-- matchrest <offset> <hexsrc> : Matched / RestInput as RunAfterParsed computes them from the parser's final offset -/
def matchRestLine (toks : List String) : String :=
  match toks with
  | ["matchrest", off, src] =>
    (match off.toNat?, bytesOf src with
     | some o, some bs =>
       let pre := bs.take o
       let post := bs.drop o
       (match String.fromUTF8? (ByteArray.mk (pre.toArray.map (fun n => UInt8.ofNat n))) with
        | some s =>
          -- isSpace is restated here (the driver is core-only; DS/Props/C03.lean holds the same definition with the theorems)
          let isSp (c : Char) : Bool :=
            c == ' ' || c == '\t' || c == '\n' || c == '\x0b' || c == '\x0c' || c == '\r' || c.toNat == 0x85 || c.toNat == 0xA0 ||
            c.toNat == 0x1680 || (0x2000 ≤ c.toNat && c.toNat ≤ 0x200a) || c.toNat == 0x2028 || c.toNat == 0x2029 || c.toNat == 0x202f ||
            c.toNat == 0x205f || c.toNat == 0x3000
          let cs := s.toList
          let m := (cs.reverse.dropWhile isSp).reverse
          let r := (cs.reverse.takeWhile isSp).reverse
          let mb := (String.ofList m).toUTF8.toList.map (·.toNat)
          let rb := (String.ofList r).toUTF8.toList.map (·.toNat) ++ post
          let hexOf (l : List Nat) : String := if l.isEmpty then "-" else DS.Hex.encodeBytes (l.map (fun n => UInt8.ofNat n))
          s!"m={hexOf mb} r={hexOf rb}"
        | none => "invalid-utf8-prefix")
     | _, _ => "bad-op")
  | _ => "bad-op"


/-- stlist <hexsrc> : the plain-assignment reader of DS/Model/StList.lean on the text after `^st` -/
def stListLine (toks : List String) : String :=
  match toks with
  | ["stlist", src] =>
    (match (if src == "-" then some "" else DS.Hex.decode src) with
     | some s =>
       let P (c : Char) : Bool := c.isAlpha || c == '_' || c == '$' || c.toNat ≥ 128
       (match DS.StList.readEdits P (s.length + 2) s.toList with
        | some es =>
          let canon := ";".intercalate (es.map (fun (n, v) => String.ofList n ++ "|" ++ String.ofList v))
          "ok " ++ (if canon.isEmpty then "-" else hx canon)
        | none => "none")
     | none => "bad-op")
  | _ => "bad-op"

end DS.Driver
