/-
  C16 — disabled syntax stays disabled.

  `gate_sound` (DS/Proofs/PegGate.lean) is engine-generic: for ANY grammar, action table, input and fuel, if the static check
  `chk` accepts the rules that can be entered while a flag is in its blocking state, then — unless a flagsSwitch macro action
  has run — the flag stays blocked, no gated opcode is ever written (abandoned alternatives included) and no node that cannot
  succeed while blocked is memoised as succeeded.  Here it is instantiated on the grammar, actions and opcode numbers
  REGENERATED from /repo on every run (DS/Gen); the static checks are evaluated by the kernel (DS/Props/C16Static/*).
-/
import DS.Props.C16Defs
import DS.Props.C16Static.Coc
import DS.Props.C16Static.Wod
import DS.Props.C16Static.Fate
import DS.Props.C16Static.Dc
import DS.Props.C16Static.Stmts
import DS.Props.C16Static.Ndice

namespace DS.Props.C16
open DS.Peg DS.Gen.Opcodes

theorem memoOK_empty (g : Gate) : MemoOK g ({} : Memo) := by
  intro pos id b e fl _ h
  simp at h

/-- generic instantiation: a gate whose static check holds keeps its opcodes out of every parse that ran no macro -/
theorem stays_off (g : Gate) (hstatic : (rulesOK ge DS.Gen.Grammar.rules g (okFor g) && (okFor g)[0]!) = true)
    (input : Array Nat) (maxCnt : Nat) (custom : Nat → Nat) (cfg : Flags) (fuel : Nat) (hcfg : cfg.get g.flag = g.blocked) :
    (parseTop (envOf input maxCnt custom) cfg fuel).1.switched = false →
    ∀ op ∈ (parseTop (envOf input maxCnt custom) cfg fuel).1.trace, g.gated op = false := by
  simp only [Bool.and_eq_true] at hstatic
  obtain ⟨hr, h0⟩ := hstatic
  have hrules : ∀ i, i < (envOf input maxCnt custom).rules.size → (okFor g)[i]! = true →
      chk (envOf input maxCnt custom).genv g (okFor g) ((envOf input maxCnt custom).rules[i]!) = true := by
    intro i hi hok
    simp only [rulesOK, List.all_eq_true, List.mem_range, Bool.or_eq_true, Bool.not_eq_true'] at hr
    rcases hr i hi with h | h
    · rw [hok] at h; cases h
    · exact h
  have hsound := (gate_sound (envOf input maxCnt custom) g (okFor g) hrules fuel).1
  have hchk0 : chk (envOf input maxCnt custom).genv g (okFor g) ((envOf input maxCnt custom).rules[0]!) = true := by
    simp only [rulesOK, List.all_eq_true, List.mem_range, Bool.or_eq_true, Bool.not_eq_true'] at hr
    have hsz : 0 < DS.Gen.Grammar.rules.size := by decide +kernel
    rcases hr 0 hsz with h | h
    · rw [h0] at h; cases h
    · exact h
  intro hsw
  simp only [parseTop] at hsw ⊢
  split at hsw
  all_goals
    rename_i hrn
    simp only [hrn] at hsw ⊢
    refine ((hsound _ _ hchk0 ?_).1 hsw).trace
    intro _
    exact ⟨hcfg, (by intro f hf; cases hf), (by intro o ho; cases ho), memoOK_empty g, memoOK_empty g⟩

/-- CoC: with EnableDiceCoC off and no macro, no CoC opcode is ever written -/
theorem coc_stays_off (input : Array Nat) (maxCnt : Nat) (custom : Nat → Nat) (cfg : Flags) (fuel : Nat) (h : cfg.coc = false) :
    (parseTop (envOf input maxCnt custom) cfg fuel).1.switched = false →
    ∀ op ∈ (parseTop (envOf input maxCnt custom) cfg fuel).1.trace, op ≠ op_typeDiceCocBonus ∧ op ≠ op_typeDiceCocPenalty := by
  intro hsw op hop
  have := stays_off cocGate static_coc input maxCnt custom cfg fuel h hsw op hop
  simp only [cocGate, mkGate, List.contains_cons, List.contains_nil, Bool.or_false, Bool.or_eq_false_iff, beq_eq_false_iff_ne] at this
  exact this

theorem wod_stays_off (input : Array Nat) (maxCnt : Nat) (custom : Nat → Nat) (cfg : Flags) (fuel : Nat) (h : cfg.wod = false) :
    (parseTop (envOf input maxCnt custom) cfg fuel).1.switched = false →
    ∀ op ∈ (parseTop (envOf input maxCnt custom) cfg fuel).1.trace, wodGate.gated op = false :=
  stays_off wodGate static_wod input maxCnt custom cfg fuel h

theorem fate_stays_off (input : Array Nat) (maxCnt : Nat) (custom : Nat → Nat) (cfg : Flags) (fuel : Nat) (h : cfg.fate = false) :
    (parseTop (envOf input maxCnt custom) cfg fuel).1.switched = false →
    ∀ op ∈ (parseTop (envOf input maxCnt custom) cfg fuel).1.trace, fateGate.gated op = false :=
  stays_off fateGate static_fate input maxCnt custom cfg fuel h

theorem dc_stays_off (input : Array Nat) (maxCnt : Nat) (custom : Nat → Nat) (cfg : Flags) (fuel : Nat) (h : cfg.dc = false) :
    (parseTop (envOf input maxCnt custom) cfg fuel).1.switched = false →
    ∀ op ∈ (parseTop (envOf input maxCnt custom) cfg fuel).1.trace, dcGate.gated op = false :=
  stays_off dcGate static_dc input maxCnt custom cfg fuel h

/-- statements: with DisableStmts on, no block (if / while), function definition or return is ever compiled -/
theorem stmts_stay_off (input : Array Nat) (maxCnt : Nat) (custom : Nat → Nat) (cfg : Flags) (fuel : Nat) (h : cfg.disableStmts = true) :
    (parseTop (envOf input maxCnt custom) cfg fuel).1.switched = false →
    ∀ op ∈ (parseTop (envOf input maxCnt custom) cfg fuel).1.trace, stmtsGate.gated op = false :=
  stays_off stmtsGate static_stmts input maxCnt custom cfg fuel h

/-- sides left out: with DisableNDice on — set by the host, or by the st command for its bare values — `2d` never compiles a default-sides
    expression (the flag test stands in front of the consuming alternatives, not inside a look-ahead whose result the packrat memo keeps) -/
theorem ndice_stays_off (input : Array Nat) (maxCnt : Nat) (custom : Nat → Nat) (cfg : Flags) (fuel : Nat) (h : cfg.disableNDice = true) :
    (parseTop (envOf input maxCnt custom) cfg fuel).1.switched = false →
    ∀ op ∈ (parseTop (envOf input maxCnt custom) cfg fuel).1.trace, op ≠ op_typePushDefaultExpr := by
  intro hsw op hop
  have := stays_off ndiceGate static_ndice input maxCnt custom cfg fuel h hsw op hop
  simp only [ndiceGate, mkGate, List.contains_cons, List.contains_nil, Bool.or_false, beq_eq_false_iff_ne] at this
  exact this

end DS.Props.C16
