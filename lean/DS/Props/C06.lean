/-
  C06 — seeded evaluation is reproducible and resumable.  Property theorems only.
  Determinism is by construction (every model function is a function of its parameters and the word
  stream); the theorems with content are the seed codec round trip, resumption, and the regenerated
  facts that every draw in the code goes through the context's generator.
-/
import DS.Model.Rng
import DS.Gen.RngSites

namespace DS.Props.C06
open DS.Rng

theorem fromBytesBE_append (l : List Nat) (x : Nat) : fromBytesBE (l ++ [x]) = fromBytesBE l * 256 + x % 256 := by
  simp [fromBytesBE, List.foldl_append]

theorem bytesBE_length : ∀ (n s : Nat), (bytesBE n s).length = n := by
  intro n
  induction n with
  | zero => intro s; rfl
  | succ n ih => intro s; simp [bytesBE, ih]

theorem fromBytesBE_bytesBE : ∀ (n s : Nat), s < 256 ^ n → fromBytesBE (bytesBE n s) = s := by
  intro n
  induction n with
  | zero => intro s h; simp at h; subst h; rfl
  | succ n ih =>
    intro s h
    simp only [bytesBE]
    rw [fromBytesBE_append, ih (s / 256) (by rw [Nat.pow_succ] at h; omega)]
    omega

/-- GetCurSeed then Seed/Init: the 16-byte form loses nothing -/
theorem two128_pos : 0 < two128 := by decide
theorem two128_eq : two128 = 256 ^ 16 := by decide

theorem unmarshal_marshal (s : Nat) (h : s < two128) : unmarshal (marshal s) = some s := by
  unfold unmarshal marshal
  have hl := bytesBE_length 16 s
  simp only [hl, Nat.lt_irrefl, if_false]
  rw [List.take_of_length_le (by omega)]
  rw [fromBytesBE_bytesBE 16 s (two128_eq ▸ h)]

theorem step_lt (s : Nat) : step s < two128 := Nat.mod_lt _ two128_pos

theorem advanceWith_add (f : Nat → Nat) : ∀ (a b s : Nat),
    advanceWith f (a + b) s = advanceWith f b (advanceWith f a s) := by
  intro a
  induction a with
  | zero => intro b s; rw [Nat.zero_add]; rfl
  | succ a ih => intro b s; rw [Nat.succ_add]; simp only [advanceWith]; exact ih b (f s)

theorem wordsWith_length (f o : Nat → Nat) : ∀ (a s : Nat), (wordsWith f o a s).length = a := by
  intro a
  induction a with
  | zero => intro s; rfl
  | succ a ih => intro s; simp only [wordsWith, List.length_cons, ih]

theorem wordsWith_add (f o : Nat → Nat) : ∀ (a b s : Nat),
    wordsWith f o (a + b) s = wordsWith f o a s ++ wordsWith f o b (advanceWith f a s) := by
  intro a
  induction a with
  | zero => intro b s; rw [Nat.zero_add]; rfl
  | succ a ih =>
    intro b s
    rw [Nat.succ_add]
    simp only [wordsWith, advanceWith, List.cons_append]
    rw [ih b (f s)]

theorem advanceWith_inv (f : Nat → Nat) (P : Nat → Prop) (hf : ∀ s, P (f s)) :
    ∀ (k s : Nat), P s → P (advanceWith f k s) := by
  intro k
  induction k with
  | zero => intro s h; exact h
  | succ k ih => intro s _; simp only [advanceWith]; exact ih _ (hf s)

theorem advance_lt (k s : Nat) (h : s < two128) : advance k s < two128 :=
  advanceWith_inv step (· < two128) step_lt k s h

theorem advance_add (a b s : Nat) : advance (a + b) s = advance b (advance a s) :=
  advanceWith_add step a b s

theorem words_add (a b s : Nat) : words (a + b) s = words a s ++ words b (advance a s) :=
  wordsWith_add step output a b s

/-- Resume: capture the generator after `a` draws (GetCurSeed), install the bytes in a fresh context
    (Seed + Init): the next `b` words are exactly words a+1 … a+b of the original sequence. -/
theorem resume (s : Nat) (h : s < two128) (a b : Nat) :
    ∃ s', unmarshal (marshal (advance a s)) = some s' ∧ words b s' = (words (a + b) s).drop a := by
  refine ⟨advance a s, unmarshal_marshal _ (advance_lt a s h), ?_⟩
  rw [words_add]
  exact (List.drop_left' (wordsWith_length step output a s)).symm

/-- every word is a genuine 64-bit word -/
theorem output_lt (s : Nat) : output s < two64 := by
  unfold output rotr64
  exact Nat.mod_lt _ (by decide)

open DS.Gen.RngSites

/-- where a Roll* call may take its generator from: the caller's own `src` parameter, the context's
    generator, a local alias of it, or — only inside `Roll` itself — the documented fallback to the
    package-level source for contexts that were never seeded -/
def okSite (s : Site) : Bool :=
  s.arg == "ctx.RandSrc" || s.arg == "src<-ctx.RandSrc" ||
  (s.file == "roll_func.go" && s.arg == "src") ||
  (s.file == "roll_func.go" && s.fn == "Roll" && s.arg == "src<-randSource")

/-- REGENERATED FACT: every call of a Roll* function draws from the context's generator -/
theorem all_draws_from_ctx : sites.all okSite = true := by decide

/-- REGENERATED FACT: no package-level function of a rand package is used (only the PCGSource type) -/
theorem no_package_level_rand : randUses.all (fun u => u.2.2 == "rand.PCGSource") = true := by decide

/-- REGENERATED FACT: sub-VMs (function calls, computed values) unconditionally inherit the caller's
    generator, and Init builds the generator from Seed whenever Seed is set -/
theorem randsrc_assignments :
    randSrcAssigns = [("types.go", "Init", "ctx.RandSrc", "&s", "ctx.Seed != nil"),
                      ("types.go", "ComputedExecute", "vm.RandSrc", "ctx.RandSrc", ""),
                      ("types.go", "FuncInvokeRaw", "vm.RandSrc", "ctx.RandSrc", "")] := by decide

/- non-vacuity -/
example : unmarshal (marshal 42) = some 42 := by decide

end DS.Props.C06
