/-
  One-instruction steps of the VM model's dispatch loop, for the instructions the fragment compiler emits.
-/
import DS.Model.Frag

namespace DS.Frag
open DS.VM

theorem overLimit_off (g : G) (c : Nat) (n m : Int) (h : g.cfg.opLimit = 0) : overLimit (addOps g c m) n = false := by
  simp [overLimit, addOps, h]

/-- common prefix of a dispatch: not at the end, budget off, stack not full -/
theorem evalLoop_dispatch (fuel : Nat) (g : G) (f : Frame) (hpc : f.pc < f.code.size) (hl : g.cfg.opLimit = 0) (ht : f.top < stackSize) :
    evalLoop (fuel + 1) g f =
      (match exec (fun g' fr => evalLoop fuel g' fr) (addOps g f.ctx 1) f (f.code[f.pc]!) with
       | .next g' f' => evalLoop fuel g' f'
       | .done g' f' => (g', .ok { top := if f'.top == 0 then none else some (f'.stack[f'.top - 1]!), spans := solvedSpans g' f' })
       | .stop g' _ r => (g', r.cast)) := by
  have h1 : ¬ f.pc ≥ f.code.size := by omega
  have h2 : (f.top == stackSize) = false := by simp; omega
  simp only [evalLoop, h1, if_false, overLimit_off g f.ctx _ 1 hl, h2, Bool.false_eq_true]
  cases exec (fun g' fr => evalLoop fuel g' fr) (addOps g f.ctx 1) f (f.code[f.pc]!) <;> rfl

theorem step_pushInt (fuel : Nat) (g : G) (f : Frame) (i : Int) (hpc : f.pc < f.code.size) (hi : f.code[f.pc]! = .pushInt i)
    (hl : g.cfg.opLimit = 0) (ht : f.top < stackSize) (hs : f.stack.size = stackSize) :
    evalLoop (fuel + 1) g f =
      evalLoop fuel (addOps g f.ctx 1) { f with pc := f.pc + 1, stack := f.stack.set! f.top (.int i), top := f.top + 1 } := by
  rw [evalLoop_dispatch fuel g f hpc hl ht, hi]
  have : f.top < f.stack.size := by omega
  simp [exec, Frame.push, this]


/-- the other constant pushes -/
theorem step_pushFlt (fuel : Nat) (g : G) (f : Frame) (x : Float) (hpc : f.pc < f.code.size) (hi : f.code[f.pc]! = .pushFlt x)
    (hl : g.cfg.opLimit = 0) (ht : f.top < stackSize) (hs : f.stack.size = stackSize) :
    evalLoop (fuel + 1) g f =
      evalLoop fuel (addOps g f.ctx 1) { f with pc := f.pc + 1, stack := f.stack.set! f.top (.float x), top := f.top + 1 } := by
  rw [evalLoop_dispatch fuel g f hpc hl ht, hi]
  have : f.top < f.stack.size := by omega
  simp [exec, Frame.push, this]

theorem step_pushStr (fuel : Nat) (g : G) (f : Frame) (x : String) (hpc : f.pc < f.code.size) (hi : f.code[f.pc]! = .pushStr x)
    (hl : g.cfg.opLimit = 0) (ht : f.top < stackSize) (hs : f.stack.size = stackSize) :
    evalLoop (fuel + 1) g f =
      evalLoop fuel (addOps g f.ctx 1) { f with pc := f.pc + 1, stack := f.stack.set! f.top (.str x), top := f.top + 1 } := by
  rw [evalLoop_dispatch fuel g f hpc hl ht, hi]
  have : f.top < f.stack.size := by omega
  simp [exec, Frame.push, this]

theorem step_pushNull (fuel : Nat) (g : G) (f : Frame) (hpc : f.pc < f.code.size) (hi : f.code[f.pc]! = .pushNull)
    (hl : g.cfg.opLimit = 0) (ht : f.top < stackSize) (hs : f.stack.size = stackSize) :
    evalLoop (fuel + 1) g f =
      evalLoop fuel (addOps g f.ctx 1) { f with pc := f.pc + 1, stack := f.stack.set! f.top .null, top := f.top + 1 } := by
  rw [evalLoop_dispatch fuel g f hpc hl ht, hi]
  have : f.top < f.stack.size := by omega
  simp [exec, Frame.push, this]

theorem step_pos_ok (fuel : Nat) (g : G) (f : Frame) (r : Val)
    (hpc : f.pc < f.code.size) (hi : f.code[f.pc]! = .pos) (hl : g.cfg.opLimit = 0) (ht : f.top < stackSize)
    (hs : f.stack.size = stackSize) (h1 : 1 ≤ f.top) (hn : opPos (f.stack[f.top - 1]!) = some r) :
    evalLoop (fuel + 1) g f =
      evalLoop fuel (addOps g f.ctx 1)
        { f with pc := f.pc + 1, stack := f.stack.set! (f.top - 1) r, top := f.top, lastPop := .slot (f.top - 1) } := by
  rw [evalLoop_dispatch fuel g f hpc hl ht, hi]
  have e0 : (f.top == 0) = false := by simp; omega
  have e3 : f.top - 1 < f.stack.size := by omega
  have e4 : f.top - 1 + 1 = f.top := by omega
  simp only [exec, Frame.pop, e0, Bool.false_eq_true, if_false, hn, Frame.push, e3, if_true, e4]

theorem step_pos_err (fuel : Nat) (g : G) (f : Frame)
    (hpc : f.pc < f.code.size) (hi : f.code[f.pc]! = .pos) (hl : g.cfg.opLimit = 0) (ht : f.top < stackSize)
    (h1 : 1 ≤ f.top) (hn : opPos (f.stack[f.top - 1]!) = none) :
    evalLoop (fuel + 1) g f = (addOps g f.ctx 1, .err ("此类型无法使用一元算符 " ++ "pos" ++ ": " ++ typeName (f.stack[f.top - 1]!))) := by
  rw [evalLoop_dispatch fuel g f hpc hl ht, hi]
  have e0 : (f.top == 0) = false := by simp; omega
  simp only [exec, Frame.pop, e0, Bool.false_eq_true, if_false, hn, if_true, Res.cast]

theorem step_bin_ok (fuel : Nat) (g : G) (f : Frame) (op : BinOp) (h' : Heap) (v : Val)
    (hpc : f.pc < f.code.size) (hi : f.code[f.pc]! = .bin op) (hl : g.cfg.opLimit = 0) (ht : f.top < stackSize)
    (hs : f.stack.size = stackSize) (h2 : 2 ≤ f.top)
    (hb : binOp g.heap g.cfg.ignoreDiv0 op (f.stack[f.top - 2]!) (f.stack[f.top - 1]!) = (h', .ok v)) :
    evalLoop (fuel + 1) g f =
      evalLoop fuel { addOps g f.ctx 1 with heap := h' }
        { f with pc := f.pc + 1, stack := f.stack.set! (f.top - 2) v, top := f.top - 1, lastPop := .slot (f.top - 2) } := by
  rw [evalLoop_dispatch fuel g f hpc hl ht, hi]
  have e0 : (f.top == 0) = false := by simp; omega
  have e1 : (f.top - 1 == 0) = false := by simp; omega
  have e2 : f.top - 1 - 1 = f.top - 2 := by omega
  have e3 : f.top - 2 < f.stack.size := by omega
  have e4 : f.top - 2 + 1 = f.top - 1 := by omega
  have hb' : binOp (addOps g f.ctx 1).heap (addOps g f.ctx 1).cfg.ignoreDiv0 op (f.stack[f.top - 2]!) (f.stack[f.top - 1]!) = (h', .ok v) := hb
  simp only [exec, Frame.pop2, Frame.pop, e0, e1, e2, Bool.false_eq_true, if_false, hb', Frame.push, e3, if_true, e4]

theorem step_bin_err (fuel : Nat) (g : G) (f : Frame) (op : BinOp) (h' : Heap) (m : String)
    (hpc : f.pc < f.code.size) (hi : f.code[f.pc]! = .bin op) (hl : g.cfg.opLimit = 0) (ht : f.top < stackSize) (h2 : 2 ≤ f.top)
    (hb : binOp g.heap g.cfg.ignoreDiv0 op (f.stack[f.top - 2]!) (f.stack[f.top - 1]!) = (h', .err m)) :
    evalLoop (fuel + 1) g f = ({ addOps g f.ctx 1 with heap := h' }, .err m) := by
  rw [evalLoop_dispatch fuel g f hpc hl ht, hi]
  have e0 : (f.top == 0) = false := by simp; omega
  have e1 : (f.top - 1 == 0) = false := by simp; omega
  have e2 : f.top - 1 - 1 = f.top - 2 := by omega
  have hb' : binOp (addOps g f.ctx 1).heap (addOps g f.ctx 1).cfg.ignoreDiv0 op (f.stack[f.top - 2]!) (f.stack[f.top - 1]!) = (h', .err m) := hb
  simp only [exec, Frame.pop2, Frame.pop, e0, e1, e2, Bool.false_eq_true, if_false, hb', Res.cast]


theorem step_neg_ok (fuel : Nat) (g : G) (f : Frame) (r : Val)
    (hpc : f.pc < f.code.size) (hi : f.code[f.pc]! = .neg) (hl : g.cfg.opLimit = 0) (ht : f.top < stackSize)
    (hs : f.stack.size = stackSize) (h1 : 1 ≤ f.top) (hn : opNeg (f.stack[f.top - 1]!) = some r) :
    evalLoop (fuel + 1) g f =
      evalLoop fuel (addOps g f.ctx 1)
        { f with pc := f.pc + 1, stack := f.stack.set! (f.top - 1) r, top := f.top, lastPop := .slot (f.top - 1) } := by
  rw [evalLoop_dispatch fuel g f hpc hl ht, hi]
  have e0 : (f.top == 0) = false := by simp; omega
  have e3 : f.top - 1 < f.stack.size := by omega
  have e4 : f.top - 1 + 1 = f.top := by omega
  simp only [exec, Frame.pop, e0, Bool.false_eq_true, if_false, hn, Frame.push, e3, if_true, e4]

theorem step_neg_err (fuel : Nat) (g : G) (f : Frame)
    (hpc : f.pc < f.code.size) (hi : f.code[f.pc]! = .neg) (hl : g.cfg.opLimit = 0) (ht : f.top < stackSize)
    (h1 : 1 ≤ f.top) (hn : opNeg (f.stack[f.top - 1]!) = none) :
    evalLoop (fuel + 1) g f = (addOps g f.ctx 1, .err ("此类型无法使用一元算符 " ++ "neg" ++ ": " ++ typeName (f.stack[f.top - 1]!))) := by
  rw [evalLoop_dispatch fuel g f hpc hl ht, hi]
  have e0 : (f.top == 0) = false := by simp; omega
  simp only [exec, Frame.pop, e0, Bool.false_eq_true, if_false, hn, if_true, Res.cast]

theorem step_jmp (fuel : Nat) (g : G) (f : Frame) (o : Nat)
    (hpc : f.pc < f.code.size) (hi : f.code[f.pc]! = .jmp (some (o : Int))) (hl : g.cfg.opLimit = 0) (ht : f.top < stackSize) :
    evalLoop (fuel + 1) g f = evalLoop fuel (addOps g f.ctx 1) { f with pc := f.pc + 1 + o } := by
  rw [evalLoop_dispatch fuel g f hpc hl ht, hi]
  have : ¬ ((f.pc : Int) + 1 + (o : Int) < 0) := by omega
  have e : ((f.pc : Int) + 1 + (o : Int)).toNat = f.pc + 1 + o := by omega
  simp [exec, this, e]

theorem step_jne (fuel : Nat) (g : G) (f : Frame) (o : Nat)
    (hpc : f.pc < f.code.size) (hi : f.code[f.pc]! = .jne (some (o : Int))) (hl : g.cfg.opLimit = 0) (ht : f.top < stackSize)
    (h1 : 1 ≤ f.top) :
    evalLoop (fuel + 1) g f =
      evalLoop fuel (addOps g f.ctx 1)
        { f with pc := (if asBool g.heap (f.stack[f.top - 1]!) then f.pc + 1 else f.pc + 1 + o), top := f.top - 1, lastPop := .slot (f.top - 1) } := by
  rw [evalLoop_dispatch fuel g f hpc hl ht, hi]
  have e0 : (f.top == 0) = false := by simp; omega
  have : ¬ ((f.pc : Int) + 1 + (o : Int) < 0) := by omega
  have e : ((f.pc : Int) + 1 + (o : Int)).toNat = f.pc + 1 + o := by omega
  have hh : (addOps g f.ctx 1).heap = g.heap := rfl
  cases hb : asBool g.heap (f.stack[f.top - 1]!) <;> simp [exec, Frame.pop, e0, hh, hb, this, e]

theorem step_jeDup (fuel : Nat) (g : G) (f : Frame) (o : Nat)
    (hpc : f.pc < f.code.size) (hi : f.code[f.pc]! = .jeDup (some (o : Int))) (hl : g.cfg.opLimit = 0) (ht : f.top < stackSize)
    (hs : f.stack.size = stackSize) (h1 : 1 ≤ f.top) :
    evalLoop (fuel + 1) g f =
      (if asBool g.heap (f.stack[f.top - 1]!) then
        evalLoop fuel (addOps g f.ctx 1)
          { f with pc := f.pc + 1 + o, stack := f.stack.set! (f.top - 1) (f.stack[f.top - 1]!), top := f.top, lastPop := .slot (f.top - 1) }
       else
        evalLoop fuel (addOps g f.ctx 1) { f with pc := f.pc + 1, top := f.top - 1, lastPop := .slot (f.top - 1) }) := by
  rw [evalLoop_dispatch fuel g f hpc hl ht, hi]
  have e0 : (f.top == 0) = false := by simp; omega
  have : ¬ (((f.pc + 1 : Nat) : Int) + (o : Int) < 0) := by omega
  have e : (((f.pc + 1 : Nat) : Int) + (o : Int)).toNat = f.pc + 1 + o := by omega
  have hh : (addOps g f.ctx 1).heap = g.heap := rfl
  have e3 : f.top - 1 < f.stack.size := by omega
  have e4 : f.top - 1 + 1 = f.top := by omega
  cases hb : asBool g.heap (f.stack[f.top - 1]!) <;>
    simp only [exec, Frame.pop, e0, hh, hb, this, e, Bool.false_eq_true, if_false, if_true, Frame.push, e3, e4]

theorem step_pushLast (fuel : Nat) (g : G) (f : Frame) (i : Nat)
    (hpc : f.pc < f.code.size) (hi : f.code[f.pc]! = .pushLast) (hl : g.cfg.opLimit = 0) (ht : f.top < stackSize)
    (hs : f.stack.size = stackSize) (hlp : f.lastPop = .slot i) :
    evalLoop (fuel + 1) g f =
      evalLoop fuel (addOps g f.ctx 1) { f with pc := f.pc + 1, stack := f.stack.set! f.top (f.stack[i]!), top := f.top + 1 } := by
  rw [evalLoop_dispatch fuel g f hpc hl ht, hi]
  have : f.top < f.stack.size := by omega
  simp only [exec, hlp, Frame.push, this, if_true]

theorem step_logicAnd (fuel : Nat) (g : G) (f : Frame)
    (hpc : f.pc < f.code.size) (hi : f.code[f.pc]! = .logicAnd) (hl : g.cfg.opLimit = 0) (ht : f.top < stackSize)
    (hs : f.stack.size = stackSize) (h2 : 2 ≤ f.top) :
    evalLoop (fuel + 1) g f =
      evalLoop fuel (addOps g f.ctx 1)
        { f with pc := f.pc + 1,
                 stack := f.stack.set! (f.top - 2) (if !(asBool g.heap (f.stack[f.top - 2]!)) then f.stack[f.top - 2]! else f.stack[f.top - 1]!),
                 top := f.top - 1, lastPop := .slot (f.top - 2) } := by
  rw [evalLoop_dispatch fuel g f hpc hl ht, hi]
  have e0 : (f.top == 0) = false := by simp; omega
  have e1 : (f.top - 1 == 0) = false := by simp; omega
  have e2 : f.top - 1 - 1 = f.top - 2 := by omega
  have e3 : f.top - 2 < f.stack.size := by omega
  have e4 : f.top - 2 + 1 = f.top - 1 := by omega
  have hh : (addOps g f.ctx 1).heap = g.heap := rfl
  simp only [exec, Frame.pop2, Frame.pop, e0, e1, e2, Bool.false_eq_true, if_false, Frame.push, e3, if_true, e4, hh]

theorem ctxAttrs_addOps (g : G) (c : Nat) (n : Int) (c' : Nat) : ctxAttrs (addOps g c n) c' = ctxAttrs g c' := by
  simp only [ctxAttrs, addOps]
  by_cases h : c' < g.ctxs.size
  · by_cases e : c = c'
    · subst e; simp [h, Array.getElem_modify]
    · simp [Array.getElem!_eq_getD, Array.getD_eq_getD_getElem?, Array.getElem?_modify, e]
  · simp [Array.getElem!_eq_getD, Array.getD_eq_getD_getElem?, Array.getElem?_modify, h]

/-- a name bound to a plain value in the context's own table: the load hands out that value and changes nothing -/
theorem loadName_plain (sub : SubRun) (g : G) (c : Nat) (name : String) (v : Val)
    (hv : dictGet (g.heap.dictOf (ctxAttrs g c)) name = some v) (hp : isPlain v = true) :
    loadName sub g c name false = (g, .ok (v, { ret := some v })) := by
  unfold loadName
  simp only [loadName.walk]
  have : attrsLoad g (g.ctxs[c]!).attrs name = some v := hv
  simp only [this, Option.getD_some]
  cases v <;> simp_all [isPlain]

/-- `mark.detail b,e; ld.d name` for a name bound to a plain value: two dispatches, the value is pushed; the frame's annotation
    list changes (nothing in the fragment reads it) -/
theorem step_var (fuel : Nat) (g : G) (f : Frame) (name : String) (b e : Int) (v : Val)
    (hpc : f.pc + 1 < f.code.size) (hi0 : f.code[f.pc]! = .markDetail b e) (hi1 : f.code[f.pc + 1]! = .ldD name)
    (hl : g.cfg.opLimit = 0) (ht : f.top < stackSize) (hs : f.stack.size = stackSize)
    (hv : dictGet (g.heap.dictOf (ctxAttrs g f.ctx)) name = some v) (hp : isPlain v = true) :
    evalLoop (fuel + 2) g f =
      evalLoop fuel (addOps (addOps g f.ctx 1) f.ctx 1)
        { f with pc := f.pc + 2, stack := f.stack.set! f.top v, top := f.top + 1,
                 details := f.details ++ [{ b := b, e := e, tag := "load", text := "", ret := some v }] } := by
  have h0 : f.pc < f.code.size := by omega
  rw [show fuel + 2 = (fuel + 1) + 1 from rfl, evalLoop_dispatch (fuel + 1) g f h0 hl ht, hi0]
  simp only [exec]
  let f1 : Frame := { f with details := f.details ++ [{ b := b, e := e }], pc := f.pc + 1 }
  have hl1 : (addOps g f.ctx 1).cfg.opLimit = 0 := hl
  show evalLoop (fuel + 1) (addOps g f.ctx 1) f1 = _
  rw [evalLoop_dispatch fuel (addOps g f.ctx 1) f1 hpc hl1 ht]
  have hi1' : f1.code[f1.pc]! = .ldD name := hi1
  rw [hi1']
  have hv1 : dictGet ((addOps g f.ctx 1).heap.dictOf (ctxAttrs (addOps g f.ctx 1) f1.ctx)) name = some v := by
    rw [ctxAttrs_addOps]; exact hv
  have hload := loadName_plain (fun g' fr => evalLoop fuel g' fr) (addOps (addOps g f.ctx 1) f.ctx 1) f.ctx name v
    (by rw [ctxAttrs_addOps]; exact hv1) hp
  have hupd : updLast f1.details (fun sp => { sp with tag := "load", text := "" }) =
      some (f.details ++ [{ b := b, e := e, tag := "load", text := "" }]) := by
    simp [f1, updLast]
  have htop : f.top < f.stack.size := by omega
  simp only [exec, hupd, hload, Frame.push, htop, if_true, f1]
  simp [updLast]

theorem step_store (fuel : Nat) (g : G) (f : Frame) (name : String)
    (hpc : f.pc < f.code.size) (hi : f.code[f.pc]! = .store name) (hl : g.cfg.opLimit = 0) (ht : f.top < stackSize) (h1 : 1 ≤ f.top) :
    evalLoop (fuel + 1) g f =
      evalLoop fuel (storeName (addOps g f.ctx 1) f.ctx name (f.stack[f.top - 1]!)) { f with pc := f.pc + 1 } := by
  rw [evalLoop_dispatch fuel g f hpc hl ht, hi]
  have e0 : (f.top == 0) = false := by simp; omega
  simp only [exec, e0, Bool.false_eq_true, if_false]

end DS.Frag
