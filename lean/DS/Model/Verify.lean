/-
  Bytecode verifier: abstract interpretation of the control-flow / stack skeleton of a compiled program.
  Abstract state at a program point:
    h    — lower bound on (operand-stack height − base of the innermost open template hole)
    ctl  — the open blocks and template holes, innermost first, each with the relative height it saved
    dice — lower bound on the number of open dice states;  det — "at least one annotation span exists"
    wod / dc — the pool-dice state has been initialised
  The height is a LOWER bound because this VM never pops between statements: a loop body may grow the stack on
  every iteration until block.pop resets it; reaching 1000 is a checked run-time error, not a malformation.
-/
import DS.Model.Value

namespace DS.Verify
open DS.VM

inductive Ctl where
  | block (saved : Nat)
  | hole (outer : Nat)
  deriving DecidableEq, Repr

structure Abs where
  h : Nat
  ctl : List Ctl
  dice : Nat
  det : Bool
  wod : Bool
  dc : Bool
  deriving DecidableEq, Repr

def Abs.init : Abs := { h := 0, ctl := [], dice := 0, det := false, wod := false, dc := false }

/-- the skeleton effect of an instruction -/
inductive Kind where
  | simple (pops pushes : Nat)          -- needs h ≥ pops; falls through
  | peek (k : Nat)                      -- needs h ≥ k, no change (store)
  | jmp (off : Option Int)
  | je (off : Option Int)               -- pop 1; taken: pc+1+off; not taken: pc+1
  | jne (off : Option Int)
  | jeDup (off : Option Int)            -- pop 1; taken: push it back
  | stop
  | blockPush | blockPop | fstrPush | fstrPop
  | diceInit
  | diceSet                             -- pop 1, needs dice ≥ 1
  | dice                                -- pop 1 push 1, needs dice ≥ 1 and det; dice − 1
  | markDetail
  | detUse (pops pushes : Nat)          -- needs det (ld.d, dice.fate, coc.*)
  | defExpr                             -- push 1, needs det and dice ≥ 1
  | wodInit | dcInit
  | wodSet | dcSet                      -- pop 1, needs the state
  | wodRoll | dcRoll                    -- pop 1 push 1, needs the state and det
  deriving Repr

def kindOf : Instr → Kind
  | .pushInt _ | .pushFlt _ | .pushStr _ | .pushConst _ | .pushNull | .pushThis | .pushLast => .simple 0 1
  | .pushArr n => .simple n.toNat 1
  | .pushDict n => .simple (2 * n.toNat) 1
  | .pushRange => .simple 2 1
  | .pushDefExpr => .defExpr
  | .ldFs n => .simple n.toNat 1          -- the VM reports too few parts as an ERROR; the verifier demands them anyway
  | .ld _ | .ldRaw _ => .simple 0 1
  | .ldD _ => .detUse 0 1
  | .store _ => .peek 1
  | .noop _ => .simple 0 0
  | .invoke n => .simple (n.toNat + 1) 1
  | .itemGet => .simple 2 1
  | .itemSet => .simple 3 1
  | .attrGet _ => .simple 1 1
  | .attrSet _ => .simple 2 1
  | .sliceGet => .simple 4 1
  | .sliceSet => .simple 5 1
  | .bin _ => .simple 2 1
  | .logicAnd => .simple 2 1
  | .neg | .pos => .simple 1 1
  | .diceInit => .diceInit
  | .diceSetTimes | .diceSetKL | .diceSetKH | .diceSetDL | .diceSetDH | .diceSetMin | .diceSetMax => .diceSet
  | .dice => .dice
  | .diceCustom => .simple 0 1
  | .cocPenalty | .cocBonus => .detUse 1 1
  | .diceFate => .detUse 0 1
  | .wodInit => .wodInit
  | .wodPool | .wodPoints | .wodThreshold | .wodThresholdQ => .wodSet
  | .diceWod => .wodRoll
  | .dcInit => .dcInit
  | .dcPool | .dcPoints => .dcSet
  | .diceDC => .dcRoll
  | .halt | .ret => .stop
  | .markDetail _ _ => .markDetail
  | .pop => .simple 1 0
  | .popN n => .simple n.toNat 0
  | .jmp o => .jmp o
  | .je o => .je o
  | .jne o => .jne o
  | .jeDup o => .jeDup o
  | .fstrPush => .fstrPush
  | .fstrPop => .fstrPop
  | .blockPush => .blockPush
  | .blockPop => .blockPop
  | .stSet | .stX0 => .simple 2 0
  | .stMod _ _ => .simple 2 0
  | .stX1 => .simple 3 0

/-- jump target; `none` = missing operand or outside [0, size] -/
def target (size pc : Nat) (off : Option Int) : Option Nat :=
  match off with
  | none => none
  | some o =>
    let t : Int := (pc : Int) + 1 + o
    if t < 0 || t > (size : Int) then none else some t.toNat

def targetErr (off : Option Int) : String :=
  match off with
  | none => "jump without operand"
  | some _ => "jump out of bounds"

/-- abstract transfer: successors (pc', state') or a reason why the code is malformed here -/
def transfer (size pc : Nat) (k : Kind) (a : Abs) : Except String (List (Nat × Abs)) :=
  let next (a' : Abs) : Except String (List (Nat × Abs)) := .ok [(pc + 1, a')]
  match k with
  | .simple pops pushes => if a.h < pops then .error "pops an empty stack" else next { a with h := a.h - pops + pushes }
  | .peek n => if a.h < n then .error "reads an empty stack" else next a
  | .jmp off =>
    (match target size pc off with
     | some t => .ok [(t, a)]
     | none => .error (targetErr off))
  | .je off | .jne off =>
    if a.h < 1 then .error "pops an empty stack" else
    (match target size pc off with
     | some t => .ok [(pc + 1, { a with h := a.h - 1 }), (t, { a with h := a.h - 1 })]
     | none => .error (targetErr off))
  | .jeDup off =>
    if a.h < 1 then .error "pops an empty stack" else
    (match target size pc off with
     | some t => .ok [(pc + 1, { a with h := a.h - 1 }), (t, a)]
     | none => .error (targetErr off))
  | .stop => .ok []
  | .blockPush => next { a with ctl := .block a.h :: a.ctl }
  | .blockPop =>
    (match a.ctl with
     | .block s :: rest => next { a with h := s + 1, ctl := rest }
     | _ => .error "block.pop without a matching block.push")
  | .fstrPush => next { a with h := 0, ctl := .hole a.h :: a.ctl }
  | .fstrPop =>
    (match a.ctl with
     | .hole o :: rest => next { a with h := o + 1, ctl := rest }
     | _ => .error "fstr.block.pop without a matching fstr.block.push")
  | .diceInit => next { a with dice := a.dice + 1 }
  | .diceSet =>
    if a.h < 1 then .error "pops an empty stack" else if a.dice < 1 then .error "dice modifier without dice.init"
    else next { a with h := a.h - 1 }
  | .dice =>
    if a.h < 1 then .error "pops an empty stack" else if a.dice < 1 then .error "dice without dice.init"
    else if !a.det then .error "dice without an annotation span" else next { a with dice := a.dice - 1 }
  | .markDetail => next { a with det := true }
  | .detUse pops pushes =>
    if a.h < pops then .error "pops an empty stack" else if !a.det then .error "uses an annotation span that no earlier instruction created"
    else next { a with h := a.h - pops + pushes }
  | .defExpr =>
    if !a.det then .error "push.def_expr without an annotation span" else if a.dice < 1 then .error "push.def_expr without dice.init"
    else next { a with h := a.h + 1 }
  | .wodInit => next { a with wod := true }
  | .dcInit => next { a with dc := true }
  | .wodSet =>
    if a.h < 1 then .error "pops an empty stack" else if !a.wod then .error "wod.* without wod.init" else next { a with h := a.h - 1 }
  | .dcSet =>
    if a.h < 1 then .error "pops an empty stack" else if !a.dc then .error "dc.* without dc.setInit" else next { a with h := a.h - 1 }
  | .wodRoll =>
    if a.h < 1 then .error "pops an empty stack" else if !a.wod then .error "dice.wod without wod.init"
    else if !a.det then .error "dice.wod without an annotation span" else next a
  | .dcRoll =>
    if a.h < 1 then .error "pops an empty stack" else if !a.dc then .error "dice.dc without dc.setInit"
    else if !a.det then .error "dice.dc without an annotation span" else next a

def ctlLe : List Ctl → List Ctl → Bool
  | [], [] => true
  | .block a :: r, .block b :: s => a ≤ b && ctlLe r s
  | .hole a :: r, .hole b :: s => a ≤ b && ctlLe r s
  | _, _ => false

/-- `a ⊑ b`: every concrete state described by `b` is described by `a` (a is weaker) -/
def Abs.le (a b : Abs) : Bool :=
  a.h ≤ b.h && ctlLe a.ctl b.ctl && a.dice ≤ b.dice && (!a.det || b.det) && (!a.wod || b.wod) && (!a.dc || b.dc)

def ctlMeet : List Ctl → List Ctl → Option (List Ctl)
  | [], [] => some []
  | .block a :: r, .block b :: s => (ctlMeet r s).map (.block (min a b) :: ·)
  | .hole a :: r, .hole b :: s => (ctlMeet r s).map (.hole (min a b) :: ·)
  | _, _ => none

/-- greatest common weakening; none = the two paths disagree on the open blocks / holes -/
def Abs.meet (a b : Abs) : Option Abs :=
  (ctlMeet a.ctl b.ctl).map fun c =>
    { h := min a.h b.h, ctl := c, dice := min a.dice b.dice, det := a.det && b.det, wod := a.wod && b.wod, dc := a.dc && b.dc }

abbrev Ann := Array (Option Abs)

/-- work-list inference of an annotation; fuel bounds the number of propagation steps -/
def infer (code : Code) : Nat → List (Nat × Abs) → Ann → Except String Ann
  | 0, _, _ => .error "verifier fuel exhausted"
  | _, [], ann => .ok ann
  | fuel+1, (pc, a) :: work, ann =>
    if pc ≥ code.size then infer code fuel work ann      -- falling off the end = normal termination
    else
      let cur := ann[pc]!
      let upd : Except String (Option Abs) :=
        match cur with
        | none => .ok (some a)
        | some c =>
          if c.le a then .ok none
          else match c.meet a with
            | some m => .ok (some m)
            | none => .error s!"pc {pc}: reached with differing numbers of open blocks / template holes"
      match upd with
      | .error e => .error e
      | .ok none => infer code fuel work ann
      | .ok (some m) =>
        match transfer code.size pc (kindOf code[pc]!) m with
        | .error e => .error s!"pc {pc}: {e}"
        | .ok succs => infer code fuel (succs ++ work) (ann.set! pc (some m))

/-- certificate check: the annotation is closed under the transfer function -/
def checkAnn (code : Code) (ann : Ann) : Bool :=
  ann.size == code.size &&
  (match ann[0]? with
   | some (some a0) => a0.le Abs.init
   | some none => false
   | none => true) &&
  (List.range code.size).all fun pc =>
    match ann[pc]! with
    | none => true
    | some a =>
      match transfer code.size pc (kindOf code[pc]!) a with
      | .error _ => false
      | .ok succs => succs.all fun (pc', a') =>
          pc' ≥ code.size ||
          (match ann[pc']! with
           | some b => b.le a'
           | none => false)

/-- verify one code body -/
def verifyCode (code : Code) : Except String Ann :=
  match infer code (200 * (code.size + 1) + 1000) [(0, Abs.init)] (Array.replicate code.size none) with
  | .error e => .error e
  | .ok ann => if checkAnn code ann then .ok ann else .error "inferred annotation is not a certificate"

/-! ### the concrete skeleton: what one instruction does to the heights and the control stacks, for EVERY outcome of
    the value-level computation (both branch directions; a run-time error simply stops, which `some []` covers). -/

structure SK where
  pc : Nat
  top : Nat
  blocks : List Nat
  fblocks : List Nat
  dice : Nat
  det : Nat
  wod : Bool
  dc : Bool
  deriving DecidableEq, Repr

def SK.init : SK := { pc := 0, top := 0, blocks := [], fblocks := [], dice := 0, det := 0, wod := false, dc := false }

/-- `none` = structural fault (what the property forbids); `some l` = the possible next states (empty = the run ends) -/
def sstep (size : Nat) (k : Kind) (s : SK) : Option (List SK) :=
  let next (s' : SK) : Option (List SK) := some [{ s' with pc := s.pc + 1 }]
  match k with
  | .simple p q => if s.top < p then none else next { s with top := s.top - p + q }
  | .peek n => if s.top < n then none else next s
  | .jmp off => (match target size s.pc off with | some t => some [{ s with pc := t }] | none => none)
  | .je off | .jne off =>
    if s.top < 1 then none else
    (match target size s.pc off with
     | some t => some [{ s with pc := s.pc + 1, top := s.top - 1 }, { s with pc := t, top := s.top - 1 }]
     | none => none)
  | .jeDup off =>
    if s.top < 1 then none else
    (match target size s.pc off with
     | some t => some [{ s with pc := s.pc + 1, top := s.top - 1 }, { s with pc := t }]
     | none => none)
  | .stop => some []
  | .blockPush => next { s with blocks := s.top :: s.blocks }
  | .blockPop => (match s.blocks with | [] => none | t :: r => next { s with top := t + 1, blocks := r })
  | .fstrPush => next { s with fblocks := s.top :: s.fblocks }
  | .fstrPop =>
    (match s.fblocks with
     | [] => none
     | t :: r => if t != s.top && s.top == 0 then none else next { s with top := t + 1, fblocks := r })
  | .diceInit => next { s with dice := s.dice + 1 }
  | .diceSet => if s.top < 1 || s.dice < 1 then none else next { s with top := s.top - 1 }
  | .dice => if s.top < 1 || s.dice < 1 || s.det < 1 then none else next { s with dice := s.dice - 1 }
  | .markDetail => next { s with det := s.det + 1 }
  | .detUse p q => if s.top < p || s.det < 1 then none else next { s with top := s.top - p + q }
  | .defExpr => if s.det < 1 || s.dice < 1 then none else next { s with top := s.top + 1 }
  | .wodInit => next { s with wod := true }
  | .dcInit => next { s with dc := true }
  | .wodSet => if s.top < 1 || !s.wod then none else next { s with top := s.top - 1 }
  | .dcSet => if s.top < 1 || !s.dc then none else next { s with top := s.top - 1 }
  | .wodRoll => if s.top < 1 || !s.wod || s.det < 1 then none else next s
  | .dcRoll => if s.top < 1 || !s.dc || s.det < 1 then none else next s

end DS.Verify
