/- the operand stack never overflows: the `Room` invariant is carried along the skeleton -/
import DS.Proofs.ExecSkel
namespace DS.VM
open DS.Verify

/-- the part of `Room` a skeleton state can see -/
structure RoomS (s : SK) : Prop where
  top : s.top ≤ stackSize
  blocks : ∀ t ∈ s.blocks, t < stackSize
  fblocks : ∀ t ∈ s.fblocks, t < stackSize

/-- no instruction kind of the real table pushes more than one value beyond what it popped -/
def KindOK : Kind → Prop
  | .simple _ q => q ≤ 1
  | .detUse _ q => q ≤ 1
  | _ => True

theorem kindOf_ok (ins : Instr) : KindOK (kindOf ins) := by
  cases ins <;> simp [kindOf, KindOK]

theorem roomS_of_room {f : Frame} (h : Room f) (wod dc : Bool) : RoomS (skOfFrame f wod dc) :=
  ⟨h.top, h.blocks, h.fblocks⟩

/-- one skeleton step from a state below the overflow line keeps every height (current and saved) within the stack -/
theorem sstep_room {size : Nat} {k : Kind} (hk : KindOK k) {s : SK} (hr : RoomS s) (hlt : s.top < stackSize)
    {succs : List SK} (hs : sstep size k s = some succs) {s' : SK} (hm : s' ∈ succs) : RoomS s' := by
  obtain ⟨h1, h2, h3⟩ := hr
  cases k with
  | simple p q =>
    obtain ⟨hp, rfl⟩ := sstep_simple hs
    simp only [KindOK] at hk
    simp only [List.mem_singleton] at hm; subst hm
    exact ⟨by simp only []; omega, h2, h3⟩
  | peek n =>
    obtain ⟨hp, rfl⟩ := sstep_peek hs
    simp only [List.mem_singleton] at hm; subst hm
    exact ⟨h1, h2, h3⟩
  | jmp off =>
    obtain ⟨t, _, rfl⟩ := sstep_jmp hs
    simp only [List.mem_singleton] at hm; subst hm
    exact ⟨h1, h2, h3⟩
  | je off =>
    obtain ⟨_, t, _, rfl⟩ := sstep_je hs
    simp only [List.mem_cons, List.mem_nil_iff, or_false] at hm
    rcases hm with rfl | rfl <;> exact ⟨by simp only []; omega, h2, h3⟩
  | jne off =>
    obtain ⟨_, t, _, rfl⟩ := sstep_jne hs
    simp only [List.mem_cons, List.mem_nil_iff, or_false] at hm
    rcases hm with rfl | rfl <;> exact ⟨by simp only []; omega, h2, h3⟩
  | jeDup off =>
    obtain ⟨_, t, _, rfl⟩ := sstep_jeDup hs
    simp only [List.mem_cons, List.mem_nil_iff, or_false] at hm
    rcases hm with rfl | rfl
    · exact ⟨by simp only []; omega, h2, h3⟩
    · exact ⟨h1, h2, h3⟩
  | stop => simp [sstep] at hs; subst hs; cases hm
  | blockPush =>
    have := sstep_blockPush hs; subst this
    simp only [List.mem_singleton] at hm; subst hm
    refine ⟨h1, ?_, h3⟩
    intro t ht
    simp only [List.mem_cons] at ht
    rcases ht with rfl | ht
    · exact hlt
    · exact h2 t ht
  | blockPop =>
    obtain ⟨t, r, hb, rfl⟩ := sstep_blockPop hs
    simp only [List.mem_singleton] at hm; subst hm
    have ht : t < stackSize := h2 t (by rw [hb]; exact List.mem_cons_self)
    exact ⟨by simp only []; omega, fun u hu => h2 u (by rw [hb]; exact List.mem_cons_of_mem _ hu), h3⟩
  | fstrPush =>
    have := sstep_fstrPush hs; subst this
    simp only [List.mem_singleton] at hm; subst hm
    refine ⟨h1, h2, ?_⟩
    intro t ht
    simp only [List.mem_cons] at ht
    rcases ht with rfl | ht
    · exact hlt
    · exact h3 t ht
  | fstrPop =>
    obtain ⟨t, r, hb, _, rfl⟩ := sstep_fstrPop hs
    simp only [List.mem_singleton] at hm; subst hm
    have ht : t < stackSize := h3 t (by rw [hb]; exact List.mem_cons_self)
    exact ⟨by simp only []; omega, h2, fun u hu => h3 u (by rw [hb]; exact List.mem_cons_of_mem _ hu)⟩
  | diceInit =>
    have := sstep_diceInit hs; subst this
    simp only [List.mem_singleton] at hm; subst hm
    exact ⟨h1, h2, h3⟩
  | diceSet =>
    obtain ⟨_, _, rfl⟩ := sstep_diceSet hs
    simp only [List.mem_singleton] at hm; subst hm
    exact ⟨by simp only []; omega, h2, h3⟩
  | dice =>
    obtain ⟨_, _, _, rfl⟩ := sstep_dice hs
    simp only [List.mem_singleton] at hm; subst hm
    exact ⟨h1, h2, h3⟩
  | markDetail =>
    have := sstep_markDetail hs; subst this
    simp only [List.mem_singleton] at hm; subst hm
    exact ⟨h1, h2, h3⟩
  | detUse p q =>
    obtain ⟨_, _, rfl⟩ := sstep_detUse hs
    simp only [KindOK] at hk
    simp only [List.mem_singleton] at hm; subst hm
    exact ⟨by simp only []; omega, h2, h3⟩
  | defExpr =>
    obtain ⟨_, _, rfl⟩ := sstep_defExpr hs
    simp only [List.mem_singleton] at hm; subst hm
    exact ⟨by simp only []; omega, h2, h3⟩
  | wodInit =>
    have := sstep_wodInit hs; subst this
    simp only [List.mem_singleton] at hm; subst hm
    exact ⟨h1, h2, h3⟩
  | dcInit =>
    have := sstep_dcInit hs; subst this
    simp only [List.mem_singleton] at hm; subst hm
    exact ⟨h1, h2, h3⟩
  | wodSet =>
    obtain ⟨_, rfl⟩ := sstep_wodSet hs
    simp only [List.mem_singleton] at hm; subst hm
    exact ⟨by simp only []; omega, h2, h3⟩
  | dcSet =>
    obtain ⟨_, rfl⟩ := sstep_dcSet hs
    simp only [List.mem_singleton] at hm; subst hm
    exact ⟨by simp only []; omega, h2, h3⟩
  | wodRoll =>
    obtain ⟨_, _, rfl⟩ := sstep_wodRoll hs
    simp only [List.mem_singleton] at hm; subst hm
    exact ⟨h1, h2, h3⟩
  | dcRoll =>
    obtain ⟨_, _, rfl⟩ := sstep_dcRoll hs
    simp only [List.mem_singleton] at hm; subst hm
    exact ⟨h1, h2, h3⟩

/-- a frame that matches a skeleton state with room, on a stack of the right size, has room -/
theorem room_of_matches {f' : Frame} {s' : SK} (hm : skMatches f' s' = true) (hs : RoomS s') (hsize : f'.stack.size = stackSize) : Room f' := by
  simp only [skMatches, Bool.and_eq_true, beq_iff_eq] at hm
  obtain ⟨⟨⟨⟨⟨_, h2⟩, h3⟩, h4⟩, _⟩, _⟩ := hm
  exact ⟨hsize, by rw [← h2]; exact hs.top, by rw [← h3]; exact hs.blocks, by rw [← h4]; exact hs.fblocks⟩

/-- a freshly set-up frame (what `Run`, a function call or a computed value starts from) has room -/
theorem room_fresh (f : Frame) (hs : f.stack = newStack) (ht : f.top = 0) (hb : f.blocks = []) (hf : f.fblocks = []) : Room f :=
  ⟨by rw [hs]; simp [newStack], by rw [ht]; exact Nat.zero_le _, (by rw [hb]; intro t h; cases h), (by rw [hf]; intro t h; cases h)⟩

end DS.VM
