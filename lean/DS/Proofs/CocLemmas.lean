/- the CoC bonus / penalty die: the tens-dice loop as a fold, and the arithmetic that turns the code's
   (min, max, saw-a-ten) bookkeeping into "the least / greatest of the candidate percentile values" (C04) -/
import DS.Proofs.DiceLemmas

namespace DS.Proofs
open DS.Roll DS.Rng

/-- a d10 or d100 in any mode shows 1..sides -/
theorem roll_range_any (sides : Int) (h0 : 0 < sides) (h1 : sides ≤ maxInt64 - 1) (mode : Int) (ws : List Nat) (hws : Words64 ws)
    (r : Int) (rest : List Nat) (h : roll sides mode ws = some (r, rest)) :
    1 ≤ r ∧ r ≤ sides ∧ Words64 rest := by
  by_cases hm1 : mode = -1
  · subst hm1
    have hne : (sides == 0) = false := by simp; omega
    simp [roll, hne] at h
    obtain ⟨rfl, rfl⟩ := h
    exact ⟨by omega, by omega, hws⟩
  · by_cases hm2 : mode = 1
    · subst hm2
      have hne : (sides == 0) = false := by simp; omega
      simp [roll, hne] at h
      obtain ⟨rfl, rfl⟩ := h
      exact ⟨by omega, by omega, hws⟩
    · have e : roll sides mode ws = roll sides 0 ws := by
        unfold roll
        simp [hm1, hm2]
      rw [e] at h
      exact roll_face sides h0 h1 ws hws r rest h

/-- what the tens-dice loop keeps: least and greatest die that is not a 10, and whether a 10 was seen -/
def cocFold : List Int → Int → Int → Bool → Int × Int × Bool
  | [], mn, mx, e => (mn, mx, e)
  | n :: ds, mn, mx, e =>
    if n == 10 then cocFold ds mn mx true
    else cocFold ds (if n < mn then n else mn) (if n > mx then n else mx) e

/-- how a tens die is shown: a 10 is the digit 0 -/
def cocShow (n : Int) : String := if n == 10 then "0" else toString n

theorem cocLoop_fold (mode : Int) : ∀ (k : Nat) (mn mx : Int) (e : Bool) (ws : List Nat) (hws : Words64 ws)
    (ts : List String) (mn' mx' : Int) (e' : Bool) (rest : List Nat),
    cocLoop mode k mn mx e ws = some ((ts, mn', mx', e'), rest) →
    ∃ dice : List Int, dice.length = k ∧ (∀ d ∈ dice, 1 ≤ d ∧ d ≤ 10) ∧ ts = dice.map cocShow ∧
      (mn', mx', e') = cocFold dice mn mx e ∧ Words64 rest := by
  intro k
  induction k with
  | zero =>
    intro mn mx e ws hws ts mn' mx' e' rest h
    simp [cocLoop] at h
    obtain ⟨⟨rfl, rfl, rfl, rfl⟩, rfl⟩ := h
    exact ⟨[], rfl, by simp, rfl, rfl, hws⟩
  | succ k ih =>
    intro mn mx e ws hws ts mn' mx' e' rest h
    simp only [cocLoop] at h
    split at h
    · simp at h
    · rename_i n0 ws' hr
      obtain ⟨hn1', hn2', hws'⟩ := roll_range_any 10 (by decide) (by decide) mode ws hws n0 ws' hr
      have hface : 1 ≤ cocFace mode n0 ∧ cocFace mode n0 ≤ 10 := by unfold cocFace; split <;> omega
      generalize cocFace mode n0 = n at h hface
      obtain ⟨hn1, hn2⟩ := hface
      split at h
      · rename_i h10
        split at h
        · simp at h
        · rename_i ts0 a b c ws'' hrec
          simp at h
          obtain ⟨⟨rfl, rfl, rfl, rfl⟩, rfl⟩ := h
          obtain ⟨dice, hl, hr', rfl, hf, hw⟩ := ih _ _ _ ws' hws' _ _ _ _ _ hrec
          refine ⟨n :: dice, by simp [hl], ?_, ?_, ?_, hw⟩
          · intro d hd
            simp at hd
            rcases hd with rfl | hd
            · exact ⟨hn1, hn2⟩
            · exact hr' d hd
          · simp [cocShow, h10]
          · simp only [cocFold, h10, if_true]
            exact hf
      · rename_i h10
        split at h
        · simp at h
        · rename_i ts0 a b c ws'' hrec
          simp at h
          obtain ⟨⟨rfl, rfl, rfl, rfl⟩, rfl⟩ := h
          obtain ⟨dice, hl, hr', rfl, hf, hw⟩ := ih _ _ _ ws' hws' _ _ _ _ _ hrec
          refine ⟨n :: dice, by simp [hl], ?_, ?_, ?_, hw⟩
          · intro d hd
            simp at hd
            rcases hd with rfl | hd
            · exact ⟨hn1, hn2⟩
            · exact hr' d hd
          · simp [cocShow, h10]
          · simp only [cocFold, h10]
            exact hf

/-- tens digit a bonus / penalty die stands for: a die showing 10 is the digit 0 -/
def cocDigit (n : Int) : Int := if n == 10 then 0 else n

/-- percentile value of tens digit `t` and units digit `u`: 00 + 0 reads 100 -/
def pct (t u : Int) : Int := if t == 0 && u == 0 then 100 else t * 10 + u

def imin (a b : Int) : Int := if b < a then b else a
def imax (a b : Int) : Int := if b > a then b else a

/-- what the code computes for a bonus die from its bookkeeping -/
def bonusVal (u m : Int) (e : Bool) : Int := (if u != 0 && e then 0 else m) * 10 + u
/-- … and for a penalty die -/
def penaltyVal (u m : Int) (e : Bool) : Int := (if u == 0 && e then 10 else m) * 10 + u

theorem bonus_fold (u : Int) (hu0 : 0 ≤ u) (hu9 : u ≤ 9) : ∀ (dice : List Int) (hd : ∀ d ∈ dice, 1 ≤ d ∧ d ≤ 10)
    (mn mx : Int) (e : Bool) (hm0 : 0 ≤ mn) (hm10 : mn ≤ 10),
    bonusVal u (cocFold dice mn mx e).1 (cocFold dice mn mx e).2.2 =
      dice.foldl (fun v n => imin v (pct (cocDigit n) u)) (bonusVal u mn e) := by
  intro dice
  induction dice with
  | nil => intros; rfl
  | cons n ds ih =>
    intro hd mn mx e hm0 hm10
    have ⟨hn1, hn10⟩ := hd n (by simp)
    have hd' : ∀ d ∈ ds, 1 ≤ d ∧ d ≤ 10 := fun d h => hd d (by simp [h])
    simp only [cocFold, List.foldl_cons]
    by_cases h10 : n = 10
    · subst h10
      simp only [BEq.rfl, if_true]
      rw [ih hd' mn mx true hm0 hm10]
      congr 1
      unfold bonusVal imin pct cocDigit
      by_cases hu : u = 0
      · subst hu; cases e <;> simp <;> omega
      · have : (u != 0) = true := by simp [hu]
        have h2 : (u == 0) = false := by simp [hu]
        cases e <;> simp [this, h2] <;> omega
    · have hb : (n == 10) = false := by simp [h10]
      simp only [hb, Bool.false_eq_true, if_false]
      have hlt : 0 ≤ (if n < mn then n else mn) ∧ (if n < mn then n else mn) ≤ 10 := by split <;> omega
      rw [ih hd' _ _ e hlt.1 hlt.2]
      congr 1
      unfold bonusVal imin pct cocDigit
      have hn0 : (n == 0) = false := by simp; omega
      simp only [hb, hn0]
      by_cases hc : (u != 0 && e) = true
      · simp [hc]; omega
      · have hc' : (u != 0 && e) = false := by simpa using hc
        simp only [hc']
        split <;> simp <;> omega

theorem penalty_fold (u : Int) (hu0 : 0 ≤ u) (hu9 : u ≤ 9) : ∀ (dice : List Int) (hd : ∀ d ∈ dice, 1 ≤ d ∧ d ≤ 10)
    (mn mx : Int) (e : Bool) (hm0 : 0 ≤ mx) (hm10 : mx ≤ 10) (hz : mx = 10 → u = 0),
    penaltyVal u (cocFold dice mn mx e).2.1 (cocFold dice mn mx e).2.2 =
      dice.foldl (fun v n => imax v (pct (cocDigit n) u)) (penaltyVal u mx e) := by
  intro dice
  induction dice with
  | nil => intros; rfl
  | cons n ds ih =>
    intro hd mn mx e hm0 hm10 hz
    have ⟨hn1, hn10⟩ := hd n (by simp)
    have hd' : ∀ d ∈ ds, 1 ≤ d ∧ d ≤ 10 := fun d h => hd d (by simp [h])
    simp only [cocFold, List.foldl_cons]
    by_cases h10 : n = 10
    · subst h10
      simp only [BEq.rfl, if_true]
      rw [ih hd' mn mx true hm0 hm10 hz]
      congr 1
      unfold penaltyVal imax pct cocDigit
      by_cases hu : u = 0
      · subst hu; cases e <;> simp <;> omega
      · have h2 : (u == 0) = false := by simp [hu]
        cases e <;> simp [h2] <;> omega
    · have hb : (n == 10) = false := by simp [h10]
      simp only [hb, Bool.false_eq_true, if_false]
      have hlt : 0 ≤ (if n > mx then n else mx) ∧ (if n > mx then n else mx) ≤ 10 ∧ ((if n > mx then n else mx) = 10 → u = 0) := by
        split <;> refine ⟨by omega, by omega, ?_⟩ <;> intro h <;> first | omega | exact hz h
      rw [ih hd' _ _ e hlt.1 hlt.2.1 hlt.2.2]
      congr 1
      unfold penaltyVal imax pct cocDigit
      have hn0 : (n == 0) = false := by simp; omega
      simp only [hb, hn0]
      by_cases hc : (u == 0 && e) = true
      · have hu : u = 0 := by simp at hc; exact hc.1
        have he : e = true := by simp at hc; exact hc.2
        subst hu; subst he
        simp; omega
      · have hc' : (u == 0 && e) = false := by simpa using hc
        simp only [hc']
        split <;> simp <;> omega

end DS.Proofs
