import DS.Model.Detail
namespace DS.Proofs
end DS.Proofs
