/- lemmas for the JSON codec theorems (C09, C10) -/
import DS.Model.Json

namespace DS.Proofs.JsonL
open DS.Json

@[simp] theorem lookup_t (t : Int) (v : J) :
    lookup .t [(fkey .t "t", .num (.int t)), (fkey .v "v", v)] = some (.num (.int t)) := by
  simp [lookup, fkey]
@[simp] theorem lookup_v (t : Int) (v : J) :
    lookup .v [(fkey .t "t", .num (.int t)), (fkey .v "v", v)] = some v := by
  simp [lookup, fkey]
@[simp] theorem lookup_t1 (t : Int) : lookup .t [(fkey .t "t", .num (.int t))] = some (.num (.int t)) := by
  simp [lookup, fkey]
@[simp] theorem lookup_v1 (t : Int) : lookup .v [(fkey .t "t", J.num (.int t))] = none := by
  simp [lookup, fkey]

theorem asInt_ok (t : Int) (h : minInt64 ≤ t ∧ t ≤ maxInt64) : asInt (some (.num (.int t))) = .ok t := by
  simp [asInt, h]

mutual
  /-- nesting depth (bounds the fuel decode needs) -/
  def depth : V → Nat
    | .arr l => depthList l + 1
    | .dict kv => depthEntries kv + 1
    | .computed _ (some m) => depthEntries m + 1
    | _ => 0
  def depthList : List V → Nat
    | [] => 0
    | v :: r => max (depth v) (depthList r)
  def depthEntries : List (String × V) → Nat
    | [] => 0
    | (_, v) :: r => max (depth v) (depthEntries r)
end

mutual
  /-- values the encoder accepts: int64 integers, finite floats, known native functions, no unknown tags -/
  def encodable : V → Bool
    | .int i => decide (minInt64 ≤ i ∧ i ≤ maxInt64)
    | .float f => isFinite f
    | .arr l => encodableList l
    | .dict kv => encodableEntries kv
    | .computed _ (some m) => encodableEntries m
    | .nativeFn n => builtinNames.contains n
    | .unknownTag _ => false
    | _ => true
  def encodableList : List V → Bool
    | [] => true
    | v :: r => encodable v && encodableList r
  def encodableEntries : List (String × V) → Bool
    | [] => true
    | (_, v) :: r => encodable v && encodableEntries r
end

theorem asStrings_strs (ps : List String) : asStrings (ps.map J.str) = .ok ps := by
  induction ps with
  | nil => rfl
  | cons p ps ih => simp [asStrings, asString, ih]

/-- an encoded value is always an object (so it is never the literal null inside a container) -/
theorem encode_is_obj (v : V) (j : J) (h : encode v = .ok j) : ∃ kv, j = .obj kv := by
  cases v with
  | int i => simp only [encode] at h; cases h; exact ⟨_, rfl⟩
  | float f =>
    simp only [encode] at h
    split at h
    · cases h; exact ⟨_, rfl⟩
    · cases h
  | str s => simp only [encode] at h; cases h; exact ⟨_, rfl⟩
  | null => simp only [encode] at h; cases h; exact ⟨_, rfl⟩
  | arr l =>
    simp only [encode] at h
    split at h
    · cases h; exact ⟨_, rfl⟩
    · cases h
  | dict kv =>
    simp only [encode] at h
    split at h
    · cases h; exact ⟨_, rfl⟩
    · cases h
  | func e n ps => simp only [encode] at h; cases h; exact ⟨_, rfl⟩
  | computed e a =>
    cases a with
    | none => simp only [encode] at h; cases h; exact ⟨_, rfl⟩
    | some m =>
      simp only [encode] at h
      split at h
      · cases h; exact ⟨_, rfl⟩
      · cases h
  | nativeFn n => simp only [encode] at h; cases h; exact ⟨_, rfl⟩
  | nativeObj n => simp only [encode] at h; cases h; exact ⟨_, rfl⟩
  | unknownTag t => simp only [encode] at h; cases h

end DS.Proofs.JsonL
