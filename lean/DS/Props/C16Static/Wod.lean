/- kernel evaluation of the static gating check for the `wod` gate on the regenerated grammar -/
import DS.Props.C16Defs
namespace DS.Props.C16
open DS.Peg

set_option maxRecDepth 100000 in
theorem static_wod : (rulesOK ge DS.Gen.Grammar.rules wodGate (okFor wodGate) && (okFor wodGate)[0]!) = true := by decide +kernel

end DS.Props.C16
