"""C15 — min-mode and max-mode bracket every roll.

Proof: DS/Props/C15.lean (mode_no_draw, common_mode_attained, common_bracket, fate_bracket, monotone_expr;
coc_bracket: CoC bonus/penalty dice give 1 in min mode, 100 in max mode, draw nothing, and every roll lies between).
Tie: roll streams in the three modes.  Oracle on the implementation: min <= random <= max, generator untouched
under min/max, bounds attained; the same through the VM syntax for monotone expressions.
"""
import re

from lib import diceoracle as O
from lib.common import Run, hx, unhx
from lib.props.c04 import opt


def main(tier):
    run = Run("C15", tier, module="DS.Props.C15", props_file="DS/Props/C15.lean",
              extra_files=["DS/Proofs/RollLemmas.lean", "DS/Proofs/DiceLemmas.lean", "DS/Model/Roll.lean"])
    if run.prepare():
        run.proofs()
        r = run.rng
        n = 2500 if tier == "thorough" else 500
        tuples = []
        for _ in range(n):
            t = r.choice((1, 2, 3, 4, 6, 10))
            s = r.choice((1, 2, 3, 4, 6, 10, 20, 100, 2**31 + 5, 2**62 + 1))
            if s > 2**33:
                t = 1                      # keep totals inside int64 (the theorems' NoOverflow guard)
            keep = r.choice((0, 0, 1, 2, 3, 4))
            k = r.randint(1, t + 1)
            mm = (None, None, 1, 2, 3, 5, s, s + 1, -2)
            tuples.append((r.getrandbits(128), t, s, r.choice(mm), r.choice(mm), keep, k, k))
        tuples.append((r.getrandbits(128), 1, 2**63 - 2, None, None, 0, 1, 1))
        lines = []
        for st, t, s, a, b, keep, lo, hi in tuples:
            for mode in (-1, 0, 1):
                lines.append(f"common {st:032x} {t} {s} {opt(a)} {opt(b)} {keep} {lo} {hi} {mode}")
        res = run.diff_stream("common", lines)
        for i, tp in enumerate(tuples):
            st, t, s, a, b, keep, lo, hi = tp
            g = [res[3 * i + j][1].split() for j in range(3)]
            if any(len(x) != 3 for x in g):
                run.violation("common:crash", {"cases": lines[3 * i:3 * i + 3], "implementation": [res[3 * i + j][1] for j in range(3)]})
                continue
            vmin, vr, vmax = int(g[0][0]), int(g[1][0]), int(g[2][0])
            run.nontriv(("common", tp))
            rep = {"cases": lines[3 * i:3 * i + 3], "min": vmin, "random": vr, "max": vmax}
            if not (vmin <= vr <= vmax):
                run.violation("common:not-bracketed", rep)
            if g[0][2] != f"{st:032x}" or g[2][2] != f"{st:032x}":
                run.violation("common:min/max-mode-consumed-randomness", rep)
            for j, mode in ((0, -1), (2, 1)):
                why = O.check_common(t, s, a, b, keep, lo, hi, mode, int(g[j][0]), unhx(g[j][1]).decode())
                if why:
                    rep2 = dict(rep, clause=why, text=unhx(g[j][1]).decode())
                    run.violation("common:bound-not-attained:" + why, rep2)
        run.sample({"stream": "common x3 modes", "case": lines[0:3]})
        # ---- Fate and CoC
        lines = []
        cases = []
        for _ in range(600 if tier == "thorough" else 150):
            st = r.getrandbits(128)
            kind = r.choice(("fate", "bonus", "penalty"))
            k = r.choice((1, 1, 2, 3))
            cases.append((st, kind, k))
            for mode in (-1, 0, 1):
                if kind == "fate":
                    lines.append(f"fate {st:032x} {mode}")
                else:
                    lines.append(f"coc {st:032x} {1 if kind == 'bonus' else 0} {k} {mode}")
        res = run.diff_stream("fate+coc", lines)
        for i, (st, kind, k) in enumerate(cases):
            g = [res[3 * i + j][1].split() for j in range(3)]
            if any(len(x) != 3 for x in g):
                run.violation(kind + ":crash", {"cases": lines[3 * i:3 * i + 3]})
                continue
            vmin, vr, vmax = int(g[0][0]), int(g[1][0]), int(g[2][0])
            rep = {"cases": lines[3 * i:3 * i + 3], "min": vmin, "random": vr, "max": vmax,
                   "random_text": unhx(g[1][1]).decode()}
            run.nontriv((kind, st, k))
            if g[0][2] != f"{st:032x}" or g[2][2] != f"{st:032x}":
                run.violation(kind + ":min/max-mode-consumed-randomness", rep)
            if vr > vmax:
                run.violation(kind + ":above-max-mode", rep)
            if vr < vmin:
                run.violation(kind + ":below-min-mode", rep)
            if kind != "fate" and (vmin, vmax) != (1, 100):
                run.violation("coc:bounds", rep)
            if kind == "fate" and (vmin, vmax) != (-4, 4):
                run.violation("fate:bounds", rep)
        # ---- through the VM: monotone expressions in the three modes, same seed
        progs = []
        for _ in range(500 if tier == "thorough" else 120):
            parts = []
            for _t in range(r.randint(1, 3)):
                t = r.choice((1, 2, 3, 5))
                sd = r.choice((2, 4, 6, 10, 20))
                term = f"{t}d{sd}"
                if t > 1 and r.random() < 0.5:
                    term += r.choice(("k", "kl", "dh", "dl", "kh")) + str(r.randint(1, t))
                mmx = r.random()
                if mmx < 0.25:
                    term += "min" + str(r.randint(1, sd))
                elif mmx < 0.5:
                    term += "max" + str(r.randint(1, sd))
                if r.random() < 0.3:
                    term = f"{r.randint(0, 4)} * {term}"
                parts.append(term)
            if r.random() < 0.5:
                parts.append(str(r.randint(0, 9)))
            cfgx = ""
            if r.random() < 0.25:
                parts.append("f")
                cfgx = "f"
            elif r.random() < 0.25:
                parts.append(r.choice(("b", "b2", "p", "p2", "p3")))
                cfgx = "c"
            src_ = " + ".join(parts)
            if r.random() < 0.25 and not cfgx:
                # the same through a computed value evaluated more than once (its compiled code is reused from the second evaluation on)
                src_ = f"&cm = {src_}; cm; cm + cm"
            elif r.random() < 0.1 and not cfgx:
                src_ = f"func fm() {{ {src_} }}; fm(); fm() + fm()"
            progs.append((cfgx, src_))
        lines = []
        seeds = []
        for cfgx, src in progs:
            st = f"{r.getrandbits(128):032x}"
            seeds.append(st)
            for m in ("m", "", "M"):
                lines.append(f"runseq {cfgx}{m},L30000 {st} {hx(src)}")
        out = run.go_only("vm-modes", lines, go_timeout=60)
        for i, (cfgx, src) in enumerate(progs):
            g = [out[3 * i + j][1] for j in range(3)]
            ms = [re.match(r"ok i(-?\d+) .* seed=(\S+) \|", x) for x in g]
            rep = {"source": src, "cfg": cfgx, "seed": seeds[i], "min/random/max": g}
            if not all(ms):
                run.violation("vm-modes:not-ok", rep)
                continue
            vmin, vr, vmax = (int(m.group(1)) for m in ms)
            run.nontriv(("vm", src, seeds[i]))
            if not (vmin <= vr <= vmax):
                run.violation("vm-modes:not-bracketed", rep)
            if ms[0].group(2) != seeds[i] or ms[2].group(2) != seeds[i]:
                run.violation("vm-modes:min/max-mode-consumed-randomness", rep)
        run.sample({"stream": "vm-modes", "case": progs[0][1]})
        # both switches on (a host that turns min-mode on without turning max-mode off): still a mode evaluation — no randomness is
        # consumed and the result is a bound; the model (`Config.mode`: min-mode first) says which
        both = run.go_only("vm-modes-both", [f"runseq {cfgx}mM,L30000 {seeds[i]} {hx(src)}" for i, (cfgx, src) in enumerate(progs)], go_timeout=60)
        for i, (cfgx, src) in enumerate(progs):
            mb = re.match(r"ok i(-?\d+) .* seed=(\S+) \|", both[i][1])
            m0 = re.match(r"ok i(-?\d+) ", out[3 * i][1])
            rep = {"source": src, "cfg": cfgx + "mM", "seed": seeds[i], "both_modes": both[i][1][:200], "min_mode": out[3 * i][1][:200]}
            if not mb or not m0:
                continue
            run.nontriv(("vm-both", src, seeds[i]))
            if mb.group(2) != seeds[i]:
                run.violation("vm-modes:min+max-mode-consumed-randomness", rep)
            elif mb.group(1) != m0.group(1):
                run.violation("vm-modes:min+max-mode-is-not-the-model's-min-mode", rep)
        # a bound the host keeps (the result object of a mode run) is still that bound after the same VM has rolled again
        kl = [f"retkeep {cfgx}{md},L30000 {seeds[i]} {hx(src)} {hx(progs[(i + 1) % len(progs)][1] if progs[(i + 1) % len(progs)][0] in cfgx or not progs[(i + 1) % len(progs)][0] else src)}"
              for i, (cfgx, src) in enumerate(progs[:40]) for md in ("m", "M")]
        for ln, g in run.go_only("retkeep", kl, go_timeout=60):
            m = re.match(r"before=(\S+) after=(\S+) var=(\S+) \| ", g)
            if not m:
                continue
            run.nontriv(("retkeep", ln))
            if m.group(1) != m.group(2):
                t = ln.split()
                run.violation("vm-modes:kept-bound-changed-by-a-later-run", {"cfg": t[1], "first": unhx(t[3]).decode(), "second": unhx(t[4]).decode(),
                                                                              "kept_before": unhx(m.group(1)).decode(), "kept_after": unhx(m.group(2)).decode()})
        # the range query as hosts make it: min mode, max mode and a normal roll one after the other on ONE context (flipping the two
        # switches), also with a default-sides expression that itself rolls — each answer is the one a fresh context in that mode gives
        ml, mmeta = [], []
        for i in range(60 if tier == "thorough" else 24):
            dexpr = r.choice(("2d4+2", "d6+1", "3d2", "20", "d10"))
            body = r.choice(("3d", "d + 2d", "2d + 5", "4dk2", "d * 2", "2d6 + d", "d", "3dkl1 + 1"))
            st = f"{r.getrandbits(128):032x}"
            cfgd = "D" + hx(dexpr)
            ml.append(f"modeseq {cfgd},L30000 {st} {hx(body)}")
            for md in ("m", "M", ""):
                ml.append(f"runseq {cfgd}{',' + md if md else ''},L30000 {st} {hx(body)}")
            mmeta.append((dexpr, body, st))
        mo_ = run.go_only("mode-sequence", ml, go_timeout=60)
        for i, (dexpr, body, st) in enumerate(mmeta):
            g = mo_[4 * i][1]
            fresh = [re.match(r"ok (\S+) ", mo_[4 * i + j][1]) for j in (1, 2, 3)]
            mm = re.match(r"min=(\S+) max=(\S+) rnd=(\S+)$", g)
            rep = {"DefaultDiceSideExpr": dexpr, "source": body, "seed": st, "one_context_min_max_random": g[:300], "fresh_contexts": [x[1][:120] for x in mo_[4 * i + 1:4 * i + 4]]}
            if not mm or not all(fresh):
                run.violation("mode-sequence:not-ok", rep)
                continue
            run.nontriv(("modeseq", dexpr, body, st))
            if [mm.group(1), mm.group(2), mm.group(3)] != [f.group(1) for f in fresh]:
                run.violation("mode-sequence:answer-depends-on-the-earlier-mode-run", rep)
            elif not (int(mm.group(1)[1:]) <= int(mm.group(3)[1:]) <= int(mm.group(2)[1:])):
                run.violation("mode-sequence:not-bracketed", rep)
        # the largest die an int64 can name (it used to roll 0 in random mode, below its min-mode value)
        for big in ("d9223372036854775807", "d9223372036854775806", "2d4611686018427387903"):
            out = run.go_only("vm-limit", [f"runseq {m},L30000 {r.getrandbits(128):032x} {hx(big)}" for m in ("m", "-", "M")])
            ms = [re.match(r"ok i(-?\d+) ", x[1]) for x in out]
            run.nontriv(("limit", big))
            if not all(ms) or not (int(ms[0].group(1)) <= int(ms[1].group(1)) <= int(ms[2].group(1))) or int(ms[1].group(1)) < 1:
                run.violation("vm-modes:not-bracketed", {"source": big, "min/random/max": [x[1][:120] for x in out]})
    return run.finish(
        trusted=["Lean 4.33 kernel", "axioms: propext, Classical.choice, Quot.sound", "Go harness + Lean driver"],
        rule="(PCG state, times, sides, min, max, keep/drop, k) tuples each run in min, random and max mode; Fate/CoC likewise; "
             "monotone VM expressions (sums, products with non-negative constants, Fate and CoC bonus terms) in the three "
             "modes with one seed; distinct by tuple/program+seed",
        assumptions=["sums compared under NoOverflow (the generator keeps totals far below 2^63)"])
