"""C12 — ValueMap is a correct map, sequentially and under concurrency.

Proof: DS/Props/C12.lean — invariant + refinement of every operation to an ordinary string-keyed map, for
all histories (induction over the operation list).  Tie: `vmap` stream comparing every return value AND the
internal shape (read/dirty membership, entry states, amended, misses) after every operation.
Oracle on the implementation: a Python dict replayed alongside (returns, Range contents, Length).
Concurrency: recorded concurrent histories from goroutines checked for linearizability (supporting validation).
"""
import itertools
import re

from lib.common import Run

KEYS2 = ("a", "b")


def alphabet(keys):
    ops = []
    for k in keys:
        ops += [f"L:{k}", f"S:{k}", f"O:{k}", f"D:{k}"]
    ops += ["C", "R", "N"]
    return ops


def concretise(seq, nil_every=0):
    """give every store a fresh value; with nil_every = k every k-th stored value is the nil pointer (a legal value: a key
    holding nil is a live key)"""
    out = []
    n = 0
    for op in seq:
        if op[0] in "SO":
            n += 1
            out.append(f"{op}:nil" if nil_every and n % nil_every == 0 else f"{op}:{n}")
        else:
            out.append(op)
    return out


def VAL(tok):
    return "NIL" if tok == "nil" else int(tok)


def spec_check(ops, outs):
    """replay a dict; return (index, message) of first mismatch or None"""
    d = {}
    for i, (op, out) in enumerate(zip(ops, outs)):
        ret = out.split(" @ ")[0].strip()
        f = op.split(":")
        if f[0] == "L":
            want = f"v={d[f[1]]}" if f[1] in d else "none"
        elif f[0] == "S":
            d[f[1]] = VAL(f[2]); want = "-"
        elif f[0] == "O":
            if f[1] in d:
                want = f"los={d[f[1]]},true"
            else:
                d[f[1]] = VAL(f[2]); want = f"los={VAL(f[2])},false"
        elif f[0] == "D":
            want = f"v={d.pop(f[1])}" if f[1] in d else "none"
        elif f[0] == "X":
            d.pop(f[1], None); want = "-"
        elif f[0] == "C":
            d.clear(); want = "-"
        elif f[0] == "J":
            d.clear(); want = "-"
            if f[1] != "-":
                for kv in f[1].split(","):
                    k_, v_ = kv.split("=")
                    d[k_] = int(v_)
        elif f[0] == "R":
            want = "range[" + ",".join(sorted(f"{k.encode().hex()}={v}" for k, v in d.items())) + "]"
        elif f[0] == "N":
            want = f"len={len(d)}"
        if ret != want:
            return i, f"op {op}: returned {ret}, an ordinary map gives {want}"
    return None


def main(tier):
    run = Run("C12", tier, module="DS.Props.C12", props_file="DS/Props/C12.lean",
              extra_files=["DS/Proofs/VMapLemmas.lean", "DS/Model/VMap.lean"])
    if run.prepare():
        run.proofs()
        r = run.rng
        seqs = []
        depth = 5 if tier == "thorough" else 4
        for seq in itertools.product(alphabet(KEYS2), repeat=depth):
            seqs.append(concretise(seq))
        nrand = 20000 if tier == "thorough" else 3000
        alpha3 = alphabet(("a", "b", "c")) + ["X:a", "X:b"]
        for _ in range(nrand):
            seqs.append(concretise([r.choice(alpha3) for _ in range(r.randint(6, 30))], nil_every=r.choice([0, 0, 0, 1, 2, 3])))
        for seq in itertools.product(alphabet(KEYS2), repeat=3):
            seqs.append(concretise(list(seq) + ["N", "R", "L:a", "L:b"], nil_every=1))
        # a map in use is restored from a JSON document (UnmarshalJSON = forget everything, then store the document's entries): whatever
        # its read / dirty layout was, afterwards it is the document — and it stays that through later stores, promotions and deletes
        docs = ["-", "a=70", "b=71,c=72", "a=73,b=74,c=75", "d=76"]
        for _ in range(4000 if tier == "thorough" else 800):
            pre = [r.choice(alpha3) for _ in range(r.randint(0, 8))]
            post = [r.choice(alpha3 + ["S:d", "L:d", "R", "N"]) for _ in range(r.randint(2, 10))]
            mid = ["J:" + r.choice(docs)] + ([r.choice(alpha3)] + ["J:" + r.choice(docs)] if r.random() < 0.3 else [])
            seqs.append(concretise(pre + mid + post + ["R", "N"], nil_every=r.choice([0, 0, 3])))
        # directed: histories that expunge, unexpunge and promote
        seqs.append(concretise("S:a R D:a S:b S:a R N L:a".split()))
        seqs.append(concretise("S:a S:b R D:a N".split()))
        lines = ["vmap " + " ".join(s) for s in seqs]
        res = run.diff_stream("vmap", lines, go_timeout=600)
        shapes = set()
        for s, (ln, g, m, v) in zip(seqs, res):
            outs = g.split(" ; ")
            if len(outs) != len(s):
                run.violation("vmap:crash", {"case": ln, "implementation": g[:300]})
                continue
            for o in outs:
                shapes.add(re.sub(r"\d+", "#", o.split(" @ ")[1]) if " @ " in o else o)
            bad = spec_check(s, outs)
            if bad:
                i, msg = bad
                run.violation("vmap:not-a-map", {"history": s[:i + 1], "clause": msg,
                                                 "implementation": outs[i], "replay_line": "vmap " + " ".join(s[:i + 1])})
            if any(" exp" in o or ":exp" in o for o in outs):
                run.nontriv(tuple(s))
        # ---- dicts through scripts: len / truthiness / == against Python dicts, with and without printing
        from lib.common import hx
        progs = []
        for _ in range(400 if tier == "thorough" else 100):
            def mk():
                ks = r.sample(["x", "y", "z", "w"], r.randint(0, 3))
                return {k: r.randint(1, 2) for k in ks}
            d1, d2 = mk(), mk()
            if r.random() < 0.3:
                d2 = dict(d1)
            if r.random() < 0.2 and d1:
                d2 = dict(d1); d2[r.choice(["p", "q"])] = 1
            lit = lambda d: "{" + ", ".join(f"'{k}': {v}" for k, v in d.items()) + "}"
            stm = [f"a = {lit(d1)}", f"b = {lit(d2)}"]
            for nm, d in (("a", d1), ("b", d2)):
                if r.random() < 0.5:
                    k = r.choice(["x", "y", "n"]); d[k] = 7
                    stm.append(f"{nm}.{k} = 7")
                if r.random() < 0.6:
                    stm.append(f"toStr({nm})")
                if r.random() < 0.3:
                    k = r.choice(["m", "x"]); d[k] = 3
                    stm.append(f"{nm}['{k}'] = 3")
            stm.append("[a == b, b == a, a.len(), b.len(), toBool(a), toBool(b)]")
            want = f"[i{int(d1 == d2)} i{int(d1 == d2)} i{len(d1)} i{len(d2)} i{int(bool(d1))} i{int(bool(d2))}]"
            progs.append(("; ".join(stm), want))
        out = run.go_only("dict-scripts", [f"runseq L30000 - {hx(src)}" for src, _ in progs], go_timeout=60)
        for (src, want), (ln, g) in zip(progs, out):
            mo = re.match(r"ok (\[[^\]]*\]) ", g)
            run.nontriv(("dict", src))
            if not mo or mo.group(1) != want:
                run.violation("dict-script:not-a-map", {"source": src, "implementation": g[:200], "expected_value": want})
        run.sample({"stream": "dict-scripts", "source": progs[0][0]})
        # ---- concurrent histories (supporting validation): porcupine linearizability + quiescent consistency
        nconc = 60 if tier == "thorough" else 12
        lines = [f"vmapconc {r.randint(1, 10**6)} {r.choice((4, 8, 12))} {r.choice((300, 600))} {r.choice((2, 4, 16))}" for _ in range(nconc)]
        # sparse key spaces: most Load / LoadAndDelete calls hit ABSENT keys while stores of new keys keep the dirty map amended and
        # Range keeps promoting it — the windows of the miss / promotion paths
        lines += [f"vmapconc {r.randint(1, 10**6)} {r.choice((8, 12, 16))} {r.choice((400, 800))} {r.choice((64, 200, 1000))}" for _ in range(nconc * 2)]
        out = run.go_only("vmap-concurrent", lines, go_timeout=600)
        nops = 0
        for ln, g in out:
            mo = re.match(r"(\S+) ops=(\d+) quiescent_range=(\w+) quiescent_len=(\w+)", g)
            if not mo:
                run.violation("vmap-concurrent:crash", {"case": ln, "implementation": g[:400]})
                continue
            nops += int(mo.group(2))
            run.nontriv(("conc", ln))
            if mo.group(1) == "NOT-linearizable":
                run.violation("vmap-concurrent:not-linearizable", {"case": ln, "implementation": g[:3000]})
            elif mo.group(3) != "true" or mo.group(4) != "true":
                run.violation("vmap-concurrent:quiescent-contents-wrong", {"case": ln, "implementation": g[:400]})
            elif mo.group(1) == "unknown":
                run.count("vmap-concurrent.unknown")
        # Length is a count over all keys and cannot be checked per key: a writer storing distinct keys (never deleting) while readers call
        # Length — each result lies between the stores completed before the call and those started when it returned
        ll = [f"vmaplen {r.randint(1, 10**6)} {r.choice((2, 4, 6))} {r.choice((200, 600, 1000))}" for _ in range(20 if tier == "thorough" else 6)]
        for ln, g in run.go_only("vmap-length-concurrent", ll, go_timeout=600, line_timeout=120):
            run.nontriv(("len-conc", ln))
            if g.startswith("bad "):
                run.violation("vmap-concurrent:Length-not-linearizable", {"case": ln, "implementation": g[:400]})
            elif not g.startswith("ok "):
                run.violation("vmap-concurrent:crash", {"case": ln, "implementation": g[:400]})
        run.count("vmap-concurrent.recorded-ops", nops)
        run.count("distinct-shapes", len(shapes))
        run.sample({"stream": "vmap", "history": seqs[len(seqs) // 3]})
        run.sample({"stream": "vmap", "history": seqs[-1]})
    return run.finish(
        trusted=["Lean 4.33 kernel", "axioms: propext, Classical.choice, Quot.sound", "Go harness + hook VerifValueMapShape + Lean driver",
                 "data races in the Go-memory-model sense and full linearizability are outside the sequential theorems"],
        rule="every operation sequence of length 4 (thorough 5) over {Load,Store,LoadOrStore,LoadAndDelete}x{a,b}+{Clear,Range,Length} "
             "(each line checks all its prefixes), plus random histories of length 6..30 over 3 keys; non-trivial = the history "
             "reaches an expunged entry; fresh value per store so stale reads are visible",
        assumptions=["sequential histories only in the theorems; concurrent behaviour validated, not proved"])
