/-
  Statement lists with conditionals: `if c { A } else { B }` compiles to  C ; block.push ; jne |A|+1 ; A ; jmp |B| ; B ; block.pop
  and run by the dispatch loop it does what the definitional semantics `evalSts` says — the branch chosen by the condition's truth
  value, the statement's own value null (the empty string inside a template hole), the operand stack cut back to the height the
  block was entered with — for every nesting of conditionals.
-/
import DS.Proofs.FragStmts

namespace DS.Frag
open DS.VM

theorem step_blockPush (fuel : Nat) (g : G) (f : Frame) (hpc : f.pc < f.code.size) (hi : f.code[f.pc]! = .blockPush)
    (hl : g.cfg.opLimit = 0) (ht : f.top < stackSize) (hb : f.blocks.length < 20) :
    evalLoop (fuel + 1) g f = evalLoop fuel (addOps g f.ctx 1) { f with pc := f.pc + 1, blocks := f.top :: f.blocks } := by
  rw [evalLoop_dispatch fuel g f hpc hl ht, hi]
  have : ¬ (f.blocks.length ≥ 20) := by omega
  simp [exec, this]

/-- what an `if` statement leaves as its value -/
def blockVal (f : Frame) : Val := if f.fblocks.length > 0 then .str "" else .null

theorem step_blockPop (fuel : Nat) (g : G) (f : Frame) (t : Nat) (rest : List Nat) (hpc : f.pc < f.code.size) (hi : f.code[f.pc]! = .blockPop)
    (hl : g.cfg.opLimit = 0) (ht : f.top < stackSize) (hs : f.stack.size = stackSize) (hb : f.blocks = t :: rest) (htt : t < stackSize) :
    evalLoop (fuel + 1) g f =
      evalLoop fuel (addOps g f.ctx 1) { f with pc := f.pc + 1, top := t + 1, blocks := rest, stack := f.stack.set! t (blockVal f) } := by
  rw [evalLoop_dispatch fuel g f hpc hl ht, hi]
  have : t < f.stack.size := by omega
  simp only [exec, hb, Frame.push, this, if_true, blockVal]

/-- after a statement list: `slotsSts` more slots, the last statement's value (if any) on top, blocks as before -/
structure AfterSts (f f' : Frame) (pc' : Nat) (n : Nat) (ov : Option Val) : Prop where
  code : f'.code = f.code
  ctx : f'.ctx = f.ctx
  pc : f'.pc = pc'
  top : f'.top = f.top + n
  val : ∀ v, ov = some v → f'.stack[f'.top - 1]! = v
  size : f'.stack.size = f.stack.size
  blocks : f'.blocks = f.blocks
  fblocks : f'.fblocks = f.fblocks

theorem Runs.refl (g : G) (f : Frame) : Runs 0 g f g f := fun _ => rfl

theorem slots_le_depth : ∀ ss : Sts, slotsSts ss ≤ depthSts ss := by
  intro ss
  induction ss with
  | nil => simp [slotsSts, depthSts]
  | expr x rest ih => simp only [slotsSts, depthSts]; omega
  | ite c a b rest _ _ ih => simp only [slotsSts, depthSts]; omega

theorem run_sts (z : Bool) (env : Nat) (nv : Val) : ∀ (ss : Sts) (last : Option Val) (g : G) (f : Frame), CodeAt f.code f.pc (compileSts ss) → Ready z g f →
    ctxAttrs g f.ctx = env → blockVal f = nv → f.top + depthSts ss < stackSize → f.blocks.length + nestSts ss ≤ 20 →
    (∀ v, last = some v → f.stack[f.top - 1]! = v) →
    (match evalStsA z env nv last g.heap ss with
     | (h', .ok ov) => ∃ k g' f', Runs k g f g' f' ∧ AfterSts f f' (f.pc + (compileSts ss).length) (slotsSts ss) ov ∧ g'.cfg = g.cfg ∧ g'.heap = h' ∧
         (∀ c, ctxAttrs g' c = ctxAttrs g c)
     | (h', .err m) => ∃ k g', Fails k g f g' m ∧ g'.heap = h'
     | _ => True) := by
  intro ss
  induction ss with
  | nil =>
    intro last g f hc hr henv hnv hroom hnest hlast
    simp only [evalStsA, compileSts, slotsSts, List.length_nil, Nat.add_zero]
    exact ⟨0, g, f, Runs.refl g f, ⟨rfl, rfl, rfl, rfl, hlast, rfl, rfl, rfl⟩, rfl, rfl, fun _ => rfl⟩
  | expr x rest ih =>
    intro last g f hc hr henv hnv hroom hnest hlast
    simp only [compileSts, depthSts, nestSts] at hc hroom hnest
    have hcx : CodeAt f.code f.pc (compile x) := hc.append_left
    have hcr := hc.append_right
    have h1 := run_compile z env x g f hcx hr henv (by omega)
    simp only [evalStsA]
    cases hev : evalF z env g.heap x with
    | mk h1' res =>
      rw [hev] at h1
      cases res with
      | ok v1 =>
        obtain ⟨k1, g1, f1, hrun1, haft1, hcfg1, hheap1, hctx1⟩ := h1
        have hr1 : Ready z g1 f1 := ⟨by rw [hcfg1]; exact hr.nolimit, by rw [hcfg1]; exact hr.div0, by rw [haft1.size]; exact hr.size⟩
        have hnv1 : blockVal f1 = nv := by simp only [blockVal, haft1.fblocks]; exact hnv
        have hl1 : ∀ v, some v1 = some v → f1.stack[f1.top - 1]! = v := by
          intro v hv; cases hv
          have : f1.top - 1 = f.top := by rw [haft1.top]; omega
          rw [this, haft1.val]
        have h2 := ih (some v1) g1 f1 (by rw [haft1.code, haft1.pc]; exact hcr) hr1 (by rw [hctx1, haft1.ctx]; exact henv) hnv1
          (by rw [haft1.top]; omega) (by rw [haft1.blocks]; exact hnest) hl1
        rw [hheap1] at h2
        simp only
        cases hes : evalStsA z env nv (some v1) h1' rest with
        | mk h2' res2 =>
          rw [hes] at h2
          cases res2 with
          | ok ov =>
            obtain ⟨k2, g2, f2, hrun2, haft2, hcfg2, hheap2, hctx2⟩ := h2
            refine ⟨k2 + k1, g2, f2, hrun1.trans hrun2, ?_, by rw [hcfg2, hcfg1], hheap2, fun c => by rw [hctx2, hctx1]⟩
            refine ⟨by rw [haft2.code, haft1.code], by rw [haft2.ctx, haft1.ctx], ?_, ?_, haft2.val,
              by rw [haft2.size, haft1.size], by rw [haft2.blocks, haft1.blocks], by rw [haft2.fblocks, haft1.fblocks]⟩
            · rw [haft2.pc, haft1.pc]; simp only [compileSts, List.length_append]; omega
            · rw [haft2.top, haft1.top]; simp only [slotsSts]; omega
          | err m =>
            obtain ⟨k2, g2, hf2, hheap2⟩ := h2
            exact ⟨k2 + k1, g2, hrun1.fails hf2, hheap2⟩
          | panic _ => trivial
          | unsup _ => trivial
          | diverge => trivial
      | err m =>
        obtain ⟨k1, g1, hf1, hheap1⟩ := h1
        exact ⟨k1, g1, hf1, hheap1⟩
      | panic _ => trivial
      | unsup _ => trivial
      | diverge => trivial
  | ite c a b rest iha ihb ihr =>
    intro last g f hc hr henv hnv hroom hnest hlast
    simp only [compileSts, depthSts, nestSts] at hc hroom hnest
    -- code layout: C ++ [block.push, jne |A|+1] ++ A ++ [jmp |B|] ++ B ++ [block.pop] ++ R
    have hcR := hc.append_right
    have h5 := hc.append_left
    have hcPop := h5.append_right
    have h4 := h5.append_left
    have hcB := h4.append_right
    have h3 := h4.append_left
    have hcJmp := h3.append_right
    have h2 := h3.append_left
    have hcA := h2.append_right
    have h1 := h2.append_left
    have hcBJ := h1.append_right
    have hcC : CodeAt f.code f.pc (compile c) := h1.append_left
    simp only [List.length_append, List.length_cons, List.length_nil] at hcR hcPop hcB hcJmp hcA hcBJ
    have hcv := run_compile z env c g f hcC hr henv (by omega)
    simp only [evalStsA]
    cases hec : evalF z env g.heap c with
    | mk h1' rc =>
      rw [hec] at hcv
      cases rc with
      | ok vc =>
        obtain ⟨k1, g1, f1, hrun1, haft1, hcfg1, hheap1, hctx1⟩ := hcv
        have hs1 : f1.stack.size = stackSize := by rw [haft1.size]; exact hr.size
        have hl1 : g1.cfg.opLimit = 0 := by rw [hcfg1]; exact hr.nolimit
        have hdc := depth_pos c
        -- block.push
        obtain ⟨hpcP, hP⟩ := hcBJ.head
        have hpcP' : f1.pc < f1.code.size := by rw [haft1.code, haft1.pc]; exact hpcP
        have hP' : f1.code[f1.pc]! = .blockPush := by rw [haft1.code, haft1.pc]; exact hP
        have hstepP := fun fuel => step_blockPush fuel g1 f1 hpcP' hP' hl1 (by rw [haft1.top]; omega) (by rw [haft1.blocks]; omega)
        let f2 : Frame := { f1 with pc := f1.pc + 1, blocks := f1.top :: f1.blocks }
        let g2 : G := addOps g1 f1.ctx 1
        -- jne
        have hJ := hcBJ.2 1 (by simp)
        have hpcJ' : f2.pc < f2.code.size := by
          show f1.pc + 1 < f1.code.size
          rw [haft1.code, haft1.pc]; have := hcBJ.1; simp at this; omega
        have hJ' : f2.code[f2.pc]! = .jne (some (((compileSts a).length + 1 : Nat) : Int)) := by
          show f1.code[f1.pc + 1]! = _
          rw [haft1.code, haft1.pc]; simpa using hJ
        have hl2 : g2.cfg.opLimit = 0 := hl1
        have hstepJ := fun fuel => step_jne fuel g2 f2 ((compileSts a).length + 1) hpcJ' hJ' hl2 (by show f1.top < stackSize; rw [haft1.top]; omega)
          (by show 1 ≤ f1.top; rw [haft1.top]; omega)
        have hvc : f2.stack[f2.top - 1]! = vc := by
          show f1.stack[f1.top - 1]! = vc
          have : f1.top - 1 = f.top := by rw [haft1.top]; omega
          rw [this, haft1.val]
        have hsl_a := slots_le_depth a
        have hsl_b := slots_le_depth b
        simp only
        rw [← hheap1]
        -- the common tail: from the frame after a branch (jmp done in the A case), block.pop and the rest
        have tail : ∀ (kb : Nat) (gb : G) (fb : Frame), Runs kb g f gb fb → fb.code = f.code → fb.ctx = f.ctx →
            fb.pc = f.pc + (compile c).length + 2 + (compileSts a).length + 1 + (compileSts b).length →
            fb.top < stackSize → fb.stack.size = stackSize → fb.blocks = (f.top + 1) :: f.blocks → fb.fblocks = f.fblocks →
            gb.cfg = g.cfg → (∀ cc, ctxAttrs gb cc = ctxAttrs g cc) →
            (match evalStsA z env nv (some nv) gb.heap rest with
             | (h', .ok ov) => ∃ k g' f', Runs k g f g' f' ∧
                 AfterSts f f' (f.pc + ((compile c).length + (1 + 1) + (compileSts a).length + 1 + (compileSts b).length + 1 + (compileSts rest).length))
                   (2 + slotsSts rest) ov ∧ g'.cfg = g.cfg ∧ g'.heap = h' ∧ (∀ c, ctxAttrs g' c = ctxAttrs g c)
             | (h', .err m) => ∃ k g', Fails k g f g' m ∧ g'.heap = h'
             | _ => True) := by
          intro kb gb fb hrunb hcodeb hctxb hpcb htopb hsizeb hblocksb hfblocksb hcfgb hctxab
          obtain ⟨hpcQ, hQ⟩ := hcPop.head
          have hpcQ' : fb.pc < fb.code.size := by rw [hcodeb, hpcb]; have := hpcQ; omega
          have hQ' : fb.code[fb.pc]! = .blockPop := by
            rw [hcodeb, hpcb]
            have e : f.pc + (compile c).length + 2 + (compileSts a).length + 1 + (compileSts b).length =
              f.pc + ((compile c).length + (1 + 1) + (compileSts a).length + 1 + (compileSts b).length) := by omega
            rw [e]; exact hQ
          have hlb : gb.cfg.opLimit = 0 := by rw [hcfgb]; exact hr.nolimit
          have hstepQ := fun fuel => step_blockPop fuel gb fb (f.top + 1) f.blocks hpcQ' hQ' hlb htopb hsizeb hblocksb (by omega)
          let f6 : Frame := { fb with pc := fb.pc + 1, top := f.top + 1 + 1, blocks := f.blocks, stack := fb.stack.set! (f.top + 1) (blockVal fb) }
          let g6 : G := addOps gb fb.ctx 1
          have hbv : blockVal fb = nv := by simp only [blockVal, hfblocksb]; exact hnv
          have hr6 : Ready z g6 f6 := ⟨hlb, by show gb.cfg.ignoreDiv0 = z; rw [hcfgb]; exact hr.div0, by show (fb.stack.set! _ _).size = _; rw [set_size]; exact hsizeb⟩
          have hl6 : ∀ v, some nv = some v → f6.stack[f6.top - 1]! = v := by
            intro v hv; cases hv
            show (fb.stack.set! (f.top + 1) (blockVal fb))[f.top + 1 + 1 - 1]! = nv
            have : f.top + 1 + 1 - 1 = f.top + 1 := by omega
            rw [this, set_get_same _ _ _ (by rw [hsizeb]; omega), hbv]
          have h6 := ihr (some nv) g6 f6
            (by show CodeAt fb.code (fb.pc + 1) _; rw [hcodeb, hpcb]
                have e : f.pc + (compile c).length + 2 + (compileSts a).length + 1 + (compileSts b).length + 1 =
                  f.pc + ((compile c).length + (1 + 1) + (compileSts a).length + 1 + (compileSts b).length + 1) := by omega
                rw [e]; exact hcR)
            hr6 (by show ctxAttrs (addOps gb fb.ctx 1) fb.ctx = env; rw [ctxAttrs_addOps, hctxab, hctxb]; exact henv)
            (by show blockVal f6 = nv; simp only [blockVal, f6, hfblocksb]; exact hnv)
            (by show f.top + 1 + 1 + depthSts rest < stackSize; omega) (by show f.blocks.length + nestSts rest ≤ 20; omega) hl6
          have hh6 : g6.heap = gb.heap := rfl
          rw [hh6] at h6
          cases hes : evalStsA z env nv (some nv) gb.heap rest with
          | mk h2' res2 =>
            rw [hes] at h6
            cases res2 with
            | ok ov =>
              obtain ⟨k7, g7, f7, hrun7, haft7, hcfg7, hheap7, hctx7⟩ := h6
              have hrunQ : Runs 1 gb fb g6 f6 := fun fuel => hstepQ fuel
              refine ⟨k7 + (1 + kb), g7, f7, (hrunb.trans hrunQ).trans hrun7, ?_, by rw [hcfg7]; exact hcfgb, hheap7,
                fun cc => by rw [hctx7]; show ctxAttrs (addOps gb fb.ctx 1) cc = _; rw [ctxAttrs_addOps, hctxab]⟩
              refine ⟨by rw [haft7.code]; exact hcodeb, by rw [haft7.ctx]; exact hctxb, ?_, ?_, haft7.val, by rw [haft7.size]; show (fb.stack.set! _ _).size = _; rw [set_size, hsizeb]; exact hr.size.symm,
                haft7.blocks, by rw [haft7.fblocks]; exact hfblocksb⟩
              · rw [haft7.pc]; show fb.pc + 1 + _ = _; rw [hpcb]; omega
              · rw [haft7.top]; show f.top + 1 + 1 + _ = _; omega
            | err m =>
              obtain ⟨k7, g7, hf7, hheap7⟩ := h6
              have hrunQ : Runs 1 gb fb g6 f6 := fun fuel => hstepQ fuel
              exact ⟨k7 + (1 + kb), g7, (hrunb.trans hrunQ).fails hf7, hheap7⟩
            | panic _ => trivial
            | unsup _ => trivial
            | diverge => trivial
        cases hcond : asBool g1.heap vc with
        | true =>
          simp only [if_true]
          let fA : Frame := { f2 with pc := f2.pc + 1, top := f2.top - 1, lastPop := .slot (f2.top - 1) }
          let g3 : G := addOps g2 f2.ctx 1
          have hrunPJ : Runs (1 + 1) g1 f1 g3 fA := by
            intro fuel
            rw [← Nat.add_assoc, hstepP (fuel + 1), hstepJ fuel, hvc]
            have : asBool g2.heap vc = true := hcond
            simp only [this, if_true]; rfl
          have hAt : fA.top = f.top := by show f1.top - 1 = f.top; rw [haft1.top]; omega
          have hrA : Ready z g3 fA := ⟨hl1, by show g1.cfg.ignoreDiv0 = z; rw [hcfg1]; exact hr.div0, hs1⟩
          have hAv := iha none g3 fA
            (by show CodeAt f1.code (f1.pc + 1 + 1) _; rw [haft1.code, haft1.pc]
                have e : f.pc + (compile c).length + 1 + 1 = f.pc + ((compile c).length + (1 + 1)) := by omega
                rw [e]; exact hcA)
            hrA (by show ctxAttrs (addOps (addOps g1 f1.ctx 1) f1.ctx 1) f1.ctx = env; rw [ctxAttrs_addOps, ctxAttrs_addOps, hctx1, haft1.ctx]; exact henv)
            (by show blockVal fA = nv; simp only [blockVal, fA, f2, haft1.fblocks]; exact hnv)
            (by rw [hAt]; omega) (by show (f1.top :: f1.blocks).length + nestSts a ≤ 20; rw [haft1.blocks]; simp only [List.length_cons]; omega)
            (by intro v hv; cases hv)
          have hh3 : g3.heap = g1.heap := rfl
          rw [hh3] at hAv
          cases hea : evalStsA z env nv none g1.heap a with
          | mk h2' ra =>
            rw [hea] at hAv
            cases ra with
            | ok ova =>
              obtain ⟨k4, g4, f4, hrun4, haft4, hcfg4, hheap4, hctx4⟩ := hAv
              simp only
              -- jmp over B
              obtain ⟨hpcM, hM⟩ := hcJmp.head
              have hpc4 : f4.pc = f.pc + (compile c).length + 2 + (compileSts a).length := by
                rw [haft4.pc]; show f1.pc + 1 + 1 + _ = _; rw [haft1.pc]
              have hcode4 : f4.code = f.code := by rw [haft4.code]; exact haft1.code
              have hpcM' : f4.pc < f4.code.size := by rw [hcode4, hpc4]; have := hpcM; omega
              have hM' : f4.code[f4.pc]! = .jmp (some (((compileSts b).length : Nat) : Int)) := by
                rw [hcode4, hpc4]
                have e : f.pc + (compile c).length + 2 + (compileSts a).length = f.pc + ((compile c).length + (1 + 1) + (compileSts a).length) := by omega
                rw [e]; exact hM
              have hl4 : g4.cfg.opLimit = 0 := by rw [hcfg4]; exact hl1
              have htop4 : f4.top = f.top + slotsSts a := by rw [haft4.top, hAt]
              have hstepM := fun fuel => step_jmp fuel g4 f4 (compileSts b).length hpcM' hM' hl4 (by rw [htop4]; omega)
              have hrunM : Runs 1 g4 f4 (addOps g4 f4.ctx 1) { f4 with pc := f4.pc + 1 + (compileSts b).length } := fun fuel => hstepM fuel
              have := tail (1 + (k4 + ((1 + 1) + k1))) (addOps g4 f4.ctx 1) { f4 with pc := f4.pc + 1 + (compileSts b).length }
                (((hrun1.trans hrunPJ).trans hrun4).trans hrunM) hcode4 (by show f4.ctx = f.ctx; rw [haft4.ctx]; exact haft1.ctx)
                (by show f4.pc + 1 + _ = _; rw [hpc4]) (by show f4.top < stackSize; rw [htop4]; omega)
                (by show f4.stack.size = stackSize; rw [haft4.size]; exact hs1)
                (by show f4.blocks = _; rw [haft4.blocks]; show f1.top :: f1.blocks = _; rw [haft1.top, haft1.blocks])
                (by show f4.fblocks = _; rw [haft4.fblocks]; exact haft1.fblocks)
                (by show g4.cfg = g.cfg; rw [hcfg4]; exact hcfg1)
                (by intro cc; show ctxAttrs (addOps g4 f4.ctx 1) cc = _; rw [ctxAttrs_addOps, hctx4]; show ctxAttrs (addOps (addOps g1 f1.ctx 1) f1.ctx 1) cc = _
                    rw [ctxAttrs_addOps, ctxAttrs_addOps, hctx1])
              have hh : (addOps g4 f4.ctx 1).heap = h2' := hheap4
              rw [hh] at this
              simpa only [compileSts, slotsSts, List.length_append, List.length_cons, List.length_nil] using this
            | err m =>
              obtain ⟨k4, g4, hf4, hheap4⟩ := hAv
              exact ⟨k4 + ((1 + 1) + k1), g4, (hrun1.trans hrunPJ).fails hf4, hheap4⟩
            | panic _ => trivial
            | unsup _ => trivial
            | diverge => trivial
        | false =>
          simp only [Bool.false_eq_true, if_false]
          let fB : Frame := { f2 with pc := f2.pc + 1 + ((compileSts a).length + 1), top := f2.top - 1, lastPop := .slot (f2.top - 1) }
          let g3 : G := addOps g2 f2.ctx 1
          have hrunPJ : Runs (1 + 1) g1 f1 g3 fB := by
            intro fuel
            rw [← Nat.add_assoc, hstepP (fuel + 1), hstepJ fuel, hvc]
            have : asBool g2.heap vc = false := hcond
            simp only [this, Bool.false_eq_true, if_false]; rfl
          have hBt : fB.top = f.top := by show f1.top - 1 = f.top; rw [haft1.top]; omega
          have hrB : Ready z g3 fB := ⟨hl1, by show g1.cfg.ignoreDiv0 = z; rw [hcfg1]; exact hr.div0, hs1⟩
          have hBv := ihb none g3 fB
            (by show CodeAt f1.code (f1.pc + 1 + 1 + ((compileSts a).length + 1)) _; rw [haft1.code, haft1.pc]
                have e : f.pc + (compile c).length + 1 + 1 + ((compileSts a).length + 1) = f.pc + ((compile c).length + (1 + 1) + (compileSts a).length + 1) := by omega
                rw [e]; exact hcB)
            hrB (by show ctxAttrs (addOps (addOps g1 f1.ctx 1) f1.ctx 1) f1.ctx = env; rw [ctxAttrs_addOps, ctxAttrs_addOps, hctx1, haft1.ctx]; exact henv)
            (by show blockVal fB = nv; simp only [blockVal, fB, f2, haft1.fblocks]; exact hnv)
            (by rw [hBt]; omega) (by show (f1.top :: f1.blocks).length + nestSts b ≤ 20; rw [haft1.blocks]; simp only [List.length_cons]; omega)
            (by intro v hv; cases hv)
          have hh3 : g3.heap = g1.heap := rfl
          rw [hh3] at hBv
          cases heb : evalStsA z env nv none g1.heap b with
          | mk h2' rb =>
            rw [heb] at hBv
            cases rb with
            | ok ovb =>
              obtain ⟨k4, g4, f4, hrun4, haft4, hcfg4, hheap4, hctx4⟩ := hBv
              simp only
              have hpc4 : f4.pc = f.pc + (compile c).length + 2 + (compileSts a).length + 1 + (compileSts b).length := by
                rw [haft4.pc]; show f1.pc + 1 + 1 + ((compileSts a).length + 1) + _ = _; rw [haft1.pc]; omega
              have hcode4 : f4.code = f.code := by rw [haft4.code]; exact haft1.code
              have htop4 : f4.top = f.top + slotsSts b := by rw [haft4.top, hBt]
              have := tail (k4 + ((1 + 1) + k1)) g4 f4 ((hrun1.trans hrunPJ).trans hrun4) hcode4 (by rw [haft4.ctx]; exact haft1.ctx)
                hpc4 (by rw [htop4]; omega) (by rw [haft4.size]; exact hs1)
                (by rw [haft4.blocks]; show f1.top :: f1.blocks = _; rw [haft1.top, haft1.blocks])
                (by rw [haft4.fblocks]; exact haft1.fblocks) (by rw [hcfg4]; exact hcfg1)
                (by intro cc; rw [hctx4]; show ctxAttrs (addOps (addOps g1 f1.ctx 1) f1.ctx 1) cc = _; rw [ctxAttrs_addOps, ctxAttrs_addOps, hctx1])
              rw [hheap4] at this
              simpa only [compileSts, slotsSts, List.length_append, List.length_cons, List.length_nil] using this
            | err m =>
              obtain ⟨k4, g4, hf4, hheap4⟩ := hBv
              exact ⟨k4 + ((1 + 1) + k1), g4, (hrun1.trans hrunPJ).fails hf4, hheap4⟩
            | panic _ => trivial
            | unsup _ => trivial
            | diverge => trivial
      | err m =>
        obtain ⟨k1, g1, hf1, hheap1⟩ := hcv
        exact ⟨k1, g1, hf1, hheap1⟩
      | panic _ => trivial
      | unsup _ => trivial
      | diverge => trivial

end DS.Frag
