/-
  Model of roll_func.go over an explicit word stream (`List Nat`, each word < 2^64).
  Every function returns `none` when the word list is exhausted, otherwise the result and the
  unconsumed words.  Integers are Go `int` (64 bit): `Int` with `wrap64` applied where Go wraps.
-/
import DS.Model.Rng

namespace DS.Roll
open DS.Rng (two64)

def maxInt64 : Int := 9223372036854775807
def two63 : Int := 9223372036854775808

/-- two's complement wrap to int64 -/
def wrap64 (i : Int) : Int := (i + two63) % (two64 : Int) - two63

/-- `uint64(x)` for an int64 `x` -/
def toU64 (i : Int) : Nat := (i % (two64 : Int)).toNat

/-- `n&(n-1) == 0` on uint64 (true for 0 as well) -/
def isPow2 (n : Nat) : Bool := n &&& ((n + two64 - 1) % two64) == 0

/-- `math.MaxUint64 - math.MaxUint64 % n` -/
def ceiling (n : Nat) : Nat := (two64 - 1) - (two64 - 1) % n

/-- the rejection loop `for v >= ceiling { v = src.Uint64() }` -/
def rejectLoop (c : Nat) : Nat → List Nat → Option (Nat × List Nat)
  | v, [] => if v < c then some (v, []) else none
  | v, w :: ws' => if v < c then some (v, w :: ws') else rejectLoop c w ws'

/-- `_roll64`, `n = uint64(dicePoints)`, `n ≠ 0` -/
def roll64 (n : Nat) : List Nat → Option (Nat × List Nat)
  | [] => none
  | v :: ws =>
    if isPow2 n then some ((v &&& ((n + two64 - 1) % two64)) + 1, ws)
    else if v > (two64 - 1) - n then
      match rejectLoop (ceiling n) v ws with
      | none => none
      | some (v', ws') => some (v' % n + 1, ws')
    else some (v % n + 1, ws)

/-- `Roll(src, dicePoints, mod)` with a non-nil source -/
def roll (dicePoints : Int) (mode : Int) (ws : List Nat) : Option (Int × List Nat) :=
  if dicePoints == 0 then some (0, ws)
  else if mode == -1 then some (1, ws)
  else if mode == 1 then some (dicePoints, ws)
  else match roll64 (toU64 dicePoints) ws with
    | none => none
    | some (r, ws') => some (wrap64 (r : Int), ws')

def clampDie (dmin dmax : Option Int) (die : Int) : Int :=
  let die := match dmax with | some m => if die > m then m else die | none => die
  match dmin with | some m => if die < m then m else die | none => die

/-- the dice loop of RollCommon: `times` clamped dice, in roll order -/
def rollDice (sides : Int) (dmin dmax : Option Int) (mode : Int) : Nat → List Nat → Option (List Int × List Nat)
  | 0, ws => some ([], ws)
  | k+1, ws =>
    match roll sides mode ws with
    | none => none
    | some (d, ws') =>
      match rollDice sides dmin dmax mode k ws' with
      | none => none
      | some (ds, ws'') => some (clampDie dmin dmax d :: ds, ws'')

def sortAsc (l : List Int) : List Int := l.mergeSort (fun a b => a ≤ b)
def sortDesc (l : List Int) : List Int := l.mergeSort (fun a b => a ≥ b)

def pickNum (times keepLH lowNum highNum : Int) : Int :=
  if keepLH == 0 then times else
  let p := if keepLH == 1 || keepLH == 3 then lowNum
           else if keepLH == 2 || keepLH == 4 then highNum else times
  let p := if keepLH > 2 then wrap64 (times - p) else p
  let p := if p < 0 then 0 else p
  if p > times then times else p

def sortFor (keepLH : Int) (nums : List Int) : List Int :=
  if keepLH == 0 then nums
  else if keepLH == 1 || keepLH == 4 then sortAsc nums else sortDesc nums

def sumWrap (l : List Int) : Int := l.foldl (fun a b => wrap64 (a + b)) 0

def joinWith (sep : String) : List String → String
  | [] => ""
  | [x] => x
  | x :: xs => x ++ sep ++ joinWith sep xs

def commonItems (pick : Int) : List Int → Int → List String
  | [], _ => []
  | x :: xs, i => (if i == pick then "| " ++ toString x else toString x) :: commonItems pick xs (i + 1)

def commonText (nums : List Int) (pick times : Int) : String :=
  if pick == times then joinWith "+" (nums.map toString)
  else "{" ++ joinWith " " (commonItems pick nums 0) ++ "}"

structure CommonResult where
  num : Int
  text : String
  nums : List Int   -- sorted dice, for the theorems
  pick : Int
  deriving Repr

/-- RollCommon -/
def rollCommon (times sides : Int) (dmin dmax : Option Int) (keepLH lowNum highNum : Int) (mode : Int)
    (ws : List Nat) : Option (CommonResult × List Nat) :=
  match rollDice sides dmin dmax mode times.toNat ws with
  | none => none
  | some (raw, ws') =>
    let nums := sortFor keepLH raw
    let pick := pickNum times keepLH lowNum highNum
    let num := sumWrap (nums.take pick.toNat)
    some ({ num := num, text := commonText nums pick times, nums := nums, pick := pick }, ws')

/-- the face a bonus / penalty die takes: in min mode its lowest face, the digit 0 (rolled as 10) -/
def cocFace (mode n : Int) : Int := if mode == -1 then 10 else n

/-- the tens-dice loop of RollCoC: returns (shown texts, min, max, num10Exists) -/
def cocLoop (mode : Int) : Nat → Int → Int → Bool → List Nat → Option ((List String × Int × Int × Bool) × List Nat)
  | 0, mn, mx, e, ws => some (([], mn, mx, e), ws)
  | k+1, mn, mx, e, ws =>
    match roll 10 mode ws with
    | none => none
    | some (n0, ws') =>
      let n := cocFace mode n0
      if n == 10 then
        match cocLoop mode k mn mx true ws' with
        | none => none
        | some ((ts, mn', mx', e'), ws'') => some (("0" :: ts, mn', mx', e'), ws'')
      else
        let mn1 := if n < mn then n else mn
        let mx1 := if n > mx then n else mx
        match cocLoop mode k mn1 mx1 e ws' with
        | none => none
        | some ((ts, mn', mx', e'), ws'') => some ((toString n :: ts, mn', mx', e'), ws'')

/-- RollCoC -/
def rollCoC (isBonus : Bool) (diceNum : Int) (mode : Int) (ws : List Nat) : Option ((Int × String) × List Nat) :=
  match roll 100 mode ws with
  | none => none
  | some (d100, ws1) =>
    let tens := Int.tdiv d100 10
    let units := Int.tmod d100 10
    match cocLoop mode diceNum.toNat tens tens false ws1 with
    | none => none
    | some ((ts, mn, mx, e), ws2) =>
      if isBonus then
        let mn := if units != 0 && e then 0 else mn
        some ((mn * 10 + units, "(D100=" ++ toString d100 ++ ",奖励" ++ joinWith " " ts ++ ")"), ws2)
      else
        let mx := if units == 0 && e then 10 else mx
        some ((mx * 10 + units, "(D100=" ++ toString d100 ++ ",惩罚" ++ joinWith " " ts ++ ")"), ws2)

def fateLoop (mode : Int) : Nat → List Nat → Option ((Int × String) × List Nat)
  | 0, ws => some ((0, ""), ws)
  | k+1, ws =>
    match roll 3 mode ws with
    | none => none
    | some (r, ws') =>
      let n := r - 2
      let ch := if n == -1 then "-" else if n == 0 then "0" else if n == 1 then "+" else ""
      match fateLoop mode k ws' with
      | none => none
      | some ((s, d), ws'') => some ((n + s, ch ++ d), ws'')

/-- RollFate -/
def rollFate (mode : Int) (ws : List Nat) : Option ((Int × String) × List Nat) := fateLoop mode 4 ws

/-- one WoD round: `pool` dice; returns (successes, addCount, shown dice) -/
def wodRound (addLine points threshold : Int) (isGE : Bool) (mode : Int) :
    Nat → List Nat → Option ((Int × Int × List String) × List Nat)
  | 0, ws => some ((0, 0, []), ws)
  | k+1, ws =>
    match roll points mode ws with
    | none => none
    | some (one, ws') =>
      let reachAdd := addLine != 0 && one ≥ addLine
      let reachSucc := if isGE then one ≥ threshold else one ≤ threshold
      let t := toString one
      let t := if reachSucc then t ++ "*" else t
      let t := if reachAdd then "<" ++ t ++ ">" else t
      match wodRound addLine points threshold isGE mode k ws' with
      | none => none
      | some ((s, a, ts), ws'') =>
        some (((if reachSucc then 1 else 0) + s, (if reachAdd then 1 else 0) + a, t :: ts), ws'')

structure PoolResult where
  value : Int        -- successes (WoD) / result (DC)
  allRoll : Int
  rounds : Int
  text : String
  charged : Int := 0      -- dice charged to the operation counter (one charge per round, before the round is rolled)
  over : Bool := false    -- the budget ran out at the start of a round: the roll was aborted, the other fields are void
  deriving Repr

/-- result of a round loop: `none` = word list exhausted, `some none` = fuel exhausted (Go would still be looping) -/
abbrev LoopOut (α : Type) := Option (Option (α × List Nat))

/-- the round loop of RollWoD. `fuel` bounds the number of rounds. -/
def wodLoop (addLine points threshold : Int) (isGE : Bool) (mode : Int) (budget : Option Int) :
    Nat → Int → Int → Int → Int → Int → Bool → List String → List Nat →
    LoopOut (Int × Int × Int × List String × Int × Bool)
  | 0, _, _, _, _, _, _, _, _ => some none
  | fuel+1, charged, pool, succ, allRoll, addTimes, show_, details, ws =>
    let charged := charged + pool
    if (match budget with | some b => decide (charged > b) | none => false) then some (some ((0, 0, 0, [], charged, true), ws)) else
    match wodRound addLine points threshold isGE mode pool.toNat ws with
    | none => none
    | some ((s, a, ts), ws') =>
      let succ := succ + s
      let allRoll := wrap64 (allRoll + a)
      let (addTimes', pool') := if a > 0 then (addTimes + 1, a) else (addTimes, pool)
      let (show', details) := if allRoll > 100 then (false, []) else (show_, details)
      let details := if show' then details ++ ["{" ++ joinWith "," ts ++ "}"] else details
      if a > 0 then wodLoop addLine points threshold isGE mode budget fuel charged pool' succ allRoll addTimes' show' details ws'
      else some (some ((succ, allRoll, addTimes', details, charged, false), ws'))

/-- RollWoD -/
def rollWoD (fuel : Nat) (addLine pool points threshold : Int) (isGE : Bool) (mode : Int) (ws : List Nat)
    (budget : Option Int := none) : LoopOut PoolResult :=
  match wodLoop addLine points threshold isGE mode budget fuel 0 pool 0 pool 1 (pool < 15) [] ws with
  | none => none
  | some none => some none
  | some (some ((_, _, _, _, charged, true), ws')) => some (some ({ value := 0, allRoll := 0, rounds := 0, text := "", charged := charged, over := true }, ws'))
  | some (some ((succ, allRoll, addTimes, details, charged, false), ws')) =>
    let roundsText := if addTimes > 1 then " 轮数:" ++ toString addTimes else ""
    let detailText := if details.length > 0 then " " ++ joinWith "," details else ""
    some (some ({ value := succ, allRoll := allRoll, rounds := addTimes, charged := charged,
                  text := "成功" ++ toString succ ++ "/" ++ toString allRoll ++ roundsText ++ detailText }, ws'))

/-- one Double Cross round: returns (highest die, addCount, shown dice) -/
def dcRound (addLine points : Int) (mode : Int) :
    Nat → Int → List Nat → Option ((Int × Int × List String) × List Nat)
  | 0, mx, ws => some ((mx, 0, []), ws)
  | k+1, mx, ws =>
    match roll points mode ws with
    | none => none
    | some (one, ws') =>
      let mx1 := if one > mx then one else mx
      let reachAdd := one ≥ addLine
      let t := toString one
      let t := if reachAdd then "<" ++ t ++ ">" else t
      match dcRound addLine points mode k mx1 ws' with
      | none => none
      | some ((m, a, ts), ws'') => some ((m, (if reachAdd then 1 else 0) + a, t :: ts), ws'')

def dcLoop (addLine points : Int) (mode : Int) (budget : Option Int) :
    Nat → Int → Int → Int → Int → Int → Bool → List String → List Nat →
    LoopOut (Int × Int × Int × List String × Int × Bool)
  | 0, _, _, _, _, _, _, _, _ => some none
  | fuel+1, charged, pool, result, allRoll, addTimes, show_, details, ws =>
    let charged := charged + pool
    if (match budget with | some b => decide (charged > b) | none => false) then some (some ((0, 0, 0, [], charged, true), ws)) else
    match dcRound addLine points mode pool.toNat 0 ws with
    | none => none
    | some ((mx, a, ts), ws') =>
      let mx := if a > 0 then 10 else mx
      let result := wrap64 (result + mx)
      let allRoll := wrap64 (allRoll + a)
      let (addTimes', pool') := if a > 0 then (addTimes + 1, a) else (addTimes, pool)
      let (show', details) := if allRoll > 100 then (false, []) else (show_, details)
      let details := if show' then details ++ ["{" ++ joinWith "," ts ++ "}"] else details
      if a > 0 then dcLoop addLine points mode budget fuel charged pool' result allRoll addTimes' show' details ws'
      else some (some ((result, allRoll, addTimes', details, charged, false), ws'))

/-- RollDoubleCross -/
def rollDC (fuel : Nat) (addLine pool points : Int) (mode : Int) (ws : List Nat) (budget : Option Int := none) : LoopOut PoolResult :=
  match dcLoop addLine points mode budget fuel 0 pool 0 pool 1 (pool < 15) [] ws with
  | none => none
  | some none => some none
  | some (some ((_, _, _, _, charged, true), ws')) => some (some ({ value := 0, allRoll := 0, rounds := 0, text := "", charged := charged, over := true }, ws'))
  | some (some ((result, allRoll, addTimes, details, charged, false), ws')) =>
    let detailText := if details.length > 0 then " " ++ joinWith "," details else ""
    let roundsText := if addTimes > 1 then " 轮数:" ++ toString addTimes else ""
    let pre := if result == 1 then "大失败 出目" else "出目"
    some (some ({ value := result, allRoll := allRoll, rounds := addTimes, charged := charged,
                  text := pre ++ toString result ++ "/" ++ toString allRoll ++ roundsText ++ detailText }, ws'))

end DS.Roll
