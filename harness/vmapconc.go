package main

import (
	"fmt"
	"math/rand"
	"runtime"
	"sort"
	"strings"
	"sync"
	"sync/atomic"
	"time"

	"github.com/anishathalye/porcupine"
	ds "github.com/sealdice/dicescript"
)

type vmIn struct {
	op  int // 0 load 1 store 2 loadOrStore 3 loadAndDelete
	key string
	val int
}
type vmOut struct {
	val int
	ok  bool
}

var vmapModel = porcupine.Model{
	Partition: func(history []porcupine.Operation) [][]porcupine.Operation {
		m := map[string][]porcupine.Operation{}
		for _, o := range history {
			k := o.Input.(vmIn).key
			m[k] = append(m[k], o)
		}
		keys := make([]string, 0, len(m))
		for k := range m {
			keys = append(keys, k)
		}
		sort.Strings(keys)
		var out [][]porcupine.Operation
		for _, k := range keys {
			out = append(out, m[k])
		}
		return out
	},
	Init: func() interface{} { return -1 }, // -1 = absent
	Step: func(state, input, output interface{}) (bool, interface{}) {
		st := state.(int)
		in := input.(vmIn)
		out := output.(vmOut)
		switch in.op {
		case 0:
			if st == -1 {
				return !out.ok, st
			}
			return out.ok && out.val == st, st
		case 1:
			return true, in.val
		case 2:
			if st == -1 {
				return !out.ok && out.val == in.val, in.val
			}
			return out.ok && out.val == st, st
		case 3:
			if st == -1 {
				return !out.ok, st
			}
			return out.ok && out.val == st, -1
		}
		return false, st
	},
	DescribeOperation: func(input, output interface{}) string {
		in := input.(vmIn)
		out := output.(vmOut)
		return fmt.Sprintf("%s(%s,%d)->%d,%v", []string{"Load", "Store", "LoadOrStore", "LoadAndDelete"}[in.op], in.key, in.val, out.val, out.ok)
	},
}

// vmapconc <seed> <goroutines> <ops> <keys> : concurrent history on one ValueMap, checked with porcupine
func vmapConcLine(t []string) string {
	if len(t) != 5 {
		return "bad-op"
	}
	seed, _ := atoi(t[1])
	ng, _ := atoi(t[2])
	nops, _ := atoi(t[3])
	nk, _ := atoi(t[4])
	m := &ds.ValueMap{}
	var clock int64
	var mu sync.Mutex
	var hist []porcupine.Operation
	var wg sync.WaitGroup
	var valctr int64
	start := make(chan struct{})
	for g := 0; g < int(ng); g++ {
		wg.Add(1)
		go func(g int) {
			defer wg.Done()
			rng := rand.New(rand.NewSource(seed*1000 + int64(g)))
			var local []porcupine.Operation
			<-start
			for i := 0; i < int(nops); i++ {
				key := fmt.Sprintf("k%d", rng.Intn(int(nk)))
				c := rng.Intn(100)
				if c < 12 {
					// unrecorded noise that forces promotions
					m.Range(func(string, *ds.VMValue) bool { return true })
					continue
				}
				if c < 16 {
					_ = m.Length()
					continue
				}
				in := vmIn{key: key}
				var out vmOut
				call := atomic.AddInt64(&clock, 1)
				switch {
				case c < 45:
					in.op = 0
					v, ok := m.Load(key)
					out.ok = ok
					if ok {
						out.val = int(v.MustReadInt())
					}
				case c < 70:
					in.op = 1
					in.val = int(atomic.AddInt64(&valctr, 1))
					m.Store(key, ds.NewIntVal(ds.IntType(in.val)))
				case c < 82:
					in.op = 2
					in.val = int(atomic.AddInt64(&valctr, 1))
					v, loaded := m.LoadOrStore(key, ds.NewIntVal(ds.IntType(in.val)))
					out.ok = loaded
					out.val = int(v.MustReadInt())
				default:
					in.op = 3
					v, ok := m.LoadAndDelete(key)
					out.ok = ok
					if ok {
						out.val = int(v.MustReadInt())
					}
				}
				ret := atomic.AddInt64(&clock, 1)
				local = append(local, porcupine.Operation{ClientId: g, Input: in, Call: call, Output: out, Return: ret})
			}
			mu.Lock()
			hist = append(hist, local...)
			mu.Unlock()
		}(g)
	}
	close(start)
	wg.Wait()
	// quiescent reads: final Load of every key, Range and Length must agree with them
	live := 0
	finals := map[string]int{}
	for k := 0; k < int(nk); k++ {
		key := fmt.Sprintf("k%d", k)
		call := atomic.AddInt64(&clock, 1)
		v, ok := m.Load(key)
		out := vmOut{ok: ok}
		if ok {
			out.val = int(v.MustReadInt())
			live++
			finals[key] = out.val
		}
		ret := atomic.AddInt64(&clock, 1)
		hist = append(hist, porcupine.Operation{ClientId: int(ng), Input: vmIn{op: 0, key: key}, Call: call, Output: out, Return: ret})
	}
	rangeOK := true
	cnt := 0
	m.Range(func(k string, v *ds.VMValue) bool {
		cnt++
		if fv, ok := finals[k]; !ok || fv != int(v.MustReadInt()) {
			rangeOK = false
		}
		return true
	})
	if cnt != live {
		rangeOK = false
	}
	lenOK := m.Length() == live
	res, info := porcupine.CheckOperationsVerbose(vmapModel, hist, 20*time.Second)
	_ = info
	verdict := "linearizable"
	if res == porcupine.Illegal {
		verdict = "NOT-linearizable"
	} else if res == porcupine.Unknown {
		verdict = "unknown"
	}
	extra := ""
	if res == porcupine.Illegal {
		// print the partition of the first offending key: shortest description
		var parts []string
		byKey := map[string][]porcupine.Operation{}
		for _, o := range hist {
			byKey[o.Input.(vmIn).key] = append(byKey[o.Input.(vmIn).key], o)
		}
		for k, ops := range byKey {
			if r := porcupine.CheckOperations(vmapModel, ops); !r {
				sort.Slice(ops, func(i, j int) bool { return ops[i].Call < ops[j].Call })
				n := len(ops)
				if n > 40 {
					ops = ops[n-40:]
				}
				for _, o := range ops {
					parts = append(parts, fmt.Sprintf("g%d[%d,%d]%s", o.ClientId, o.Call, o.Return, vmapModel.DescribeOperation(o.Input, o.Output)))
				}
				extra = " key=" + k + " tail=" + strings.Join(parts, "|")
				break
			}
		}
	}
	return fmt.Sprintf("%s ops=%d quiescent_range=%v quiescent_len=%v%s", verdict, len(hist), rangeOK, lenOK, extra)
}

func init() { handlers["vmapconc"] = vmapConcLine }

// vmaplen <seed> <readers> <keys> : Length while another goroutine stores distinct keys (no deletes) and keeps forcing promotions of the
// dirty table (Range, missed Loads): every Length lies between the number of stores completed before the call and the number started
// before it returned — a linearizable count
func vmapLenLine(t []string) string {
	if len(t) != 4 {
		return "bad-op"
	}
	var seed int64
	var readers, keys int
	fmt.Sscan(t[1], &seed)
	fmt.Sscan(t[2], &readers)
	fmt.Sscan(t[3], &keys)
	rng := rand.New(rand.NewSource(seed))
	m := &ds.ValueMap{}
	var started, done int64
	var bad atomic.Value
	var stop int32
	var wg sync.WaitGroup
	for g := 0; g < readers; g++ {
		wg.Add(1)
		go func() {
			defer wg.Done()
			for atomic.LoadInt32(&stop) == 0 {
				lo := atomic.LoadInt64(&done)
				n := int64(m.Length())
				hi := atomic.LoadInt64(&started)
				if n < lo || n > hi {
					bad.CompareAndSwap(nil, fmt.Sprintf("Length()=%d although %d stores had completed before the call and %d had started when it returned", n, lo, hi))
					return
				}
				runtime.Gosched() // the readers must not starve the writer of the map's lock
			}
		}()
	}
	plan := make([]int, keys)
	for i := range plan {
		plan[i] = rng.Intn(3)
	}
	for i := 0; i < keys; i++ {
		atomic.AddInt64(&started, 1)
		m.Store(fmt.Sprintf("k%d", i), ds.NewIntVal(ds.IntType(i)))
		atomic.AddInt64(&done, 1)
		switch plan[i] {
		case 0:
			m.Range(func(string, *ds.VMValue) bool { return true }) // promotes the dirty table
		case 1:
			for j := 0; j <= i+1 && i < 300; j++ {
				m.Load("absent") // misses promote it too
			}
		}
	}
	atomic.StoreInt32(&stop, 1)
	wg.Wait()
	if b := bad.Load(); b != nil {
		return "bad " + b.(string)
	}
	return fmt.Sprintf("ok keys=%d final=%d", keys, m.Length())
}

func init() { handlers["vmaplen"] = vmapLenLine }
