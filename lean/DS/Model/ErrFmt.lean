/-
  Model of the position bookkeeping of the generated PEG engine (`read`) and of parser_errors.go
  (formatFriendlyError, fmtErr, getLineAtBytes).  Inputs are raw bytes (`List Nat`, each < 256) because the
  Go code works on bytes and decodes runes with utf8.DecodeRune (invalid bytes decode to U+FFFD, width 1).
-/
namespace DS.ErrFmt

def runeError : Nat := 0xFFFD

/-- utf8.DecodeRune on the remaining bytes: (rune, width); (RuneError, 0) at end of input -/
def decodeRune : List Nat → Nat × Nat
  | [] => (runeError, 0)
  | p0 :: rest =>
    if p0 < 0x80 then (p0, 1)
    else if p0 < 0xC2 then (runeError, 1)
    else if p0 < 0xE0 then
      match rest with
      | b1 :: _ => if 0x80 ≤ b1 ∧ b1 ≤ 0xBF then ((p0 % 32) * 64 + b1 % 64, 2) else (runeError, 1)
      | _ => (runeError, 1)
    else if p0 < 0xF0 then
      let lo := if p0 == 0xE0 then 0xA0 else 0x80
      let hi := if p0 == 0xED then 0x9F else 0xBF
      match rest with
      | b1 :: b2 :: _ =>
        if lo ≤ b1 ∧ b1 ≤ hi then
          if 0x80 ≤ b2 ∧ b2 ≤ 0xBF then ((p0 % 16) * 4096 + (b1 % 64) * 64 + b2 % 64, 3) else (runeError, 1)
        else (runeError, 1)
      | _ => (runeError, 1)
    else if p0 < 0xF5 then
      let lo := if p0 == 0xF0 then 0x90 else 0x80
      let hi := if p0 == 0xF4 then 0x8F else 0xBF
      match rest with
      | b1 :: b2 :: b3 :: _ =>
        if lo ≤ b1 ∧ b1 ≤ hi then
          if 0x80 ≤ b2 ∧ b2 ≤ 0xBF then
            if 0x80 ≤ b3 ∧ b3 ≤ 0xBF then
              ((p0 % 8) * 262144 + (b1 % 64) * 4096 + (b2 % 64) * 64 + b3 % 64, 4)
            else (runeError, 1)
          else (runeError, 1)
        else (runeError, 1)
      | _ => (runeError, 1)
    else (runeError, 1)

/-- utf8 encoding of a rune (what `%c` prints); surrogates and out-of-range print U+FFFD -/
def encodeRune (r : Nat) : List Nat :=
  if r < 0x80 then [r]
  else if r < 0x800 then [0xC0 + r / 64, 0x80 + r % 64]
  else if (0xD800 ≤ r ∧ r ≤ 0xDFFF) ∨ r > 0x10FFFF then [0xEF, 0xBF, 0xBD]
  else if r < 0x10000 then [0xE0 + r / 4096, 0x80 + (r / 64) % 64, 0x80 + r % 64]
  else [0xF0 + r / 262144, 0x80 + (r / 4096) % 64, 0x80 + (r / 64) % 64, 0x80 + r % 64]

/-- the engine's savepoint position -/
structure Pos where
  line : Nat
  col : Nat
  offset : Nat
  rn : Nat
  w : Nat
  deriving Repr, DecidableEq

/-- `newParser`: position{line: 1} -/
def pos0 : Pos := { line := 1, col := 0, offset := 0, rn := 0, w := 0 }

/-- `p.read()` -/
def read (input : List Nat) (p : Pos) : Pos :=
  let off := p.offset + p.w
  let (rn, n) := decodeRune (input.drop off)
  let col := p.col + 1
  if rn == 10 then { line := p.line + 1, col := 0, offset := off, rn := rn, w := n }
  else { line := p.line, col := col, offset := off, rn := rn, w := n }

/-- position after `k` calls of read -/
def readN (input : List Nat) : Nat → Pos
  | 0 => pos0
  | k+1 => read input (readN input k)

/-- the first position whose offset reaches `off` (the parser only ever holds such positions);
    fuel = input length + 2 -/
def posAtOffset (input : List Nat) (off : Nat) : Pos :=
  let rec go (fuel : Nat) (p : Pos) : Pos :=
    match fuel with
    | 0 => p
    | fuel+1 => if p.offset ≥ off ∨ p.w == 0 then p else go fuel (read input p)
  go (input.length + 1) (read input pos0)

/-! ### the specification of line and column -/

/-- the first `k` runes of the input as Go decodes them (invalid byte = U+FFFD of width 1; past the end
    the decoder keeps answering (U+FFFD, 0)) -/
def runes : Nat → List Nat → List Nat
  | 0, _ => []
  | k+1, bs => (decodeRune bs).1 :: runes k (bs.drop (decodeRune bs).2)

/-- what is left after the first `k` runes -/
def dropRunes : Nat → List Nat → List Nat
  | 0, bs => bs
  | k+1, bs => dropRunes k (bs.drop (decodeRune bs).2)

/-- number of runes after the last newline of `rs` -/
def sinceNewline : List Nat → Nat
  | [] => 0
  | r :: rs => if rs.contains 10 then sinceNewline rs else if r == 10 then rs.length else rs.length + 1

/-- SPECIFICATION: line and column of the position that follows the runes `before`:
    1 + newlines before it; 1 + runes since the last newline -/
def lineColSpec (before : List Nat) : Nat × Nat := (1 + before.count 10, 1 + sinceNewline before)

/-! ### parser_errors.go -/

def utf8 (s : String) : List Nat := s.toUTF8.toList.map (·.toNat)

def isValidStartChar (r : Nat) : Bool :=
  (48 ≤ r && r ≤ 57) || (97 ≤ r && r ≤ 122) || (65 ≤ r && r ≤ 90) ||
  r == 95 || r == 36 || r == 40 || r == 91 || r == 123 || r == 34 || r == 39 || r == 96 || r == 0x1e ||
  r == 43 || r == 45 || r == 46 || r == 38 ||
  r == 0x4F18 || r == 0x52A3 || r == 0xFF08 || r == 0x3010 ||
  (0x4E00 ≤ r && r ≤ 0x9FFF)

def isValidIdentChar (r : Nat) : Bool := isValidStartChar r || (48 ≤ r && r ≤ 57)

def isOperatorChar (r : Nat) : Bool :=
  r == 43 || r == 45 || r == 42 || r == 47 || r == 37 || r == 94 || r == 61 || r == 60 || r == 62 || r == 33 ||
  r == 38 || r == 124 || r == 63 || r == 58 || r == 44 ||
  r == 0xFF0B || r == 0xFF0D || r == 0xFF0A || r == 0xFF0F

/-- getPrevNonSpaceChar: walks BYTE indices backwards and decodes at each one -/
def getPrevNonSpaceChar (input : List Nat) : Nat → Nat
  | 0 => 0
  | i+1 =>
    let r := (decodeRune (input.drop i)).1
    if r != 32 && r != 9 && r != 10 && r != 13 then r else getPrevNonSpaceChar input i

/-- findUnclosedBracketBytes over the runes of the text -/
def bracketScan : Nat → List Nat → List Nat → Bool → Nat → List Nat
  | 0, _, stack, _, _ => stack
  | fuel+1, bs, stack, inStr, strCh =>
    match bs with
    | [] => stack
    | _ =>
      let (r, n) := decodeRune bs
      let rest := bs.drop n
      if !inStr && (r == 34 || r == 39 || r == 96 || r == 0x1e) then bracketScan fuel rest stack true r
      else if inStr then bracketScan fuel rest stack (r != strCh) strCh
      else if r == 40 || r == 123 || r == 91 then bracketScan fuel rest (r :: stack) false strCh
      else if r == 41 then
        bracketScan fuel rest (match stack with | 40 :: t => t | s => s) false strCh
      else if r == 125 then
        bracketScan fuel rest (match stack with | 123 :: t => t | s => s) false strCh
      else if r == 93 then
        bracketScan fuel rest (match stack with | 91 :: t => t | s => s) false strCh
      else bracketScan fuel rest stack false strCh

def findUnclosedBracket (input : List Nat) : Nat :=
  match bracketScan (input.length + 1) input [] false 0 with
  | [] => 0
  | top :: _ => top

inductive Msg where
  | empty | invalidStart | missingRParen | missingRBrace | missingRBracket | unclosedString
  | missingExpr | incomplete | unexpectedChar | syntax
  deriving Repr, DecidableEq

/-- the classification switch of formatFriendlyError: (message, char to print or 0) -/
def classify (input : List Nat) (offset : Nat) : Msg × Nat :=
  if input.length == 0 then (.empty, 0) else
  let char := if offset < input.length then (decodeRune (input.drop offset)).1 else 0
  let toCheck := if offset < input.length then input.take offset else input
  let ub := findUnclosedBracket toCheck
  let prev := getPrevNonSpaceChar input offset
  if offset == 0 && !isValidStartChar char then (.invalidStart, char)
  else if ub == 40 then (.missingRParen, 0)
  else if ub == 123 then (.missingRBrace, 0)
  else if ub == 91 then (.missingRBracket, 0)
  else if offset > 0 && isOperatorChar prev then
    if prev != 41 && prev != 93 && prev != 125 then (.missingExpr, prev) else (.syntax, 0)
  else if offset ≥ input.length then (.incomplete, 0)
  else if char == 34 || char == 39 || char == 96 || char == 0x1e then (.unclosedString, 0)
  else if !isValidStartChar char && !isValidIdentChar char then (.unexpectedChar, char)
  else (.syntax, 0)

/-- message templates: (before %c, after %c) per language; no %c when the second component is none -/
def msgCN : Msg → String × Option String
  | .empty => ("输入为空", none)
  | .invalidStart => ("表达式不能以 '", some "' 开头")
  | .missingRParen => ("缺少右括号 ')'", none)
  | .missingRBrace => ("缺少右花括号 '}'", none)
  | .missingRBracket => ("缺少右方括号 ']'", none)
  | .unclosedString => ("字符串未闭合", none)
  | .missingExpr => ("'", some "' 后需要表达式")
  | .incomplete => ("表达式不完整", none)
  | .unexpectedChar => ("无法识别的字符 '", some "'")
  | .syntax => ("语法错误", none)

def msgEN : Msg → String × Option String
  | .empty => ("Empty input", none)
  | .invalidStart => ("Expression cannot start with '", some "'")
  | .missingRParen => ("Missing closing parenthesis ')'", none)
  | .missingRBrace => ("Missing closing brace '}'", none)
  | .missingRBracket => ("Missing closing bracket ']'", none)
  | .unclosedString => ("Unclosed string literal", none)
  | .missingExpr => ("Expression expected after '", some "'")
  | .incomplete => ("Incomplete expression", none)
  | .unexpectedChar => ("Unexpected character '", some "'")
  | .syntax => ("Syntax error", none)

/-- fmt.Sprintf(tmpl, char) — only applied when char ≠ 0; a template without %c then gets Go's
    `%!(EXTRA int32=…)` suffix, which the classification never triggers (char ≠ 0 only for %c messages) -/
def render (t : String × Option String) (char : Nat) : List Nat :=
  match t.2 with
  | some post => if char != 0 then utf8 t.1 ++ encodeRune char ++ utf8 post
                 else utf8 t.1 ++ utf8 "%c" ++ utf8 post
  | none => utf8 t.1

/-- strings.Split(input, "\n") -/
def splitLines : List Nat → List (List Nat)
  | [] => [[]]
  | b :: bs =>
    if b == 10 then [] :: splitLines bs
    else match splitLines bs with
      | [] => [[b]]
      | l :: ls => (b :: l) :: ls

def truncate60 (l : List Nat) : List Nat := if l.length > 60 then l.take 57 ++ utf8 "..." else l

/-- getLineAtBytes -/
def getLineAt (input : List Nat) (line : Nat) : List Nat :=
  let lines := splitLines input
  if line > 0 ∧ line ≤ lines.length then truncate60 (lines.getD (line - 1) [])
  else truncate60 input

def natStr (n : Nat) : List Nat := utf8 (toString n)

/-- fmtErr: lang 1 = Chinese, 2 = English, anything else = both -/
def fmtErr (lang : Nat) (line col : Nat) (input : List Nat) (m : Msg) (char : Nat) : List Nat :=
  let header := if lang == 1 then utf8 "语法错误\n" else if lang == 2 then utf8 "Syntax Error\n"
                else utf8 "语法错误 Syntax Error\n"
  let ctx := if input.length > 0 then
      utf8 "  |\n  |  " ++ getLineAt input line ++ utf8 "\n  |  " ++
      List.replicate (col - 1) 32 ++ utf8 "^\n  |\n"
    else []
  let cn := render (msgCN m) char
  let en := render (msgEN m) char
  let pos := natStr line ++ utf8 ":" ++ natStr col ++ utf8 " - "
  let tail := if lang == 1 then utf8 "  位置 " ++ pos ++ cn
              else if lang == 2 then utf8 "  Pos " ++ pos ++ en
              else utf8 "  位置 " ++ pos ++ cn ++ utf8 "\n  Pos " ++ pos ++ en
  header ++ ctx ++ tail

/-- the whole friendly error for a failure at (line, col, offset), with the engine's own prefix -/
def friendly (lang : Nat) (input : List Nat) (line col offset : Nat) : List Nat :=
  let (m, ch) := classify input offset
  natStr line ++ utf8 ":" ++ natStr col ++ utf8 " (" ++ natStr offset ++ utf8 "): " ++
    fmtErr lang line col input m ch

end DS.ErrFmt
