/-
  C15 — min-mode and max-mode bracket every roll.  Property theorems only.
-/
import DS.Proofs.DiceLemmas
import DS.Props.C04

namespace DS.Props.C15
open DS.Roll DS.Rng DS.Proofs

/-- min / max mode never touch the generator: `Roll` hands back the stream unchanged -/
theorem mode_no_draw (sides mode : Int) (hm : mode = -1 ∨ mode = 1) (ws : List Nat) :
    ∃ r, roll sides mode ws = some (r, ws) := roll_mode_no_draw sides mode hm ws

/-- …and so does a whole XdY term; every die sits at its lowest (min) / highest (max) clamped face,
    i.e. the bounds are attained -/
theorem common_mode_attained (times sides : Int) (hs : sides ≠ 0) (dmin dmax : Option Int)
    (keepLH lowNum highNum mode : Int) (hm : mode = -1 ∨ mode = 1) (ws : List Nat) :
    ∃ r, rollCommon times sides dmin dmax keepLH lowNum highNum mode ws = some (r, ws) ∧
      r.nums.length = times.toNat ∧
      ∀ d ∈ r.nums, d = clampDie dmin dmax (if mode = -1 then 1 else sides) := by
  unfold rollCommon
  rw [rollDice_mode sides hs dmin dmax mode hm]
  refine ⟨_, rfl, ?_, ?_⟩
  · simp [(sortFor_perm _ _).length_eq]
  · intro d hd
    have := (sortFor_perm keepLH _).mem_iff.1 hd
    simpa using (List.mem_replicate.1 this).2

theorem sum_ge_of_all_ge (lo : Int) : ∀ (l : List Int), (∀ x ∈ l, lo ≤ x) → lo * l.length ≤ l.sum := by
  intro l
  induction l with
  | nil => simp
  | cons a t ih =>
    intro h
    have h1 := h a (by simp)
    have h2 := ih (fun x hx => h x (by simp [hx]))
    simp only [List.sum_cons, List.length_cons]
    have : lo * ((t.length + 1 : Nat) : Int) = lo * (t.length : Int) + lo := by
      push_cast; rw [Int.mul_add]; simp
    rw [this]; omega

theorem sum_le_of_all_le (hi : Int) : ∀ (l : List Int), (∀ x ∈ l, x ≤ hi) → l.sum ≤ hi * l.length := by
  intro l
  induction l with
  | nil => simp
  | cons a t ih =>
    intro h
    have h1 := h a (by simp)
    have h2 := ih (fun x hx => h x (by simp [hx]))
    simp only [List.sum_cons, List.length_cons]
    have : hi * ((t.length + 1 : Nat) : Int) = hi * (t.length : Int) + hi := by
      push_cast; rw [Int.mul_add]; simp
    rw [this]; omega

theorem sum_eq_of_all_eq (c : Int) : ∀ (l : List Int), (∀ x ∈ l, x = c) → l.sum = c * l.length := by
  intro l h
  have h1 := sum_ge_of_all_ge c l (fun x hx => by rw [h x hx])
  have h2 := sum_le_of_all_le c l (fun x hx => by rw [h x hx])
  omega

/-- Bracketing for every XdY term with keep/drop/min/max modifiers: with the same parameters, any
    random outcome lies between the min-mode and the max-mode outcome (sums under NoOverflow). -/
theorem common_bracket (times sides : Int) (hs : 0 < sides ∧ sides ≤ maxInt64 - 1)
    (dmin dmax : Option Int) (keepLH lowNum highNum : Int) (ws : List Nat) (hws : Words64 ws)
    (r rmin rmax : CommonResult) (rest : List Nat)
    (h0 : rollCommon times sides dmin dmax keepLH lowNum highNum 0 ws = some (r, rest))
    (hmin : rollCommon times sides dmin dmax keepLH lowNum highNum (-1) ws = some (rmin, ws))
    (hmax : rollCommon times sides dmin dmax keepLH lowNum highNum 1 ws = some (rmax, ws))
    (no0 : NoOverflow (r.nums.take r.pick.toNat))
    (no1 : NoOverflow (rmin.nums.take rmin.pick.toNat))
    (no2 : NoOverflow (rmax.nums.take rmax.pick.toNat)) :
    rmin.num ≤ r.num ∧ r.num ≤ rmax.num := by
  have hsne : sides ≠ 0 := by omega
  -- the three results, opened up
  obtain ⟨rmin', e1, l1, a1⟩ := common_mode_attained times sides hsne dmin dmax keepLH lowNum highNum (-1) (Or.inl rfl) ws
  obtain ⟨rmax', e2, l2, a2⟩ := common_mode_attained times sides hsne dmin dmax keepLH lowNum highNum 1 (Or.inr rfl) ws
  rw [hmin] at e1; rw [hmax] at e2
  simp at e1 e2
  subst e1 e2
  simp at a1 a2
  -- random dice
  have hr : r.nums.length = times.toNat ∧ ∀ d ∈ r.nums, ∃ x, 1 ≤ x ∧ x ≤ sides ∧ d = clampDie dmin dmax x := by
    unfold rollCommon at h0
    split at h0
    · simp at h0
    · rename_i raw ws' hd
      simp at h0
      obtain ⟨rfl, rfl⟩ := h0
      obtain ⟨hl, hf⟩ := rollDice_faces sides hs.1 hs.2 dmin dmax _ ws hws raw ws' hd
      have hp := sortFor_perm keepLH raw
      exact ⟨by simp [hp.length_eq, hl], fun d hd' => hf d (hp.mem_iff.1 hd')⟩
  -- picks agree
  have p0 : r.pick = pickNum times keepLH lowNum highNum := by
    unfold rollCommon at h0; split at h0
    · simp at h0
    · simp at h0; obtain ⟨rfl, _⟩ := h0; rfl
  have p1 : rmin.pick = pickNum times keepLH lowNum highNum := by
    unfold rollCommon at hmin; split at hmin
    · simp at hmin
    · simp at hmin; obtain ⟨rfl, _⟩ := hmin; rfl
  have p2 : rmax.pick = pickNum times keepLH lowNum highNum := by
    unfold rollCommon at hmax; split at hmax
    · simp at hmax
    · simp at hmax; obtain ⟨rfl, _⟩ := hmax; rfl
  -- totals
  have t0 : r.num = (r.nums.take r.pick.toNat).sum := by
    unfold rollCommon at h0; split at h0
    · simp at h0
    · simp at h0; obtain ⟨rfl, _⟩ := h0; exact sumWrap_eq_sum _ no0
  have t1 : rmin.num = (rmin.nums.take rmin.pick.toNat).sum := by
    unfold rollCommon at hmin; split at hmin
    · simp at hmin
    · simp at hmin; obtain ⟨rfl, _⟩ := hmin; exact sumWrap_eq_sum _ no1
  have t2 : rmax.num = (rmax.nums.take rmax.pick.toNat).sum := by
    unfold rollCommon at hmax; split at hmax
    · simp at hmax
    · simp at hmax; obtain ⟨rfl, _⟩ := hmax; exact sumWrap_eq_sum _ no2
  set p := (pickNum times keepLH lowNum highNum).toNat with hp
  set lo := clampDie dmin dmax 1 with hlo
  set hi := clampDie dmin dmax sides with hhi
  have lens : (r.nums.take p).length = (rmin.nums.take p).length ∧ (r.nums.take p).length = (rmax.nums.take p).length := by
    simp [List.length_take, hr.1, l1, l2]
  have b0 : ∀ d ∈ r.nums.take p, lo ≤ d ∧ d ≤ hi := by
    intro d hd
    obtain ⟨x, hx1, hx2, rfl⟩ := hr.2 d (List.mem_of_mem_take hd)
    exact ⟨clampDie_mono _ _ _ _ hx1, clampDie_mono _ _ _ _ hx2⟩
  have s1 : (rmin.nums.take p).sum = lo * (rmin.nums.take p).length :=
    sum_eq_of_all_eq lo _ (fun x hx => a1 x (List.mem_of_mem_take hx))
  have s2 : (rmax.nums.take p).sum = hi * (rmax.nums.take p).length :=
    sum_eq_of_all_eq hi _ (fun x hx => a2 x (List.mem_of_mem_take hx))
  have g := sum_ge_of_all_ge lo (r.nums.take p) (fun x hx => (b0 x hx).1)
  have l := sum_le_of_all_le hi (r.nums.take p) (fun x hx => (b0 x hx).2)
  rw [t0, t1, t2, p0, p1, p2, s1, s2, ← lens.1, ← lens.2]
  exact ⟨g, l⟩

/-- Fate: −4 (min mode) ≤ any outcome ≤ 4 (max mode) -/
theorem fate_bracket (ws : List Nat) (hws : Words64 ws) (v : Int) (t : String) (rest : List Nat)
    (h : rollFate 0 ws = some ((v, t), rest)) :
    (rollFate (-1) ws).map (·.1.1) = some (-4) ∧ (rollFate 1 ws).map (·.1.1) = some 4 ∧ -4 ≤ v ∧ v ≤ 4 := by
  refine ⟨by simp [rollFate, fateLoop, roll], by simp [rollFate, fateLoop, roll], ?_⟩
  -- four faces each in 1..3
  simp only [rollFate, fateLoop] at h
  split at h
  · simp at h
  · rename_i r1 w1 h1
    split at h
    · simp at h
    · rename_i q
      split at q
      · simp at q
      · rename_i r2 w2 h2
        split at q
        · simp at q
        · rename_i q2
          split at q2
          · simp at q2
          · rename_i r3 w3 h3
            split at q2
            · simp at q2
            · rename_i q3
              split at q3
              · simp at q3
              · rename_i r4 w4 h4
                simp at q3 q2 q h
                obtain ⟨f1a, f1b, hw1⟩ := roll_face 3 (by decide) (by decide) ws hws r1 w1 h1
                obtain ⟨f2a, f2b, hw2⟩ := roll_face 3 (by decide) (by decide) w1 hw1 r2 w2 h2
                obtain ⟨f3a, f3b, hw3⟩ := roll_face 3 (by decide) (by decide) w2 hw2 r3 w3 h3
                obtain ⟨f4a, f4b, _⟩ := roll_face 3 (by decide) (by decide) w3 hw3 r4 w4 h4
                obtain ⟨⟨rfl, _⟩, _⟩ := q3
                obtain ⟨⟨rfl, _⟩, _⟩ := q2
                obtain ⟨⟨rfl, _⟩, _⟩ := q
                obtain ⟨⟨rfl, _⟩, _⟩ := h
                omega

/-- Expressions that are monotone in their dice: non-negative constants, dice terms, sums, and products
    with a non-negative constant. `env` gives the value of each dice term. -/
inductive MExpr where
  | const (c : Int) (h : 0 ≤ c)
  | term (i : Nat)
  | add (a b : MExpr)
  | scale (c : Int) (h : 0 ≤ c) (a : MExpr)

def MExpr.eval (env : Nat → Int) : MExpr → Int
  | .const c _ => c
  | .term i => env i
  | .add a b => a.eval env + b.eval env
  | .scale c _ a => c * a.eval env

/-- if every dice term is bracketed by its min-mode and max-mode value, so is the whole expression -/
theorem monotone_expr (e : MExpr) (emin erand emax : Nat → Int)
    (h : ∀ i, emin i ≤ erand i ∧ erand i ≤ emax i) :
    e.eval emin ≤ e.eval erand ∧ e.eval erand ≤ e.eval emax := by
  induction e with
  | const c _ => simp [MExpr.eval]
  | term i => exact h i
  | add a b iha ihb => simp only [MExpr.eval]; omega
  | scale c hc a ih =>
    simp only [MExpr.eval]
    exact ⟨Int.mul_le_mul_of_nonneg_left ih.1 hc, Int.mul_le_mul_of_nonneg_left ih.2 hc⟩

/-! ### CoC bonus / penalty dice (after the repair "fix: a CoC tens die takes its 0 face in min mode") -/

theorem pct_range (t u : Int) (ht0 : 0 ≤ t) (ht9 : t ≤ 9) (hu0 : 0 ≤ u) (hu9 : u ≤ 9) :
    1 ≤ pct t u ∧ pct t u ≤ 100 := by
  unfold pct
  by_cases h : t = 0
  · by_cases hu : u = 0
    · simp [h, hu]
    · simp [h, hu]; omega
  · have : (t == 0) = false := by simp [h]
    simp [this]; omega

theorem fold_imin_range (f : Int → Int) (hf : ∀ n, 1 ≤ n ∧ n ≤ 10 → 1 ≤ f n ∧ f n ≤ 100) :
    ∀ (dice : List Int) (v0 : Int), (∀ d ∈ dice, 1 ≤ d ∧ d ≤ 10) → 1 ≤ v0 ∧ v0 ≤ 100 →
      1 ≤ dice.foldl (fun v n => imin v (f n)) v0 ∧ dice.foldl (fun v n => imin v (f n)) v0 ≤ 100 := by
  intro dice
  induction dice with
  | nil => intro v0 _ h; simpa using h
  | cons n ds ih =>
    intro v0 hd h
    simp only [List.foldl_cons]
    apply ih
    · intro d hd'; exact hd d (by simp [hd'])
    · have := hf n (hd n (by simp))
      unfold imin; split <;> omega

theorem fold_imax_range (f : Int → Int) (hf : ∀ n, 1 ≤ n ∧ n ≤ 10 → 1 ≤ f n ∧ f n ≤ 100) :
    ∀ (dice : List Int) (v0 : Int), (∀ d ∈ dice, 1 ≤ d ∧ d ≤ 10) → 1 ≤ v0 ∧ v0 ≤ 100 →
      1 ≤ dice.foldl (fun v n => imax v (f n)) v0 ∧ dice.foldl (fun v n => imax v (f n)) v0 ≤ 100 := by
  intro dice
  induction dice with
  | nil => intro v0 _ h; simpa using h
  | cons n ds ih =>
    intro v0 hd h
    simp only [List.foldl_cons]
    apply ih
    · intro d hd'; exact hd d (by simp [hd'])
    · have := hf n (hd n (by simp))
      unfold imax; split <;> omega

/-- the tens-dice loop in min mode: every die is the 0 face, nothing is drawn -/
theorem cocLoop_min : ∀ (k : Nat) (mn mx : Int) (e : Bool) (ws : List Nat),
    cocLoop (-1) k mn mx e ws = some ((List.replicate k "0", mn, mx, e || decide (0 < k)), ws) := by
  intro k
  induction k with
  | zero => intro mn mx e ws; simp [cocLoop]
  | succ k ih =>
    intro mn mx e ws
    simp [cocLoop, roll, cocFace, ih, List.replicate_succ]

/-- the tens-dice loop in max mode: every die shows 10, nothing is drawn -/
theorem cocLoop_max : ∀ (k : Nat) (mn mx : Int) (e : Bool) (ws : List Nat),
    cocLoop 1 k mn mx e ws = some ((List.replicate k "0", mn, mx, e || decide (0 < k)), ws) := by
  intro k
  induction k with
  | zero => intro mn mx e ws; simp [cocLoop]
  | succ k ih =>
    intro mn mx e ws
    simp [cocLoop, roll, cocFace, ih, List.replicate_succ]

/-- CoC bonus and penalty dice are bracketed: min mode gives 1, max mode gives 100, neither draws from the
    generator, and every random outcome lies between them. -/
theorem coc_bracket (isBonus : Bool) (n : Int) (ws : List Nat) (hws : Words64 ws)
    (v : Int) (t : String) (rest : List Nat) (h : rollCoC isBonus n 0 ws = some ((v, t), rest)) :
    (rollCoC isBonus n (-1) ws).map (fun r => (r.1.1, r.2)) = some (1, ws) ∧
    (rollCoC isBonus n 1 ws).map (fun r => (r.1.1, r.2)) = some (100, ws) ∧ 1 ≤ v ∧ v ≤ 100 := by
  refine ⟨?_, ?_, ?_⟩
  · cases isBonus <;> simp [rollCoC, roll, cocLoop_min] <;> decide
  · cases isBonus <;> simp [rollCoC, roll, cocLoop_max] <;> decide
  · obtain ⟨d100, dice, h1, h100, _, hrange, hv, _⟩ := DS.Props.C04.coc_rule isBonus n 0 ws hws v t rest h
    have hbase : 1 ≤ pct (d100 / 10 % 10) (d100 % 10) ∧ pct (d100 / 10 % 10) (d100 % 10) ≤ 100 :=
      pct_range _ _ (by omega) (by omega) (by omega) (by omega)
    have hf : ∀ m, 1 ≤ m ∧ m ≤ 10 → 1 ≤ pct (cocDigit m) (d100 % 10) ∧ pct (cocDigit m) (d100 % 10) ≤ 100 := by
      intro m hm
      apply pct_range
      · unfold cocDigit; split <;> omega
      · unfold cocDigit; split
        · omega
        · rename_i h10; simp at h10; omega
      · omega
      · omega
    cases isBonus
    · simp only [Bool.false_eq_true, if_false] at hv
      rw [hv]; exact fold_imax_range _ hf dice _ hrange hbase
    · simp only [if_true] at hv
      rw [hv]; exact fold_imin_range _ hf dice _ hrange hbase

/-- non-vacuity, and the former witness (D100 = 5, penalty die showing 10): 5 now lies above the min-mode value 1 -/
example : rollCoC false 1 0 [4, 9] = some ((5, "(D100=5,惩罚0)"), []) := by decide
example : rollCoC false 1 (-1) [4, 9] = some ((1, "(D100=1,惩罚0)"), [4, 9]) := by decide
example : rollCoC true 2 1 [4, 9] = some ((100, "(D100=100,奖励0 0)"), [4, 9]) := by decide

/- non-vacuity -/
example : (rollCommon 2 6 none none 0 0 0 (-1) [1,2,3]).map (fun p => (p.1.num, p.2)) = some (2, [1,2,3]) := by decide
example : (rollCommon 2 6 none none 0 0 0 1 [1,2,3]).map (fun p => (p.1.num, p.2)) = some (12, [1,2,3]) := by decide

end DS.Props.C15
