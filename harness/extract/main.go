// Command extract regenerates the Lean artefacts under DS/Gen from /repo's current sources
// (go/parser + go/ast). Files are rewritten only when their content changes.
package main

import (
	"bytes"
	"flag"
	"fmt"
	"go/ast"
	"go/parser"
	"go/printer"
	"go/token"
	"os"
	"path/filepath"
	"sort"
	"strings"
)

type pkgFiles struct {
	fset  *token.FileSet
	files map[string]*ast.File // non-test files, hook file excluded
}

func load(repo string) (*pkgFiles, error) {
	fset := token.NewFileSet()
	ents, err := os.ReadDir(repo)
	if err != nil {
		return nil, err
	}
	pf := &pkgFiles{fset: fset, files: map[string]*ast.File{}}
	for _, e := range ents {
		n := e.Name()
		// the hook files (build tag verif, recorded in MANIFEST.hooks) are not part of the library under verification
		if !strings.HasSuffix(n, ".go") || strings.HasSuffix(n, "_test.go") || strings.HasPrefix(n, "verif_") {
			continue
		}
		f, err := parser.ParseFile(fset, filepath.Join(repo, n), nil, parser.ParseComments)
		if err != nil {
			return nil, err
		}
		if f.Name.Name != "dicescript" {
			continue
		}
		pf.files[n] = f
	}
	return pf, nil
}

func (pf *pkgFiles) names() []string {
	var ns []string
	for n := range pf.files {
		ns = append(ns, n)
	}
	sort.Strings(ns)
	return ns
}

func exprText(fset *token.FileSet, e ast.Expr) string {
	var b bytes.Buffer
	_ = printer.Fprint(&b, fset, e)
	return b.String()
}

func printerFprint(b *strings.Builder, fset *token.FileSet, n ast.Node) error {
	return printer.Fprint(b, fset, n)
}

func leanStr(s string) string {
	var b strings.Builder
	b.WriteByte('"')
	for _, r := range s {
		switch r {
		case '"':
			b.WriteString("\\\"")
		case '\\':
			b.WriteString("\\\\")
		case '\n':
			b.WriteString("\\n")
		case '\t':
			b.WriteString("\\t")
		case '\r':
			b.WriteString("\\r")
		default:
			if r < 0x20 {
				b.WriteString(fmt.Sprintf("\\x%02x", r))
			} else {
				b.WriteRune(r)
			}
		}
	}
	b.WriteByte('"')
	return b.String()
}

func writeIfChanged(path string, content string) error {
	old, err := os.ReadFile(path)
	if err == nil && string(old) == content {
		return nil
	}
	if err := os.MkdirAll(filepath.Dir(path), 0o755); err != nil {
		return err
	}
	return os.WriteFile(path, []byte(content), 0o644)
}

var generators = map[string]func(pf *pkgFiles) (string, error){}

func main() {
	repo := flag.String("repo", "/repo", "repository root")
	out := flag.String("out", "", "output directory (DS/Gen)")
	flag.Parse()
	pf, err := load(*repo)
	if err != nil {
		fmt.Fprintln(os.Stderr, "extract: load:", err)
		os.Exit(1)
	}
	var names []string
	for n := range generators {
		names = append(names, n)
	}
	sort.Strings(names)
	for _, n := range names {
		txt, err := generators[n](pf)
		if err != nil {
			fmt.Fprintln(os.Stderr, "extract:", n+":", err)
			os.Exit(1)
		}
		if err := writeIfChanged(filepath.Join(*out, n+".lean"), txt); err != nil {
			fmt.Fprintln(os.Stderr, "extract: write:", err)
			os.Exit(1)
		}
	}
}
