/-
  C03 — the result belongs to the consumed text (Matched / RestInput contract).

  * `matched_rest` — Matched ++ RestInput is exactly the input, Matched is the consumed text without trailing white space,
    for every input and every offset the parser can stop at.
  * `lookahead_contributes_nothing` — engine-generic theorem `skip_pure`, instantiated on the REGENERATED grammar: whatever
    text a look-ahead predicate (`&e`, `!e`) inspects, ParserData (flags, flags stack, loop bookkeeping, the emitted code)
    is unchanged: text the parser only looked at contributes nothing.
  * What is NOT true of the code (and therefore not proved): that text an ordinary alternative consumed and then gave back
    contributes nothing.  `parseSeq` restores only the text position (model = roll.peg.go parseSeqExpr), so an alternative
    that emits and then fails leaves its code behind: known finding C03-emit-then-fail-leak, witnessed on both sides of the
    peg stream (`1 || )`: emission trace of the whole input ≠ trace of Matched alone).
-/
import DS.Proofs.PegSkip
import DS.Props.C16Defs

namespace DS.Props.C03
open DS.Peg DS.Props.C16

/-! ### Matched / RestInput (rollvm.go RunAfterParsed): `consumed` = the text up to the parser's final offset -/

def isSpace (c : Char) : Bool :=
  c == ' ' || c == '\t' || c == '\n' || c == '\x0b' || c == '\x0c' || c == '\r' || c.toNat == 0x85 || c.toNat == 0xA0 ||
  c.toNat == 0x1680 || (0x2000 ≤ c.toNat && c.toNat ≤ 0x200a) || c.toNat == 0x2028 || c.toNat == 0x2029 || c.toNat == 0x202f ||
  c.toNat == 0x205f || c.toNat == 0x3000

/-- strings.TrimRightFunc(consumed, unicode.IsSpace) -/
def matched (consumed : List Char) : List Char := (consumed.reverse.dropWhile isSpace).reverse

/-- data[len(matched):] -/
def restInput (consumed tail : List Char) : List Char := (consumed.reverse.takeWhile isSpace).reverse ++ tail

theorem matched_rest (consumed tail : List Char) : matched consumed ++ restInput consumed tail = consumed ++ tail := by
  simp only [matched, restInput, ← List.append_assoc, ← List.reverse_append, List.takeWhile_append_dropWhile, List.reverse_reverse]

theorem matched_prefix (consumed : List Char) : ∃ ws, consumed = matched consumed ++ ws ∧ ws.all isSpace = true := by
  refine ⟨(consumed.reverse.takeWhile isSpace).reverse, ?_, ?_⟩
  · simp only [matched, ← List.reverse_append, List.takeWhile_append_dropWhile, List.reverse_reverse]
  · simp only [List.all_reverse]
    exact List.all_takeWhile

theorem matched_no_trailing_space (consumed : List Char) (c : Char) (h : (matched consumed).getLast? = some c) : isSpace c = false := by
  simp only [matched, List.getLast?_reverse] at h
  cases hd : consumed.reverse.dropWhile isSpace with
  | nil => rw [hd] at h; cases h
  | cons x r =>
    rw [hd] at h
    simp only [List.head?_cons, Option.some.injEq] at h
    subst h
    have := List.head_dropWhile_not isSpace (l := consumed.reverse) (by rw [hd]; simp)
    simp only [hd, List.head_cons] at this
    simpa using this

example : matched "2d6  \n".toList = "2d6".toList ∧ restInput "2d6  \n".toList "x".toList = "  \nx".toList := by decide

/-! ### look-ahead contributes nothing -/

set_option maxRecDepth 100000 in
theorem grammar_skipOK : ((List.range DS.Gen.Grammar.rules.size).all fun i =>
    skipOK DS.Gen.Actions.acts DS.Gen.Grammar.rules.size (DS.Gen.Grammar.rules[i]!)) = true := by decide +kernel

theorem lookahead_contributes_nothing (input : Array Nat) (maxCnt : Nat) (custom : Nat → Nat) (fuel : Nat) (e : PExpr) (s : PState)
    (he : skipOK DS.Gen.Actions.acts DS.Gen.Grammar.rules.size e = true) (hs : s.skip > 0) :
    Same s (parseExpr (envOf input maxCnt custom) fuel e s).1 := by
  have hr : ∀ i, i < (envOf input maxCnt custom).rules.size →
      skipOK (envOf input maxCnt custom).acts (envOf input maxCnt custom).rules.size ((envOf input maxCnt custom).rules[i]!) = true := by
    intro i hi
    have := grammar_skipOK
    simp only [List.all_eq_true, List.mem_range] at this
    exact this i hi
  exact (skip_pure (envOf input maxCnt custom) hr fuel).1 e he s hs

/-- in particular an `&e` / `!e` node evaluated in ordinary mode leaves ParserData as it was -/
theorem and_predicate_pure (input : Array Nat) (maxCnt : Nat) (custom : Nat → Nat) (fuel : Nat) (i : Nat) (e : PExpr) (s : PState)
    (he : skipOK DS.Gen.Actions.acts DS.Gen.Grammar.rules.size e = true) :
    (parseNode (envOf input maxCnt custom) (fuel + 1) (.and_ i e) s).1.trace = s.trace ∧
    (parseNode (envOf input maxCnt custom) (fuel + 1) (.and_ i e) s).1.cfg = s.cfg := by
  simp only [parseNode]
  have := lookahead_contributes_nothing input maxCnt custom fuel e { s with skip := s.skip + 1 } he (by simp only; omega)
  exact ⟨this.trace, this.cfg⟩

end DS.Props.C03
