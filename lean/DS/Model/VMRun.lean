/-
  Instruction dispatch (the `for`/`switch` of evaluate) and the run loop.
-/
import DS.Model.VM

namespace DS.VM
open DS.Roll (wrap64)

/-- result of executing one instruction -/
inductive StepR where
  | next (g : G) (f : Frame)           -- continue at f.pc (already advanced)
  | done (g : G) (f : Frame)           -- ret / halt: solveDetail and stop
  | stop (g : G) (f : Frame) (r : Res Unit)   -- error / panic / unsupported / diverge

def Res.cast {α β} : Res α → Res β
  | .ok _ => .unsup "cast"
  | .err e => .err e | .panic s => .panic s | .unsup w => .unsup w | .diverge => .diverge

/-- ItemGet -/
def itemGet (g : G) (obj idx : Val) : Res (Option Val) :=
  match obj with
  | .arr a =>
    (match idx with
     | .int i =>
       let l := g.heap.arrOf a
       (match getRealIndex i l.length with
        | .ok j => .ok (some (l.getD j.toNat .null))
        | .error e => .err e)
     | _ => .err ("类型错误: 数字下标必须为数字，不能为 " ++ typeName idx))
  | .dict a =>
    (match asDictKey g.heap idx with
     | .ok k => .ok (dictGet (g.heap.dictOf a) k)
     | .error e => .err e)
  | .str s =>
    (match idx with
     | .int i =>
       let rs := strRunes s
       let j := getClampRealIndex i rs.length
       if j.toNat + 1 ≤ rs.length then .ok (some (.str (String.ofList ((rs.drop j.toNat).take 1))))
       else .err "无法获取此下标"
     | _ => .err ("类型错误: 数字下标必须为数字，不能为 " ++ typeName idx))
  | .nobj _ => .err "此类型无法取下标"
  | _ => .err "此类型无法取下标"

/-- ItemSet (val already cloned) -/
def itemSet (g : G) (obj idx val : Val) : G × Res Unit :=
  match obj with
  | .arr a =>
    (match idx with
     | .int i =>
       let l := g.heap.arrOf a
       (match getRealIndex i l.length with
        | .ok j => ({ g with heap := g.heap.setArr a (l.set j.toNat val) }, .ok ())
        | .error e => (g, .err e))
     | _ => (g, .err ("类型错误: 数字下标必须为数字，不能为 " ++ typeName idx)))
  | .dict a =>
    (match asDictKey g.heap idx with
     | .ok k => ({ g with heap := g.heap.setDict a (dictSet (g.heap.dictOf a) k val) }, .ok ())
     | .error e => (g, .err e))
  | .nobj _ => (g, .err "此类型无法赋值下标")
  | _ => (g, .err "此类型无法赋值下标")

/-- GetSliceEx -/
def getSlice (g : G) (obj a b : Val) : G × Res Val :=
  let a := match a with | .null => Val.int 0 | x => x
  match valLength g.heap obj with
  | .error e => (g, .err e)
  | .ok len =>
    let b := match b with | .null => Val.int len | x => x
    match a, b with
    | .int va, .int vb =>
      let ia := getClampRealIndex va len
      let ib := getClampRealIndex vb len
      let ia := if ia > ib then ib else ia
      (match obj with
       | .str s => (g, .ok (.str (String.ofList (((strRunes s).take ib.toNat).drop ia.toNat))))
       | .arr x =>
         let (h', addr) := g.heap.alloc (.arr (((g.heap.arrOf x).take ib.toNat).drop ia.toNat))
         ({ g with heap := h' }, .ok (.arr addr))
       | _ => (g, .err "这个类型无法取得分片"))
    | .int _, _ => (g, .err "第二个值类型错误")
    | _, _ => (g, .err "第一个值类型错误")

/-- SetSliceEx -/
def setSlice (g : G) (obj a b val : Val) : G × Res Unit :=
  let a := match a with | .null => Val.int 0 | x => x
  match obj with
  | .arr x =>
    let l := g.heap.arrOf x
    let b := match b with | .null => Val.int l.length | y => y
    (match a, b with
     | .int va, .int vb =>
       (match val with
        | .arr y =>
          let l2 := g.heap.arrOf y
          let ia := getClampRealIndex va l.length
          let ib := getClampRealIndex vb l.length
          let ia := if ia > ib then ib else ia
          -- growing an array beyond 512 elements is refused (the cap of ranges, repeats and concatenations)
          let off : Int := (l2.length : Int) - (ib - ia)
          if off > 0 && (l.length : Int) + off > 512 then (g, .err "不能一次性创建过长的数组") else
          ({ g with heap := g.heap.setArr x (l.take ia.toNat ++ l2 ++ l.drop ib.toNat) }, .ok ())
        | _ => (g, .err "val 的类型必须是一个列表"))
     | .int _, _ => (g, .err "第二个值类型错误")
     | _, _ => (g, .err "第一个值类型错误"))
  | _ => (g, .err "这个类型无法赋值分片")

/-- AttrSet (val already cloned); `false` = unsupported type -/
def attrSet (g : G) (obj : Val) (name : String) (val : Val) : G × Bool :=
  match obj with
  | .comp a =>
    (match g.heap[a]? with
     | some (.comp e attrsOpt code) =>
       let (g, at') := match attrsOpt with
         | some x => (g, x)
         | none =>
           let (h', x) := g.heap.alloc (.dict [])
           ({ g with heap := (if a < h'.size then h'.set! a (.comp e (some x) code) else h') }, x)
       (attrsStore g at' name val, true)
     | _ => (g, false))
  | .dict a => ({ g with heap := g.heap.setDict a (dictSet (g.heap.dictOf a) name val) }, true)
  | _ => (g, false)

def updLast (ds : List Span) (f : Span → Span) : Option (List Span) :=
  match ds.reverse with
  | [] => none
  | l :: rest => some ((f l :: rest).reverse)

def setHeadDice (f : Frame) (fn : DiceState → DiceState) : Option Frame :=
  match f.dice with
  | [] => none
  | d :: r => some { f with dice := fn d :: r }

/-- the `[dD][优優劣][势勢]` test on the dice text -/
def hasAdvantageMark (bs : List Nat) : Bool :=
  let s := bytesToString bs
  let cs := s.toList
  let rec go : List Char → Bool
    | a :: b :: c :: r =>
      ((a == 'd' || a == 'D') && (b == '优' || b == '優' || b == '劣') && (c == '势' || c == '勢')) || go (b :: c :: r)
    | _ => false
  go cs

/-- one dispatch of the evaluate loop for the instruction at f.pc (already charged) -/
def exec (sub : SubRun) (g : G) (f : Frame) (ins : Instr) : StepR :=
  let c := f.ctx
  let f := { f with pc := f.pc + 1 }
  let err (g : G) (f : Frame) (m : String) : StepR := .stop g f (.err m)
  let pan (g : G) (f : Frame) (s : String) : StepR := .stop g f (.panic s)
  let bad {α} (g : G) (f : Frame) (r : Res α) : StepR := .stop g f r.cast
  let pushV (g : G) (f : Frame) (v : Val) : StepR :=
    match f.push v with
    | .ok f' => .next g f'
    | r => bad g f r
  let jump (g : G) (f : Frame) (off : Option Int) : StepR :=
    match off with
    | none => pan g f "nil operand type assertion@jump"
    | some o =>
      let t : Int := (f.pc : Int) + o
      if t < 0 then pan g f "index out of range@jump" else .next g { f with pc := t.toNat }
  match ins with
  | .pushInt i => pushV g f (.int i)
  | .pushFlt x => pushV g f (.float x)
  | .pushStr s => pushV g f (.str s)
  | .pushArr n =>
    (match f.popN n with
     | .ok (vs, f') => let (h', a) := g.heap.alloc (.arr vs); pushV { g with heap := h' } f' (.arr a)
     | r => bad g f r)
  | .pushDict n =>
    (match f.popN (n * 2) with
     | .ok (vs, f') =>
       let rec build (l : List Val) (acc : List (String × Val)) : Except String (List (String × Val)) :=
         match l with
         | k :: v :: r =>
           (match asDictKey g.heap k with
            | .ok ks => build r (dictSet acc ks v)
            | .error e => .error e)
         | _ => .ok acc
       (match build vs [] with
        | .ok kv => let (h', a) := g.heap.alloc (.dict kv); pushV { g with heap := h' } f' (.dict a)
        | .error e => err g f' e)
     | r => bad g f r)
  | .pushConst v =>
    -- a computed-value literal yields a NEW computed value each time it is executed (same text and code, no attributes yet);
    -- a function literal is the constant itself
    (match v with
     | .comp a =>
       (match g.heap[a]? with
        | some (.comp e _ code) => let (h', a') := g.heap.alloc (.comp e none code); pushV { g with heap := h' } f (.comp a')
        | _ => pushV g f v)
     | _ => pushV g f v)
  | .pushNull => pushV g f .null
  | .pushThis => pushV g f .local_
  | .pushRange =>
    (match f.pop2 with
     | .ok (a, b, f') =>
       (match a, b with
        | .int x, .int y =>
          -- the distance is computed on the side that cannot be negative; a negative value means it exceeded int64
          let (step, len1) := if y < x then ((-1 : Int), wrap64 (x - y)) else ((1 : Int), wrap64 (y - x))
          if len1 < 0 || len1 ≥ 512 then err g f' "不能一次性创建过长的数组"
          else
            let n := (len1 + 1).toNat
            let vals := (List.range n).map (fun (k : Nat) => Val.int (wrap64 (x + step * (k : Int))))
            let (h', addr) := g.heap.alloc (.arr vals); pushV { g with heap := h' } f' (.arr addr)
        | _, _ => err g f' "左右两个区间必须都是数字类型")
     | r => bad g f r)
  | .pushLast =>
    (match f.lastPop with
     | .none => err g f "非法调用指令 push.last"
     | .slot i => pushV g f (f.stack[i]!)
     | .val v => pushV g f v)
  | .pushDefExpr =>
    if g.cfg.defaultDiceSideExpr != "" then .stop g f (.unsup "DefaultDiceSideExpr (needs the parser)") else
    (match f.push (.int 100) with
     | .ok f1 =>
       (match f1.details.getLast? with
        | none => pan g f1 "index out of range [-1]@push.def_expr details"
        | some d =>
          if d.b < 0 || d.e < d.b || d.e.toNat > f1.srcBytes.length then pan g f1 "slice bounds out of range@push.def_expr"
          else
            let dText := (f1.srcBytes.take d.e.toNat).drop d.b.toNat
            if hasAdvantageMark dText then .next g f1 else
            (match f1.dice with
             | [] => pan g f1 "index out of range [-1]@push.def_expr diceStates"
             | s :: _ =>
               let topS := valToString g.heap (f1.stack[f1.top - 1]!)
               let e0 := if s.times > 1 then toString s.times ++ "D" ++ topS else "D" ++ topS
               let e1 := if s.keepLH == 1 then e0 ++ "kl" ++ toString s.low else if s.keepLH == 2 then e0 ++ "kh" ++ toString s.high
                         else if s.keepLH == 3 then e0 ++ "dl" ++ toString s.low else if s.keepLH == 4 then e0 ++ "dh" ++ toString s.high else e0
               let e2 := match s.dmin with | some m => e1 ++ "min" ++ toString m | none => e1
               let e3 := match s.dmax with | some m => e2 ++ "max" ++ toString m | none => e2
               (match updLast f1.details (fun sp => { sp with expr := e3 }) with
                | some ds => .next g { f1 with details := ds }
                | none => pan g f1 "details")))
     | r => bad g f r)
  | .logicAnd =>
    (match f.pop2 with
     | .ok (a, b, f') => pushV g f' (if !(asBool g.heap a) then a else b)
     | r => bad g f r)
  | .invoke n =>
    (match f.popN n with
     | .ok (args, f1) =>
       (match f1.pop with
        | .ok (fo, f2) =>
          (match fo with
           | .func a =>
             (match funcInvoke sub g c a args with
              | (g', .ok v) => pushV g' f2 v
              | (g', r) => bad g' f2 r)
           | .nfunc name st sa =>
             (match nativeCall sub g c name st sa args with
              | (g', .ok v) => pushV g' f2 v
              | (g', r) => bad g' f2 r)
           | _ =>
             -- Go sets ctx.Error and keeps looping: the next dispatch (if any) is still charged before the error is seen
             let msg := "类型错误: [" ++ valToString g.heap fo ++ "]无法被调用，必须是一个函数"
             if f2.pc < f2.code.size then
               let g1 := addOps g c 1
               if overLimit g1 (getOps g1 c) then err g1 f2 "允许算力上限" else err g1 f2 msg
             else err g f2 msg)
        | r => bad g f1 r)
     | r => bad g f r)
  | .itemGet =>
    (match f.pop with
     | .ok (idx, f1) =>
       (match f1.pop with
        | .ok (obj, f2) =>
          (match itemGet g obj idx with
           | .ok (some v) => pushV g f2 v
           | .ok none => pushV g f2 .null
           | r => bad g f2 r)
        | r => bad g f1 r)
     | r => bad g f r)
  | .itemSet =>
    (match f.pop with
     | .ok (val, f1) =>
       (match f1.pop with
        | .ok (idx, f2) =>
          (match f2.pop with
           | .ok (obj, f3) =>
             (match itemSet g obj idx val with
              | (g', .ok _) => pushV g' f3 val
              | (g', r) => bad g' f3 r)
           | r => bad g f2 r)
        | r => bad g f1 r)
     | r => bad g f r)
  | .attrSet name =>
    (match f.pop2 with
     | .ok (attrVal, obj, f') =>
       (match attrSet g obj name attrVal with
        | (g', true) => pushV g' f' attrVal
        | (g', false) => err g' f' "不支持的类型：当前变量无法用.来设置属性")
     | r => bad g f r)
  | .attrGet name =>
    (match f.pop with
     | .ok (obj, f') =>
       (match attrGet sub g c obj name with
        | (g', .ok (some v)) => pushV g' f' v
        | (g', .ok none) => err g' f' "不支持的类型：当前变量无法用.来取属性"
        | (g', r) => bad g' f' r)
     | r => bad g f r)
  | .sliceGet =>
    (match f.pop with
     | .ok (step, f1) =>
       (match step with
        | .null =>
          (match f1.pop2 with
           | .ok (a, b, f2) =>
             (match f2.pop with
              | .ok (obj, f3) =>
                (match getSlice g obj a b with
                 | (g', .ok v) => pushV g' f3 v
                 | (g', r) => bad g' f3 r)
              | r => bad g f2 r)
           | r => bad g f1 r)
        | _ => err g f1 "尚不支持分片步长")
     | r => bad g f r)
  | .sliceSet =>
    (match f.pop with
     | .ok (val, f0) =>
       (match f0.pop with
        | .ok (step, f1) =>
          (match step with
           | .null =>
             (match f1.pop2 with
              | .ok (a, b, f2) =>
                (match f2.pop with
                 | .ok (obj, f3) =>
                   (match setSlice g obj a b val with
                    | (g', .ok _) => pushV g' f3 val
                    | (g', r) => bad g' f3 r)
                 | r => bad g f2 r)
              | r => bad g f1 r)
           | _ => err g f1 "尚不支持分片步长")
        | r => bad g f0 r)
     | r => bad g f r)
  | .ret => .done g f
  | .halt => .done g f
  | .ldFs n =>
    let num := n.toNat
    if f.top < num then err g f "E3:无效的表达式" else
    let parts := (List.range num).map (fun i => valToString g.heap (f.stack[f.top - num + i]!))
    -- the cap is checked after each part is appended
    let rec tooLong (l : List String) (acc : Nat) : Bool :=
      match l with
      | [] => false
      | p :: r => if acc + p.utf8ByteSize > maxStringLength then true else tooLong r (acc + p.utf8ByteSize)
    if tooLong parts 0 then err g f "不能一次性创建过长的字符串" else
    let s := String.join parts
    let f1 := { f with top := f.top - num }
    pushV g f1 (.str s)
  | .ld name | .ldRaw name =>
    let isRaw := match ins with | .ldRaw _ => true | _ => false
    (match loadName sub g c name isRaw with
     | (g', .ok (v, _)) => pushV g' f v
     | (g', r) => bad g' f r)
  | .ldD name =>
    (match updLast f.details (fun sp => { sp with tag := "load", text := "" }) with
     | none => pan g f "index out of range [-1]@ld.d details"
     | some ds0 =>
       let f := { f with details := ds0 }
       (match loadName sub g c name false with
        | (g', .ok (v, upd)) =>
          let ds1 := (updLast f.details (fun sp =>
            { sp with tag := upd.tag.getD sp.tag, text := upd.text.getD sp.text, ret := (match upd.ret with | some r => some r | none => sp.ret) })).getD f.details
          pushV g' { f with details := ds1 } v
        | (g', r) => bad g' f r))
  | .store name =>
    if f.top == 0 then pan g f "index out of range [-1]@store" else
    .next (storeName g c name (f.stack[f.top - 1]!)) f
  | .noop _ => .next g f
  | .je off | .jeDup off =>
    (match f.pop with
     | .ok (v, f') =>
       if asBool g.heap v then
         (match jump g f' off with
          | .next g1 f1 => (match ins with | .jeDup _ => pushV g1 f1 v | _ => .next g1 f1)
          | r => r)
       else .next g f'
     | r => bad g f r)
  | .jne off =>
    (match f.pop with
     | .ok (v, f') => if !(asBool g.heap v) then jump g f' off else .next g f'
     | r => bad g f r)
  | .jmp off => jump g f off
  | .pop => (match f.pop with | .ok (_, f') => .next g f' | r => bad g f r)
  | .popN n => (match f.popN n with | .ok (_, f') => .next g f' | r => bad g f r)
  | .bin op =>
    (match f.pop2 with
     | .ok (a, b, f') =>
       (match binOp g.heap g.cfg.ignoreDiv0 op a b with
        | (h', .ok v) => pushV { g with heap := h' } f' v
        | (h', r) => bad { g with heap := h' } f' r)
     | r => bad g f r)
  | .neg | .pos =>
    (match f.pop with
     | .ok (v, f') =>
       let isNeg := match ins with | .neg => true | _ => false
       (match (if isNeg then opNeg v else opPos v) with
        | some r => pushV g f' r
        | none => err g f' ("此类型无法使用一元算符 " ++ (if isNeg then "neg" else "pos") ++ ": " ++ typeName v))
     | r => bad g f r)
  | .diceInit => .next g { f with dice := {} :: f.dice }
  | .diceSetTimes =>
    (match f.pop with
     | .ok (v, f') =>
       (match readInt v with
        | some t =>
          if t ≤ 0 then err g f' "骰点次数不为正整数" else
          (match setHeadDice f' (fun d => { d with times := t }) with
           | some f2 => .next g f2
           | none => pan g f' "index out of range [-1]@diceStates")
        | none => err g f' "骰点次数不为正整数")
     | r => bad g f r)
  | .diceSetKL | .diceSetKH | .diceSetDL | .diceSetDH | .diceSetMin | .diceSetMax =>
    (match f.pop with
     | .ok (v, f') =>
       let isMM := match ins with | .diceSetMin | .diceSetMax => true | _ => false
       if isMM && (readInt v).isNone then
         err g f' (match ins with | .diceSetMin => "骰子的 min 参数不为整数" | _ => "骰子的 max 参数不为整数")
       else
       let i := (readInt v).getD 0
       let upd : DiceState → DiceState := match ins with
         | .diceSetKL => fun d => { d with keepLH := 1, low := i }
         | .diceSetKH => fun d => { d with keepLH := 2, high := i }
         | .diceSetDL => fun d => { d with keepLH := 3, low := i }
         | .diceSetDH => fun d => { d with keepLH := 4, high := i }
         | .diceSetMin => fun d => { d with dmin := some i }
         | _ => fun d => { d with dmax := some i }
       (match setHeadDice f' upd with
        | some f2 => .next g f2
        | none => pan g f' "index out of range [-1]@diceStates")
     | r => bad g f r)
  | .markDetail b e => .next g { f with details := f.details ++ [{ b := b, e := e }] }
  | .dice =>
    (match f.dice with
     | [] => pan g f "index out of range [-1]@diceStates"
     | ds :: drest =>
       (match f.pop with
        | .ok (v, f') =>
          (match readInt v with
           | none => err g f' "骰子面数不为正整数"
           | some sides =>
             if sides ≤ 0 then err g f' "骰子面数不为正整数"
             else if (ds.keepLH == 1 || ds.keepLH == 3) && ds.low ≤ 0 then err g f' "骰子取低个数不为正整数"
             else if (ds.keepLH == 2 || ds.keepLH == 4) && ds.high ≤ 0 then err g f' "骰子取高个数不为正整数"
             else
               let g1 := addOps g c ds.times
               if overLimit g1 (getOps g1 c) then err g1 f' "允许算力上限" else
               (match drawWith g1.rng (DS.Roll.rollCommon ds.times sides ds.dmin ds.dmax ds.keepLH ds.low ds.high (mode g1.cfg)) with
                | none => .stop g1 f' .diverge
                | some (r, st) =>
                  let g2 := { g1 with rng := st }
                  let f2 := { f' with dice := drest }
                  (match updLast f2.details (fun sp => { sp with ret := some (.int r.num), text := r.text, tag := "dice" }) with
                   | none => pan g2 f2 "index out of range [-1]@dice details"
                   | some dl => pushV g2 { f2 with details := dl } (.int r.num))))
        | r => bad g f r))
  | .diceCustom => .stop g f (.unsup "dice.custom (host callback)")
  | .diceFate =>
    (match drawWith g.rng (DS.Roll.rollFate (mode g.cfg)) with
     | none => .stop g f .diverge
     | some ((v, t), st) =>
       let g1 := { g with rng := st }
       (match updLast f.details (fun sp => { sp with ret := some (.int v), text := t, tag := "dice-fate" }) with
        | none => pan g1 f "index out of range [-1]@dice.fate details"
        | some dl => pushV g1 { f with details := dl } (.int v)))
  | .cocBonus | .cocPenalty =>
    (match f.pop with
     | .ok (v, f') =>
       (match readInt v with
        | none => err g f' ("E6: 类型错误, 骰点参数必须为整数，不能为 " ++ typeName v)
        | some n =>
          if n < 0 then err g f' "奖励骰/惩罚骰个数不能为负数" else
          let g1 := addOps g c n
          if overLimit g1 (getOps g1 c) then err g1 f' "允许算力上限" else
          let isBonus := match ins with | .cocBonus => true | _ => false
          (match drawWith g1.rng (DS.Roll.rollCoC isBonus n (mode g1.cfg)) with
           | none => .stop g1 f' .diverge
           | some ((r, t), st) =>
             let g2 := { g1 with rng := st }
             (match updLast f'.details (fun sp => { sp with ret := some (.int r), text := t, tag := if isBonus then "dice-coc-bonus" else "dice-coc-penalty" }) with
              | none => pan g2 f' "index out of range [-1]@coc details"
              | some dl => pushV g2 { f' with details := dl } (.int r))))
     | r => bad g f r)
  | .wodInit => .next g { f with wodSaved := (f.wodPool, f.wodPoints, f.wodThreshold, f.wodGE) :: f.wodSaved,
                                 wodPool := 1, wodPoints := 10, wodThreshold := 8, wodGE := true }
  | .wodPoints | .wodThreshold | .wodThresholdQ | .wodPool | .dcPool | .dcPoints =>
    (match f.pop with
     | .ok (v, f') =>
       (match readInt v with
        | none => err g f' ("E6: 类型错误, 骰点参数必须为整数，不能为 " ++ typeName v)
        | some i =>
          .next g (match ins with
            | .wodPoints => { f' with wodPoints := i }
            | .wodThreshold => { f' with wodThreshold := i, wodGE := true }
            | .wodThresholdQ => { f' with wodThreshold := i, wodGE := false }
            | .wodPool => { f' with wodPool := i }
            | .dcPool => { f' with dcPool := i }
            | _ => { f' with dcPoints := i }))
     | r => bad g f r)
  | .diceWod =>
    (match f.pop with
     | .ok (v, f') =>
       (match readInt v with
        | none => err g f' ("E6: 类型错误, 骰点参数必须为整数，不能为 " ++ typeName v)
        | some addLine =>
          if f'.wodPool < 1 || f'.wodPool > 20000 then err g f' "E7: 非法数值, 骰池范围是1到20000"
          else if addLine != 0 && addLine < 2 then err g f' "E7: 非法数值, 加骰线必须为0[不加骰]，或≥2"
          else if f'.wodPoints < 1 then err g f' "E7: 非法数值, 面数至少为1"
          else if f'.wodThreshold < 1 then err g f' "E7: 非法数值, 成功线至少为1"
          else
            let budget : Option Int := if g.cfg.opLimit > 0 then some (g.cfg.opLimit - getOps g c) else none
            (match drawLoop g.rng (fun ws => DS.Roll.rollWoD 40000 addLine f'.wodPool f'.wodPoints f'.wodThreshold f'.wodGE (mode g.cfg) ws budget) with
             | some (some (r, st)) =>
               let g1 := addOps { g with rng := st } c r.charged
               if r.over then err g1 f' "允许算力上限" else
               (match updLast f'.details (fun sp => { sp with ret := some (.int r.value), text := r.text, tag := "dice-wod" }) with
                | none => pan g1 f' "index out of range [-1]@dice.wod details"
                | some dl =>
                  -- the roll is done: the enclosing term (if any) gets its parameters back
                  (match f'.wodSaved with
                   | (p, q, t, ge) :: rest => pushV g1 { f' with details := dl, wodPool := p, wodPoints := q, wodThreshold := t, wodGE := ge, wodSaved := rest } (.int r.value)
                   | [] => pushV g1 { f' with details := dl } (.int r.value)))
             | _ => .stop g f' .diverge))
     | r => bad g f r)
  | .dcInit => .next g { f with dcSaved := (f.dcPool, f.dcPoints) :: f.dcSaved, dcPool := 1, dcPoints := 10 }
  | .diceDC =>
    (match f.pop with
     | .ok (v, f') =>
       (match readInt v with
        | none => err g f' ("E6: 类型错误, 骰点参数必须为整数，不能为 " ++ typeName v)
        | some addLine =>
          if f'.dcPool < 1 || f'.dcPool > 20000 then err g f' "E7: 非法数值, 骰池范围是1到20000"
          else if addLine < 2 then err g f' "E7: 非法数值, 加骰线必须大于等于2"
          else if f'.dcPoints < 1 then err g f' "E7: 非法数值, 面数至少为1"
          else
            let budget : Option Int := if g.cfg.opLimit > 0 then some (g.cfg.opLimit - getOps g c) else none
            (match drawLoop g.rng (fun ws => DS.Roll.rollDC 40000 addLine f'.dcPool f'.dcPoints (mode g.cfg) ws budget) with
             | some (some (r, st)) =>
               let g1 := addOps { g with rng := st } c r.charged
               if r.over then err g1 f' "允许算力上限" else
               (match updLast f'.details (fun sp => { sp with ret := some (.int r.value), text := r.text, tag := "dice-dc" }) with
                | none => pan g1 f' "index out of range [-1]@dice.dc details"
                | some dl =>
                  (match f'.dcSaved with
                   | (p, q) :: rest => pushV g1 { f' with details := dl, dcPool := p, dcPoints := q, dcSaved := rest } (.int r.value)
                   | [] => pushV g1 { f' with details := dl } (.int r.value)))
             | _ => .stop g f' .diverge))
     | r => bad g f r)
  | .blockPush =>
    if f.blocks.length ≥ 20 then err g f "语句块嵌套层数过多"
    else .next g { f with blocks := f.top :: f.blocks }
  | .blockPop =>
    (match f.blocks with
     | [] => pan g f "index out of range [-1]@block.pop"
     | t :: rest =>
       let f1 := { f with top := t, blocks := rest }
       pushV g f1 (if f1.fblocks.length > 0 then .str "" else .null))
  | .fstrPush =>
    if f.fblocks.length ≥ 20 then err g f "字符串模板嵌套层数过多"
    else .next g { f with fblocks := f.top :: f.fblocks }
  | .fstrPop =>
    (match f.fblocks with
     | [] => pan g f "index out of range [-1]@fstr.block.pop"
     | t :: rest =>
       if t != f.top then
         (match f.pop with
          | .ok (v, f1) =>
            -- the hole's value becomes text here (not when the template is joined)
            if (valToString g.heap v).utf8ByteSize > maxStringLength then err g f1 "不能一次性创建过长的字符串"
            else pushV g { f1 with top := t, fblocks := rest } (.str (valToString g.heap v))
          | r => bad g f r)
       else pushV g { f with top := t, fblocks := rest } (.str ""))
  | .stSet | .stX0 =>
    (match f.pop2 with
     | .ok (nm, v, f') =>
       let kind := match ins with | .stSet => "set" | _ => "set.x0"
       let name := match nm with | .str s => s | _ => ""
       .next { g with stLog := g.stLog ++ [kind ++ "|" ++ name ++ "|" ++ valToRepr g.heap v ++ "|||"] } f'
     | r => bad g f r)
  | .stMod op text =>
    (match f.pop2 with
     | .ok (nm, v, f') =>
       let name := match nm with | .str s => s | _ => ""
       if op == "-" then
         (match opNeg v with
          | some nv => .next { g with stLog := g.stLog ++ ["mod|" ++ name ++ "|" ++ valToRepr g.heap nv ++ "||" ++ op ++ "|" ++ text] } f'
          | none => err g f' ("此类型无法使用一元算符 neg: " ++ typeName v))
       else .next { g with stLog := g.stLog ++ ["mod|" ++ name ++ "|" ++ valToRepr g.heap v ++ "||" ++ op ++ "|" ++ text] } f'
     | r => bad g f r)
  | .stX1 =>
    (match f.pop with
     | .ok (v, f1) =>
       (match f1.pop with
        | .ok (ex, f2) =>
          (match f2.pop with
           | .ok (nm, f3) =>
             let name := match nm with | .str s => s | _ => ""
             .next { g with stLog := g.stLog ++ ["set.x1|" ++ name ++ "|" ++ valToRepr g.heap v ++ "|" ++ valToRepr g.heap ex ++ "||"] } f3
           | r => bad g f2 r)
        | r => bad g f1 r)
     | r => bad g f r)

/-- what `solveDetail` leaves in ctx.DetailSpans -/
def solvedSpans (g : G) (f : Frame) : List Span :=
  if f.force || (g.ctxs[f.ctx]!).depth == 0 then sortByBegin f.details else []

/-- the evaluate loop; `fuel` bounds dispatches + sub-VM nesting -/
def evalLoop : Nat → G → Frame → G × Res SubOut
  | 0, g, _ => (g, .diverge)
  | fuel+1, g, f =>
    if f.pc ≥ f.code.size then
      (g, .ok { top := if f.top == 0 then none else some (f.stack[f.top - 1]!), spans := solvedSpans g f })
    else
      -- numOpCountAdd(1); stack check; error check
      let g := addOps g f.ctx 1
      if overLimit g (getOps g f.ctx) then (g, .err "允许算力上限")
      else if f.top == stackSize then (g, .err "执行栈到达溢出线")
      else
        match exec (fun g' fr => evalLoop fuel g' fr) g f (f.code[f.pc]!) with
        | .next g' f' => evalLoop fuel g' f'
        | .done g' f' =>
          (g', .ok { top := if f'.top == 0 then none else some (f'.stack[f'.top - 1]!), spans := solvedSpans g' f' })
        | .stop g' _ r => (g', r.cast)

end DS.VM
