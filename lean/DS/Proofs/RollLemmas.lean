/- helper lemmas for the dice theorems (C04, C05, C15); may import single Mathlib modules -/
import DS.Model.Roll
import Mathlib.Data.Nat.Bitwise
import Mathlib.Data.Int.CardIntervalMod

namespace DS.Proofs
open DS.Roll DS.Rng

theorem pow2_of_and_pred : ∀ (n : Nat), 0 < n → n &&& (n-1) = 0 → ∃ k, n = 2^k := by
  intro n
  induction n using Nat.strong_induction_on with
  | _ n ih =>
    intro hn h
    rcases Nat.even_or_odd' n with ⟨m, hm | hm⟩
    · have hm0 : 0 < m := by omega
      have e1 : n = Nat.bit false m := by simp [Nat.bit_val, hm]
      have e2 : n - 1 = Nat.bit true (m-1) := by simp [Nat.bit_val]; omega
      rw [e2] at h
      rw [e1, Nat.land_bit] at h
      simp [Nat.bit_val] at h
      obtain ⟨k, hk⟩ := ih m (by omega) hm0 h
      exact ⟨k+1, by rw [hm, hk, Nat.pow_succ]; omega⟩
    · by_cases hm0 : m = 0
      · exact ⟨0, by simp [hm, hm0]⟩
      · have e1 : n = Nat.bit true m := by simp [Nat.bit_val, hm]
        have e2 : n - 1 = Nat.bit false m := by simp [Nat.bit_val]; omega
        rw [e2] at h
        rw [e1, Nat.land_bit] at h
        simp [Nat.bit_val] at h
        omega

theorem pred_mask (n : Nat) (hn : 0 < n) (hlt : n < two64) : (n + two64 - 1) % two64 = n - 1 := by
  unfold two64 at *; omega

theorem isPow2_iff (n : Nat) (hn : 0 < n) (hlt : n < two64) : isPow2 n = true ↔ ∃ k, n = 2^k := by
  unfold isPow2
  rw [pred_mask n hn hlt]
  constructor
  · intro h
    exact pow2_of_and_pred n hn (by simpa using h)
  · rintro ⟨k, rfl⟩
    simp [Nat.and_two_pow_sub_one_eq_mod]

theorem mask_eq_mod (n v : Nat) (hn : 0 < n) (hlt : n < two64) (hp : isPow2 n = true) :
    v &&& ((n + two64 - 1) % two64) = v % n := by
  obtain ⟨k, rfl⟩ := (isPow2_iff n hn hlt).1 hp
  rw [pred_mask _ hn hlt, Nat.and_two_pow_sub_one_eq_mod]

theorem ceiling_mod (n : Nat) (_hn : 0 < n) : ceiling n % n = 0 := by
  unfold ceiling
  exact Nat.sub_mod_eq_zero_of_mod_eq (by simp)

theorem ceiling_gt (n : Nat) (hn : 0 < n) (hlt : n < two64) : (two64 - 1) - n < ceiling n := by
  unfold ceiling
  have : (two64 - 1) % n < n := Nat.mod_lt _ hn
  have : (two64 - 1) % n ≤ two64 - 1 := Nat.mod_le _ _
  unfold two64 at *; omega

theorem rejectLoop_spec (c : Nat) : ∀ (ws : List Nat) (v r : Nat) (rest : List Nat),
    rejectLoop c v ws = some (r, rest) →
    ∃ rej, v :: ws = rej ++ r :: rest ∧ (∀ x ∈ rej, c ≤ x) ∧ r < c := by
  intro ws
  induction ws with
  | nil =>
    intro v r rest h
    simp only [rejectLoop] at h
    split at h
    · simp at h; obtain ⟨rfl, rfl⟩ := h; exact ⟨[], by simp, by simp, by assumption⟩
    · simp at h
  | cons w ws ih =>
    intro v r rest h
    simp only [rejectLoop] at h
    split at h
    · simp at h; obtain ⟨rfl, rfl⟩ := h; exact ⟨[], by simp, by simp, by assumption⟩
    · obtain ⟨rej, e, hr, hlt⟩ := ih w r rest h
      refine ⟨v :: rej, by simp [e], ?_, hlt⟩
      intro x hx
      simp at hx
      rcases hx with rfl | hx
      · omega
      · exact hr x hx

theorem rejectLoop_complete (c : Nat) : ∀ (rej : List Nat) (r : Nat) (rest : List Nat),
    (∀ x ∈ rej, c ≤ x) → r < c →
    ∀ v ws, v :: ws = rej ++ r :: rest → rejectLoop c v ws = some (r, rest) := by
  intro rej
  induction rej with
  | nil =>
    intro r rest _ hlt v ws e
    simp at e; obtain ⟨rfl, rfl⟩ := e
    cases ws <;> simp [rejectLoop, hlt]
  | cons x rej ih =>
    intro r rest hr hlt v ws e
    simp at e; obtain ⟨rfl, rfl⟩ := e
    have hx : c ≤ v := hr v (by simp)
    have hx' : ¬ v < c := by omega
    cases hrej : rej with
    | nil =>
      simp [rejectLoop, hx']
      exact ih r rest (fun y hy => hr y (by simp [hy])) hlt r rest (by simp [hrej])
    | cons y ys =>
      simp [rejectLoop, hx']
      exact ih r rest (fun z hz => hr z (by simp [hz])) hlt y (ys ++ r :: rest) (by simp [hrej])

/-- `_roll64` consumes a prefix of the stream -/
theorem roll64_prefix (n : Nat) (ws : List Nat) (r : Nat) (rest : List Nat)
    (h : roll64 n ws = some (r, rest)) : ∃ pre, ws = pre ++ rest := by
  cases ws with
  | nil => simp [roll64] at h
  | cons v vs =>
    simp only [roll64] at h
    split at h
    · simp at h; exact ⟨[v], by simp [h.2]⟩
    · split at h
      · split at h
        · simp at h
        · rename_i v' ws2 hrl
          simp at h; obtain ⟨_, rfl⟩ := h
          obtain ⟨rej, e, _, _⟩ := rejectLoop_spec _ _ _ _ _ hrl
          exact ⟨rej ++ [v'], by simp [e]⟩
      · simp at h; exact ⟨[v], by simp [h.2]⟩

/-- `Roll` consumes a prefix of the stream -/
theorem roll_prefix (sides mode : Int) (ws : List Nat) (r : Int) (rest : List Nat)
    (h : roll sides mode ws = some (r, rest)) : ∃ pre, ws = pre ++ rest := by
  unfold roll at h
  split at h
  · simp at h; exact ⟨[], by simp [h.2]⟩
  · split at h
    · simp at h; exact ⟨[], by simp [h.2]⟩
    · split at h
      · simp at h; exact ⟨[], by simp [h.2]⟩
      · split at h
        · simp at h
        · rename_i r0 w0 h64
          simp at h; obtain ⟨_, rfl⟩ := h
          exact roll64_prefix _ _ _ _ h64

/-- in min / max mode `Roll` never touches the stream -/
theorem roll_mode_no_draw (sides mode : Int) (hm : mode = -1 ∨ mode = 1) (ws : List Nat) :
    ∃ r, roll sides mode ws = some (r, ws) := by
  unfold roll
  split
  · exact ⟨_, rfl⟩
  · rcases hm with rfl | rfl
    · simp
    · simp

end DS.Proofs
