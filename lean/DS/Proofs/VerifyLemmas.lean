/-
  Soundness of the bytecode verifier with respect to the concrete skeleton semantics.
-/
import DS.Model.Verify

namespace DS.Verify

/-- base of the innermost open template hole (0 outside any hole) -/
def base (fb : List Nat) : Nat := fb.headD 0

/-- the abstract control stack describes the concrete block / hole stacks -/
def Tail : List Ctl → List Nat → List Nat → Prop
  | [], blocks, fb => blocks = [] ∧ fb = []
  | .block s :: rest, blocks, fb =>
    match blocks with
    | [] => False
    | bs :: blocks' => base fb + s ≤ bs ∧ Tail rest blocks' fb
  | .hole o :: rest, blocks, fb =>
    match fb with
    | [] => False
    | t :: fb' => base fb' + o ≤ t ∧ Tail rest blocks fb'

/-- concretisation: the skeleton state `s` is described by the abstract state `a` -/
def Rel (a : Abs) (s : SK) : Prop :=
  base s.fblocks + a.h ≤ s.top ∧ Tail a.ctl s.blocks s.fblocks ∧ a.dice ≤ s.dice ∧
  (a.det = true → 1 ≤ s.det) ∧ (a.wod = true → s.wod = true) ∧ (a.dc = true → s.dc = true)

theorem tail_mono : ∀ (c d : List Ctl) (blocks fb : List Nat), ctlLe c d = true → Tail d blocks fb → Tail c blocks fb
  | [], [], _, _, _, h => h
  | [], _ :: _, _, _, hle, _ => by simp [ctlLe] at hle
  | .block a :: r, [], _, _, hle, _ => by simp [ctlLe] at hle
  | .hole a :: r, [], _, _, hle, _ => by simp [ctlLe] at hle
  | .block a :: r, .hole b :: s, _, _, hle, _ => by simp [ctlLe] at hle
  | .hole a :: r, .block b :: s, _, _, hle, _ => by simp [ctlLe] at hle
  | .block a :: r, .block b :: s, blocks, fb, hle, h => by
    simp only [ctlLe, Bool.and_eq_true, decide_eq_true_eq] at hle
    cases blocks with
    | nil => simp [Tail] at h
    | cons bs bl =>
      simp only [Tail] at h ⊢
      exact ⟨by omega, tail_mono r s bl fb hle.2 h.2⟩
  | .hole a :: r, .hole b :: s, blocks, fb, hle, h => by
    simp only [ctlLe, Bool.and_eq_true, decide_eq_true_eq] at hle
    cases fb with
    | nil => simp [Tail] at h
    | cons t fb' =>
      simp only [Tail] at h ⊢
      exact ⟨by omega, tail_mono r s blocks fb' hle.2 h.2⟩

theorem le_sound (a b : Abs) (s : SK) (hle : a.le b = true) (h : Rel b s) : Rel a s := by
  simp only [Abs.le, Bool.and_eq_true, decide_eq_true_eq, Bool.or_eq_true, Bool.not_eq_true'] at hle
  obtain ⟨⟨⟨⟨⟨h1, h2⟩, h3⟩, h4⟩, h5⟩, h6⟩ := hle
  obtain ⟨r1, r2, r3, r4, r5, r6⟩ := h
  refine ⟨by omega, tail_mono _ _ _ _ h2 r2, by omega, ?_, ?_, ?_⟩
  · intro hd; rcases h4 with h4 | h4
    · rw [h4] at hd; cases hd
    · exact r4 h4
  · intro hd; rcases h5 with h5 | h5
    · rw [h5] at hd; cases hd
    · exact r5 h5
  · intro hd; rcases h6 with h6 | h6
    · rw [h6] at hd; cases hd
    · exact r6 h6


def nBlocks : List Ctl → Nat
  | [] => 0
  | .block _ :: r => nBlocks r + 1
  | .hole _ :: r => nBlocks r

def nHoles : List Ctl → Nat
  | [] => 0
  | .block _ :: r => nHoles r
  | .hole _ :: r => nHoles r + 1

theorem tail_lengths : ∀ (c : List Ctl) (blocks fb : List Nat), Tail c blocks fb → blocks.length = nBlocks c ∧ fb.length = nHoles c
  | [], blocks, fb, h => by simp only [Tail] at h; simp [h.1, h.2, nBlocks, nHoles]
  | .block s :: r, [], fb, h => by simp [Tail] at h
  | .block s :: r, bs :: bl, fb, h => by
    simp only [Tail] at h
    have := tail_lengths r bl fb h.2
    simp [nBlocks, nHoles, this.1, this.2]
  | .hole o :: r, blocks, [], h => by simp [Tail] at h
  | .hole o :: r, blocks, t :: fb', h => by
    simp only [Tail] at h
    have := tail_lengths r blocks fb' h.2
    simp [nBlocks, nHoles, this.1, this.2]

theorem target_le (size pc : Nat) (off : Option Int) (t : Nat) (h : target size pc off = some t) : t ≤ size := by
  unfold target at h
  cases off with
  | none => cases h
  | some o =>
    simp only at h
    split at h
    · cases h
    · rename_i hc
      injection h with h
      simp only [Bool.or_eq_true, decide_eq_true_eq, not_or, Int.not_lt] at hc
      omega

theorem sstep_pc_le (size : Nat) (k : Kind) (s s' : SK) (l : List SK) (hpc : s.pc < size) (h : sstep size k s = some l)
    (hm : s' ∈ l) : s'.pc ≤ size := by
  cases k with
  | jmp off =>
    simp only [sstep] at h
    split at h
    · rename_i t ht
      injection h with h; subst h; simp only [List.mem_singleton] at hm; subst hm
      exact target_le _ _ _ _ ht
    · cases h
  | je off =>
    simp only [sstep] at h
    split at h
    · cases h
    · split at h
      · rename_i t ht
        injection h with h; subst h
        simp only [List.mem_cons, List.not_mem_nil, or_false] at hm
        rcases hm with hm | hm <;> subst hm
        · simp only; omega
        · exact target_le _ _ _ _ ht
      · cases h
  | jne off =>
    simp only [sstep] at h
    split at h
    · cases h
    · split at h
      · rename_i t ht
        injection h with h; subst h
        simp only [List.mem_cons, List.not_mem_nil, or_false] at hm
        rcases hm with hm | hm <;> subst hm
        · simp only; omega
        · exact target_le _ _ _ _ ht
      · cases h
  | jeDup off =>
    simp only [sstep] at h
    split at h
    · cases h
    · split at h
      · rename_i t ht
        injection h with h; subst h
        simp only [List.mem_cons, List.not_mem_nil, or_false] at hm
        rcases hm with hm | hm <;> subst hm
        · simp only; omega
        · exact target_le _ _ _ _ ht
      · cases h
  | blockPop =>
    simp only [sstep] at h
    split at h
    · cases h
    · injection h with h; subst h; simp only [List.mem_singleton] at hm; subst hm; simp only; omega
  | fstrPop =>
    simp only [sstep] at h
    split at h
    · cases h
    · split at h
      · cases h
      · injection h with h; subst h; simp only [List.mem_singleton] at hm; subst hm; simp only; omega
  | stop => simp only [sstep] at h; injection h with h; subst h; cases hm
  | simple _ _ | peek _ | diceSet | dice | detUse _ _ | defExpr | wodSet | dcSet | wodRoll | dcRoll =>
    simp only [sstep] at h
    split at h
    · cases h
    · injection h with h; subst h; simp only [List.mem_singleton] at hm; subst hm; simp only; omega
  | blockPush | fstrPush | diceInit | markDetail | wodInit | dcInit =>
    simp only [sstep] at h
    injection h with h; subst h; simp only [List.mem_singleton] at hm; subst hm; simp only; omega

def Good (succs : List (Nat × Abs)) (r : Option (List SK)) : Prop :=
  match r with
  | none => False
  | some l => ∀ s' ∈ l, ∃ p ∈ succs, p.1 = s'.pc ∧ Rel p.2 s'

theorem good_one (pc : Nat) (a' : Abs) (s' : SK) (hpc : s'.pc = pc) (h : Rel a' s') : Good [(pc, a')] (some [s']) := by
  intro x hx; simp only [List.mem_singleton] at hx; subst hx
  exact ⟨_, List.mem_singleton.mpr rfl, hpc.symm, h⟩

theorem good_two (p1 p2 : Nat) (a1 a2 : Abs) (s1 s2 : SK) (h1 : s1.pc = p1) (h2 : s2.pc = p2) (r1 : Rel a1 s1) (r2 : Rel a2 s2) :
    Good [(p1, a1), (p2, a2)] (some [s1, s2]) := by
  intro x hx
  simp only [List.mem_cons, List.not_mem_nil, or_false] at hx
  rcases hx with hx | hx
  · subst hx; exact ⟨_, List.mem_cons_self, h1.symm, r1⟩
  · subst hx; exact ⟨_, List.mem_cons_of_mem _ List.mem_cons_self, h2.symm, r2⟩

theorem transfer_sound (size : Nat) (k : Kind) (a : Abs) (s : SK) (succs : List (Nat × Abs)) (hr : Rel a s)
    (ht : transfer size s.pc k a = .ok succs) : Good succs (sstep size k s) := by
  obtain ⟨r1, r2, r3, r4, r5, r6⟩ := hr
  cases k with
  | simple p q =>
    simp only [transfer] at ht
    split at ht
    · cases ht
    · injection ht with ht; subst ht
      have : ¬ s.top < p := by omega
      simp only [sstep, this, if_false]
      exact good_one _ _ _ rfl ⟨by simp only; omega, r2, r3, r4, r5, r6⟩
  | peek n =>
    simp only [transfer] at ht
    split at ht
    · cases ht
    · injection ht with ht; subst ht
      have : ¬ s.top < n := by omega
      simp only [sstep, this, if_false]
      exact good_one _ _ _ rfl ⟨r1, r2, r3, r4, r5, r6⟩
  | jmp off =>
    simp only [transfer] at ht
    split at ht
    · rename_i t ht'
      injection ht with ht; subst ht
      simp only [sstep, ht']
      exact good_one _ _ _ rfl ⟨r1, r2, r3, r4, r5, r6⟩
    · cases ht
  | stop =>
    simp only [transfer] at ht
    injection ht with ht; subst ht
    simp only [sstep]
    intro x hx; cases hx
  | je off =>
    simp only [transfer] at ht
    split at ht
    · cases ht
    · split at ht
      · rename_i t ht'
        injection ht with ht; subst ht
        have : ¬ s.top < 1 := by omega
        simp only [sstep, this, if_false, ht']
        exact good_two _ _ _ _ _ _ rfl rfl ⟨by simp only; omega, r2, r3, r4, r5, r6⟩ ⟨by simp only; omega, r2, r3, r4, r5, r6⟩
      · cases ht
  | jne off =>
    simp only [transfer] at ht
    split at ht
    · cases ht
    · split at ht
      · rename_i t ht'
        injection ht with ht; subst ht
        have : ¬ s.top < 1 := by omega
        simp only [sstep, this, if_false, ht']
        exact good_two _ _ _ _ _ _ rfl rfl ⟨by simp only; omega, r2, r3, r4, r5, r6⟩ ⟨by simp only; omega, r2, r3, r4, r5, r6⟩
      · cases ht
  | jeDup off =>
    simp only [transfer] at ht
    split at ht
    · cases ht
    · split at ht
      · rename_i t ht'
        injection ht with ht; subst ht
        have : ¬ s.top < 1 := by omega
        simp only [sstep, this, if_false, ht']
        exact good_two _ _ _ _ _ _ rfl rfl ⟨by simp only; omega, r2, r3, r4, r5, r6⟩ ⟨r1, r2, r3, r4, r5, r6⟩
      · cases ht
  | blockPush =>
    simp only [transfer] at ht
    injection ht with ht; subst ht
    simp only [sstep]
    refine good_one _ _ _ rfl ⟨r1, ?_, r3, r4, r5, r6⟩
    simp only [Tail]
    exact ⟨r1, r2⟩
  | blockPop =>
    simp only [transfer] at ht
    split at ht
    · rename_i sv rest hc
      injection ht with ht; subst ht
      rw [hc] at r2
      cases hb : s.blocks with
      | nil => rw [hb] at r2; simp [Tail] at r2
      | cons bs bl =>
        rw [hb] at r2; simp only [Tail] at r2
        simp only [sstep, hb]
        exact good_one _ _ _ rfl ⟨by simp only; omega, r2.2, r3, r4, r5, r6⟩
    · cases ht
  | fstrPush =>
    simp only [transfer] at ht
    injection ht with ht; subst ht
    simp only [sstep]
    refine good_one _ _ _ rfl ⟨by simp [base], ?_, r3, r4, r5, r6⟩
    simp only [Tail]
    exact ⟨r1, r2⟩
  | fstrPop =>
    simp only [transfer] at ht
    split at ht
    · rename_i o rest hc
      injection ht with ht; subst ht
      rw [hc] at r2
      cases hb : s.fblocks with
      | nil => rw [hb] at r2; simp [Tail] at r2
      | cons t fb' =>
        rw [hb] at r2 r1; simp only [Tail] at r2
        simp only [base, List.headD_cons] at r1
        have hne : (t != s.top && s.top == 0) = false := by
          cases h0 : (s.top == 0)
          · simp
          · have : s.top = 0 := by simpa using h0
            have : t = 0 := by omega
            simp [*]
        simp only [sstep, hb, hne, Bool.false_eq_true, if_false]
        exact good_one _ _ _ rfl ⟨by simp only; omega, r2.2, r3, r4, r5, r6⟩
    · cases ht
  | diceInit =>
    simp only [transfer] at ht
    injection ht with ht; subst ht
    simp only [sstep]
    exact good_one _ _ _ rfl ⟨r1, r2, by simp only; omega, r4, r5, r6⟩
  | markDetail =>
    simp only [transfer] at ht
    injection ht with ht; subst ht
    simp only [sstep]
    exact good_one _ _ _ rfl ⟨r1, r2, r3, by intro _; simp only; omega, r5, r6⟩
  | wodInit =>
    simp only [transfer] at ht
    injection ht with ht; subst ht
    simp only [sstep]
    exact good_one _ _ _ rfl ⟨r1, r2, r3, r4, by intro _; rfl, r6⟩
  | dcInit =>
    simp only [transfer] at ht
    injection ht with ht; subst ht
    simp only [sstep]
    exact good_one _ _ _ rfl ⟨r1, r2, r3, r4, r5, by intro _; rfl⟩
  | diceSet =>
    simp only [transfer] at ht
    split at ht
    · cases ht
    · split at ht
      · cases ht
      · injection ht with ht; subst ht
        have : (decide (s.top < 1) || decide (s.dice < 1)) = false := by simp; omega
        simp only [sstep, this, Bool.false_eq_true, if_false]
        exact good_one _ _ _ rfl ⟨by simp only; omega, r2, r3, r4, r5, r6⟩
  | dice =>
    simp only [transfer] at ht
    split at ht
    · cases ht
    · split at ht
      · cases ht
      · split at ht
        · cases ht
        · rename_i hd
          injection ht with ht; subst ht
          have hd' : a.det = true := by simpa using hd
          have := r4 hd'
          have : (decide (s.top < 1) || decide (s.dice < 1) || decide (s.det < 1)) = false := by simp; omega
          simp only [sstep, this, Bool.false_eq_true, if_false]
          exact good_one _ _ _ rfl ⟨r1, r2, by simp only; omega, r4, r5, r6⟩
  | detUse p q =>
    simp only [transfer] at ht
    split at ht
    · cases ht
    · split at ht
      · cases ht
      · rename_i hd
        injection ht with ht; subst ht
        have hd' : a.det = true := by simpa using hd
        have := r4 hd'
        have : (decide (s.top < p) || decide (s.det < 1)) = false := by simp; omega
        simp only [sstep, this, Bool.false_eq_true, if_false]
        exact good_one _ _ _ rfl ⟨by simp only; omega, r2, r3, r4, r5, r6⟩
  | defExpr =>
    simp only [transfer] at ht
    split at ht
    · cases ht
    · split at ht
      · cases ht
      · rename_i hd _
        injection ht with ht; subst ht
        have hd' : a.det = true := by simpa using hd
        have := r4 hd'
        have : (decide (s.det < 1) || decide (s.dice < 1)) = false := by simp; omega
        simp only [sstep, this, Bool.false_eq_true, if_false]
        exact good_one _ _ _ rfl ⟨by simp only; omega, r2, r3, r4, r5, r6⟩
  | wodSet =>
    simp only [transfer] at ht
    split at ht
    · cases ht
    · split at ht
      · cases ht
      · rename_i hw
        injection ht with ht; subst ht
        have hw' : a.wod = true := by simpa using hw
        have hsw := r5 hw'
        have : (decide (s.top < 1) || !s.wod) = false := by simp [hsw]; omega
        simp only [sstep, this, Bool.false_eq_true, if_false]
        exact good_one _ _ _ rfl ⟨by simp only; omega, r2, r3, r4, r5, r6⟩
  | dcSet =>
    simp only [transfer] at ht
    split at ht
    · cases ht
    · split at ht
      · cases ht
      · rename_i hw
        injection ht with ht; subst ht
        have hw' : a.dc = true := by simpa using hw
        have hsw := r6 hw'
        have : (decide (s.top < 1) || !s.dc) = false := by simp [hsw]; omega
        simp only [sstep, this, Bool.false_eq_true, if_false]
        exact good_one _ _ _ rfl ⟨by simp only; omega, r2, r3, r4, r5, r6⟩
  | wodRoll =>
    simp only [transfer] at ht
    split at ht
    · cases ht
    · split at ht
      · cases ht
      · split at ht
        · cases ht
        · rename_i hw hd
          injection ht with ht; subst ht
          have hw' : a.wod = true := by simpa using hw
          have hd' : a.det = true := by simpa using hd
          have hsw := r5 hw'
          have := r4 hd'
          have : (decide (s.top < 1) || !s.wod || decide (s.det < 1)) = false := by simp [hsw]; omega
          simp only [sstep, this, Bool.false_eq_true, if_false]
          exact good_one _ _ _ rfl ⟨r1, r2, r3, r4, r5, r6⟩
  | dcRoll =>
    simp only [transfer] at ht
    split at ht
    · cases ht
    · split at ht
      · cases ht
      · split at ht
        · cases ht
        · rename_i hw hd
          injection ht with ht; subst ht
          have hw' : a.dc = true := by simpa using hw
          have hd' : a.det = true := by simpa using hd
          have hsw := r6 hw'
          have := r4 hd'
          have : (decide (s.top < 1) || !s.dc || decide (s.det < 1)) = false := by simp [hsw]; omega
          simp only [sstep, this, Bool.false_eq_true, if_false]
          exact good_one _ _ _ rfl ⟨r1, r2, r3, r4, r5, r6⟩

end DS.Verify
