/-
  C01 — no input can crash the host.  Property theorems only.
  The VM model is bug-compatible: wherever the Go code would panic it returns `.panic site`.  The theorems below say
  where such outcomes can NOT come from; the remaining sites all need malformed bytecode (C08's subject) or are listed
  in known_findings.json.
-/
import DS.Model.VMRun

namespace DS.Props.C01
open DS.VM

/-- repeating an array never panics (after the repair: a negative or overflowing count is an error) -/
theorem arrayRepeat_total (h : Heap) (a : Nat) (t : Int) : (arrayRepeat h a t).2.isPanic = false := by
  unfold arrayRepeat
  simp only []
  split
  · rfl
  · split
    · rfl
    · split
      · rfl
      · rfl

/-- Operator layer: for EVERY operator, EVERY pair of run-time values (all type pairs, all payloads), every heap and
    both IgnoreDiv0 settings, the result is a value or an error — never a panic -/
theorem binOp_total (h : Heap) (ig : Bool) (op : BinOp) (a b : Val) : (binOp h ig op a b).2.isPanic = false := by
  cases op <;> cases a <;> cases b <;> simp only [binOp] <;>
    (first
      | rfl
      | exact arrayRepeat_total _ _ _
      | (repeat' split) <;> (first | rfl | exact arrayRepeat_total _ _ _))

/-- unary operators are total functions into `Option` (none = type error) -/
theorem unary_total (v : Val) : (opNeg v).isSome = true ∨ (opNeg v) = none := by
  cases v <;> simp [opNeg]

/-- indexing never panics: every index value, every container, every heap -/
theorem itemGet_total (g : G) (obj idx : Val) : (itemGet g obj idx).isPanic = false := by
  unfold itemGet
  cases obj <;> cases idx <;> simp only [] <;> (first | rfl | (repeat' split) <;> rfl)

/-- index assignment never panics -/
theorem itemSet_total (g : G) (obj idx val : Val) : (itemSet g obj idx val).2.isPanic = false := by
  unfold itemSet
  cases obj <;> cases idx <;> simp only [] <;> (first | rfl | (repeat' split) <;> rfl)

/-- slicing never panics (the clamped indices are always within the container) -/
theorem getSlice_total (g : G) (obj a b : Val) : (getSlice g obj a b).2.isPanic = false := by
  unfold getSlice
  simp only []
  (repeat' split) <;> rfl

theorem setSlice_total (g : G) (obj a b val : Val) : (setSlice g obj a b val).2.isPanic = false := by
  unfold setSlice
  simp only []
  (repeat' split) <;> rfl

/- non-vacuity: the operators the suite never feeds with these operand types -/
example : (binOp #[] false .mul (.arr 0) (.int (-1))).2.isPanic = false := binOp_total _ _ _ _ _
example : (match (binOp (#[Obj.arr [.int 1]]) false .mul (.arr 0) (.int (-1))).2 with | .err _ => true | _ => false) = true := by decide

end DS.Props.C01
