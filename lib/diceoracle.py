"""Game-rule oracles applied to what the IMPLEMENTATION returns and shows (independent of the Lean model).
Each returns None if the (result, text) pair obeys the rule, else a string naming the clause that fails."""
import re

M64 = 1 << 64


def wrap64(x):
    x &= M64 - 1
    return x - M64 if x >= (1 << 63) else x


def clamp(x, dmin, dmax):
    if dmax is not None and x > dmax:
        x = dmax
    if dmin is not None and x < dmin:
        x = dmin
    return x


def pick_spec(times, keep, low, high):
    if keep == 0:
        return times
    if keep in (1, 3):
        p = low
    elif keep in (2, 4):
        p = high
    else:
        p = times
    if keep > 2:
        p = times - p
    return max(0, min(times, p))


def parse_common(text):
    """-> (kept, dropped) lists of ints, or None"""
    if text.startswith("{") and text.endswith("}"):
        body = text[1:-1]
        if "|" not in body:
            return None
        a, b = body.split("|", 1)
        try:
            return [int(x) for x in a.split()], [int(x) for x in b.split()]
        except ValueError:
            return None
    if text == "":
        return [], []
    toks = re.findall(r"-?\d+", text)
    if "+".join(toks) != text:
        return None
    return [int(x) for x in toks], []


def check_common(times, sides, dmin, dmax, keep, low, high, mode, num, text):
    p = parse_common(text)
    if p is None:
        return "text-unparseable"
    kept, dropped = p
    dice = kept + dropped
    if times < 0:
        times = 0
    if len(dice) != times:
        return f"dice-count {len(dice)} != times {times}"
    lo, hi = clamp(1, dmin, dmax), clamp(sides, dmin, dmax)
    if mode == -1:
        hi = lo
    elif mode == 1:
        lo = hi
    for d in dice:
        if not (min(lo, hi) <= d <= max(lo, hi)):
            return f"die {d} outside [{lo},{hi}]"
    pick = pick_spec(times, keep, low, high)
    if len(kept) != pick:
        return f"kept-count {len(kept)} != {pick}"
    if kept and dropped:
        if keep in (1, 4) and max(kept) > min(dropped):
            return "kept-not-lowest"
        if keep in (2, 3) and min(kept) < max(dropped):
            return "kept-not-highest"
    if keep in (1, 4) and dice != sorted(dice):
        return "not-sorted-ascending"
    if keep in (2, 3) and dice != sorted(dice, reverse=True):
        return "not-sorted-descending"
    if wrap64(sum(kept)) != num:
        return f"total {num} != sum(kept) {sum(kept)}"
    return None


def coc_value(d, u):
    d %= 10
    return 100 if (d == 0 and u == 0) else d * 10 + u


def check_coc(is_bonus, dice_num, mode, value, text):
    m = re.fullmatch(r"\(D100=(-?\d+),(奖励|惩罚)([0-9 ]*)\)", text)
    if not m:
        return "text-unparseable"
    d100 = int(m.group(1))
    if (m.group(2) == "奖励") != is_bonus:
        return "wrong-label"
    shown = [int(x) for x in m.group(3).split()]
    n = max(0, dice_num)
    if len(shown) != n:
        return f"shown-count {len(shown)} != {n}"
    if not (1 <= d100 <= 100):
        return f"d100 {d100} out of range"
    if any(not (0 <= s <= 9) for s in shown):
        return "tens-die-out-of-range"
    u = d100 % 10
    cands = [coc_value(d100 // 10, u)] + [coc_value(s, u) for s in shown]
    want = min(cands) if is_bonus else max(cands)
    if value != want:
        return f"value {value} != rule {want} from D100={d100} tens={shown}"
    return None


def check_fate(value, text):
    if len(text) != 4 or any(c not in "-0+" for c in text):
        return "text-unparseable"
    s = sum({"-": -1, "0": 0, "+": 1}[c] for c in text)
    if s != value:
        return f"sum {value} != {s}"
    return None


def parse_rounds(text):
    """'{a,b},{c}' -> [[tok,...],...]"""
    rounds = re.findall(r"\{([^}]*)\}", text)
    return [[t for t in r.split(",") if t != ""] for r in rounds]


def check_wod(add_line, pool, points, thr, is_ge, mode, value, all_roll, rounds, text):
    m = re.fullmatch(r"成功(-?\d+)/(-?\d+)( 轮数:(\d+))?( (.*))?", text)
    if not m:
        return "text-unparseable"
    if int(m.group(1)) != value or int(m.group(2)) != all_roll:
        return "header-mismatch"
    shown_rounds = int(m.group(4)) if m.group(4) else 1
    if shown_rounds != rounds:
        return f"rounds-text {shown_rounds} != {rounds}"
    if all_roll < pool or rounds < 1:
        return "counts-inconsistent"
    if m.group(6) is None:
        if pool < 15 and all_roll <= 100:
            return "dice-not-shown"
        return None
    rs = parse_rounds(m.group(6))
    if len(rs) != rounds:
        return f"shown {len(rs)} rounds != {rounds}"
    expect = pool
    succ = 0
    total = 0
    for r in rs:
        if len(r) != expect:
            return f"round has {len(r)} dice, rule says {expect}"
        adds = 0
        for tok in r:
            mm = re.fullmatch(r"(<)?(-?\d+)(\*)?(>)?", tok)
            if not mm or bool(mm.group(1)) != bool(mm.group(4)):
                return "die-unparseable"
            d = int(mm.group(2))
            if not (1 <= d <= points):
                return f"die {d} outside 1..{points}"
            is_s = d >= thr if is_ge else d <= thr
            is_a = add_line != 0 and d >= add_line
            if bool(mm.group(3)) != is_s:
                return f"success-mark wrong on {tok}"
            if bool(mm.group(1)) != is_a:
                return f"add-mark wrong on {tok}"
            succ += is_s
            adds += is_a
        total += len(r)
        expect = adds
    if expect != 0:
        return "last-round-still-adds"
    if succ != value:
        return f"successes {value} != counted {succ}"
    if total != all_roll:
        return f"all-roll {all_roll} != counted {total}"
    return None


def check_dc(add_line, pool, points, mode, value, all_roll, rounds, text):
    m = re.fullmatch(r"(大失败 )?出目(-?\d+)/(-?\d+)( 轮数:(\d+))?( (.*))?", text)
    if not m:
        return "text-unparseable"
    if int(m.group(2)) != value or int(m.group(3)) != all_roll:
        return "header-mismatch"
    if bool(m.group(1)) != (value == 1):
        return "fumble-label"
    shown_rounds = int(m.group(5)) if m.group(5) else 1
    if shown_rounds != rounds:
        return f"rounds-text {shown_rounds} != {rounds}"
    if m.group(7) is None:
        if pool < 15 and all_roll <= 100:
            return "dice-not-shown"
        return None
    rs = parse_rounds(m.group(7))
    if len(rs) != rounds:
        return f"shown {len(rs)} rounds != {rounds}"
    expect = pool
    total = 0
    res = 0
    for r in rs:
        if len(r) != expect:
            return f"round has {len(r)} dice, rule says {expect}"
        adds = 0
        mx = 0
        for tok in r:
            mm = re.fullmatch(r"(<)?(-?\d+)(>)?", tok)
            if not mm or bool(mm.group(1)) != bool(mm.group(3)):
                return "die-unparseable"
            d = int(mm.group(2))
            if not (1 <= d <= points):
                return f"die {d} outside 1..{points}"
            is_a = d >= add_line
            if bool(mm.group(1)) != is_a:
                return f"critical-mark wrong on {tok}"
            adds += is_a
            mx = max(mx, d)
        res += 10 if adds > 0 else mx
        total += len(r)
        expect = adds
    if expect != 0:
        return "last-round-still-critical"
    if res != value:
        return f"result {value} != rule {res} (10 per critical round + highest die of the last)"
    if total != all_roll:
        return f"all-roll {all_roll} != counted {total}"
    return None
