/-
  Run-time values of the VM, the heap of reference objects, printing and structural equality
  (types.go: VMValue, ArrayData, DictData, FunctionData, ComputedData, toStringRaw/toReprRaw, ValueEqual).
  Arrays/dicts/functions/computed values are heap objects addressed by `Nat`; wrappers (*VMValue) are treated as
  values, which is faithful because no code mutates a wrapper in place.
-/
import DS.Model.Roll

namespace DS.VM

inductive Val where
  | int (i : Int)
  | float (f : Float)
  | str (s : String)
  | null
  | arr (a : Nat)
  | dict (a : Nat)
  | func (a : Nat)
  | comp (a : Nat)
  | nfunc (name : String) (selfTag : Nat) (selfAddr : Nat)  -- selfTag: 0 none, 1 array, 2 dict, 3 computed
  | nobj (name : String)
  | local_
  deriving Inhabited

/-- opcodes (bytecode.go); jump operands are `none` when the parser never patched them -/
inductive BinOp where
  | add | sub | mul | div | mod | pow | nullCoalescing | lt | le | eq | ne | ge | gt | bitAnd | bitOr
  deriving DecidableEq, Repr, Inhabited

inductive Instr where
  | pushInt (i : Int) | pushFlt (f : Float) | pushStr (s : String) | pushArr (n : Int) | pushDict (n : Int)
  | pushRange | pushConst (v : Val) | pushNull | pushThis | pushLast | pushDefExpr
  | ldFs (n : Int) | ld (name : String) | ldD (name : String) | ldRaw (name : String)
  | store (name : String) | noop (name : String)
  | invoke (n : Int) | itemGet | itemSet | attrGet (name : String) | attrSet (name : String) | sliceGet | sliceSet
  | bin (op : BinOp) | logicAnd | neg | pos
  | diceInit | diceSetTimes | diceSetKL | diceSetKH | diceSetDL | diceSetDH | diceSetMin | diceSetMax | dice | diceCustom
  | cocPenalty | cocBonus | diceFate | diceWod | wodInit | wodPool | wodPoints | wodThreshold | wodThresholdQ
  | diceDC | dcInit | dcPool | dcPoints
  | halt | markDetail (b e : Int) | pop | popN (n : Int)
  | jmp (off : Option Int) | je (off : Option Int) | jne (off : Option Int) | jeDup (off : Option Int) | ret
  | fstrPush | fstrPop | blockPush | blockPop
  | stSet | stMod (op text : String) | stX0 | stX1
  deriving Inhabited

abbrev Code := Array Instr

inductive Obj where
  | arr (l : List Val)
  | dict (kv : List (String × Val))
  | func (name : String) (params : List String) (expr : String) (code : Code)
  | comp (expr : String) (attrs : Option Nat) (code : Code)
  deriving Inhabited

abbrev Heap := Array Obj

def Heap.alloc (h : Heap) (o : Obj) : Heap × Nat := (h.push o, h.size)

def Heap.arrOf (h : Heap) (a : Nat) : List Val :=
  match h[a]? with
  | some (.arr l) => l
  | _ => []

def Heap.dictOf (h : Heap) (a : Nat) : List (String × Val) :=
  match h[a]? with
  | some (.dict kv) => kv
  | _ => []

def dictGet (kv : List (String × Val)) (k : String) : Option Val :=
  match kv with
  | [] => none
  | (k', v) :: r => if k' == k then some v else dictGet r k

def dictSet (kv : List (String × Val)) (k : String) (v : Val) : List (String × Val) :=
  match kv with
  | [] => [(k, v)]
  | (k', v') :: r => if k' == k then (k, v) :: r else (k', v') :: dictSet r k v

def Heap.setArr (h : Heap) (a : Nat) (l : List Val) : Heap := if a < h.size then h.set! a (.arr l) else h
def Heap.setDict (h : Heap) (a : Nat) (kv : List (String × Val)) : Heap := if a < h.size then h.set! a (.dict kv) else h

/-! ### float printing: strconv.FormatFloat(f, 'f', -1, 64) for the floats the generators use.
    Exact for values m / 2^k (k ≤ 30, |m| < 2^53) whose decimal expansion has at most 15 significant digits; every
    other float prints as the marker `≈float≈`, which makes the stream skip the case instead of guessing. -/

def natDigits (n : Nat) : String := toString n

def fmtFloat (f : Float) : String :=
  if f.isNaN then "NaN" else if f.isInf then (if f > 0 then "+Inf" else "-Inf") else
  let neg := f < 0 || (f == 0 && (1.0 / f) < 0)
  let a := f.abs
  if a ≥ 9007199254740992.0 then "≈float≈" else
  -- find k ≤ 30 with a * 2^k integral
  let rec go (fuel : Nat) (k : Nat) (x : Float) : Option (Nat × Nat) :=
    match fuel with
    | 0 => none
    | fuel+1 => if x == x.floor then (if x < 9007199254740992.0 then some (x.toUInt64.toNat, k) else none) else go fuel (k + 1) (x * 2.0)
  match go 31 0 a with
  | none => "≈float≈"
  | some (m, k) =>
    -- a = m / 2^k = (m * 5^k) / 10^k
    let num := m * 5 ^ k
    let ip := num / 10 ^ k
    let fp := num % 10 ^ k
    let s :=
      if k == 0 || fp == 0 then natDigits ip
      else
        let fs := natDigits fp
        let fs := String.ofList (List.replicate (k - fs.length) '0') ++ fs
        -- strip trailing zeros
        let fs := String.ofList (fs.toList.reverse.dropWhile (· == '0')).reverse
        natDigits ip ++ "." ++ fs
    let sig := (s.toList.filter (·.isDigit)).dropWhile (· == '0')
    if sig.length > 15 then "≈float≈" else (if neg then "-" ++ s else s)

/-! ### printing (toStringRaw / toReprRaw) with the visited set of ToString -/

def typeName : Val → String
  | .int _ => "int" | .float _ => "float" | .str _ => "str" | .null => "null" | .comp _ => "computed"
  | .arr _ => "array" | .func _ => "function" | .nfunc _ _ _ => "nfunction" | .nobj _ => "nobject"
  | _ => "unknown"      -- dict and the internal `this` object have no case in GetTypeName

/-- dict entries in the order `ValueMap.Range` visits them: by key -/
def sortEntries (l : List (String × Val)) : List (String × Val) := l.mergeSort (fun a b => !(b.1 < a.1))

mutual
  /-- returns the text and the visited set after the traversal (Go never pops it) -/
  def toStr (h : Heap) : Nat → List Nat → Val → String × List Nat
    | 0, seen, _ => ("…", seen)
    | _, seen, .int i => (toString i, seen)
    | _, seen, .float f => (fmtFloat f, seen)
    | _, seen, .str s => (s, seen)
    | _, seen, .null => ("null", seen)
    | fuel+1, seen, .arr a =>
      if seen.contains a then ("[...]", seen) else
      let (t, seen') := joinRepr h fuel (a :: seen) (h.arrOf a)
      ("[" ++ t ++ "]", seen')
    | _, seen, .comp a =>
      match h[a]? with
      | some (.comp e _ _) => ("&(" ++ e ++ ")", seen)
      | _ => ("&()", seen)
    | fuel+1, seen, .dict a =>
      if seen.contains a then ("{...}", seen) else
      -- ValueMap.Range visits the keys in sorted order (bytewise = code point order for valid UTF-8)
      let (t, seen') := joinEntries h fuel (a :: seen) (sortEntries (h.dictOf a))
      ("{" ++ t ++ "}", seen')
    | _, seen, .func a =>
      match h[a]? with
      | some (.func n _ _ _) => ("function " ++ n, seen)
      | _ => ("function ", seen)
    | _, seen, .nfunc n _ _ => ("nfunction " ++ n, seen)
    | _, seen, .nobj n => ("nobject " ++ n, seen)
    | _, seen, .local_ => ("a value", seen)

  def toRepr (h : Heap) : Nat → List Nat → Val → String × List Nat
    | 0, seen, _ => ("…", seen)
    | fuel+1, seen, .str s => ("'" ++ s ++ "'", seen)
    | _, seen, .local_ => ("<a value>", seen)
    | fuel+1, seen, v => toStr h fuel seen v

  def joinRepr (h : Heap) : Nat → List Nat → List Val → String × List Nat
    | _, seen, [] => ("", seen)
    | fuel, seen, [v] => toRepr h fuel seen v
    | fuel, seen, v :: r =>
      let (t, seen1) := toRepr h fuel seen v
      let (t2, seen2) := joinRepr h fuel seen1 r
      (t ++ ", " ++ t2, seen2)

  def joinEntries (h : Heap) : Nat → List Nat → List (String × Val) → String × List Nat
    | _, seen, [] => ("", seen)
    | fuel, seen, [(k, v)] => let (t, s1) := toRepr h fuel seen v; ("'" ++ k ++ "': " ++ t, s1)
    | fuel, seen, (k, v) :: r =>
      let (t, seen1) := toRepr h fuel seen v
      let (t2, seen2) := joinEntries h fuel seen1 r
      ("'" ++ k ++ "': " ++ t ++ ", " ++ t2, seen2)
end

/-- `v.ToString()` -/
def valToString (h : Heap) (v : Val) : String := (toStr h 200 [] v).1
def valToRepr (h : Heap) (v : Val) : String := (toRepr h 200 [] v).1

def asBool (h : Heap) : Val → Bool
  | .int i => i != 0
  | .float f => f != 0.0
  | .str s => s != ""
  | .null => false
  | .comp a => match h[a]? with | some (.comp e _ _) => e != "" | _ => false
  | .arr a => !(h.arrOf a).isEmpty
  | .dict a => !(h.dictOf a).isEmpty
  | .func _ => true | .nfunc _ _ _ => true | .nobj _ => true
  | .local_ => false

/-- ValueEqual(a, b, autoConvert = true) -/
def valEq (h : Heap) : Nat → Val → Val → Bool
  | 0, _, _ => false
  | _, .int a, .int b => a == b
  | _, .float a, .float b => a == b
  | _, .int a, .float b => Float.ofInt a == b
  | _, .float a, .int b => a == Float.ofInt b
  | _, .str a, .str b => a == b
  | _, .null, .null => true
  | fuel+1, .arr a, .arr b =>
    let la := h.arrOf a
    let lb := h.arrOf b
    la.length == lb.length && (la.zip lb).all (fun p => valEq h fuel p.1 p.2)
  | fuel+1, .dict a, .dict b =>
    let da := h.dictOf a
    let db := h.dictOf b
    da.length == db.length && da.all (fun p => match dictGet db p.1 with
      | some v => valEq h fuel p.2 v
      | none => false)
  | _, .comp a, .comp b =>
    (match h[a]?, h[b]? with
     | some (.comp e1 _ _), some (.comp e2 _ _) => e1 == e2
     | _, _ => false)
  | _, .nfunc n1 _ _, .nfunc n2 _ _ => n1 == n2      -- same Go function pointer ⇔ same builtin/method name
  | _, .func a, .func b => a == b
  | _, .nobj _, .nobj _ => false
  | _, .local_, .local_ => true
  | _, _, _ => false

/-! canonical rendering shared with the Go harness (`canon` in harness/run.go) -/

def floatBitsHex (f : Float) : String :=
  let n := f.toBits.toNat
  if n == 0 then "0" else
  let rec go (fuel : Nat) (n : Nat) (acc : List Char) : List Char :=
    match fuel with
    | 0 => acc
    | fuel+1 => if n == 0 then acc else go fuel (n / 16) ((if n % 16 < 10 then Char.ofNat (48 + n % 16) else Char.ofNat (87 + n % 16)) :: acc)
  String.ofList (go 17 n [])

end DS.VM
