package main

import (
	"reflect"
	"encoding/hex"
	"fmt"
	"math"
	"sort"
	"strconv"
	"strings"

	ds "github.com/sealdice/dicescript"
)

// parseCfg decodes the compact configuration token, e.g. "wcfd,L30000,E1,m".
//
//	w c f d : enable WoD / CoC / Fate / DoubleCross      B S N : DisableBitwiseOp / DisableStmts / DisableNDice
//	z : IgnoreDiv0     m / M : DiceMinMode / DiceMaxMode   L<n> : OpCountLimit   P<n> : ParseExprLimit
//	E<n> : ParseErrorLanguage   D<hex> : DefaultDiceSideExpr
func parseCfg(tok string) (ds.RollConfig, bool) {
	var c ds.RollConfig
	if tok == "-" {
		return c, true
	}
	for _, part := range strings.Split(tok, ",") {
		if part == "" || part == "-" {
			continue
		}
		switch part[0] {
		case 'L':
			v, err := strconv.ParseInt(part[1:], 10, 64)
			if err != nil {
				return c, false
			}
			c.OpCountLimit = ds.IntType(v)
			continue
		case 'P':
			v, err := strconv.ParseUint(part[1:], 10, 64)
			if err != nil {
				return c, false
			}
			c.ParseExprLimit = v
			continue
		case 'E':
			v, err := strconv.Atoi(part[1:])
			if err != nil {
				return c, false
			}
			c.ParseErrorLanguage = v
			continue
		case 'D':
			s, ok := unhx(part[1:])
			if !ok {
				return c, false
			}
			c.DefaultDiceSideExpr = s
			continue
		}
		for _, ch := range part {
			switch ch {
			case 'w':
				c.EnableDiceWoD = true
			case 'c':
				c.EnableDiceCoC = true
			case 'f':
				c.EnableDiceFate = true
			case 'd':
				c.EnableDiceDoubleCross = true
			case 'B':
				c.DisableBitwiseOp = true
			case 'S':
				c.DisableStmts = true
			case 'N':
				c.DisableNDice = true
			case 'z':
				c.IgnoreDiv0 = true
			case 'm':
				c.DiceMinMode = true
			case 'M':
				c.DiceMaxMode = true
			case 'T':
				// a host that listens to st edits (the callback keeps nothing)
				c.CallbackSt = func(_type string, name string, val *ds.VMValue, extra *ds.VMValue, op string, detail string) {}
			default:
				return c, false
			}
		}
	}
	return c, true
}

func cfgFlags(c ds.RollConfig) string {
	s := ""
	add := func(b bool, ch string) {
		if b {
			s += ch
		}
	}
	add(c.EnableDiceWoD, "w")
	add(c.EnableDiceCoC, "c")
	add(c.EnableDiceFate, "f")
	add(c.EnableDiceDoubleCross, "d")
	add(c.DisableBitwiseOp, "B")
	add(c.DisableStmts, "S")
	add(c.DisableNDice, "N")
	add(c.IgnoreDiv0, "z")
	add(c.DiceMinMode, "m")
	add(c.DiceMaxMode, "M")
	if s == "" {
		s = "-"
	}
	return s
}

// canon renders a value canonically: ints i<n>, floats f<bits>, strings s<hex>, null n, arrays [a b],
// dicts {k=v ...} with sorted hex keys, functions F<hexname>, native functions N<hexname>, computed C<hexexpr>.
func canon(v *ds.VMValue) string {
	return canonRaw(v, map[any]bool{}, 0)
}

func canonRaw(v *ds.VMValue, seen map[any]bool, depth int) string {
	if v == nil {
		return "NIL"
	}
	if depth > 40 {
		return "DEEP"
	}
	switch v.TypeId {
	case ds.VMTypeInt:
		if x, ok := v.Value.(ds.IntType); ok {
			return "i" + strconv.FormatInt(int64(x), 10)
		}
		return "i?"
	case ds.VMTypeFloat:
		if x, ok := v.Value.(float64); ok {
			return "f" + strconv.FormatUint(math.Float64bits(x), 16)
		}
		return "f?"
	case ds.VMTypeString:
		if x, ok := v.Value.(string); ok {
			return "s" + hx(x)
		}
		return "s?"
	case ds.VMTypeNull:
		return "n"
	case ds.VMTypeArray:
		ad, ok := v.Value.(*ds.ArrayData)
		if !ok || ad == nil {
			return "[?"
		}
		if seen[ad] {
			return "[...]"
		}
		seen[ad] = true
		defer delete(seen, ad)
		parts := make([]string, 0, len(ad.List))
		for _, it := range ad.List {
			parts = append(parts, canonRaw(it, seen, depth+1))
		}
		return "[" + strings.Join(parts, " ") + "]"
	case ds.VMTypeDict:
		dd, ok := v.Value.(*ds.DictData)
		if !ok || dd == nil || dd.Dict == nil {
			return "{?"
		}
		if seen[dd] {
			return "{...}"
		}
		seen[dd] = true
		defer delete(seen, dd)
		var parts []string
		dd.Dict.Range(func(k string, val *ds.VMValue) bool {
			parts = append(parts, hx(k)+"="+canonRaw(val, seen, depth+1))
			return true
		})
		sort.Strings(parts)
		return "{" + strings.Join(parts, " ") + "}"
	case ds.VMTypeFunction:
		fd, ok := v.Value.(*ds.FunctionData)
		if !ok || fd == nil {
			return "F?"
		}
		ps := make([]string, 0, len(fd.Params))
		for _, p := range fd.Params {
			ps = append(ps, hx(p))
		}
		return "F" + hx(fd.Name) + "(" + strings.Join(ps, ",") + ")" + hx(fd.Expr)
	case ds.VMTypeNativeFunction:
		fd, ok := v.Value.(*ds.NativeFunctionData)
		if !ok || fd == nil {
			return "N?"
		}
		return "N" + hx(fd.Name)
	case ds.VMTypeComputedValue:
		cd, ok := v.Value.(*ds.ComputedData)
		if !ok || cd == nil {
			return "C?"
		}
		if cd.Attrs == nil {
			return "C" + hx(cd.Expr)
		}
		var parts []string
		cd.Attrs.Range(func(k string, val *ds.VMValue) bool {
			parts = append(parts, hx(k)+"="+canonRaw(val, seen, depth+1))
			return true
		})
		sort.Strings(parts)
		return "C" + hx(cd.Expr) + "{" + strings.Join(parts, " ") + "}"
	case ds.VMTypeNativeObject:
		od, ok := v.Value.(*ds.NativeObjectData)
		if !ok || od == nil {
			return "O?"
		}
		return "O" + hx(od.Name)
	}
	return "T" + strconv.Itoa(int(v.TypeId))
}

func canonAttrs(m *ds.ValueMap) string {
	if m == nil {
		return "{}"
	}
	var parts []string
	m.Range(func(k string, val *ds.VMValue) bool {
		parts = append(parts, hx(k)+"="+canon(val))
		return true
	})
	sort.Strings(parts)
	return "{" + strings.Join(parts, " ") + "}"
}

func newVM(cfg ds.RollConfig, seedTok string) (*ds.Context, bool) {
	vm := &ds.Context{}
	if seedTok != "-" {
		if strings.HasPrefix(seedTok, "S") {
			// a seed of any other length (possibly empty, never nil): "S" + hex
			b, err := hex.DecodeString(seedTok[1:])
			if err != nil {
				return nil, false
			}
			if b == nil {
				b = []byte{}
			}
			vm.Seed = b
		} else {
			b, err := hex.DecodeString(seedTok)
			if err != nil || len(b) != 16 {
				return nil, false
			}
			vm.Seed = b
		}
	}
	vm.Init()
	vm.Config = cfg
	return vm, true
}

func seedOf(vm *ds.Context) string {
	if vm.RandSrc == nil {
		return "-"
	}
	b, _ := vm.GetCurSeed()
	return hex.EncodeToString(b)
}

// runOne runs one program and renders the observable outcome.
func runOne(vm *ds.Context, src string) string {
	err := vm.Run(src)
	if err != nil {
		return "err " + hx(err.Error()) + " ops=" + strconv.FormatInt(int64(vm.NumOpCount), 10)
	}
	detail := vm.GetDetailText()
	detail2 := vm.GetDetailText()
	idem := "1"
	if detail != detail2 {
		idem = "0"
	}
	return fmt.Sprintf("ok %s d=%s idem=%s m=%s r=%s ops=%d seed=%s", canon(vm.Ret), hx(detail), idem,
		hx(vm.Matched), hx(vm.RestInput), vm.NumOpCount, seedOf(vm))
}

// runseq <cfg> <seed|-> <hexsrc>... : programs run in order on one VM; outcomes joined by " | ", then vars
func runSeqLine(t []string) string {
	if len(t) < 4 {
		return "bad-op"
	}
	cfg, ok := parseCfg(t[1])
	if !ok {
		return "bad-op"
	}
	vm, ok := newVM(cfg, t[2])
	if !ok {
		return "bad-op"
	}
	var outs []string
	for _, h := range t[3:] {
		src, ok := unhx(h)
		if !ok {
			return "bad-op"
		}
		outs = append(outs, runOne(vm, src))
	}
	return strings.Join(outs, " | ") + " | vars=" + canonAttrs(vm.Attrs) + " cfg=" + cfgFlags(vm.Config)
}

func init() {
	handlers["runseq"] = runSeqLine
}

// resume <cfg> <seed> <hexp> <hexq> : p;q on one VM  vs  p on a second VM, GetCurSeed, fresh third VM seeded
// with those bytes and given the second VM's variables, then q. Prints both outcomes of q.
func resumeLine(t []string) string {
	if len(t) != 5 {
		return "bad-op"
	}
	cfg, ok := parseCfg(t[1])
	p, ok2 := unhx(t[3])
	q, ok3 := unhx(t[4])
	if !ok || !ok2 || !ok3 {
		return "bad-op"
	}
	vm1, ok := newVM(cfg, t[2])
	if !ok {
		return "bad-op"
	}
	_ = runOne(vm1, p)
	a := runOne(vm1, q)
	vm2, _ := newVM(cfg, t[2])
	_ = runOne(vm2, p)
	seed, err := vm2.GetCurSeed()
	if err != nil {
		return "err-getcurseed"
	}
	vm3 := &ds.Context{}
	vm3.Seed = seed
	vm3.Init()
	vm3.Config = cfg
	vm3.Attrs = vm2.Attrs
	b := runOne(vm3, q)
	return a + " || " + b
}

// reinit <cfg> <seed1> <seed2> <hexp> <hexq> : seed1, run p, then Seed=seed2; Init(); run q   vs   fresh VM seed2, run q
func reinitLine(t []string) string {
	if len(t) != 6 {
		return "bad-op"
	}
	cfg, ok := parseCfg(t[1])
	p, ok2 := unhx(t[4])
	q, ok3 := unhx(t[5])
	if !ok || !ok2 || !ok3 {
		return "bad-op"
	}
	vm1, ok := newVM(cfg, t[2])
	if !ok {
		return "bad-op"
	}
	_ = runOne(vm1, p)
	b2, err := hex.DecodeString(t[3])
	if err != nil || len(b2) != 16 {
		return "bad-op"
	}
	vm1.Seed = b2
	vm1.Init()
	a := runOne(vm1, q)
	vm2, _ := newVM(cfg, t[3])
	b := runOne(vm2, q)
	return a + " || " + b
}

// reinitc <cfg1> <cfg2> <seed1> <seed2> <hexp> <hexq> : a context that evaluated p under cfg1, then is given cfg2 and re-seeded,
// must evaluate q exactly like a fresh context under cfg2 with the same seed (p and q leave no variables behind)
func reinitcLine(t []string) string {
	if len(t) != 7 {
		return "bad-op"
	}
	cfg1, ok := parseCfg(t[1])
	cfg2, ok1 := parseCfg(t[2])
	p, ok2 := unhx(t[5])
	q, ok3 := unhx(t[6])
	if !ok || !ok1 || !ok2 || !ok3 {
		return "bad-op"
	}
	vm1, ok := newVM(cfg1, t[3])
	if !ok {
		return "bad-op"
	}
	_ = runOne(vm1, p)
	b2, err := hex.DecodeString(t[4])
	if err != nil || len(b2) != 16 {
		return "bad-op"
	}
	// the host edits the configuration it holds field by field (whatever the library keeps privately inside it stays)
	dst := reflect.ValueOf(&vm1.Config).Elem()
	src := reflect.ValueOf(cfg2)
	for i := 0; i < src.NumField(); i++ {
		if src.Type().Field(i).IsExported() && dst.Field(i).CanSet() {
			dst.Field(i).Set(src.Field(i))
		}
	}
	vm1.Seed = b2
	vm1.Init()
	a := runOne(vm1, q)
	vm2, _ := newVM(cfg2, t[4])
	b := runOne(vm2, q)
	return a + " || " + b
}

func init() {
	handlers["resume"] = resumeLine
	handlers["reinit"] = reinitLine
	handlers["reinitc"] = reinitcLine
}

// apiseq <cfg> <seed|-> <hexsrc>... : the whole public API sequence on one VM, every call under recover:
// Parse, GetAsmText, RunAfterParsed, Ret.ToString/ToRepr, GetDetailText x2, Matched/RestInput, then Run again.
// Prints "ok <n>" or the first panic "panic <hexmsg> <chain> at=<step> src=<index>".
func apiSeqLine(t []string) string {
	if len(t) < 4 {
		return "bad-op"
	}
	cfg, ok := parseCfg(t[1])
	if !ok {
		return "bad-op"
	}
	vm, ok := newVM(cfg, t[2])
	if !ok {
		return "bad-op"
	}
	steps := 0
	for idx, h := range t[3:] {
		src, ok := unhx(h)
		if !ok {
			return "bad-op"
		}
		var perr error
		calls := []struct {
			name string
			f    func()
		}{
			{"Parse", func() { perr = vm.Parse(src) }},
			{"GetAsmText", func() { _ = vm.GetAsmText() }},
			{"RunAfterParsed", func() {
				if perr == nil {
					_ = vm.RunAfterParsed()
				}
			}},
			// a "parse, run, show" helper that only logs the parse error and carries on
			{"RunAfterParsed.afterFailedParse", func() {
				if perr != nil {
					_ = vm.RunAfterParsed()
					_ = vm.GetDetailText()
					_ = vm.GetAsmText()
				}
			}},
			{"Ret.ToString", func() {
				if vm.Ret != nil {
					_ = vm.Ret.ToString()
					_ = vm.Ret.ToRepr()
				}
			}},
			{"GetDetailText", func() { _ = vm.GetDetailText(); _ = vm.GetDetailText() }},
			{"Matched", func() { _ = vm.Matched + vm.RestInput + vm.GetErrorText() }},
			{"Run", func() { _ = vm.Run(src) }},
			{"GetDetailText2", func() { _ = vm.GetDetailText() }},
			{"Ret.ToString2", func() {
				if vm.Ret != nil {
					_ = vm.Ret.ToString()
				}
			}},
			{"Attrs.ToJSON", func() { _, _ = vm.Attrs.ToJSON() }},
			// the remaining observers and the "run while busy" entry point of the public API
			{"Observers", func() { _ = vm.IsCalculateExists(); _ = vm.GetParsedOffset(); _ = vm.StackTop(); _ = vm.Depth(); _, _ = vm.GetCurSeed() }},
			{"RunExpr.local", func() {
				if v, _ := vm.RunExpr(src, true); v != nil {
					_ = v.ToString()
				}
			}},
			{"RunExpr.fresh", func() {
				if v, _ := vm.RunExpr(src, false); v != nil {
					_ = v.ToRepr()
				}
			}},
			{"Run.after", func() { _ = vm.Run(src); _ = vm.GetDetailText() }},
		}
		for _, c := range calls {
			steps++
			r := safely(func() string { c.f(); return "" })
			if r != "" {
				return fmt.Sprintf("%s at=%s src=%d", r, c.name, idx)
			}
		}
	}
	return fmt.Sprintf("ok %d", steps)
}

func init() { handlers["apiseq"] = apiSeqLine }

// retkeep <cfg> <seed> <hexp> <hexq> [attr] : the host keeps the result OBJECT of the first run (vm.Ret) while the same VM runs q —
// with "attr", it also stores that object as the variable `kept` before q runs. Reports the kept object's text before and after.
func retKeepLine(t []string) string {
	if len(t) != 5 && len(t) != 6 {
		return "bad-op"
	}
	cfg, ok := parseCfg(t[1])
	p, ok2 := unhx(t[3])
	q, ok3 := unhx(t[4])
	if !ok || !ok2 || !ok3 {
		return "bad-op"
	}
	vm, ok := newVM(cfg, t[2])
	if !ok {
		return "bad-op"
	}
	return safely(func() string {
		if err := vm.Run(p); err != nil {
			return "err-first " + hx(err.Error())
		}
		kept := vm.Ret
		if kept == nil {
			return "nil-first"
		}
		before := kept.ToRepr()
		if len(t) == 6 {
			vm.StoreName("kept", kept, true)
		}
		res := runOne(vm, q)
		after := kept.ToRepr()
		v := "-"
		if x, ok := vm.Attrs.Load("kept"); ok && x != nil {
			v = hx(x.ToRepr())
		}
		return "before=" + hx(before) + " after=" + hx(after) + " var=" + v + " | " + res
	})
}

// sharedsrc <cfg> <seedA> <seedB> <hexp> <mode> : VM a (seed A) and a second VM that shares a's generator object — a copy of a's
// context struct (mode "copy") or a fresh VM handed a.RandSrc (mode "hand") — which is then given its OWN seed B through Seed + Init.
// Afterwards a runs p. Reference: a fresh VM with seed A runs p.
func sharedSrcLine(t []string) string {
	if len(t) != 6 {
		return "bad-op"
	}
	cfg, ok := parseCfg(t[1])
	p, ok2 := unhx(t[4])
	sb, err := hex.DecodeString(t[3])
	if !ok || !ok2 || err != nil {
		return "bad-op"
	}
	a, ok := newVM(cfg, t[2])
	if !ok {
		return "bad-op"
	}
	return safely(func() string {
		var b *ds.Context
		if t[5] == "copy" {
			c := *a
			b = &c
		} else {
			b, _ = newVM(cfg, "-")
			b.RandSrc = a.RandSrc
		}
		b.Seed = sb
		b.Init()
		_ = runOne(b, "3d1000 + d1000")
		got := runOne(a, p)
		ref, _ := newVM(cfg, t[2])
		want := runOne(ref, p)
		return got + " || " + want
	})
}

func init() {
	handlers["retkeep"] = retKeepLine
	handlers["sharedsrc"] = sharedSrcLine
}

// freshseed <cfg> <seed> <hexexpr> : what a seeded context that has evaluated NOTHING yet reports and does — GetCurSeed at once, then
// RunExpr as its very first operation, then GetCurSeed again; reference: Run of the same text on another context with the same seed
func freshSeedLine(t []string) string {
	if len(t) != 4 {
		return "bad-op"
	}
	cfg, ok := parseCfg(t[1])
	src, ok2 := unhx(t[3])
	if !ok || !ok2 {
		return "bad-op"
	}
	a, ok := newVM(cfg, t[2])
	if !ok {
		return "bad-op"
	}
	return safely(func() string {
		s0, _ := a.GetCurSeed()
		v, err := a.RunExpr(src, true)
		r1 := "err"
		if err == nil && v != nil {
			r1 = v.ToRepr()
		}
		s1, _ := a.GetCurSeed()
		b, _ := newVM(cfg, t[2])
		r2 := "err"
		if err := b.Run(src); err == nil && b.Ret != nil {
			r2 = b.Ret.ToRepr()
		}
		s2, _ := b.GetCurSeed()
		return fmt.Sprintf("seed0=%x runexpr=%s seed1=%x | run=%s seed2=%x", s0, hx(r1), s1, hx(r2), s2)
	})
}

func init() { handlers["freshseed"] = freshSeedLine }

// unseededseed <hexsrc> : a context that was never seeded draws from the shared source; the seed it reports before a run, restored into
// a second context, must replay that run's dice, and both must report the same seed afterwards
func unseededSeedLine(t []string) string {
	if len(t) != 2 {
		return "bad-op"
	}
	src, ok := unhx(t[1])
	if !ok {
		return "bad-op"
	}
	return safely(func() string {
		a := ds.NewVM()
		a.Config.OpCountLimit = 30000
		s0, err := a.GetCurSeed()
		if err != nil {
			return "err-getcurseed"
		}
		ra := runOne(a, src)
		s1, _ := a.GetCurSeed()
		b := &ds.Context{}
		b.Seed = s0
		b.Init()
		b.Config.OpCountLimit = 30000
		rb := runOne(b, src)
		s2, _ := b.GetCurSeed()
		va, vb := strings.SplitN(ra, " d=", 2)[0], strings.SplitN(rb, " d=", 2)[0]
		if va == vb && fmt.Sprintf("%x", s1) == fmt.Sprintf("%x", s2) && fmt.Sprintf("%x", s0) != fmt.Sprintf("%x", s1) {
			return "same " + va
		}
		return fmt.Sprintf("differ unseeded=%s seed-after=%x | replay=%s seed-after=%x | seed-before=%x", va, s1, vb, s2, s0)
	})
}

func init() { handlers["unseededseed"] = unseededSeedLine }

// modeseq <cfg> <seed> <hexsrc> : the usual range query on ONE context — the same text in min mode, then max mode, then normally (the host
// flips Config.DiceMinMode / DiceMaxMode between the runs); prints the three results
func modeSeqLine(t []string) string {
	if len(t) != 4 {
		return "bad-op"
	}
	cfg, ok := parseCfg(t[1])
	src, ok2 := unhx(t[3])
	if !ok || !ok2 {
		return "bad-op"
	}
	vm, ok := newVM(cfg, t[2])
	if !ok {
		return "bad-op"
	}
	return safely(func() string {
		one := func(mn, mx bool) string {
			vm.Config.DiceMinMode, vm.Config.DiceMaxMode = mn, mx
			if err := vm.Run(src); err != nil {
				return "err:" + hx(err.Error())
			}
			return canon(vm.Ret)
		}
		a := one(true, false)
		b := one(false, true)
		c := one(false, false)
		return "min=" + a + " max=" + b + " rnd=" + c
	})
}

func init() { handlers["modeseq"] = modeSeqLine }
