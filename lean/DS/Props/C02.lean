/-
  C02 — evaluation agrees with the language's definitional semantics.

  Fragment theorem `compile_correct` (numbers, all unary / binary operators, the ternary, `||`, `&&`): for EVERY source tree of
  the fragment, the code the compiler emits for it, run by the VM model's dispatch loop from an empty stack, ends with exactly
  the value — or exactly the error — that the definitional (syntax-directed) semantics `evalF` prescribes, and with the same
  heap.  `run_compile` (DS/Proofs/FragCompile.lean) is the compositional form: from ANY frame and surrounding stack the code
  of a sub-expression pushes its value on the untouched stack and continues behind itself — which is what "right jump offsets
  and stack balance for every composition" means.  The compiler of the theorem is tied to roll.peg's actions by the `compile`
  stream (instruction-by-instruction equality with the real bytecode dump); the dispatch loop to rollvm.go by the vm stream;
  the whole language (statements, loops, functions, computed values, templates, containers, dice under min/max mode) is
  compared with the definitional semantics over source trees (DS/Model/RefEval.lean) by the `ref` stream.
-/
import DS.Proofs.FragStmts
import DS.Proofs.FragIf

namespace DS.Props.C02
open DS.VM DS.Frag

theorem codeAt_toArray (l : List Instr) : CodeAt l.toArray 0 l := by
  refine ⟨by simp, ?_⟩
  intro i hi
  simp [hi]

theorem step_halt (fuel : Nat) (g : G) (f : Frame) (hpc : f.pc < f.code.size) (hi : f.code[f.pc]! = Instr.halt)
    (hl : g.cfg.opLimit = 0) (ht : f.top < stackSize) (h1 : 1 ≤ f.top) :
    evalLoop (fuel + 1) g f =
      (addOps g f.ctx 1, .ok { top := some (f.stack[f.top - 1]!), spans := solvedSpans (addOps g f.ctx 1) { f with pc := f.pc + 1 } }) := by
  rw [evalLoop_dispatch fuel g f hpc hl ht, hi]
  have e0 : (f.top == 0) = false := by simp; omega
  simp only [exec, e0, Bool.false_eq_true, if_false]

/-- the whole program for a fragment tree: its code followed by halt -/
def prog (e : F) : Code := (compile e ++ [Instr.halt]).toArray

/-- the initial frame of a program -/
def frame0 (code : Code) : Frame := { ctx := 0, code := code, stack := newStack }

/-- C02, fragment: compiled code computes what the definitional semantics prescribes -/
theorem compile_correct (e : F) (g : G) (hl : g.cfg.opLimit = 0) (hd : depth e < stackSize) :
    (match evalF g.cfg.ignoreDiv0 (ctxAttrs g 0) g.heap e with
     | (h', .ok v) => ∃ k g' out, (∀ fuel, evalLoop (fuel + k) g (frame0 (prog e)) = (g', .ok out)) ∧ out.top = some v ∧ g'.heap = h'
     | (h', .err m) => ∃ k g', (∀ fuel, evalLoop (fuel + k) g (frame0 (prog e)) = (g', .err m)) ∧ g'.heap = h'
     | _ => True) := by
  have hcode : CodeAt (frame0 (prog e)).code (frame0 (prog e)).pc (compile e ++ [Instr.halt]) := codeAt_toArray _
  have hready : Ready g.cfg.ignoreDiv0 g (frame0 (prog e)) := ⟨hl, rfl, by simp [frame0, newStack]⟩
  have hrun := run_compile g.cfg.ignoreDiv0 (ctxAttrs g 0) e g (frame0 (prog e)) hcode.append_left hready rfl (by simpa [frame0] using hd)
  cases hev : evalF g.cfg.ignoreDiv0 (ctxAttrs g 0) g.heap e with
  | mk h' r =>
    rw [hev] at hrun
    cases r with
    | ok v =>
      obtain ⟨k, g', f', hruns, haft, hcfg, hheap, _⟩ := hrun
      have hh := hcode.append_right.head
      have hpcH : f'.pc < f'.code.size := by rw [haft.code, haft.pc]; exact hh.1
      have hiH : f'.code[f'.pc]! = Instr.halt := by rw [haft.code, haft.pc]; exact hh.2
      have htop : f'.top = 1 := by rw [haft.top]; simp [frame0]
      have hst : stackSize = 1000 := rfl
      refine ⟨1 + k, addOps g' f'.ctx 1, { top := some (f'.stack[f'.top - 1]!), spans := solvedSpans (addOps g' f'.ctx 1) { f' with pc := f'.pc + 1 } }, ?_, ?_, hheap⟩
      · intro fuel
        have := hruns (fuel + 1)
        rw [Nat.add_assoc] at this
        rw [this, step_halt fuel g' f' hpcH hiH (by rw [hcfg]; exact hl) (by omega) (by omega)]
      · simp only
        have : f'.top - 1 = (frame0 (prog e)).top := by rw [htop]; simp [frame0]
        rw [this, haft.val]
    | err m =>
      obtain ⟨k, g', hf, hheap⟩ := hrun
      exact ⟨k, g', hf, hheap⟩
    | panic _ => trivial
    | unsup _ => trivial
    | diverge => trivial

/-- the whole program for a statement sequence -/
def progS (ss : List F) : Code := (compileS ss ++ [Instr.halt]).toArray

/-- C02, fragment with variables and statement sequences: `s1; …; sn` — each statement an expression of the fragment, now including
    variable references and assignments (themselves expressions) — run by the dispatch loop from an empty stack yields exactly the
    value of the LAST statement under the definitional semantics `evalS`, or exactly its first error, with the same heap (the heap
    holds the variables: the context's attribute table). -/
theorem program_correct (ss : List F) (hne : ss ≠ []) (g : G) (hl : g.cfg.opLimit = 0) (hd : depthS ss < stackSize) :
    (match evalS g.cfg.ignoreDiv0 (ctxAttrs g 0) g.heap ss with
     | (h', .ok v) => ∃ k g' out, (∀ fuel, evalLoop (fuel + k) g (frame0 (progS ss)) = (g', .ok out)) ∧ out.top = some v ∧ g'.heap = h'
     | (h', .err m) => ∃ k g', (∀ fuel, evalLoop (fuel + k) g (frame0 (progS ss)) = (g', .err m)) ∧ g'.heap = h'
     | _ => True) := by
  have hcode : CodeAt (frame0 (progS ss)).code (frame0 (progS ss)).pc (compileS ss ++ [Instr.halt]) := codeAt_toArray _
  have hready : Ready g.cfg.ignoreDiv0 g (frame0 (progS ss)) := ⟨hl, rfl, by simp [frame0, newStack]⟩
  have hrun := run_stmts g.cfg.ignoreDiv0 (ctxAttrs g 0) ss g (frame0 (progS ss)) hne hcode.append_left hready rfl (by simpa [frame0] using hd)
  cases hev : evalS g.cfg.ignoreDiv0 (ctxAttrs g 0) g.heap ss with
  | mk h' r =>
    rw [hev] at hrun
    cases r with
    | ok v =>
      obtain ⟨k, g', f', hruns, haft, hcfg, hheap⟩ := hrun
      have hh := hcode.append_right.head
      have hpcH : f'.pc < f'.code.size := by rw [haft.code, haft.pc]; exact hh.1
      have hiH : f'.code[f'.pc]! = Instr.halt := by rw [haft.code, haft.pc]; exact hh.2
      have hlen : 1 ≤ ss.length := by cases ss with | nil => exact absurd rfl hne | cons _ _ => simp
      have hdl : ∀ l : List F, l.length ≤ depthS l := by
        intro l
        induction l with
        | nil => simp [depthS]
        | cons e r ih => simp only [depthS, List.length_cons]; omega
      have hdl := hdl ss
      have htop : f'.top = ss.length := by rw [haft.top]; simp [frame0]
      have hst : stackSize = 1000 := rfl
      refine ⟨1 + k, addOps g' f'.ctx 1, { top := some (f'.stack[f'.top - 1]!), spans := solvedSpans (addOps g' f'.ctx 1) { f' with pc := f'.pc + 1 } }, ?_, ?_, hheap⟩
      · intro fuel
        have := hruns (fuel + 1)
        rw [Nat.add_assoc] at this
        rw [this, step_halt fuel g' f' hpcH hiH (by rw [hcfg]; exact hl) (by omega) (by omega)]
      · simp only; rw [haft.val]
    | err m =>
      obtain ⟨k, g', hf, hheap⟩ := hrun
      exact ⟨k, g', hf, hheap⟩
    | panic _ => trivial
    | unsup _ => trivial
    | diverge => trivial

/-- the whole program for a statement list with conditionals -/
def progSts (ss : Sts) : Code := (compileSts ss ++ [Instr.halt]).toArray

/-- C02, fragment with conditionals: statement lists of expression statements and `if c { … } else { … }` statements, nested to any
    depth the VM's 20 block levels allow — the compiled code run by the dispatch loop from an empty stack yields exactly the value of
    the last statement under `evalSts` (an `if` statement's own value is null), or exactly the first error, with the same heap: the
    branch taken is the one the condition's truth value selects, the other branch's code is jumped over, and the operand stack is
    cut back to the height the block was entered with. -/
theorem conditional_program_correct (ss : Sts) (g : G) (hl : g.cfg.opLimit = 0) (hd : depthSts ss < stackSize) (hn : nestSts ss ≤ 20) :
    (match evalSts g.cfg.ignoreDiv0 (ctxAttrs g 0) .null g.heap ss with
     | (h', .ok (some v)) => ∃ k g' out, (∀ fuel, evalLoop (fuel + k) g (frame0 (progSts ss)) = (g', .ok out)) ∧ out.top = some v ∧ g'.heap = h'
     | (h', .err m) => ∃ k g', (∀ fuel, evalLoop (fuel + k) g (frame0 (progSts ss)) = (g', .err m)) ∧ g'.heap = h'
     | _ => True) := by
  have hcode : CodeAt (frame0 (progSts ss)).code (frame0 (progSts ss)).pc (compileSts ss ++ [Instr.halt]) := codeAt_toArray _
  have hready : Ready g.cfg.ignoreDiv0 g (frame0 (progSts ss)) := ⟨hl, rfl, by simp [frame0, newStack]⟩
  have hrun := run_sts g.cfg.ignoreDiv0 (ctxAttrs g 0) .null ss none g (frame0 (progSts ss)) hcode.append_left hready rfl
    (by simp [blockVal, frame0]) (by simpa [frame0] using hd) (by simpa [frame0] using hn) (by intro v hv; cases hv)
  simp only [evalSts]
  cases hev : evalStsA g.cfg.ignoreDiv0 (ctxAttrs g 0) .null none g.heap ss with
  | mk h' r =>
    rw [hev] at hrun
    cases r with
    | ok ov =>
      cases ov with
      | none => trivial
      | some v =>
        obtain ⟨k, g', f', hruns, haft, hcfg, hheap, _⟩ := hrun
        have hh := hcode.append_right.head
        have hpcH : f'.pc < f'.code.size := by rw [haft.code, haft.pc]; exact hh.1
        have hiH : f'.code[f'.pc]! = Instr.halt := by rw [haft.code, haft.pc]; exact hh.2
        have hsd := slots_le_depth ss
        have htop : f'.top = slotsSts ss := by rw [haft.top]; simp [frame0]
        have hpos : 1 ≤ slotsSts ss := by
          -- a list whose value is `some v` is not empty
          cases ss with
          | nil => simp [evalStsA] at hev
          | expr _ _ => simp only [slotsSts]; omega
          | ite _ _ _ _ => simp only [slotsSts]; omega
        have hst : stackSize = 1000 := rfl
        refine ⟨1 + k, addOps g' f'.ctx 1, { top := some (f'.stack[f'.top - 1]!), spans := solvedSpans (addOps g' f'.ctx 1) { f' with pc := f'.pc + 1 } }, ?_, ?_, hheap⟩
        · intro fuel
          have := hruns (fuel + 1)
          rw [Nat.add_assoc] at this
          rw [this, step_halt fuel g' f' hpcH hiH (by rw [hcfg]; exact hl) (by omega) (by omega)]
        · simp only; rw [haft.val v rfl]
    | err m =>
      obtain ⟨k, g', hf, hheap⟩ := hrun
      exact ⟨k, g', hf, hheap⟩
    | panic _ => trivial
    | unsup _ => trivial
    | diverge => trivial

/-! ### non-vacuity and the shapes the compiler emits -/

/-- `if 1 {2} else {3}` and `if 1 {2}` as the real compiler emits them -/
example : compileSts (.ite (.lit 1) (.expr (.lit 2) .nil) (.expr (.lit 3) .nil) .nil) =
    [.pushInt 1, .blockPush, .jne (some 2), .pushInt 2, .jmp (some 1), .pushInt 3, .blockPop] := by
  simp [compileSts, compile]
example : compileSts (.ite (.lit 1) (.expr (.lit 2) .nil) .nil .nil) =
    [.pushInt 1, .blockPush, .jne (some 2), .pushInt 2, .jmp (some 0), .blockPop] := by
  simp [compileSts, compile]


/-- `x = 5; x + 1` (a variable assigned, then read) -/
example : compileS [.asg "x" (.lit 5), .bin .add (.var "x" 7 8) (.lit 1)] =
    [.pushInt 5, .store "x", .markDetail 7 8, .ldD "x", .pushInt 1, .bin .add] := by
  simp [compileS, compile]


example : compile (.tern (.lit 1) (.bin .add (.lit 2) (.lit 3)) (.bin .mul (.lit 4) (.lit 5))) =
    [.pushInt 1, .jne (some 4), .pushInt 2, .pushInt 3, .bin .add, .jmp (some 3), .pushInt 4, .pushInt 5, .bin .mul] := by
  simp [compile]

example : compile (.lor (.lit 1) (.bin .add (.lit 2) (.lit 3))) =
    [.pushInt 1, .jeDup (some 5), .pushInt 2, .pushInt 3, .bin .add, .jeDup (some 1), .pushLast] := by
  simp [compile]

/-- the definitional semantics on a concrete program: `x = 5; x + 1` is 6 … -/
def heap0 : Heap := #[Obj.dict []]
example : (match evalS false 0 heap0 [.asg "x" (.lit 5), .bin .add (.var "x" 7 8) (.lit 1)] with | (_, .ok (.int i)) => i == 6 | _ => false) = true := by decide
/-- … an unbound name is outside the fragment (the theorem says nothing there: enclosing scopes, globals, builtins) … -/
example : (match evalS false 0 heap0 [.bin .add (.var "x" 0 1) (.lit 1)] with | (_, .unsup _) => true | _ => false) = true := by decide
/-- … and a program that fails keeps the assignments made before the failure -/
example : (match evalS false 0 heap0 [.asg "x" (.lit 5), .bin .div (.var "x" 7 8) (.lit 0)] with
    | (h, .err _) => (dictGet (h.dictOf 0) "x" matches some (.int 5)) | _ => false) = true := by decide

/-- `x = 1; if x { x = 2 } else { x = 3 }; x` is 2, and with `x = 0` it is 3 -/
example : (match evalSts false 0 .null heap0 (.expr (.asg "x" (.lit 1)) (.ite (.var "x" 0 0) (.expr (.asg "x" (.lit 2)) .nil) (.expr (.asg "x" (.lit 3)) .nil)
    (.expr (.var "x" 0 0) .nil))) with | (_, .ok (some (.int i))) => i == 2 | _ => false) = true := by decide
example : (match evalSts false 0 .null heap0 (.expr (.asg "x" (.lit 0)) (.ite (.var "x" 0 0) (.expr (.asg "x" (.lit 2)) .nil) (.expr (.asg "x" (.lit 3)) .nil)
    (.expr (.var "x" 0 0) .nil))) with | (_, .ok (some (.int i))) => i == 3 | _ => false) = true := by decide

end DS.Props.C02
