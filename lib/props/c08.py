"""C08 — every compiled program is structurally well-formed bytecode.

Proof: DS/Props/C08.lean — a bytecode verifier (abstract interpretation: lower bound of the operand-stack height relative to
the innermost template hole, the stack of open blocks/holes with the heights they saved, open dice states, "an annotation
span exists", pool-dice initialised) with a certificate check; theorem `verified_never_stuck`: if the certificate check
accepts, then on EVERY path of the control-flow skeleton (both directions of every conditional jump, any number of loop
iterations) no instruction pops an empty stack, no jump lacks its operand or leaves [0, size], every block.pop /
fstr.block.pop has its push, every dice/annotation instruction finds the state it needs, and each program point is always
reached with the same number of open blocks.
Tie: (a) `verify` stream — the verifier is run on the bytecode dump (hook VerifDumpCode) of every accepted input, main body
and every nested function / computed body; (b) `skel` stream — the model VM executes the same programs with the skeleton
state carried alongside and checks after every dispatch that the VM's step is one of the skeleton's successors and that a
structural panic of the VM means the skeleton is stuck (this validates the per-opcode effect table `kindOf` against the model
VM); (c) `vm` stream — real VM vs model VM on the same programs; (d) negative controls — hand-made malformed dumps must be
rejected by the verifier and must fault in the model VM.
"""
from lib.common import Run, hx, unhx, go_child, lean_child
from lib.proggen import ProgGen
from lib.props.c01 import adversarial, mutate, vm_stream

STRUCT = [
    # a computed-value literal executed more than once: each execution yields a new value (what its text assigned stays with that value)
    "i = 0; r = []; while i < 3 { i = i + 1; &k = n = (n ?? 0) + 1; r.push(k) }; r", "func mk() { &k = n = (n ?? 0) + 2; k }; [mk(), mk()]", "&k = n = (n ?? 0) + 1; [k, k, &k.n]",
    # a value-if chain as a NON-last element of a list / argument list: the element after it is not another case of the chain
    "[1 ? 10, 5]", "[0 ? 10, 5]", "func g2(a, b) { a + b }; g2(1 ? 10, 5)", "[1 ? 10, 0 ? 3, 5]", "[0 ? 10, 0 ? 3, 5]", "[2, 0 ? 1, 1 ? 7, 9]", "x = [0 ? 1, 2, 3]; x",
    # loops whose condition starts with a literal / keyword / parenthesis, with `continue` as the first or only statement of the body
    "func h(n) { while true { if n { return 1 }; continue } }; h(1)", "func h(n) { i = 0; while 3 > i { i = i + 1; continue }; i }; h(0)",
    "func h() { j = 0; while (j < 2) { j = j + 1; if j { continue } }; j }; h()", "k = 0; while 1 { k = k + 1; if k > 3 { break }; continue }; k",
    "i = 0; while i < 3 { i = i + 1; `{% if i > 1 { break } %}` }; i", "i = 0; while i < 3 { i = i + 1; `a{% continue %}b` }; i",
    # break / continue inside a stored body (function / computed value) defined in a loop — also AFTER a nested definition inside that body
    # has ended: the loop around the definition is not the body's loop (rejected, or compiled to a jump inside the body's own code)
    "i = 0; while i < 3 { i = i + 1; func f(a) { &x = a + 1; if a > 1 { break }; x }; f(i) }; i",
    "i = 0; while i < 3 { i = i + 1; func f(a) { func g() { 1 }; if a > 1 { continue }; g() }; f(i) }; i",
    "i = 0; while i < 3 { i = i + 1; &c = `{% &d = 1; if i > 1 { break }; d %}`; c }; i",
    "i = 0; while i < 2 { i = i + 1; j = 0; while j < 2 { j = j + 1; func f(a) { &x = a; func h() { 2 }; break }; f(j) } }; i",
    # element / attribute / slice assignments where a value is expected (inside a function body the stack below them is empty)
    "func f(d) { x = (d.b = 1) }; f({})", "func f(d) { 1 + (d.b = 1) }; f({})", "func f(a) { [a[0] = 5, 2] }; f([1])", "func f(a) { y = a[0:1] = [7] }; f([1,2])",
    "func f(d) { (d['k'] = 2) ? 3 : 4 }; f({})", "func g(v) { v }; func f(d) { g(d.b = 1) }; f({})", "d = {}; x = d.a = d.b = 3; x",
    "1", "1+2*3", "if 1 {2} else {3}", "if 0 {2} else if 1 {3} else {4}", "i=0; while i<3 { i=i+1 }; i",
    "i=0; while i<9 { i=i+1; if i>5 {break}; if i<2 {continue}; i }", "i=0; while i<30 { i=i+1; if 1 { continue } }; i",
    "i=0; while i<30 { i=i+1; if i>25 { break } }; i", "j=0; while j<25 { j=j+1; i=0; while i<3 { i=i+1; if i>1 { break } } }; j",
    "i=0; while i<5 { i=i+1; if i>2 { if 1 {break} }; 7 }", "i=0; while i<5 { i=i+1; if i>2 { if 1 {continue} else {break} } else { if 0 {break} }; 7 }",
    "i=0; while i<3 { i=i+1; j=0; while j<3 { j=j+1; if j==2 { if i==2 {break}; continue } } }",
    "i=0; while i<3 { i=i+1; `a{% if i==2 {3} %}` }", "i=0; while i<3 { i=i+1; x = i==2 ? `q{i}` : 'n' }; x",
    "`a{1+2}b{% x=1; x %}c`", "`a{`b{1}`}`", "`{% ; %}`", "`{% %}`", "`{%%}`", "`a{%1;2;3%}b`", "`{ if 1 {2} }`", "\x1ea{2d6}b\x1e",
    "func f(a,b){ if a {return b}; a+b }; f(1,2)", "func g(){}; g()", "func h(n){ if n<1 {return 0}; n+h(n-1) }; h(5)",
    "func w(){ i=0; while 1 { i=i+1; if i>3 {return i} } }; w()",
    "1 ? 2 : 3", "1 ? 2, 0 ? 3, 4", "0 ? 2, 0 ? 3", "1 || 2", "0 && 2", "null ?? 3", "1 || 0 && 3 ?? 4",
    "2d6k1", "d20", "d", "3d", "2d6kh1min2", "2d6dl1max5", "(1+1)d(2+2)k(1)", "d6d6", "2d(3d4)", "b2", "p1", "b", "p", "f", "4df", "4a6", "4c6", "4a6k5m8q3", "3c8m5",
    "a=[1,2,3]; a[0]=2; a[1:2]=[4]; a", "x={'a':1}; x.a = 2; x.a", "&c = 1+d6; c", "&c.x = 1", "this.x = 1; this.x",
    "^st力量50 敏捷60", "^st力量+1d6", "^st&手枪=1d10", "^st力量*5:50", "[1..5]", "[5..1]", "1 2 3", "1;;2", ";", "", "{}", "{'a':1}.a", "(1,2)",
    "a = b = 3", "a = (b = 3) + 1", "x[1]", "x[1][2]=3", "x.y.z=3", "x[1:2]", "x[:]", "x[1:]", "f(1)(2)", "[1,2].len", "'a'.len()",
    "if 1 { if 2 { if 3 { 4 } } }", "if 1 {} else {}", "while 0 {}", "i=0; while i<2 {i=i+1; while 0 {}}",
    "dct={}; dct.k = dct['j'] = []", "a=[1,2]; b = a[0] = 5", "a=[1,2,3]; b = a[0:1] = [5]", "x={}; x.a = x.b = 1", "d || [1,2]", "d6 || 1", "1 ?? d",
    "^st&射击= 1d6+2", "^st&射击 = 1d6", "^st&a: d6 &b=  2d6k1", "^st&力量:弓箭 =\n1d6+2", "^st&射击=  d6 + 力量", "^st &a = 2d6 , &b : d4",
    "func outer(a) { x = 1 + 2; func inner(a) { a }; x + inner(a) }; outer(10)", "func f() { &c = 2d6 + 1; c + c }; f()", "func f(a) { func g(b) { func h(c) { c + 1 }; h(b) * 2 }; g(a) + 1 }; f(3)",
    "&cv = 1 + 2; func f() { &cw = cv + 1; cw }; f()", "func f() { 1; 2; 3; 4; func g() { 5 }; g() + 6 }; f()", "if 1 { func f() { func g() { 7 }; g() }; f() }",
    "^st&射击=1d6+2", "^st&力量:弓箭=1d6+2", "^st&a=d6 &b=2d6k1", "&a = d6 + `x{d4}`; a", "func f(){ 2d6 + d4 }; f()", "func f(){ &q = 3d6; q }; f()",
    "i=0; while i<3 { i=i+1; if i==1 {break}; j=0; while j<2 { j=j+1; if j==1 {break} } }; i", "while 1 { break; while 1 { break } }", "while 1 { while 0 {}; break }",
    "// #EnableDice wod true\n3a8", "1 // c", "1 /* c */ + 2",
]

# accepted prefixes followed by text the grammar cannot continue with: this is where emit-then-fail leaks show
TAILS = [" )", " || )", " && )", " ?? )", " ? 1 : )", " ? )", " + )", " [", " [1,", " .", " (", " (1,", " d(", " `a{", " `a{%", " if", " if 1 {", " while 1 {",
         " == )", " ** )", " ; )", " ; if 1 { )", " ; while 1 { break )", "k", "kh", "min", " ]", " }", " =", " 1 = 2", " ? 1, )", " ? 1, 2 ? )", " 2d(", " d)", " - )"]

NEGATIVE = [  # malformed dumps: the verifier must reject each, and the model VM must fault on it
    "[ pop ]", "[ push.int=i1 pop pop ]", "[ jmp=N ]", "[ push.int=i1 je=N ]", "[ jmp=i-5 ]", "[ jmp=i7 ]", "[ block.pop ]", "[ fstr.block.pop ]",
    "[ push.int=i6 dice ]", "[ dice.init push.int=i6 dice ]", "[ ld.d=s61 ]", "[ dice.fate ]", "[ push.int=i1 coc.bonus ]", "[ push.int=i1 dice.setTimes ]",
    "[ add ]", "[ push.int=i1 add ]", "[ store=s61 ]", "[ push.arr=i2 ]", "[ push.int=i1 push.dict=i1 ]", "[ invoke=i0 ]", "[ push.int=i1 item.get ]",
    "[ push.int=i1 je=i1 block.push block.pop ]", "[ push.int=i1 jne=i1 fstr.block.push push.int=i2 pop ]", "[ block.push fstr.block.push block.pop ]",
    "[ push.def_expr ]", "[ mark.detail=d0,1 push.def_expr ]", "[ push.int=i1 dice.wod ]", "[ push.int=i1 wod.pool ]", "[ push.int=i1 dc.setPool ]",
    "[ push.int=i1 st.set ]", "[ mark.detail=d0,5 push.int=i1 ]", "[ mark.detail=d3,2 push.int=i1 ]", "[ push.int=i1 neg pop pop ]", "[ fstr.block.push pop ]",
]
# a forward jump past the end, and pool-dice state without init, are malformed for the verifier but do not fault in the VM
NEG_NO_FAULT = {"[ mark.detail=d0,5 push.int=i1 ]", "[ mark.detail=d3,2 push.int=i1 ]", "[ block.push fstr.block.push block.pop ]", "[ jmp=i7 ]", "[ push.int=i1 wod.pool ]", "[ push.int=i1 dc.setPool ]", "[ push.int=i1 dice.wod ]", "[ push.int=i1 jne=i1 fstr.block.push push.int=i2 pop ]",
                "[ fstr.block.push pop ]", "[ mark.detail=d0,1 push.def_expr ]", "[ push.int=i1 je=N ]"}


def dump_bodies(dump, main_text):
    """[(text bytes, [(b, e), ...])] for the main program and every nested function / computed-value body of a bytecode dump"""
    toks = dump.split()
    out = []

    def body(i, text):
        # toks[i] == "[" ; returns index after the matching "]"
        spans = []
        out.append((text, spans))
        i += 1
        while i < len(toks) and toks[i] != "]":
            t = toks[i]
            if t.startswith("mark.detail=d"):
                try:
                    b, e = t[len("mark.detail=d"):].split(",")
                    spans.append((int(b), int(e)))
                except ValueError:
                    pass
                i += 1
            elif t.endswith("=C(") or t.endswith("=F("):
                j = i + 1
                hdr = []
                while j < len(toks) and toks[j] != "[":
                    hdr.append(toks[j])
                    j += 1
                try:
                    btext = bytes.fromhex(hdr[-1]) if hdr and hdr[-1] != "-" else b""
                except ValueError:
                    btext = b""
                i = body(j, btext)
                if i < len(toks) and toks[i] == ")":
                    i += 1
            else:
                i += 1
        return i + 1

    if toks and toks[0] == "[":
        body(0, main_text)
    return out


def main(tier):
    run = Run("C08", tier, module="DS.Props.C08", props_file="DS/Props/C08.lean",
              extra_files=["DS/Model/Verify.lean", "DS/Model/VerifyRun.lean", "DS/Model/VMRun.lean", "DS/Proofs/VerifyLemmas.lean",
                           "DS/Proofs/ExecSkelBase.lean", "DS/Proofs/ExecSkel.lean", "DS/Proofs/Room.lean"])
    if run.prepare():
        run.proofs()
        r = run.rng
        progs = []  # (src bytes, cfg, kind)
        for s in STRUCT:
            progs.append((s.encode(), "wcfd", "structural"))
            for t in r.sample(TAILS, 6):
                progs.append(((s + t).encode(), "wcfd", "prefix+tail"))
        n = 4000 if tier == "thorough" else 700
        for i in range(n):
            k = r.random()
            g = ProgGen(r, illtyped=r.choice([0.0, 0.1, 0.25]))
            src, c2 = g.program()
            cfg = c2 or "-"
            if k < 0.4:
                progs.append((src.encode(), cfg, "generated"))
            elif k < 0.6:
                progs.append(((src + r.choice(TAILS)).encode(), cfg, "prefix+tail"))
            elif k < 0.7:
                b = src.encode()
                progs.append((b[:r.randint(0, len(b))], cfg, "truncated"))
            elif k < 0.9:
                progs.append((mutate(r, src), cfg, "mutated"))
            else:
                progs.append((adversarial(r).encode(), "wcfd", "adversarial"))
        seen = set()
        uniq = []
        for p in progs:
            if (p[0], p[1]) not in seen:
                seen.add((p[0], p[1]))
                uniq.append(p)
        progs = uniq
        d = go_child().run([f"vmdump {cfg} {hx(src)}" for src, cfg, kind in progs])
        acc = []
        for (src, cfg, kind), o in zip(progs, d):
            run.count("kind." + kind)
            if o == "parse-err" or " " not in o:
                run.count("parse-rejected." + kind)
                continue
            off, dump = o.split(" ", 1)
            acc.append((src, cfg, kind, int(off), dump))
        # ---- (a) verifier on every accepted input
        out = lean_child().run([f"verify {a[3]} {a[4]}" for a in acc])
        verified = []
        bad = []
        for (src, cfg, kind, off, dump), o in zip(acc, out):
            run.evaluations += 1
            run.nontriv(("verify", src, cfg))
            run.count("accepted." + kind)
            run.count("dump.instrs", dump.count(" ") - 1)
            if o.startswith("ok "):
                verified.append((src, cfg, kind, off, dump))
                f = dict(x.split("=") for x in o.split()[1:])
                run.count("verified.bodies", int(f["bodies"]))
                continue
            parts = o.split()
            reason = unhx(parts[2]).decode("utf-8", "replace") if len(parts) > 2 else o
            rep = {"source": src.decode("utf-8", "replace"), "source_hex": src.hex(), "cfg": cfg, "kind": kind, "parsed_offset": off,
                   "verifier": (parts[1] + " " if len(parts) > 1 else "") + reason, "dump": dump[:600]}
            bad.append((src, cfg, off, dump, reason, rep))
        # a malformed dump is the emit-then-fail leak iff the parser stopped before the end of the input and the bytecode of the
        # matched text ALONE is well-formed and different: the offending instructions were emitted by alternatives that then failed
        alone = go_child().run([f"vmdump {cfg} {hx(src[:off])}" for src, cfg, off, dump, reason, rep in bad]) if bad else []
        alone_dumps = [(o.split(" ", 1)[1] if (" " in o and o != "parse-err") else None) for o in alone]
        alone_v = lean_child().run([f"verify {b_[2]} " + (d2 or "[ pop ]") for b_, d2 in zip(bad, alone_dumps)]) if bad else []
        for (src, cfg, off, dump, reason, rep), d2, v2 in zip(bad, alone_dumps, alone_v):
            rep["matched_alone_dump"] = (d2 or "parse-err")[:600]
            rep["matched_alone_verifier"] = v2[:80]
            if off < len(src) and d2 is not None and d2 != dump and v2.startswith("ok "):
                run.known_finding("C03-emit-then-fail-leak", rep)
            else:
                run.violation("malformed-bytecode:" + reason.split(": ")[-1], rep)
        # ---- (a2) every annotation span must cover exactly one term of the text its body was compiled from: the span's text,
        #      parsed alone, is consumed entirely (a span shifted by a blank or cut short is "annotation state nobody set up":
        #      the VM slices its text with these numbers)
        span_jobs = []
        for src, cfg, kind, off, dump in verified:
            for text, spans in dump_bodies(dump, src[:off]):
                for b, e in spans:
                    if 0 <= b < e <= len(text):
                        span_jobs.append((src, cfg, dump, text, b, e))
        span_jobs = span_jobs[: (6000 if tier == "thorough" else 1500)]
        sp_out = go_child().run([f"pegtrace {cfg if cfg != '-' else ''}{',' if cfg != '-' else ''}wcfd {hx(text[b:e])}" for src, cfg, dump, text, b, e in span_jobs])
        for (src, cfg, dump, text, b, e), o in zip(span_jobs, sp_out):
            run.evaluations += 1
            run.count("span.checked")
            f = o.split()
            if not (len(f) >= 2 and f[0] == "ok" and int(f[1]) == e - b):
                run.violation("malformed-bytecode:annotation span does not cover one whole term of its body's text",
                              {"source": src.decode("utf-8", "replace"), "cfg": cfg, "body_text": text.decode("utf-8", "replace"), "span": [b, e],
                               "span_text": text[b:e].decode("utf-8", "replace"), "parse_of_span_text_alone": o[:120], "dump": dump[:500]})
        st = run.streams.setdefault("verify", {"cases": 0, "agree": 0})
        st["cases"] += len(acc)
        st["agree"] += len(verified)
        # ---- (b) skeleton vs model VM on the verified programs
        lines = [f"skelexec {cfg + ',L20000'} {r.getrandbits(128):032x} {hx(src)} {off} {dump}" for src, cfg, kind, off, dump in verified]
        out = lean_child().run(lines)
        sk = run.streams.setdefault("skel", {"cases": 0, "agree": 0})
        for (src, cfg, kind, off, dump), ln, o in zip(verified, lines, out):
            sk["cases"] += 1
            run.count("skel." + o.split()[0])
            if "SKEL-MISMATCH" in o:
                run.violation("correspondence:skeleton-vs-model-vm", {"stream": "skel", "source": src.decode("utf-8", "replace"), "cfg": cfg, "model": o[:300]})
            elif o.startswith("panic ") and any(s in o for s in ("index out of range [-1]@", "@jump", "panic details")):
                run.violation("verified-program-faults-in-model-vm", {"stream": "skel", "source": src.decode("utf-8", "replace"), "cfg": cfg, "model": o[:300]})
            else:
                sk["agree"] += 1
                if o.startswith("panic "):
                    run.sample({"stream": "skel", "note": "non-structural panic site of the model VM (C01's subject)", "source": src.decode("utf-8", "replace"), "model": o[:120]})
        # ---- (d) negative controls
        out = lean_child().run(["verify 1 " + nd for nd in NEGATIVE])
        out2 = lean_child().run([f"skelexec wcfd,L20000 {1:032x} {hx(b'1')} 1 {nd}" for nd in NEGATIVE])
        for nd, o, o2 in zip(NEGATIVE, out, out2):
            run.count("negative-controls")
            if not o.startswith("bad "):
                run.violation("verifier-accepts-malformed-control", {"dump": nd, "verifier": o})
            if "SKEL-MISMATCH" in o2:
                run.violation("correspondence:skeleton-vs-model-vm", {"dump": nd, "model": o2[:300]})
            elif nd not in NEG_NO_FAULT and not o2.startswith("panic "):
                run.violation("negative-control-does-not-fault", {"dump": nd, "model": o2[:300]})
        # ---- (c) real VM vs model VM on the verified programs (sample)
        sample = []
        for src, cfg, kind, off, dump in verified:
            if kind in ("structural", "generated", "adversarial"):
                try:
                    sample.append((src.decode("utf-8"), cfg + ",L20000"))
                except UnicodeDecodeError:
                    pass
        r.shuffle(sample)
        vm_stream(run, sample[: (1500 if tier == "thorough" else 300)])
        if verified:
            run.sample({"stream": "verify", "source": verified[0][0].decode("utf-8", "replace"), "dump": verified[0][4][:200]})
    return run.finish(
        trusted=["Lean 4.33 kernel", "axioms: propext, Classical.choice, Quot.sound", "Go harness + hook VerifDumpCode (the dump is what the verifier sees) + Lean driver",
                 "the per-opcode effect table kindOf is validated against the model VM by the skel stream (run-time check D1/D2 on every dispatch), "
                 "not yet proved for all frames; the model VM is tied to the real VM by the vm stream"],
        rule="structural corpus (if/else/while/break/continue nestings, templates, functions, ternaries, short-circuit operators, every dice family, "
             "st forms) x rejected-tail suffixes; type-directed generated programs; prefix+tail; truncations; byte mutations; adversarial operands; "
             "main body and every nested function/computed body verified; negative controls",
        assumptions=["only inputs Parse accepts are in scope; the verifier is conservative (it demands proper nesting of blocks and holes)"])
