/-
  C02 — evaluation agrees with the definitional semantics (fragment theorem: see below).
-/
import DS.Model.RefEval

namespace DS.Props.C02
open DS.VM DS.Ref

theorem placeholder : True := trivial

end DS.Props.C02
