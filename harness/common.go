package main

import (
	"encoding/hex"
	"fmt"
	"runtime"
	"strconv"
	"strings"
)

func hx(s string) string {
	if len(s) == 0 {
		return "-"
	}
	return hex.EncodeToString([]byte(s))
}

func unhx(s string) (string, bool) {
	if s == "-" {
		return "", true
	}
	b, err := hex.DecodeString(s)
	if err != nil {
		return "", false
	}
	return string(b), true
}

func atoi(s string) (int64, bool) {
	v, err := strconv.ParseInt(s, 10, 64)
	return v, err == nil
}

// panicChain renders the in-package function names on the panicking stack (no line numbers).
func panicChain() string {
	pcs := make([]uintptr, 64)
	n := runtime.Callers(3, pcs)
	frames := runtime.CallersFrames(pcs[:n])
	var names []string
	for {
		f, more := frames.Next()
		fn := f.Function
		if strings.Contains(fn, "sealdice/dicescript.") {
			i := strings.Index(fn, "dicescript.")
			name := fn[i+len("dicescript."):]
			// strip closure suffixes like .func1
			names = append(names, name)
		}
		if !more {
			break
		}
	}
	if len(names) > 6 {
		names = names[:6]
	}
	return strings.Join(names, "<")
}

// safely runs f, returning "panic:<msg>@<chain>" if it panics.
func safely(f func() string) (out string) {
	defer func() {
		if r := recover(); r != nil {
			msg := fmt.Sprint(r)
			if len(msg) > 80 {
				msg = msg[:80]
			}
			out = "panic " + hx(msg) + " " + panicChain()
		}
	}()
	return f()
}
