import DS.Model.Rng
import DS.Model.Roll
import DS.Model.Hex
