"""C18 — the st command reports every attribute edit once, in order, verbatim.

Proof: DS/Props/C18.lean — a model of the st edit-list layer (names, values, separators) with the theorem `st_roundtrip`:
for EVERY list of plain assignments whose names are non-empty runs of name characters (no digit, space, separator, quote,
operator) and whose values are natural numbers, printed with any of the separators '', ' ', ',' and any of the binders
'', ':', '=', the model's reader returns exactly the list — each edit once, in order, with exactly the written name.
Tie: st stream — the model reads the same lines the implementation's callback log is produced from.
Oracle on the implementation: generated edit lists (plain / multiplier / computed assignments; + += - -= modifications) over
names from letters / CJK, with digits (where the grammar needs ':' or '='), quoted with blanks, digits and ':', namespaced,
values ints / floats / dice under min mode / parenthesised expressions, separators '', ' ', ',', ', '; the expected callback
log is computed from the intended edits and compared entry by entry with the CallbackSt log; nothing may be left unparsed.
"""
from lib.common import Run, hx, unhx, go_child, lean_child

NAMES_PLAIN = ["力量", "敏捷", "体质", "str", "San", "理智值", "a", "b", "c", "f", "p", "d", "k", "q", "m", "hp", "_x", "力a", "DEX"]
NAMES_DIGIT = ["力量2", "a1", "属性10", "hp2", "San99"]                     # need ':' or '=' (or a modifier) after them
NAMES_NS = ["射击:弓箭", "技能:侦查", "a:b"]
NAMES_QUOTED = ["a b", "a1", "力量 2", "x:y", "1a", "9", "a b:c 2"]


DICE_LETTERS = set("aAbBcCdDfFkKmMpPqQ")


def name_forms(r, allow_digit=True, after_value_without_comma=False):
    """after a value that is not followed by a comma, a name starting with a dice letter would continue the value expression
    (`2d4k…`, `(8+8) d…`, `1+0)DEX`): those spellings are ambiguous in the language itself and are not generated"""
    while True:
        name, shown, kind = _name_forms(r, allow_digit)
        if after_value_without_comma and shown[:1] in DICE_LETTERS:
            continue
        return name, shown, kind


def _name_forms(r, allow_digit=True):
    k = r.random()
    if k < 0.5:
        n = r.choice(NAMES_PLAIN)
        return n, n, "plain"
    if k < 0.65 and allow_digit:
        n = r.choice(NAMES_DIGIT)
        return n, n, "digit"
    if k < 0.8:
        n = r.choice(NAMES_NS)
        return n, n, "ns"
    n = r.choice(NAMES_QUOTED)
    return n, "'" + n + "'", "quoted"


def value_forms(r):
    """(source text, repr of the evaluated value under min mode, starts_with_paren)"""
    k = r.random()
    if k < 0.45:
        v = r.choice([0, 1, 5, 60, 70, 100, 12345])
        return str(v), str(v)
    if k < 0.55:
        v = r.choice(["1.5", "0.25", "10.5"])
        return v, v
    if k < 0.7:
        n, s = r.randint(1, 4), r.choice([4, 6, 20])
        return f"{n}d{s}", str(n)             # min mode: every die shows 1
    if k < 0.85:
        a, b = r.randint(0, 9), r.randint(0, 9)
        return f"({a}+{b})", str(a + b)
    if k < 0.93:
        a, b = r.randint(1, 9), r.randint(1, 9)
        return f"({a}*{b}-1)", str(a * b - 1)
    # an amount that evaluates to a negative number or to zero (a subtraction of a negative amount is reported as written)
    a, b = r.randint(0, 5), r.randint(5, 9)
    return f"({a}-{b})", str(a - b)


def gen_assign_list(r):
    n = r.randint(1, 5)
    src = "^st"
    exp = []
    for i in range(n):
        k = r.random()
        vs, vr = value_forms(r)
        nocomma = i > 0 and "," not in src[-3:]
        _nf = name_forms
        name_forms_here = lambda rr: _nf(rr, True, nocomma)
        if k < 0.62:
            name, shown, kind = name_forms_here(r)
            if kind == "digit":
                binder = r.choice([":", "=", " : ", " = ", ": ", "= "])
            elif kind in ("plain", "ns", "quoted"):
                binder = r.choice(["", "", ":", "=", " : ", " = "])
            # a value that does not start with a digit or '(' needs a binder; all ours do
            src += shown + binder + vs
            exp.append(f"set|{name}|{vr}|||")
        elif k < 0.72:
            name, shown, kind = name_forms_here(r)
            if kind in ("ns",):
                shown, name = "力量", "力量"
            src += shown + r.choice(["*", " *", "* "]) + r.choice([":", "=", ": "]) + vs
            exp.append(f"set.x0|{name}|{vr}|||")
        elif k < 0.82:
            name, shown, kind = name_forms_here(r)
            if kind in ("ns",):
                shown, name = "敏捷", "敏捷"
            mult = r.choice(["2", "2.0", "1.5", "(3)"])
            mrepr = {"2": "2", "2.0": "2", "1.5": "1.5", "(3)": "3"}[mult]
            src += shown + "*" + mult + r.choice([":", "=", " : "]) + vs
            exp.append(f"set.x1|{name}|{vr}|{mrepr}||")
        else:
            name, shown, kind = name_forms_here(r)
            if i > 0 and "," not in src[-2:]:
                src = src.rstrip(" ") + r.choice([",", ", "])     # after a value, `v &x` / `v&x` is a bitwise-and expression
            src += "&" + shown + r.choice(["=", ":", " = ", "= ", " : "]) + vs
            exp.append(f"set|{name}|&({vs})|||")
        if i < n - 1:
            src += r.choice(["", " ", ",", ", ", " ,"])
    return src, exp


def gen_modify_list(r):
    n = r.randint(1, 4)
    src = "^st"
    exp = []
    for i in range(n):
        name, shown, kind = name_forms(r, True, i > 0 and "," not in src[-3:])
        vs, vr = value_forms(r)
        op = r.choice(["+", "+=", "-", "-="])
        if kind in ("digit", "ns", "plain") and op in ("+", "-") and kind != "plain" and kind != "ns":
            op = op + "="          # `name2+3` reads as name := 2+3 (documented); with a digit name the compound form is the modifier
        sp = r.choice(["", " "])
        sp2 = r.choice(["", " "])
        src += shown + sp + op + sp2 + vs
        if op in ("+", "+="):
            exp.append(f"mod|{name}|{vr}||+|{vs}")
        elif op == "-=":
            exp.append(f"mod|{name}|{vr}||-=|{vs}")
        else:
            exp.append(f"mod|{name}|{vr}||-|-{sp2}{vs}")     # the text of `name - v` is the expression `- v`, verbatim
        if i < n - 1:
            src += r.choice([" ", ",", ", ", " ,", ""])
    return src, exp


def main(tier):
    run = Run("C18", tier, module="DS.Props.C18", props_file="DS/Props/C18.lean", extra_files=["DS/Model/StList.lean"])
    if run.prepare():
        run.proofs()
        r = run.rng
        cases = []
        n = 6000 if tier == "thorough" else 1500
        for _ in range(n):
            if r.random() < 0.6:
                cases.append(gen_assign_list(r) + ("assign",))
            else:
                cases.append(gen_modify_list(r) + ("modify",))
        lines = [f"strun m {1:032x} {hx(src)}" for src, exp, kind in cases]
        out = go_child().run(lines)
        st = run.streams.setdefault("st-oracle", {"cases": 0, "agree": 0, "impl_only": True})
        for (src, exp, kind), o in zip(cases, out):
            st["cases"] += 1
            run.evaluations += 1
            run.count("kind." + kind)
            run.count("edits", len(exp))
            f = o.split()
            kv = dict(x.split("=", 1) for x in f[1:] if "=" in x)
            log = unhx(kv.get("st", "-")).decode("utf-8", "replace")
            got = log.split(";") if log else []
            rest = unhx(kv.get("r", "-")).decode("utf-8", "replace") if f and f[0] == "ok" else None
            rep = {"source": src, "expected_callbacks": exp, "callbacks": got, "implementation": o[:300], "rest": rest}
            if not f or f[0] != "ok":
                run.violation("st-list-rejected", rep)
            elif got != exp:
                run.violation("st-callbacks-differ", rep)
            elif rest.strip():
                run.violation("st-input-left-unparsed", rep)
            elif kv.get("late", "same") != "same":
                run.violation("st-callback-value-not-a-copy", dict(rep, values_after_the_run=unhx(kv["late"][5:]).decode("utf-8", "replace")))
            else:
                st["agree"] += 1
                run.nontriv(("st", src))
        # ---------- an edit that cannot be carried out (`name - <something that has no negative>`) ends the list with an error: the host hears
        #            of the edits before it, and of nothing from it on — a failed edit is not reported as if it had happened
        NONNUM = ["'abc'", "[1,2]", "{'a':1}", "`x{1}`", "('a'+'b')", "[1][0:1]",
                  # (the sign binds to the first operand only: these are values the EDIT has to negate, and cannot)
                  "0||'abc'", "1?'a':'b'", "0||[1,2]", "0 || {'a':1}", "0?1:`t`", "1&&'s'"]
        fcases = []
        for _ in range(300 if tier == "thorough" else 80):
            pre_src, pre_exp = gen_modify_list(r) if r.random() < 0.5 else gen_assign_list(r)
            if r.random() < 0.3:
                pre_src, pre_exp = "^st", []
            sep = "" if pre_src == "^st" else r.choice([",", ", "])
            bad = r.choice(["力量", "hp", "san"]) + r.choice([" - ", "-", " -"]) + r.choice(NONNUM)
            tail = r.choice(["", ", 敏捷+1", " hp+2", ", a=1"])
            fcases.append((pre_src + sep + bad + tail, pre_exp))
        fo = go_child().run([f"strun m {1:032x} {hx(src)}" for src, exp in fcases])
        for (src, exp), o in zip(fcases, fo):
            run.evaluations += 1
            f = o.split()
            kv = dict(x.split("=", 1) for x in f[1:] if "=" in x)
            log = unhx(kv.get("st", "-")).decode("utf-8", "replace")
            got = log.split(";") if log else []
            rep = {"source": src, "expected_callbacks": exp, "callbacks": got, "implementation": o[:300]}
            run.count("failing-edit." + (f[0] if f else "none"))
            if f and f[0] in ("panic", "died"):
                run.violation("st-failing-edit-crashes", rep)
            elif f and f[0] == "err" and got != exp:
                run.violation("st-failed-edit-reported-to-the-host", rep)
            elif f and f[0] == "err":
                run.nontriv(("st-fail", src))
        # ---------- model tie: plain assignment lists read by the Lean model
        plain = []
        for _ in range(1500 if tier == "thorough" else 400):
            k = r.randint(1, 6)
            src = ""
            for i in range(k):
                while True:
                    nm = r.choice(NAMES_PLAIN + ["射击", "弓箭"])
                    # directly after a number a name starting with a dice letter continues the number (`7d…`): the value of an
                    # edit is an expression, not a digit run — outside the model's class
                    if not (i > 0 and "," not in src[-2:] and nm[:1] in DICE_LETTERS):
                        break
                src += nm + r.choice(["", ":", "="]) + str(r.choice([0, 7, 60, 100, 99999])) + (r.choice(["", " ", ","]) if i < k - 1 else "")
            plain.append(src)
        g = go_child().run([f"strun - {1:032x} {hx('^st' + s)}" for s in plain])
        m = lean_child().run([f"stlist {hx(s)}" for s in plain])
        ms = run.streams.setdefault("st", {"cases": 0, "agree": 0})
        for s, a, b in zip(plain, g, m):
            ms["cases"] += 1
            run.evaluations += 1
            f = a.split()
            kv = dict(x.split("=", 1) for x in f[1:] if "=" in x)
            log = unhx(kv.get("st", "-")).decode("utf-8", "replace")
            canon = ";".join("|".join(e.split("|")[1:3]) for e in log.split(";")) if log else ""
            if f and f[0] == "ok" and b == "ok " + (hx(canon) if canon else "-"):
                ms["agree"] += 1
            else:
                run.violation("correspondence:st", {"stream": "st", "source": "^st" + s, "implementation": a[:300], "model": b[:300]})
        run.sample({"oracle": "st", "source": cases[0][0], "expected": cases[0][1]})
    return run.finish(
        trusted=["Lean 4.33 kernel", "axioms: propext, Classical.choice, Quot.sound", "Go harness (CallbackSt logger) + Lean driver",
                 "the expected callback log of the oracle is computed by the check script from the intended edits (independent of the implementation)"],
        rule="edit lists of 1-5 assignments (plain / *: / *k: / &computed) or 1-4 modifications (+ += - -=) x names {letters/CJK, with digits, namespaced a:b, quoted with "
             "blanks/digits/':'} x values {ints, floats, dice under min mode, parenthesised expressions} x binders {'', ':', '='} x separators {'', ' ', ',', ', '}",
        assumptions=["`name2+3` (digit name, bare + or -) is read as name := 2+3, as documented; the generator writes += / -= there"])
