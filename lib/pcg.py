"""Python copy of PCG-128 XSL-RR (x/exp/rand.PCGSource) — used only to *choose* interesting cases
(states whose first word is a given value, states with forced rejections); never as an oracle."""
M128 = (1 << 128) - 1
M64 = (1 << 64) - 1
MULT = 47026247687942121848144207491837523525
INC = 117397592171526113268558934119004209487
MULT_INV = pow(MULT, -1, 1 << 128)


def step(s):
    return (s * MULT + INC) & M128


def output(s):
    hi, lo = s >> 64, s & M64
    x = hi ^ lo
    r = hi >> 58
    return ((x >> r) | (x << (64 - r))) & M64 if r else x


def next_word(s):
    s = step(s)
    return output(s), s


def words(s, k):
    out = []
    for _ in range(k):
        w, s = next_word(s)
        out.append(w)
    return out, s


def state_for_first_word(w, hi):
    """a state whose first Uint64() is exactly w (hi = chosen high half of the post-step state)"""
    r = hi >> 58
    x = ((w << r) | (w >> (64 - r))) & M64 if r else w   # rotl
    lo = hi ^ x
    post = (hi << 64) | lo
    pre = ((post - INC) * MULT_INV) & M128
    assert next_word(pre)[0] == w
    return pre


def ceiling(n):
    return M64 - M64 % n


def is_pow2(n):
    return n & (n - 1) == 0
