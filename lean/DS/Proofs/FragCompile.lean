/-
  compile_correct for the arithmetic / conditional fragment: running the compiled code on the VM model's dispatch loop
  produces what the definitional semantics prescribes — value, error, heap — from every frame and surrounding stack.
-/
import DS.Proofs.FragLemmas

namespace DS.Frag
open DS.VM

def CodeAt (code : Array Instr) (pc : Nat) (l : List Instr) : Prop :=
  pc + l.length ≤ code.size ∧ ∀ i, i < l.length → code[pc + i]! = l[i]!

theorem CodeAt.append_left {code : Array Instr} {pc : Nat} {a b : List Instr} (h : CodeAt code pc (a ++ b)) : CodeAt code pc a := by
  refine ⟨by have := h.1; simp only [List.length_append] at this; omega, ?_⟩
  intro i hi
  have := h.2 i (by simp only [List.length_append]; omega)
  rw [this, List.getElem!_eq_getElem?_getD, List.getElem!_eq_getElem?_getD, List.getElem?_append_left hi]

theorem CodeAt.append_right {code : Array Instr} {pc : Nat} {a b : List Instr} (h : CodeAt code pc (a ++ b)) : CodeAt code (pc + a.length) b := by
  refine ⟨by have := h.1; simp only [List.length_append] at this; omega, ?_⟩
  intro i hi
  have := h.2 (a.length + i) (by simp only [List.length_append]; omega)
  rw [← Nat.add_assoc] at this
  rw [this, List.getElem!_eq_getElem?_getD, List.getElem!_eq_getElem?_getD, List.getElem?_append_right (by omega)]
  simp

theorem CodeAt.head {code : Array Instr} {pc : Nat} {x : Instr} {r : List Instr} (h : CodeAt code pc (x :: r)) :
    pc < code.size ∧ code[pc]! = x := by
  refine ⟨by have := h.1; simp only [List.length_cons] at this; omega, ?_⟩
  have := h.2 0 (by simp)
  simpa using this

def Runs (k : Nat) (g : G) (f : Frame) (g' : G) (f' : Frame) : Prop := ∀ fuel, evalLoop (fuel + k) g f = evalLoop fuel g' f'
def Fails (k : Nat) (g : G) (f : Frame) (g' : G) (m : String) : Prop := ∀ fuel, evalLoop (fuel + k) g f = (g', .err m)

theorem Runs.trans {k1 k2 : Nat} {g g1 g2 : G} {f f1 f2 : Frame} (h1 : Runs k1 g f g1 f1) (h2 : Runs k2 g1 f1 g2 f2) :
    Runs (k2 + k1) g f g2 f2 := by
  intro fuel
  rw [← Nat.add_assoc, h1, h2]

theorem Runs.fails {k1 k2 : Nat} {g g1 g2 : G} {f f1 : Frame} {m : String} (h1 : Runs k1 g f g1 f1) (h2 : Fails k2 g1 f1 g2 m) :
    Fails (k2 + k1) g f g2 m := by
  intro fuel
  rw [← Nat.add_assoc, h1, h2]

/-- the frame after an expression has been evaluated: its value sits on top of the untouched stack -/
structure After (f f' : Frame) (pc' : Nat) (v : Val) : Prop where
  code : f'.code = f.code
  ctx : f'.ctx = f.ctx
  pc : f'.pc = pc'
  top : f'.top = f.top + 1
  val : f'.stack[f.top]! = v
  below : ∀ i, i < f.top → f'.stack[i]! = f.stack[i]!
  size : f'.stack.size = f.stack.size
  blocks : f'.blocks = f.blocks
  fblocks : f'.fblocks = f.fblocks

set_option hygiene false in
/-- the open statement blocks are untouched by expression code -/
macro "blk" : tactic => `(tactic| first
  | rfl
  | exact haft1.blocks
  | exact haft2.blocks.trans haft1.blocks
  | exact haft2.blocks)

set_option hygiene false in
macro "fblk" : tactic => `(tactic| first
  | rfl
  | exact haft1.fblocks
  | exact haft2.fblocks.trans haft1.fblocks
  | exact haft2.fblocks)


theorem set_get_same (a : Array Val) (i : Nat) (v : Val) (h : i < a.size) : (a.set! i v)[i]! = v := by
  simp [Array.set!, getElem!_pos, h]

theorem set_get_ne (a : Array Val) (i j : Nat) (v : Val) (h : i ≠ j) : (a.set! i v)[j]! = a[j]! := by
  simp only [Array.set!, getElem!_def, Array.getElem?_setIfInBounds, h, if_false]

theorem set_size (a : Array Val) (i : Nat) (v : Val) : (a.set! i v).size = a.size := by simp [Array.set!]

theorem addOps_cfg (g : G) (c : Nat) (n : Int) : (addOps g c n).cfg = g.cfg := rfl
theorem addOps_heap (g : G) (c : Nat) (n : Int) : (addOps g c n).heap = g.heap := rfl
theorem ctxAttrs_heap (g : G) (h : Heap) (c : Nat) : ctxAttrs { g with heap := h } c = ctxAttrs g c := rfl


theorem depth_pos (e : F) : 1 ≤ depth e := by
  induction e <;> simp only [depth] <;> omega

/-- hypotheses on the machine state that every step needs and every step preserves -/
structure Ready (z : Bool) (g : G) (f : Frame) : Prop where
  nolimit : g.cfg.opLimit = 0
  div0 : g.cfg.ignoreDiv0 = z
  size : f.stack.size = stackSize

/-- closes `∀ c, ctxAttrs g' c = ctxAttrs g c` for a `g'` built from `g` by charges, heap updates and the runs of sub-expressions -/
macro "ctx_tac" : tactic => `(tactic| first
  | (intro c; simp only [ctxAttrs_addOps, ctxAttrs_heap, *])
  | (intro c; rfl))

theorem run_compile (z : Bool) (env : Nat) (e : F) : ∀ (g : G) (f : Frame), CodeAt f.code f.pc (compile e) → Ready z g f →
    ctxAttrs g f.ctx = env →
    f.top + depth e < stackSize →
    (match evalF z env g.heap e with
     | (h', .ok v) => ∃ k g' f', Runs k g f g' f' ∧ After f f' (f.pc + (compile e).length) v ∧ g'.cfg = g.cfg ∧ g'.heap = h' ∧
         (∀ c, ctxAttrs g' c = ctxAttrs g c)
     | (h', .err m) => ∃ k g', Fails k g f g' m ∧ g'.heap = h'
     | _ => True) := by
  induction e with
  | lit i =>
    intro g f hc hr henv hroom
    simp only [compile, depth] at hc hroom
    obtain ⟨hpc, hi⟩ := hc.head
    simp only [evalF, compile, List.length_singleton]
    refine ⟨1, addOps g f.ctx 1, _, fun fuel => step_pushInt fuel g f i hpc hi hr.nolimit (by omega) hr.size, ?_, rfl, rfl, by ctx_tac⟩
    exact ⟨rfl, rfl, rfl, rfl, set_get_same _ _ _ (by rw [hr.size]; omega), fun j hj => set_get_ne _ _ _ _ (by omega), set_size _ _ _, by blk, by fblk⟩
  | flt x =>
    intro g f hc hr henv hroom
    simp only [compile, depth] at hc hroom
    obtain ⟨hpc, hi⟩ := hc.head
    simp only [evalF, compile, List.length_singleton]
    refine ⟨1, addOps g f.ctx 1, _, fun fuel => step_pushFlt fuel g f x hpc hi hr.nolimit (by omega) hr.size, ?_, rfl, rfl, by ctx_tac⟩
    exact ⟨rfl, rfl, rfl, rfl, set_get_same _ _ _ (by rw [hr.size]; omega), fun j hj => set_get_ne _ _ _ _ (by omega), set_size _ _ _, by blk, by fblk⟩
  | str x =>
    intro g f hc hr henv hroom
    simp only [compile, depth] at hc hroom
    obtain ⟨hpc, hi⟩ := hc.head
    simp only [evalF, compile, List.length_singleton]
    refine ⟨1, addOps g f.ctx 1, _, fun fuel => step_pushStr fuel g f x hpc hi hr.nolimit (by omega) hr.size, ?_, rfl, rfl, by ctx_tac⟩
    exact ⟨rfl, rfl, rfl, rfl, set_get_same _ _ _ (by rw [hr.size]; omega), fun j hj => set_get_ne _ _ _ _ (by omega), set_size _ _ _, by blk, by fblk⟩
  | nul =>
    intro g f hc hr henv hroom
    simp only [compile, depth] at hc hroom
    obtain ⟨hpc, hi⟩ := hc.head
    simp only [evalF, compile, List.length_singleton]
    refine ⟨1, addOps g f.ctx 1, _, fun fuel => step_pushNull fuel g f hpc hi hr.nolimit (by omega) hr.size, ?_, rfl, rfl, by ctx_tac⟩
    exact ⟨rfl, rfl, rfl, rfl, set_get_same _ _ _ (by rw [hr.size]; omega), fun j hj => set_get_ne _ _ _ _ (by omega), set_size _ _ _, by blk, by fblk⟩
  | bin op a b iha ihb =>
    intro g f hc hr henv hroom
    simp only [compile, depth] at hc hroom
    have hca : CodeAt f.code f.pc (compile a) := hc.append_left.append_left
    have hcb : CodeAt f.code (f.pc + (compile a).length) (compile b) := hc.append_left.append_right
    have hcop := hc.append_right
    have ha := iha g f hca hr henv (by omega)
    simp only [evalF]
    cases hea : evalF z env g.heap a with
    | mk h1 ra =>
      rw [hea] at ha
      cases ra with
      | ok va =>
        obtain ⟨k1, g1, f1, hrun1, haft1, hcfg1, hheap1, hctx1⟩ := ha
        have hr1 : Ready z g1 f1 := ⟨by rw [hcfg1]; exact hr.nolimit, by rw [hcfg1]; exact hr.div0, by rw [haft1.size]; exact hr.size⟩
        have hb := ihb g1 f1 (by rw [haft1.code, haft1.pc]; exact hcb) hr1 (by rw [hctx1, haft1.ctx]; exact henv) (by rw [haft1.top]; omega)
        rw [hheap1] at hb
        simp only
        cases heb : evalF z env h1 b with
        | mk h2 rb =>
          rw [heb] at hb
          cases rb with
          | ok vb =>
            obtain ⟨k2, g2, f2, hrun2, haft2, hcfg2, hheap2, hctx2⟩ := hb
            simp only
            -- the operator instruction
            have hpc2 : f2.pc = f.pc + (compile a).length + (compile b).length := by rw [haft2.pc, haft1.pc]
            have hcode2 : f2.code = f.code := by rw [haft2.code, haft1.code]
            have htop2 : f2.top = f.top + 2 := by rw [haft2.top, haft1.top]
            obtain ⟨hpcI, hI⟩ := hcop.head
            have hpcI' : f2.pc < f2.code.size := by rw [hcode2, hpc2, Nat.add_assoc]; simpa [List.length_append] using hpcI
            have hI' : f2.code[f2.pc]! = .bin op := by rw [hcode2, hpc2]; simpa [List.length_append, Nat.add_assoc] using hI
            have hs2 : f2.stack.size = stackSize := by rw [haft2.size, haft1.size]; exact hr.size
            have hva : f2.stack[f2.top - 2]! = va := by
              have : f2.top - 2 = f.top := by omega
              rw [this, haft2.below f.top (by rw [haft1.top]; omega), haft1.val]
            have hvb : f2.stack[f2.top - 1]! = vb := by
              have : f2.top - 1 = f1.top := by rw [haft2.top]; omega
              rw [this, haft2.val]
            have hdb := depth_pos b
            have hl2 : g2.cfg.opLimit = 0 := by rw [hcfg2, hcfg1]; exact hr.nolimit
            have hz2 : g2.cfg.ignoreDiv0 = z := by rw [hcfg2, hcfg1]; exact hr.div0
            cases hbo : binOp h2 z op va vb with
            | mk h3 r3 =>
              cases r3 with
              | ok v =>
                have hstep := fun fuel => step_bin_ok fuel g2 f2 op h3 v hpcI' hI' hl2 (by omega) hs2 (by omega)
                  (by rw [hva, hvb, hheap2, hz2]; exact hbo)
                refine ⟨1 + (k2 + k1), _, _, (hrun1.trans hrun2).trans (fun fuel => hstep fuel), ?_, ?_, rfl, by ctx_tac⟩
                · refine ⟨hcode2, by simp only; rw [haft2.ctx, haft1.ctx], ?_, by simp only; omega, ?_, ?_, ?_, by blk, by fblk⟩
                  · simp only [hpc2, compile, List.length_append, List.length_singleton]; omega
                  · have : f2.top - 2 = f.top := by omega
                    simp only [this]
                    exact set_get_same _ _ _ (by rw [hs2]; omega)
                  · intro j hj
                    have : f2.top - 2 = f.top := by omega
                    simp only [this]
                    rw [set_get_ne _ _ _ _ (by omega), haft2.below j (by rw [haft1.top]; omega), haft1.below j hj]
                  · simp only; rw [set_size, haft2.size, haft1.size]
                · simp only [addOps_cfg]; rw [hcfg2, hcfg1]
              | err m =>
                have hstep := fun fuel => step_bin_err fuel g2 f2 op h3 m hpcI' hI' hl2 (by omega) (by omega)
                  (by rw [hva, hvb, hheap2, hz2]; exact hbo)
                exact ⟨1 + (k2 + k1), _, (hrun1.trans hrun2).fails (fun fuel => hstep fuel), rfl⟩
              | panic _ => trivial
              | unsup _ => trivial
              | diverge => trivial
          | err m =>
            obtain ⟨k2, g2, hf2, hheap2⟩ := hb
            exact ⟨k2 + k1, g2, hrun1.fails hf2, hheap2⟩
          | panic _ => trivial
          | unsup _ => trivial
          | diverge => trivial
      | err m =>
        obtain ⟨k1, g1, hf1, hheap1⟩ := ha
        exact ⟨k1, g1, hf1, hheap1⟩
      | panic _ => trivial
      | unsup _ => trivial
      | diverge => trivial
  | neg a iha =>
    intro g f hc hr henv hroom
    simp only [compile, depth] at hc hroom
    have hca : CodeAt f.code f.pc (compile a) := hc.append_left
    have hcop := hc.append_right
    have ha := iha g f hca hr henv hroom
    simp only [evalF]
    cases hea : evalF z env g.heap a with
    | mk h1 ra =>
      rw [hea] at ha
      cases ra with
      | ok va =>
        obtain ⟨k1, g1, f1, hrun1, haft1, hcfg1, hheap1, hctx1⟩ := ha
        obtain ⟨hpcI, hI⟩ := hcop.head
        have hpcI' : f1.pc < f1.code.size := by rw [haft1.code, haft1.pc]; exact hpcI
        have hI' : f1.code[f1.pc]! = .neg := by rw [haft1.code, haft1.pc]; exact hI
        have hs1 : f1.stack.size = stackSize := by rw [haft1.size]; exact hr.size
        have hl1 : g1.cfg.opLimit = 0 := by rw [hcfg1]; exact hr.nolimit
        have hda := depth_pos a
        have hva : f1.stack[f1.top - 1]! = va := by
          have : f1.top - 1 = f.top := by rw [haft1.top]; omega
          rw [this, haft1.val]
        simp only
        cases hn : opNeg va with
        | some r =>
          have hstep := fun fuel => step_neg_ok fuel g1 f1 r hpcI' hI' hl1 (by rw [haft1.top]; omega) hs1 (by rw [haft1.top]; omega) (by rw [hva]; exact hn)
          refine ⟨1 + k1, _, _, hrun1.trans (fun fuel => hstep fuel), ?_, by simp only [addOps_cfg]; exact hcfg1, by simp only [addOps_heap]; exact hheap1, by ctx_tac⟩
          have ht : f1.top - 1 = f.top := by rw [haft1.top]; omega
          refine ⟨haft1.code, haft1.ctx, ?_, by simp only; rw [haft1.top], ?_, ?_, by simp only; rw [set_size, haft1.size], by blk, by fblk⟩
          · simp only [haft1.pc, compile, List.length_append, List.length_singleton]; omega
          · simp only [ht]; exact set_get_same _ _ _ (by rw [hs1]; omega)
          · intro j hj; simp only [ht]; rw [set_get_ne _ _ _ _ (by omega), haft1.below j hj]
        | none =>
          have hstep := fun fuel => step_neg_err fuel g1 f1 hpcI' hI' hl1 (by rw [haft1.top]; omega) (by rw [haft1.top]; omega) (by rw [hva]; exact hn)
          refine ⟨1 + k1, _, hrun1.fails (fun fuel => by rw [hstep fuel, hva]), by simp only [addOps_heap]; exact hheap1⟩
      | err m =>
        obtain ⟨k1, g1, hf1, hheap1⟩ := ha
        exact ⟨k1, g1, hf1, hheap1⟩
      | panic _ => trivial
      | unsup _ => trivial
      | diverge => trivial
  | pos a iha =>
    intro g f hc hr henv hroom
    simp only [compile, depth] at hc hroom
    have hca : CodeAt f.code f.pc (compile a) := hc.append_left
    have hcop := hc.append_right
    have ha := iha g f hca hr henv hroom
    simp only [evalF]
    cases hea : evalF z env g.heap a with
    | mk h1 ra =>
      rw [hea] at ha
      cases ra with
      | ok va =>
        obtain ⟨k1, g1, f1, hrun1, haft1, hcfg1, hheap1, hctx1⟩ := ha
        obtain ⟨hpcI, hI⟩ := hcop.head
        have hpcI' : f1.pc < f1.code.size := by rw [haft1.code, haft1.pc]; exact hpcI
        have hI' : f1.code[f1.pc]! = .pos := by rw [haft1.code, haft1.pc]; exact hI
        have hs1 : f1.stack.size = stackSize := by rw [haft1.size]; exact hr.size
        have hl1 : g1.cfg.opLimit = 0 := by rw [hcfg1]; exact hr.nolimit
        have hda := depth_pos a
        have hva : f1.stack[f1.top - 1]! = va := by
          have : f1.top - 1 = f.top := by rw [haft1.top]; omega
          rw [this, haft1.val]
        simp only
        cases hn : opPos va with
        | some r =>
          have hstep := fun fuel => step_pos_ok fuel g1 f1 r hpcI' hI' hl1 (by rw [haft1.top]; omega) hs1 (by rw [haft1.top]; omega) (by rw [hva]; exact hn)
          refine ⟨1 + k1, _, _, hrun1.trans (fun fuel => hstep fuel), ?_, by simp only [addOps_cfg]; exact hcfg1, by simp only [addOps_heap]; exact hheap1, by ctx_tac⟩
          have ht : f1.top - 1 = f.top := by rw [haft1.top]; omega
          refine ⟨haft1.code, haft1.ctx, ?_, by simp only; rw [haft1.top], ?_, ?_, by simp only; rw [set_size, haft1.size], by blk, by fblk⟩
          · simp only [haft1.pc, compile, List.length_append, List.length_singleton]; omega
          · simp only [ht]; exact set_get_same _ _ _ (by rw [hs1]; omega)
          · intro j hj; simp only [ht]; rw [set_get_ne _ _ _ _ (by omega), haft1.below j hj]
        | none =>
          have hstep := fun fuel => step_pos_err fuel g1 f1 hpcI' hI' hl1 (by rw [haft1.top]; omega) (by rw [haft1.top]; omega) (by rw [hva]; exact hn)
          refine ⟨1 + k1, _, hrun1.fails (fun fuel => by rw [hstep fuel, hva]), by simp only [addOps_heap]; exact hheap1⟩
      | err m =>
        obtain ⟨k1, g1, hf1, hheap1⟩ := ha
        exact ⟨k1, g1, hf1, hheap1⟩
      | panic _ => trivial
      | unsup _ => trivial
      | diverge => trivial
  | tern c a b ihc iha ihb =>
    intro g f hc hr henv hroom
    simp only [compile, depth] at hc hroom
    -- code layout: C ++ [jne (la+1)] ++ A ++ [jmp lb] ++ B
    have hcc : CodeAt f.code f.pc (compile c) := hc.append_left.append_left.append_left.append_left
    have hcjne := hc.append_left.append_left.append_left.append_right
    have hca := hc.append_left.append_left.append_right
    have hcjmp := hc.append_left.append_right
    have hcb := hc.append_right
    simp only [List.length_append, List.length_singleton, ← Nat.add_assoc] at hca hcjmp hcb
    have hcv := ihc g f hcc hr henv (by omega)
    simp only [evalF]
    cases hec : evalF z env g.heap c with
    | mk h1 rc =>
      rw [hec] at hcv
      cases rc with
      | ok vc =>
        obtain ⟨k1, g1, f1, hrun1, haft1, hcfg1, hheap1, hctx1⟩ := hcv
        obtain ⟨hpcJ, hJ⟩ := hcjne.head
        have hpcJ' : f1.pc < f1.code.size := by rw [haft1.code, haft1.pc]; exact hpcJ
        have hJ' : f1.code[f1.pc]! = .jne (some (((compile a).length + 1 : Nat) : Int)) := by
          rw [haft1.code, haft1.pc, hJ]; simp
        have hs1 : f1.stack.size = stackSize := by rw [haft1.size]; exact hr.size
        have hl1 : g1.cfg.opLimit = 0 := by rw [hcfg1]; exact hr.nolimit
        have hdc := depth_pos c
        have hstepJ := fun fuel => step_jne fuel g1 f1 ((compile a).length + 1) hpcJ' hJ' hl1 (by rw [haft1.top]; omega) (by rw [haft1.top]; omega)
        have hvc : f1.stack[f1.top - 1]! = vc := by
          have : f1.top - 1 = f.top := by rw [haft1.top]; omega
          rw [this, haft1.val]
        simp only
        rw [← hheap1]
        cases hcond : asBool g1.heap vc with
        | true =>
          simp only [if_true]
          -- fall through into A
          let fA : Frame := { f1 with pc := f1.pc + 1, top := f1.top - 1, lastPop := .slot (f1.top - 1) }
          have hrunJ : Runs 1 g1 f1 (addOps g1 f1.ctx 1) fA := by
            intro fuel; rw [hstepJ fuel, hvc, hcond]; rfl
          have hrA : Ready z (addOps g1 f1.ctx 1) fA := ⟨hl1, by simp only [addOps_cfg]; rw [hcfg1]; exact hr.div0, hs1⟩
          have hAt : fA.top = f.top := by simp only [fA]; rw [haft1.top]; omega
          have hav := iha (addOps g1 f1.ctx 1) fA (by simp only [fA]; rw [haft1.code, haft1.pc]; exact hca) hrA (by simp only [fA]; rw [ctxAttrs_addOps, hctx1, haft1.ctx]; exact henv) (by rw [hAt]; omega)
          simp only [addOps_heap] at hav
          cases hea : evalF z env g1.heap a with
          | mk h2 ra =>
            rw [hea] at hav
            cases ra with
            | ok va =>
              obtain ⟨k2, g2, f2, hrun2, haft2, hcfg2, hheap2, hctx2⟩ := hav
              simp only
              obtain ⟨hpcM, hM⟩ := hcjmp.head
              have hpc2 : f2.pc = f.pc + (compile c).length + 1 + (compile a).length := by rw [haft2.pc]; simp only [fA]; rw [haft1.pc]
              have hcode2 : f2.code = f.code := by rw [haft2.code]; exact haft1.code
              have hpcM' : f2.pc < f2.code.size := by rw [hcode2, hpc2]; exact hpcM
              have hM' : f2.code[f2.pc]! = .jmp (some (((compile b).length : Nat) : Int)) := by rw [hcode2, hpc2]; exact hM
              have hl2 : g2.cfg.opLimit = 0 := by rw [hcfg2]; exact hl1
              have hda := depth_pos a
              have hstepM := fun fuel => step_jmp fuel g2 f2 (compile b).length hpcM' hM' hl2 (by rw [haft2.top, hAt]; omega)
              refine ⟨1 + (k2 + (1 + k1)), _, _, ((hrun1.trans hrunJ).trans hrun2).trans (fun fuel => hstepM fuel), ?_,
                by simp only [addOps_cfg]; rw [hcfg2]; simp only [addOps_cfg]; exact hcfg1, by simp only [addOps_heap]; exact hheap2, by ctx_tac⟩
              refine ⟨hcode2, by simp only; rw [haft2.ctx]; exact haft1.ctx, ?_, by simp only; rw [haft2.top, hAt], ?_, ?_, by simp only; rw [haft2.size]; exact haft1.size, by blk, by fblk⟩
              · simp only [hpc2, compile, List.length_append, List.length_singleton]; omega
              · simp only; rw [← hAt]; exact haft2.val
              · intro j hj; simp only; rw [haft2.below j (by rw [hAt]; exact hj)]; exact haft1.below j hj
            | err m =>
              obtain ⟨k2, g2, hf2, hheap2⟩ := hav
              exact ⟨k2 + (1 + k1), g2, (hrun1.trans hrunJ).fails hf2, hheap2⟩
            | panic _ => trivial
            | unsup _ => trivial
            | diverge => trivial
        | false =>
          simp only [Bool.false_eq_true, if_false]
          -- jump over A and its jmp into B
          let fB : Frame := { f1 with pc := f1.pc + 1 + ((compile a).length + 1), top := f1.top - 1, lastPop := .slot (f1.top - 1) }
          have hrunJ : Runs 1 g1 f1 (addOps g1 f1.ctx 1) fB := by
            intro fuel; rw [hstepJ fuel, hvc, hcond]; rfl
          have hrB : Ready z (addOps g1 f1.ctx 1) fB := ⟨hl1, by simp only [addOps_cfg]; rw [hcfg1]; exact hr.div0, hs1⟩
          have hBt : fB.top = f.top := by simp only [fB]; rw [haft1.top]; omega
          have hpcB : fB.pc = f.pc + (compile c).length + 1 + (compile a).length + 1 := by simp only [fB]; rw [haft1.pc]; omega
          have hbv := ihb (addOps g1 f1.ctx 1) fB (by rw [hpcB]; simp only [fB]; rw [haft1.code]; exact hcb) hrB (by simp only [fB]; rw [ctxAttrs_addOps, hctx1, haft1.ctx]; exact henv) (by rw [hBt]; omega)
          simp only [addOps_heap] at hbv
          cases heb : evalF z env g1.heap b with
          | mk h2 rb =>
            rw [heb] at hbv
            cases rb with
            | ok vb =>
              obtain ⟨k2, g2, f2, hrun2, haft2, hcfg2, hheap2, hctx2⟩ := hbv
              simp only
              refine ⟨k2 + (1 + k1), g2, f2, (hrun1.trans hrunJ).trans hrun2, ?_, by rw [hcfg2]; simp only [addOps_cfg]; exact hcfg1, hheap2, by ctx_tac⟩
              refine ⟨by rw [haft2.code]; exact haft1.code, by rw [haft2.ctx]; exact haft1.ctx, ?_, by rw [haft2.top, hBt], ?_, ?_, by rw [haft2.size]; exact haft1.size, by blk, by fblk⟩
              · rw [haft2.pc, hpcB]; simp only [compile, List.length_append, List.length_singleton]; omega
              · rw [← hBt]; exact haft2.val
              · intro j hj; rw [haft2.below j (by rw [hBt]; exact hj)]; exact haft1.below j hj
            | err m =>
              obtain ⟨k2, g2, hf2, hheap2⟩ := hbv
              exact ⟨k2 + (1 + k1), g2, (hrun1.trans hrunJ).fails hf2, hheap2⟩
            | panic _ => trivial
            | unsup _ => trivial
            | diverge => trivial
      | err m =>
        obtain ⟨k1, g1, hf1, hheap1⟩ := hcv
        exact ⟨k1, g1, hf1, hheap1⟩
      | panic _ => trivial
      | unsup _ => trivial
      | diverge => trivial
  | lor a b iha ihb =>
    intro g f hc hr henv hroom
    simp only [compile, depth] at hc hroom
    -- code layout: A ++ [je.dup (lb+2)] ++ B ++ [je.dup 1] ++ [push.last]
    have hca : CodeAt f.code f.pc (compile a) := hc.append_left.append_left.append_left.append_left
    have hcj1 := hc.append_left.append_left.append_left.append_right
    have hcb := hc.append_left.append_left.append_right
    have hcj2 := hc.append_left.append_right
    have hcpl := hc.append_right
    simp only [List.length_append, List.length_singleton, ← Nat.add_assoc] at hcb hcj2 hcpl
    have hav := iha g f hca hr henv (by omega)
    simp only [evalF]
    cases hea : evalF z env g.heap a with
    | mk h1 ra =>
      rw [hea] at hav
      cases ra with
      | ok va =>
        obtain ⟨k1, g1, f1, hrun1, haft1, hcfg1, hheap1, hctx1⟩ := hav
        obtain ⟨hpcJ, hJ⟩ := hcj1.head
        have hpcJ' : f1.pc < f1.code.size := by rw [haft1.code, haft1.pc]; exact hpcJ
        have hJ' : f1.code[f1.pc]! = .jeDup (some (((compile b).length + 2 : Nat) : Int)) := by
          rw [haft1.code, haft1.pc, hJ]; simp
        have hs1 : f1.stack.size = stackSize := by rw [haft1.size]; exact hr.size
        have hl1 : g1.cfg.opLimit = 0 := by rw [hcfg1]; exact hr.nolimit
        have hda := depth_pos a
        have ht1 : f1.top - 1 = f.top := by rw [haft1.top]; omega
        have hstepJ := fun fuel => step_jeDup fuel g1 f1 ((compile b).length + 2) hpcJ' hJ' hl1 (by rw [haft1.top]; omega) hs1 (by rw [haft1.top]; omega)
        have hva : f1.stack[f1.top - 1]! = va := by rw [ht1, haft1.val]
        simp only
        rw [← hheap1]
        cases hcond : asBool g1.heap va with
        | true =>
          simp only [if_true]
          -- the jump is taken with the value pushed back
          have hrunJ : Runs 1 g1 f1 (addOps g1 f1.ctx 1)
              { f1 with pc := f1.pc + 1 + ((compile b).length + 2), stack := f1.stack.set! (f1.top - 1) (f1.stack[f1.top - 1]!), top := f1.top, lastPop := .slot (f1.top - 1) } := by
            intro fuel; rw [hstepJ fuel, hva, hcond]; simp only [if_true]
          refine ⟨1 + k1, _, _, hrun1.trans hrunJ, ?_, by simp only [addOps_cfg]; exact hcfg1, by simp only [addOps_heap], by ctx_tac⟩
          refine ⟨haft1.code, haft1.ctx, ?_, by simp only; rw [haft1.top], ?_, ?_, by simp only; rw [set_size]; exact haft1.size, by blk, by fblk⟩
          · simp only [haft1.pc, compile, List.length_append, List.length_singleton]; omega
          · simp only [ht1]; rw [set_get_same _ _ _ (by rw [hs1]; omega)]; exact haft1.val
          · intro j hj; simp only [ht1]; rw [set_get_ne _ _ _ _ (by omega)]; exact haft1.below j hj
        | false =>
          simp only [Bool.false_eq_true, if_false]
          let fB : Frame := { f1 with pc := f1.pc + 1, top := f1.top - 1, lastPop := .slot (f1.top - 1) }
          have hrunJ : Runs 1 g1 f1 (addOps g1 f1.ctx 1) fB := by
            intro fuel; rw [hstepJ fuel, hva, hcond]; simp only [Bool.false_eq_true, if_false]; rfl
          have hrB : Ready z (addOps g1 f1.ctx 1) fB := ⟨hl1, by simp only [addOps_cfg]; rw [hcfg1]; exact hr.div0, hs1⟩
          have hBt : fB.top = f.top := ht1
          have hpcB : fB.pc = f.pc + (compile a).length + 1 := by simp only [fB]; rw [haft1.pc]
          have hbv := ihb (addOps g1 f1.ctx 1) fB (by rw [hpcB]; simp only [fB]; rw [haft1.code]; exact hcb) hrB (by simp only [fB]; rw [ctxAttrs_addOps, hctx1, haft1.ctx]; exact henv) (by rw [hBt]; omega)
          simp only [addOps_heap] at hbv
          cases heb : evalF z env g1.heap b with
          | mk h2 rb =>
            rw [heb] at hbv
            cases rb with
            | ok vb =>
              obtain ⟨k2, g2, f2, hrun2, haft2, hcfg2, hheap2, hctx2⟩ := hbv
              simp only
              have hcode2 : f2.code = f.code := by rw [haft2.code]; exact haft1.code
              have hpc2 : f2.pc = f.pc + (compile a).length + 1 + (compile b).length := by rw [haft2.pc, hpcB]
              obtain ⟨hpcK, hK⟩ := hcj2.head
              have hpcK' : f2.pc < f2.code.size := by rw [hcode2, hpc2]; exact hpcK
              have hK' : f2.code[f2.pc]! = .jeDup (some ((1 : Nat) : Int)) := by rw [hcode2, hpc2, hK]; simp
              have hs2 : f2.stack.size = stackSize := by rw [haft2.size]; exact hs1
              have hl2 : g2.cfg.opLimit = 0 := by rw [hcfg2]; exact hl1
              have hdb := depth_pos b
              have ht2 : f2.top - 1 = f.top := by rw [haft2.top, hBt]; omega
              have hvb : f2.stack[f2.top - 1]! = vb := by rw [ht2, ← hBt]; exact haft2.val
              have hstepK := fun fuel => step_jeDup fuel g2 f2 1 hpcK' hK' hl2 (by rw [haft2.top, hBt]; omega) hs2 (by rw [haft2.top]; omega)
              have hbelow : ∀ j, j < f.top → f2.stack[j]! = f.stack[j]! := by
                intro j hj; rw [haft2.below j (by rw [hBt]; exact hj)]; exact haft1.below j hj
              cases hcond2 : asBool g2.heap vb with
              | true =>
                have hrunK : Runs 1 g2 f2 (addOps g2 f2.ctx 1)
                    { f2 with pc := f2.pc + 1 + 1, stack := f2.stack.set! (f2.top - 1) (f2.stack[f2.top - 1]!), top := f2.top, lastPop := .slot (f2.top - 1) } := by
                  intro fuel; rw [hstepK fuel, hvb, hcond2]; simp only [if_true]
                refine ⟨1 + (k2 + (1 + k1)), _, _, ((hrun1.trans hrunJ).trans hrun2).trans hrunK, ?_,
                  by simp only [addOps_cfg]; rw [hcfg2]; simp only [addOps_cfg]; exact hcfg1, by simp only [addOps_heap]; exact hheap2, by ctx_tac⟩
                refine ⟨hcode2, by simp only; rw [haft2.ctx]; exact haft1.ctx, ?_, by simp only; rw [haft2.top, hBt], ?_, ?_, by simp only; rw [set_size, hs2]; exact hr.size.symm, by blk, by fblk⟩
                · simp only [hpc2, compile, List.length_append, List.length_singleton]; omega
                · simp only [ht2]; rw [set_get_same _ _ _ (by rw [hs2]; omega), ← hBt]; exact haft2.val
                · intro j hj; simp only [ht2]; rw [set_get_ne _ _ _ _ (by omega)]; exact hbelow j hj
              | false =>
                let fP : Frame := { f2 with pc := f2.pc + 1, top := f2.top - 1, lastPop := .slot (f2.top - 1) }
                have hrunK : Runs 1 g2 f2 (addOps g2 f2.ctx 1) fP := by
                  intro fuel; rw [hstepK fuel, hvb, hcond2]; simp only [Bool.false_eq_true, if_false]; rfl
                obtain ⟨hpcP, hP⟩ := hcpl.head
                have hpcP' : fP.pc < fP.code.size := by simp only [fP]; rw [hcode2, hpc2]; exact hpcP
                have hP' : fP.code[fP.pc]! = .pushLast := by simp only [fP]; rw [hcode2, hpc2]; exact hP
                have hstepP := fun fuel => step_pushLast fuel (addOps g2 f2.ctx 1) fP (f2.top - 1) hpcP' hP' hl2
                  (by simp only [fP]; rw [haft2.top, hBt]; omega) hs2 rfl
                refine ⟨1 + (1 + (k2 + (1 + k1))), _, _, (((hrun1.trans hrunJ).trans hrun2).trans hrunK).trans (fun fuel => hstepP fuel), ?_,
                  by simp only [addOps_cfg]; rw [hcfg2]; simp only [addOps_cfg]; exact hcfg1, by simp only [addOps_heap]; exact hheap2, by ctx_tac⟩
                have hPt : fP.top = f.top := ht2
                refine ⟨hcode2, by simp only [fP]; rw [haft2.ctx]; exact haft1.ctx, ?_, by simp only [hPt], ?_, ?_, by simp only [fP]; rw [set_size, hs2]; exact hr.size.symm, by blk, by fblk⟩
                · simp only [fP, hpc2, compile, List.length_append, List.length_singleton]; omega
                · simp only [hPt]
                  rw [set_get_same _ _ _ (by simp only [fP]; rw [hs2]; omega)]
                  simp only [fP, ht2]; rw [← hBt]; exact haft2.val
                · intro j hj
                  simp only [hPt]
                  rw [set_get_ne _ _ _ _ (by omega)]
                  exact hbelow j hj
            | err m =>
              obtain ⟨k2, g2, hf2, hheap2⟩ := hbv
              exact ⟨k2 + (1 + k1), g2, (hrun1.trans hrunJ).fails hf2, hheap2⟩
            | panic _ => trivial
            | unsup _ => trivial
            | diverge => trivial
      | err m =>
        obtain ⟨k1, g1, hf1, hheap1⟩ := hav
        exact ⟨k1, g1, hf1, hheap1⟩
      | panic _ => trivial
      | unsup _ => trivial
      | diverge => trivial
  | land a b iha ihb =>
    intro g f hc hr henv hroom
    simp only [compile, depth] at hc hroom
    have hca : CodeAt f.code f.pc (compile a) := hc.append_left.append_left
    have hcb : CodeAt f.code (f.pc + (compile a).length) (compile b) := hc.append_left.append_right
    have hcop := hc.append_right
    have ha := iha g f hca hr henv (by omega)
    simp only [evalF]
    cases hea : evalF z env g.heap a with
    | mk h1 ra =>
      rw [hea] at ha
      cases ra with
      | ok va =>
        obtain ⟨k1, g1, f1, hrun1, haft1, hcfg1, hheap1, hctx1⟩ := ha
        have hr1 : Ready z g1 f1 := ⟨by rw [hcfg1]; exact hr.nolimit, by rw [hcfg1]; exact hr.div0, by rw [haft1.size]; exact hr.size⟩
        have hb := ihb g1 f1 (by rw [haft1.code, haft1.pc]; exact hcb) hr1 (by rw [hctx1, haft1.ctx]; exact henv) (by rw [haft1.top]; omega)
        rw [hheap1] at hb
        simp only
        cases heb : evalF z env h1 b with
        | mk h2 rb =>
          rw [heb] at hb
          cases rb with
          | ok vb =>
            obtain ⟨k2, g2, f2, hrun2, haft2, hcfg2, hheap2, hctx2⟩ := hb
            simp only
            have hpc2 : f2.pc = f.pc + (compile a).length + (compile b).length := by rw [haft2.pc, haft1.pc]
            have hcode2 : f2.code = f.code := by rw [haft2.code, haft1.code]
            have htop2 : f2.top = f.top + 2 := by rw [haft2.top, haft1.top]
            obtain ⟨hpcI, hI⟩ := hcop.head
            have hpcI' : f2.pc < f2.code.size := by rw [hcode2, hpc2, Nat.add_assoc]; simpa [List.length_append] using hpcI
            have hI' : f2.code[f2.pc]! = .logicAnd := by rw [hcode2, hpc2]; simpa [List.length_append, Nat.add_assoc] using hI
            have hs2 : f2.stack.size = stackSize := by rw [haft2.size, haft1.size]; exact hr.size
            have hva : f2.stack[f2.top - 2]! = va := by
              have : f2.top - 2 = f.top := by omega
              rw [this, haft2.below f.top (by rw [haft1.top]; omega), haft1.val]
            have hvb : f2.stack[f2.top - 1]! = vb := by
              have : f2.top - 1 = f1.top := by rw [haft2.top]; omega
              rw [this, haft2.val]
            have hdb := depth_pos b
            have hl2 : g2.cfg.opLimit = 0 := by rw [hcfg2, hcfg1]; exact hr.nolimit
            have hstep := fun fuel => step_logicAnd fuel g2 f2 hpcI' hI' hl2 (by omega) hs2 (by omega)
            refine ⟨1 + (k2 + k1), _, _, (hrun1.trans hrun2).trans (fun fuel => hstep fuel), ?_, by simp only [addOps_cfg]; rw [hcfg2, hcfg1],
              by simp only [addOps_heap]; exact hheap2, by ctx_tac⟩
            have ht : f2.top - 2 = f.top := by omega
            refine ⟨hcode2, by simp only; rw [haft2.ctx, haft1.ctx], ?_, by simp only; omega, ?_, ?_, by simp only; rw [set_size, haft2.size, haft1.size], by blk, by fblk⟩
            · simp only [hpc2, compile, List.length_append, List.length_singleton]; omega
            · simp only [ht]
              rw [set_get_same _ _ _ (by rw [hs2]; omega), ← ht, hva, hvb, hheap2]
            · intro j hj
              simp only [ht]
              rw [set_get_ne _ _ _ _ (by omega), haft2.below j (by rw [haft1.top]; omega), haft1.below j hj]
          | err m =>
            obtain ⟨k2, g2, hf2, hheap2⟩ := hb
            exact ⟨k2 + k1, g2, hrun1.fails hf2, hheap2⟩
          | panic _ => trivial
          | unsup _ => trivial
          | diverge => trivial
      | err m =>
        obtain ⟨k1, g1, hf1, hheap1⟩ := ha
        exact ⟨k1, g1, hf1, hheap1⟩
      | panic _ => trivial
      | unsup _ => trivial
      | diverge => trivial

  | var n b e =>
    intro g f hc hr henv hroom
    simp only [compile, depth] at hc hroom
    obtain ⟨hpc0, hi0⟩ := hc.head
    have h1 := hc.2 1 (by simp)
    have hpc1 : f.pc + 1 < f.code.size := by have := hc.1; simp at this; omega
    simp only [evalF, compile, List.length_cons, List.length_nil]
    cases hv : dictGet (g.heap.dictOf env) n with
    | none => trivial
    | some v =>
      simp only
      cases hp : isPlain v with
      | false => simp
      | true =>
        simp only [if_true]
        have hds := fun fuel => step_var fuel g f n b e v hpc1 hi0 (by simpa using h1) hr.nolimit (by omega) hr.size (by rw [henv]; exact hv) hp
        refine ⟨2, _, _, hds, ?_, rfl, rfl, by ctx_tac⟩
        exact ⟨rfl, rfl, rfl, rfl, set_get_same _ _ _ (by rw [hr.size]; omega), fun j hj => set_get_ne _ _ _ _ (by omega), set_size _ _ _, by blk, by fblk⟩
  | asg n a iha =>
    intro g f hc hr henv hroom
    simp only [compile, depth] at hc hroom
    have hca : CodeAt f.code f.pc (compile a) := hc.append_left
    have hcop := hc.append_right
    have ha := iha g f hca hr henv hroom
    simp only [evalF]
    cases hea : evalF z env g.heap a with
    | mk h1 ra =>
      rw [hea] at ha
      cases ra with
      | ok va =>
        obtain ⟨k1, g1, f1, hrun1, haft1, hcfg1, hheap1, hctx1⟩ := ha
        obtain ⟨hpcI, hI⟩ := hcop.head
        have hpcI' : f1.pc < f1.code.size := by rw [haft1.code, haft1.pc]; exact hpcI
        have hI' : f1.code[f1.pc]! = .store n := by rw [haft1.code, haft1.pc]; exact hI
        have hl1 : g1.cfg.opLimit = 0 := by rw [hcfg1]; exact hr.nolimit
        have hda := depth_pos a
        have hva : f1.stack[f1.top - 1]! = va := by
          have : f1.top - 1 = f.top := by rw [haft1.top]; omega
          rw [this, haft1.val]
        have hstep := fun fuel => step_store fuel g1 f1 n hpcI' hI' hl1 (by rw [haft1.top]; omega) (by rw [haft1.top]; omega)
        simp only
        refine ⟨1 + k1, _, _, hrun1.trans (fun fuel => hstep fuel), ?_, ?_, ?_, ?_⟩
        · exact ⟨haft1.code, haft1.ctx, by simp only [haft1.pc, compile, List.length_append, List.length_singleton]; omega,
            haft1.top, haft1.val, haft1.below, haft1.size, haft1.blocks, haft1.fblocks⟩
        · simp only [storeName, attrsStore, addOps_cfg]; exact hcfg1
        · simp only [storeName, attrsStore, addOps_heap, ctxAttrs_addOps, hva, hheap1]
          rw [hctx1, haft1.ctx, henv]
        · intro c; simp only [storeName, attrsStore, ctxAttrs_heap, ctxAttrs_addOps, hctx1]
      | err m =>
        obtain ⟨k1, g1, hf1, hheap1⟩ := ha
        exact ⟨k1, g1, hf1, hheap1⟩
      | panic _ => trivial
      | unsup _ => trivial
      | diverge => trivial

end DS.Frag
