/-
  The arithmetic / conditional fragment of the language as a source tree, its definitional semantics `evalF` (syntax-directed,
  no code, no stack) and its compiler `compile` to VM instructions — the shapes roll.peg's actions emit for these constructs
  (tied to the real compiler by the `compile` stream: instruction-by-instruction equality with the bytecode dump).
-/
import DS.Model.VMRun

namespace DS.Frag
open DS.VM

inductive F where
  | lit (i : Int)
  | bin (op : BinOp) (a b : F)
  | neg (a : F)
  | tern (c a b : F)
  | lor (a b : F)
  | land (a b : F)
  deriving Inhabited

/-- definitional semantics: left-to-right, strict except `?:` and `||`; `&&` evaluates both operands (the language's rule) -/
def evalF (z : Bool) : Heap → F → Heap × Res Val
  | h, .lit i => (h, .ok (.int i))
  | h, .bin op a b =>
    (match evalF z h a with
     | (h1, .ok va) =>
       (match evalF z h1 b with
        | (h2, .ok vb) => binOp h2 z op va vb
        | r => r)
     | r => r)
  | h, .neg a =>
    (match evalF z h a with
     | (h1, .ok v) =>
       (match opNeg v with
        | some r => (h1, .ok r)
        | none => (h1, .err ("此类型无法使用一元算符 " ++ "neg" ++ ": " ++ typeName v)))
     | r => r)
  | h, .tern c a b =>
    (match evalF z h c with
     | (h1, .ok vc) => if asBool h1 vc then evalF z h1 a else evalF z h1 b
     | r => r)
  | h, .lor a b =>
    (match evalF z h a with
     | (h1, .ok va) => if asBool h1 va then (h1, .ok va) else evalF z h1 b
     | r => r)
  | h, .land a b =>
    (match evalF z h a with
     | (h1, .ok va) =>
       (match evalF z h1 b with
        | (h2, .ok vb) => (h2, .ok (if !(asBool h2 va) then va else vb))
        | r => r)
     | r => r)

def compile : F → List Instr
  | .lit i => [.pushInt i]
  | .bin op a b => compile a ++ compile b ++ [.bin op]
  | .neg a => compile a ++ [.neg]
  | .tern c a b =>
    compile c ++ [.jne (some ((compile a).length + 1))] ++ compile a ++ [.jmp (some (compile b).length)] ++ compile b
  | .lor a b => compile a ++ [.jeDup (some ((compile b).length + 2))] ++ compile b ++ [.jeDup (some 1)] ++ [.pushLast]
  | .land a b => compile a ++ compile b ++ [.logicAnd]

/-- operand-stack slots the code of `e` needs above the current top -/
def depth : F → Nat
  | .lit _ => 1
  | .bin _ a b => max (depth a) (depth b + 1)
  | .neg a => depth a
  | .tern c a b => max (depth c) (max (depth a) (depth b))
  | .lor a b => max (depth a) (depth b)
  | .land a b => max (depth a) (depth b + 1)

end DS.Frag
