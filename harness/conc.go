package main

import (
	"encoding/hex"
	"fmt"
	"strings"
	"sync"

	ds "github.com/sealdice/dicescript"
)

var concPrograms = []string{
	"[3,1,2].kh(2) + [5,6].sum()", "x = [1,2,3]; x.push(4); x.len()", "{'a':1,'b':2}.keys().len()", "2d6 + d20",
	"(1 + ", "func f(a){a*2}; f(21)", "&c = d6; c + c", "`a{1+1}b`", "[1,2,3,4,5].shuffle()", "toStr(1.5) + repr('x')",
	"if 1 { 2 } else { 3 }", "1 +* 2", "[4,5,6].len() * [7].len()", "y = {'k': [1,2]}; y.k.push(3); y.k.sum()",
	"", " ", "#", "\n(", "1 +\n", "'abc", "d + 0", "3d + d", "func r(){ d }; r() + d", "600a10 + 1", "5a6k4 + d6",
	// computed values without attributes whose bodies assign / read a name nobody defined: each VM's own business
	"&ca = (hp9 = 50) + 1; ca", "&cb = (hp9 ?? 10) + 1; cb", "&cc = (mp9 ?? 3) * 2; cc + cc",
	// builtin methods called again and again (the method objects live in prototype tables shared by every VM of the process)
	"i = 0; a = [3,1,2]; while i < 150 { i = i + 1; a.sum(); a.len(); a.kh(1) }; i", "i = 0; dq = {'a': 1}; while i < 150 { i = i + 1; dq.keys(); dq.len() }; i",
	"i = 0; while i < 100 { i = i + 1; [i, 2].sum() + {'k': i}.values().len() }; i",
	"&cv = 2d4; cv.compute() + 1", "[9,8,7].kl(2)", "'abc'[1] + 'x'", "3 +", "i = 0; while i < 5 { i = i + 1 }; i", "[1,2,3].rand() > 0",
}

func concSeed(base int64, i int) string {
	b := make([]byte, 16)
	for k := range b {
		b[k] = byte((base*31 + int64(i)*17 + int64(k)*7) & 0xff)
	}
	return hex.EncodeToString(b)
}

func concOne(i int, base int64, iters int, seeded bool) []string {
	cfg := ds.RollConfig{OpCountLimit: 30000, ParseErrorLanguage: i % 3, EnableDiceWoD: i%2 == 0, EnableDiceCoC: i%4 == 1}
	// the same default-sides TEXT under different switches: what it means is each VM's own business
	cfg.DefaultDiceSideExpr = "6|1"
	cfg.DisableBitwiseOp = i%2 == 1
	cfg.DiceMaxMode = i%3 == 0
	seed := "-"
	if !seeded && i%4 == 0 {
		// a small budget: pools and loops are cut short part-way; whatever a cut-short roll held must have been let go
		cfg.OpCountLimit = 400
	}
	if seeded {
		seed = concSeed(base, i)
	}
	vm, _ := newVM(cfg, seed)
	var out []string
	for k := 0; k < iters; k++ {
		src := concPrograms[(i*7+k*3)%len(concPrograms)]
		out = append(out, safely(func() string { return runOne(vm, src) }))
	}
	return out
}

// conc <base> <goroutines> <iterations> <seeded 0|1> : goroutines first (cold start), then the same work alone; compares
func concLine(t []string) string {
	if len(t) != 5 {
		return "bad-op"
	}
	base, _ := atoi(t[1])
	n, _ := atoi(t[2])
	iters, _ := atoi(t[3])
	seeded := t[4] == "1"
	res := make([][]string, n)
	// the package-level default language is the host's business: a VM's own configured language decides its messages,
	// so the concurrent phase and the reference phase run under DIFFERENT package-level settings
	ds.SetParseErrorLanguage(int(base) % 3)
	defer ds.SetParseErrorLanguage(ds.ParseErrorLanguageBilingual)
	var wg sync.WaitGroup
	start := make(chan struct{})
	for i := 0; i < int(n); i++ {
		wg.Add(1)
		go func(i int) {
			defer wg.Done()
			<-start
			res[i] = concOne(i, base, int(iters), seeded)
		}(i)
	}
	close(start)
	wg.Wait()
	if !seeded {
		return fmt.Sprintf("ok unseeded goroutines=%d runs=%d", n, int(n)*int(iters))
	}
	var bad []string
	ds.SetParseErrorLanguage((int(base) + 1) % 3)
	for i := 0; i < int(n); i++ {
		alone := concOne(i, base, int(iters), true)
		for k := range alone {
			if alone[k] != res[i][k] {
				bad = append(bad, fmt.Sprintf("vm%d run%d prog=%s concurrent=%s alone=%s", i, k, hx(concPrograms[(i*7+k*3)%len(concPrograms)]), hx(res[i][k]), hx(alone[k])))
				break
			}
		}
	}
	if len(bad) > 0 {
		if len(bad) > 3 {
			bad = bad[:3]
		}
		return "mismatch " + strings.Join(bad, " ")
	}
	return fmt.Sprintf("ok seeded goroutines=%d runs=%d", n, int(n)*int(iters))
}

func init() { handlers["conc"] = concLine }
