/-
  C18 — the st command reports every attribute edit once, in order, verbatim (plain-assignment class).

  `st_roundtrip`: for EVERY list of edits whose names are non-empty runs of name characters and whose values are non-empty
  digit runs, written with any binder ('' / ':' / '=' with blanks around it) and any separator (blanks, optional comma,
  blanks), the reader returns exactly that list: each edit once, in source order, name and value text verbatim.
  The only assumption on name characters is that they are not digits, blanks, commas or binders (true of xidStart).
-/
import DS.Model.StList

namespace DS.Props.C18
open DS.StList

theorem takeWhile_append_stop {p : Char → Bool} (a b : List Char) (ha : ∀ c ∈ a, p c = true)
    (hb : ∀ c, b.head? = some c → p c = false) : (a ++ b).takeWhile p = a ∧ (a ++ b).dropWhile p = b := by
  induction a with
  | nil =>
    cases b with
    | nil => simp
    | cons x t => have := hb x rfl; simp [List.takeWhile, List.dropWhile, this]
  | cons x t ih =>
    have hx := ha x List.mem_cons_self
    have := ih (fun c hc => ha c (List.mem_cons_of_mem _ hc))
    simp [List.takeWhile, List.dropWhile, hx, this.1, this.2]

theorem dropWhile_blanks (n : Nat) (l : List Char) : (blanks n ++ l).dropWhile isSpace = l.dropWhile isSpace := by
  induction n with
  | zero => simp [blanks]
  | succ k ih => simp only [blanks, List.replicate_succ, List.cons_append, List.dropWhile_cons] at *; simp [isSpace, ih]

theorem dropWhile_stop {p : Char → Bool} (l : List Char) (h : ∀ c, l.head? = some c → p c = false) : l.dropWhile p = l := by
  cases l with
  | nil => rfl
  | cons x t => simp [List.dropWhile, h x rfl]

theorem digit_not_space (d : Char) (h : isDigit d = true) : isSpace d = false := by
  simp only [isDigit, Bool.and_eq_true, decide_eq_true_eq] at h
  simp only [isSpace, beq_eq_false_iff_ne, ne_eq]
  intro hh; subst hh; exact absurd h.1 (by decide)

theorem digit_not_binder (d : Char) (h : isDigit d = true) : isBinder d = false := by
  simp only [isDigit, Bool.and_eq_true, decide_eq_true_eq] at h
  simp only [isBinder, Bool.or_eq_false_iff, beq_eq_false_iff_ne, ne_eq]
  constructor <;> (intro hh; subst hh; exact absurd h.2 (by decide))

/-- no binder: the value follows the name directly -/
theorem skipBinder_digit (d : Char) (t : List Char) (h : isDigit d = true) : skipBinder (d :: t) = d :: t := by
  simp [skipBinder, List.dropWhile, digit_not_space d h, digit_not_binder d h]

theorem skipBinder_binder (pre post : Nat) (c : Char) (rest : List Char) (hc : isBinder c = true) :
    skipBinder (blanks pre ++ ([c] ++ (blanks post ++ rest))) = rest.dropWhile isSpace := by
  have hcs : isSpace c = false := by
    simp only [isBinder, Bool.or_eq_true, beq_iff_eq] at hc
    rcases hc with h | h <;> (subst h; decide)
  simp only [skipBinder, dropWhile_blanks]
  simp [List.dropWhile, hcs, hc, dropWhile_blanks]

theorem skipSep_print (a b : Nat) (comma : Bool) (tail : List Char)
    (hs : ∀ c, tail.head? = some c → isSpace c = false) (hc : ∀ c, tail.head? = some c → c ≠ ',') :
    skipSep (blanks a ++ ((if comma then [','] else []) ++ (blanks b ++ tail))) = tail := by
  simp only [skipSep, dropWhile_blanks]
  cases comma with
  | true =>
    simp only [if_true, List.cons_append, List.nil_append]
    have : (',' :: (blanks b ++ tail)).dropWhile isSpace = ',' :: (blanks b ++ tail) := by simp [List.dropWhile, isSpace]
    rw [this]
    simp only
    rw [dropWhile_blanks]
    exact dropWhile_stop tail hs
  | false =>
    simp only [Bool.false_eq_true, if_false, List.nil_append]
    rw [dropWhile_blanks, dropWhile_stop tail hs]
    cases htl : tail with
    | nil => rfl
    | cons x t =>
      have hx := hc x (by rw [htl]; rfl)
      split
      · rename_i t' heq; injection heq with h1 h2; exact absurd h1 hx
      · rfl

structure WF (P : Char → Bool) (e : Edit) : Prop where
  name_ne : e.name ≠ []
  name_ok : ∀ c ∈ e.name, P c = true
  val_ne : e.val ≠ []
  val_ok : ∀ c ∈ e.val, isDigit c = true
  binder_ok : ∀ c, e.binder = some c → isBinder c = true

/-- what may follow an edit: nothing, or the first character of the next name -/
def StartsName (P : Char → Bool) (tail : List Char) : Prop := ∀ c, tail.head? = some c → P c = true

/-- characters that may occur in an unquoted name are neither digits, blanks, commas nor binders -/
def NameChars (P : Char → Bool) : Prop := ∀ c, P c = true → isDigit c = false ∧ isSpace c = false ∧ c ≠ ',' ∧ isBinder c = false

theorem readOne_print (P : Char → Bool) (hP : NameChars P) (e : Edit) (tail : List Char) (he : WF P e) (ht : StartsName P tail) :
    readOne P (e.print ++ tail) = some ((e.name, e.val), tail) := by
  obtain ⟨hn0, hn, hv0, hv, hb⟩ := he
  have tail_not_digit : ∀ c, tail.head? = some c → isDigit c = false := fun c h => (hP c (ht c h)).1
  have tail_not_space : ∀ c, tail.head? = some c → isSpace c = false := fun c h => (hP c (ht c h)).2.1
  have tail_not_comma : ∀ c, tail.head? = some c → c ≠ ',' := fun c h => (hP c (ht c h)).2.2.1
  obtain ⟨d, t, hval⟩ : ∃ d t, e.val = d :: t := by
    cases hval : e.val with | nil => exact absurd hval hv0 | cons d t => exact ⟨d, t, rfl⟩
  have hd : isDigit d = true := hv d (by rw [hval]; exact List.mem_cons_self)
  have hne : e.name.isEmpty = false := by cases hnm : e.name with | nil => exact absurd hnm hn0 | cons _ _ => rfl
  have hve : e.val.isEmpty = false := by rw [hval]; rfl
  -- what follows the value
  let after := blanks e.sepA ++ ((if e.comma then [','] else []) ++ (blanks e.sepB ++ tail))
  have after_not_digit : ∀ c, after.head? = some c → isDigit c = false := by
    intro c hc
    simp only [after] at hc
    cases hA : e.sepA with
    | succ k => simp [hA, blanks, List.replicate_succ] at hc; subst hc; decide
    | zero =>
      simp only [hA, blanks, List.replicate_zero, List.nil_append] at hc
      cases hcm : e.comma with
      | true => simp [hcm] at hc; subst hc; decide
      | false =>
        simp only [hcm, Bool.false_eq_true, if_false, List.nil_append] at hc
        cases hB : e.sepB with
        | succ k => simp [hB, List.replicate_succ] at hc; subst hc; decide
        | zero => simp only [hB, List.replicate_zero, List.nil_append] at hc; exact tail_not_digit c hc
  have hvsplit := takeWhile_append_stop (p := isDigit) e.val after hv after_not_digit
  have hsep : skipSep after = tail := skipSep_print e.sepA e.sepB e.comma tail tail_not_space tail_not_comma
  cases hbd : e.binder with
  | none =>
    have hprint : e.print ++ tail = e.name ++ (e.val ++ after) := by
      simp only [Edit.print, hbd, after, List.append_assoc, List.append_nil]
    have hdP : P d = false := by
      cases hpd : P d
      · rfl
      · have := (hP d hpd).1; rw [hd] at this; cases this
    have hsplit := takeWhile_append_stop (p := P) e.name (e.val ++ after) hn (by intro c hc; rw [hval] at hc; simp at hc; subst hc; exact hdP)
    rw [hprint]
    simp only [readOne, hsplit.1, hsplit.2, hne, Bool.false_eq_true, if_false]
    have hsb : skipBinder (e.val ++ after) = e.val ++ after := by rw [hval]; exact skipBinder_digit d _ hd
    simp only [hsb, hvsplit.1, hvsplit.2, hve, Bool.false_eq_true, if_false, hsep]
  | some c =>
    have hcb := hb c hbd
    have hprint : e.print ++ tail = e.name ++ (blanks e.pre ++ ([c] ++ (blanks e.post ++ (e.val ++ after)))) := by
      simp only [Edit.print, hbd, after, List.append_assoc]
    have hcP : P c = false := by
      cases hpc : P c
      · rfl
      · have := (hP c hpc).2.2.2; rw [hcb] at this; cases this
    have hsplit := takeWhile_append_stop (p := P) e.name (blanks e.pre ++ ([c] ++ (blanks e.post ++ (e.val ++ after)))) hn (by
      intro x hx
      cases hp : e.pre with
      | zero => simp [hp, blanks] at hx; subst hx; exact hcP
      | succ k =>
        simp [hp, blanks, List.replicate_succ] at hx; subst hx
        cases hps : P ' '
        · rfl
        · have := (hP ' ' hps).2.1; simp [isSpace] at this)
    rw [hprint]
    simp only [readOne, hsplit.1, hsplit.2, hne, Bool.false_eq_true, if_false]
    have hsb : skipBinder (blanks e.pre ++ ([c] ++ (blanks e.post ++ (e.val ++ after)))) = e.val ++ after := by
      rw [skipBinder_binder e.pre e.post c _ hcb]
      exact dropWhile_stop _ (by intro x hx; rw [hval] at hx; simp at hx; subst hx; exact digit_not_space d hd)
    simp only [hsb, hvsplit.1, hvsplit.2, hve, Bool.false_eq_true, if_false, hsep]

/-- the printed list starts with a name character (or is empty) -/
theorem printAll_starts (P : Char → Bool) (es : List Edit) (h : ∀ e ∈ es, WF P e) : StartsName P (printAll es) := by
  intro c hc
  cases es with
  | nil => simp [printAll] at hc
  | cons e r =>
    have he := h e List.mem_cons_self
    obtain ⟨x, t, hx⟩ : ∃ x t, e.name = x :: t := by
      cases hn : e.name with | nil => exact absurd hn he.name_ne | cons x t => exact ⟨x, t, rfl⟩
    simp only [printAll, List.flatMap_cons, Edit.print, hx, List.cons_append, List.head?_cons, Option.some.injEq] at hc
    subst hc
    exact he.name_ok x (by rw [hx]; exact List.mem_cons_self)

/-- C18 (plain-assignment class): every edit once, in order, verbatim -/
theorem st_roundtrip (P : Char → Bool) (hP : NameChars P) (es : List Edit) (h : ∀ e ∈ es, WF P e) (fuel : Nat) (hf : es.length < fuel) :
    readEdits P fuel (printAll es) = some (es.map fun e => (e.name, e.val)) := by
  induction es generalizing fuel with
  | nil => cases fuel with | zero => omega | succ n => simp [printAll, readEdits]
  | cons e r ih =>
    cases fuel with
    | zero => omega
    | succ n =>
      have he := h e List.mem_cons_self
      have hr : ∀ e' ∈ r, WF P e' := fun e' he' => h e' (List.mem_cons_of_mem _ he')
      have hone := readOne_print P hP e (printAll r) he (printAll_starts P r hr)
      have hne : printAll (e :: r) ≠ [] := by
        obtain ⟨x, t, hx⟩ : ∃ x t, e.name = x :: t := by
          cases hn : e.name with | nil => exact absurd hn he.name_ne | cons x t => exact ⟨x, t, rfl⟩
        simp [printAll, Edit.print, hx]
      have hpa : printAll (e :: r) = e.print ++ printAll r := by simp [printAll]
      cases hl : printAll (e :: r) with
      | nil => exact absurd hl hne
      | cons x t =>
        rw [← hl, hpa]
        have : readEdits P (n + 1) (e.print ++ printAll r) = (match readOne P (e.print ++ printAll r) with
            | none => none
            | some (e', rest) => match readEdits P n rest with | none => none | some es' => some (e' :: es')) := by
          rw [← hpa, hl]; rfl
        rw [this, hone]
        simp only
        rw [ih hr n (by simp only [List.length_cons] at hf; omega)]
        rfl

/-! ### non-vacuity: three edits in three spellings -/
example : readEdits (fun c => c.isAlpha) 10 "str60 dex:70,con = 5".toList =
    some [("str".toList, "60".toList), ("dex".toList, "70".toList), ("con".toList, "5".toList)] := by decide

end DS.Props.C18
