"""What MANIFEST.json claims, per property. Edited by hand; bin/mkmanifest renders it."""
TB = ("Trusted: Lean 4.33 kernel; axioms propext/Classical.choice/Quot.sound only (audited per theorem on every run); "
      "no native_decide/sorry; the Go harness + Lean line driver that produce the two sides of each correspondence "
      "stream. Theorems are statements about the Lean model; they transfer to /repo as far as the streams exercise the tie. ")

CLAIMS = {
    "C05": {
        "text": "For every side count n (unbounded) the model's _roll64 is proved to return (first word below the acceptance "
                "bound) mod n + 1, the acceptance bound is a multiple of n so every face has exactly the same number of "
                "accepted words (no modulo bias), results lie in 1..n, and successive dice consume disjoint stream segments. "
                "The model is tied to roll_func.go on every run by the roll stream with first words forced onto every boundary "
                "of the acceptance rule and forced rejections. Through the VM: lists of single dice (some clamped) from a seed equal the model's "
                "Roll chained over the generator state (the clamp of one term is not the next one's), and the seed an unseeded context reports "
                "replays its dice.",
        "note": TB + "PCG-128's statistical quality is trusted (its step/output function is modelled exactly and tied by the "
                     "rng stream). _roll32 is dead code on 64-bit builds and not modelled.",
        "technique": "Lean 4 theorems on an executable model of _roll64/Roll + differential correspondence stream",
    },
    "C04": {
        "text": "Theorems over all parameter tuples and all 64-bit word streams on the Lean model of RollCommon/Fate/DoubleCross: "
                "exactly `times` dice, each a face 1..sides after the clamp; kept count = k or times-k clamped; shown order is a "
                "permutation sorted so the kept dice are the lowest/highest; total = sum of kept (true sum under NoOverflow, "
                "wrapped otherwise); text shape; Fate symbols and sum; `coc_rule` (bonus/penalty = least/greatest percentile reading "
                "over the d100's and every extra die's tens digit, 00+0 = 100); `wod_rule` / `dc_rule` (the rolled dice form a chain of "
                "rounds — each round as large as the previous round's count of dice at the add line — successes counted over all "
                "dice of all rounds; Double Cross sums 10 per round with a critical die, else the round's highest die). The model is tied to roll_func.go by per-family correspondence streams; an independent "
                "game-rule oracle re-derives every result from the dice the implementation shows (also through VM syntax), "
                "and illegal parameter tuples must be rejected by the VM. wodInit_saves / diceWod_restores (VM model): a pool term puts the enclosing term's parameters aside when it starts and the enclosing term gets exactly them back when the inner roll completes, for every stack, heap, stream and budget — nested pool terms cannot leak their m / k / q.",
        "note": TB + "Every dice family of roll_func.go has its rule theorem. sort.Slice is modelled as merge sort (equal ints are indistinguishable).",
        "technique": "Lean 4 theorems on an executable model of roll_func.go + differential streams + rule oracle",
    },
    "C15": {
        "text": "Theorems (all parameters, all streams): min/max mode never consume a word; every XdY term's min/max-mode dice sit "
                "at the clamped extreme face (bounds attained); min <= random <= max for XdY with keep/drop/min/max under "
                "NoOverflow; Fate is within [-4,4]; monotone expressions inherit the bracket by induction; CoC bonus and penalty "
                "dice give 1 / 100 in min / max mode without a draw and every roll lies between (coc_bracket, after a repair). Tie: roll streams in the three modes; oracle: "
                "bracket, attainment and untouched generator on the implementation, also through the VM syntax.",
        "note": TB + "The largest die (2^63-1 sides, formerly rolling 0) was repaired; roll_largest.",
        "technique": "Lean 4 theorems (bracketing by induction) + three-mode differential streams",
    },
    "C12": {
        "text": "Sequential clause proved for ALL histories: an invariant of the two-level read/dirty state and a refinement "
                "theorem per operation (Load, Store, LoadOrStore, LoadAndDelete, Delete, Clear, Range, Length), lifted by "
                "induction over the operation list (history_refines): every return value and the contents after every step "
                "equal those of an ordinary string-keyed map; Range lists exactly the live pairs once; Length is the number "
                "of live keys. The model is tied to valuemap.go by the vmap stream, which compares every return value AND "
                "the internal shape (read/dirty membership, entry state, amended, misses) after every operation of every "
                "length-4 history (thorough: 5) plus random long ones. Concurrency clause: validated, not proved — recorded "
                "concurrent histories from goroutines are checked for linearizability (porcupine) and quiescent contents; "
                "Length under a concurrent writer with forced promotions lies between the stores completed and the stores started.",
        "note": TB + "Linearizability under concurrency and data races are outside the sequential theorems; the concurrent run "
                     "is supporting validation only. Hook: VerifValueMapShape (build tag verif).",
        "technique": "Lean 4 refinement proof (invariant + induction over histories) + shape-level differential stream + porcupine",
    },
    "C06": {
        "text": "Theorems: the 16-byte seed codec round-trips every 128-bit state; resume — capturing the generator after a "
                "draws and installing the bytes in a fresh context continues with exactly words a+1.. of the original "
                "sequence (all states, all a, b); regenerated facts re-extracted from /repo on every run and decided in the "
                "kernel: every Roll* call site passes the context's generator (or a local alias of it; the only fallback to "
                "the package-level source is inside Roll for never-seeded contexts), no package-level rand function is used, "
                "function/computed sub-VMs inherit the generator unconditionally, Init seeds from Seed. Tie: rng stream. "
                "Search on the implementation: replay-twice under unrelated global/foreign activity, resume through "
                "GetCurSeed, re-seeding a used context — over every dice family, random array methods, nested functions, "
                "computed values (also ones whose text assigns names; the foreign activity assigns per-case names); the second evaluation of a "
                "program parsed once ≡ a fresh context resumed from the reported seed (value, process text, Matched, seed).",
        "note": TB + "VM-level determinism (same program, same seed => same outcome) is validated by the replay oracle, not yet "
                     "proved on a VM model. Translator harness/extract is trusted for RngSites; a wrong extraction shows up as "
                     "a failing replay.",
        "technique": "Lean 4 theorems + regenerated call-site facts (decide) + replay/resume oracles",
    },
    "C19": {
        "text": "Theorems for every input (raw bytes) and every position the engine can hold (readN input k, all k): the "
                "offset and the end of the current rune lie within the input; the offset is a rune boundary; whenever the "
                "rune at the offset is not a newline the reported (line, col) equal the specification (1 + newlines before, "
                "1 + runes since the last newline); at a newline rune the engine provably reports (line+1, 0) — refuted full "
                "statement with a kernel-checked witness (known finding). fmtErr: exact shape per language setting (Chinese "
                "only / English only / both), caret preceded by exactly col-1 blanks, quoted line = the line-th "
                "newline-separated segment when <= 60 bytes. Tie: errfmt stream compares the complete error text of every "
                "rejected generated input in the three languages with the Lean model of read + formatFriendlyError + fmtErr "
                "+ getLineAtBytes (incl. invalid UTF-8, NUL, multi-line, multi-byte). Oracle on the implementation recomputes "
                "line/column/quote/caret from the reported offset and checks the language — the context's own, whatever the package-level setter "
                "was given and whatever the context reported earlier.",
        "note": TB + "Which offset the packrat engine reports (maxFailPos) is taken from the implementation until the PEG engine "
                     "is modelled; concurrent language isolation is decided under C11.",
        "technique": "Lean 4 invariant proof over the engine's read() + byte-exact differential stream of error texts",
    },
    "C13": {
        "text": "Theorem literal_roundtrip: for EVERY Unicode text s and every continuation, the literal written with the documented "
                "escapes is scanned back to exactly s and closed exactly by the final delimiter — unconditionally in the ' and \" "
                "styles, and in the backtick / U+001E template styles whenever s does not contain the delimiter; the missing case "
                "is a kernel-checked witness (known finding). The scanning rules of the model are tied to the real parser by the "
                "strscan stream on arbitrary literal bodies with random escape sequences (incl. lone backslashes, unterminated "
                "literals). Templates: oracle on the implementation — value = concatenation of segments and hole values, statement "
                "holes keep only their last value, assignments inside holes are visible afterwards, nesting 1..20.",
        "note": TB + "template_join / template_cap (VM model): ld.fs n yields exactly the concatenation, bottom to top, of the string forms of "
                     "its n operands, or an error beyond the cap; that a hole leaves exactly one operand (its value, or '' when its code "
                     "leaves none) is the skeleton theorem of C08 (fstr.block.pop) plus the template oracle on the implementation; "
                     "hole_becomes_text / text_is_heap_independent: the operand a hole leaves is the STRING FORM its value has when the "
                     "hole ends, and a string's form does not depend on the heap — what later holes do to a container cannot reach the "
                     "text already assembled.",
        "technique": "Lean 4 induction over texts (escape/scan round trip) + differential stream + template oracle",
    },
    "C09": {
        "text": "Theorem roundtrip (mutual structural induction over values): every encodable tree value — int64 integers, "
                "finite floats, strings, null, arrays, dicts, functions, computed values with attributes, known native functions, "
                "at every nesting depth — encodes, and decoding the result returns exactly that value; non-finite floats are "
                "rejected. The implementation's own JSON output is decoded by the Lean model and compared with the "
                "implementation's value (ties encoder and model), and the decoder is tied by C10's stream. Oracles on the "
                "implementation: decode(encode(v)) = v for program-built values; cyclic structures must give an error and "
                "acyclic sharing must encode (both were defects, fixed); snapshot after EVERY statement prefix, restore into a "
                "fresh VM with the captured generator state, and continue with suffix programs that call every function, read "
                "every computed value twice (in one program and in separate tiny programs) — outcomes must be identical.",
        "note": TB + "Values are trees in the theorem; aliasing (known finding), cycles, and VM behaviour after restore are "
                     "validated on the implementation. Byte-level JSON (encoding/json, strconv) is trusted.",
        "technique": "Lean 4 round-trip theorem (mutual structural induction) + encoder/decoder cross stream + snapshot oracle",
    },
    "C10": {
        "text": "Theorem decode_welltyped: for EVERY JSON tree and every nesting depth the model of UnmarshalJSON either fails or "
                "returns a value whose integers fit int64 and whose native functions are bound to an existing implementation, "
                "recursively through arrays, dicts and computed attributes; the value type of the model has no inhabitant for "
                "'nil element' or 'tag/payload mismatch', and the json stream ties that to the real decoder (whose canonical "
                "rendering prints NIL / N? / i? for such values) on well-typed, ill-typed, unknown-tag, null, wrong-case, "
                "missing-field documents and variable maps. Oracle on the implementation: ToString/ToRepr/AsBool/ValueEqual/"
                "ToJSON plus 45 scripts with the decoded value bound to a variable must all be crash-free.",
        "note": TB + "Objects with duplicate (case-insensitively equal) keys are outside the modelled domain (encoding/json merges "
                     "struct occurrences; the model takes the last) — those documents get the battery only. Crash-freedom of "
                     "operations on well-typed values is validated by the battery here and is C01's subject.",
        "technique": "Lean 4 theorem over all JSON trees (induction on depth) + differential decode stream + operation battery",
    },
    "C14": {
        "text": "Theorems on the Lean model of makeDetailStr: rolls whose extents do not touch are grouped one per roll, in "
                "order (all span lists); splicing one roll yields exactly `bytes before ++ value[annotation] ++ bytes after` for "
                "every buffer and every in-range extent (the bytes outside the roll are untouched); `splice_separated` / "
                "`makeDetail_separated`: for EVERY number of non-overlapping rolls the right-to-left splice (each step rewriting the "
                "buffer the next one reads) yields the original text with every roll replaced in place by value[annotation], "
                "computed from the roll's ORIGINAL source extent; a plain dice roll is "
                "annotated exactly as value[source=text]. The model is tied to makeDetailStr by the `detail` stream on random "
                "(source, offset, spans) tuples including nested/overlapping/touching spans, every tag, textOnly, custom "
                "suffixes and out-of-range spans (panic on both sides). Oracle on the implementation, for arithmetic over dice "
                "terms of every family with arbitrary spacing and line breaks: the text is the source with each roll replaced "
                "by value[annotation]; stripping annotations leaves arithmetic that evaluates to the result; each annotation's "
                "value equals the total of the dice it lists (lib/diceoracle); GetDetailText is idempotent and leaves result, "
                "variables and generator untouched.",
        "note": TB + "Nested / overlapping rolls (one group, sub-details) are covered by the stream and the oracle, the closed-form "
                     "theorem is for non-overlapping rolls; strings.TrimSpace is modelled for ASCII white space. Hook: VerifMakeDetail.",
        "technique": "Lean 4 theorems on a byte-level model of the splice + differential stream + arithmetic/dice oracle",
    },
    "C11": {
        "text": "Theorem isolation (all N, all interleavings, induction over the schedule): on the step model, if no step of any "
                "VM writes package-level state, every VM's final state equals what it reaches running alone and the shared state "
                "is untouched; the converse situation is a kernel-checked two-VM witness (the repaired language defect). "
                "Regenerated facts decided in the kernel on every run (DS/Gen/Globals.lean from /repo): the only assignments to "
                "package-level variables are the init-time hook registration and a public setter that no library function "
                "calls; the package-level random source is touched only by Roll and GetCurSeed, both under randSourceMu; the "
                "shared builtin tables are only read. Validation on the implementation: fresh-process cold starts with 4-16 "
                "goroutines on their own VMs (three languages, mixed flags, builtin methods on shared prototypes, functions, "
                "computed values, syntax errors), each compared run-by-run with its isolated execution, and the same under the "
                "Go race detector.",
        "note": TB + "Data races in the Go-memory-model sense cannot be exhibited by an executable Lean model: the race detector "
                     "run is supporting validation. Mutation of shared objects THROUGH a read (e.g. writing a field of a builtin "
                     "prototype entry) is not visible to the Globals extraction and is covered by the concurrent run only.",
        "technique": "Lean 4 isolation theorem over all schedules + regenerated global-footprint facts + concurrent differential run (-race)",
    },
    "C01": {
        "text": "Theorems on the bug-compatible Lean VM (every Go panic is an explicit `.panic site` outcome): the operator layer "
                "never panics — all 15 binary operators over all pairs of run-time values (every type pair, every payload), unary "
                "operators, indexing, index assignment, slicing and slice assignment, array repetition — for every heap and "
                "configuration. The remaining panic outcomes of the dispatch loop all require malformed bytecode (operand-stack "
                "underflow, missing jump operand, block/dice/annotation state nobody set up), which is C08's subject. The model "
                "is tied to rollvm.go/types.go by the vm stream: programs compiled by the real parser are run by the real VM and, "
                "from the bytecode dump, by the Lean VM, comparing value, error text, process text, NumOpCount, generator state "
                "and variables. Search: the whole public API sequence under recover in a watchdogged child over a corpus of past "
                "crashes, ill-typed/extreme operands for every operator/method/dice family, generated programs (25% ill-typed), "
                "byte mutations, multi-program sequences incl. failed ones, random bytes x 13 flag settings x budgets. Twelve "
                "crash/hang defects found this way were repaired (fix: commits); three architecture-rooted ones are known findings.",
        "note": TB + "Goroutine-stack/heap exhaustion by parser recursion depth is Go-runtime behaviour: validated with deep/long inputs "
                     "under a watchdog and memory limit, not proved. Float pow/formatting, dict iteration order, lazily compiled "
                     "bodies and host callbacks are `unsup` in the model (stream skips and counts them). Parse totality on "
                     "arbitrary bytes is validated by the search only.",
        "technique": "Lean 4 totality theorems on a bug-compatible VM model + bytecode-level differential stream + API-sequence crash search",
    },
    "C08": {
        "text": "A bytecode verifier is defined in Lean (abstract interpretation: lower bound of the operand-stack height relative to "
                "the innermost template hole, the stack of open blocks/holes with the heights they saved, open dice states, 'an "
                "annotation span exists', pool-dice initialised; work-list inference + independent certificate check). Theorem "
                "verified_never_stuck: if the certificate check accepts, then at EVERY state reachable in the control-flow skeleton "
                "— both directions of every conditional jump, any number of loop iterations, no bound on the run — the next "
                "instruction does not pop an empty stack, its jump has an operand and lands in [0,size], its block.pop / "
                "fstr.block.pop has a matching push and the dice / annotation / pool-dice state it uses was set up earlier; "
                "same_open_blocks: one program point is always reached with the same numbers of open blocks and holes. "
                "exec_refines_skeleton (DS/Proofs/ExecSkel.lean, one lemma per opcode, all 70): whenever the skeleton step is defined "
                "at a frame's skeleton state, the model VM's exec — for every heap, configuration, operand values and outcome of the "
                "value-level computation, sub-VM results included — does not end in a structural panic (17 sites: empty-stack pop, "
                "push onto a full stack, store/dice/annotation/pool state nobody set up, block or hole pop without push, jump "
                "without operand or to a negative address) and a continuing exec lands in one of the skeleton's successors with the "
                "same code and stack array; exec_keeps_room: the invariant Room (1000 slots, height within them, every saved block / "
                "hole height below the overflow line) is preserved, which is why the loop's single guard 'top == len(stack) => error' "
                "before each instruction suffices against overflow; "
                "verified_code_runs_clean: hence the dispatch loop started anywhere reachable in verified code, with room, never "
                "reports a structural fault — neither underflow nor overflow of the operand stack — for any number of dispatches "
                "(compositional in the sub-VM runs). The verifier "
                "(plus: annotation spans lie inside the body's own text and each covers exactly one term of it) is run on the real compiler's output (hook VerifDumpCode) "
                "for every accepted input — main body and every nested function/computed body — over structural corpora x "
                "rejected tails, generated, truncated, mutated and adversarial programs. The model VM is tied to rollvm.go by the vm "
                "stream (and the skeleton is additionally cross-checked against it on every dispatch, skel stream). Two defects "
                "found this way were repaired (break/continue inside if; break inside a stored body); the emit-then-fail leak is a "
                "known finding.",
        "note": TB + "verified_code_runs_clean is compositional: it assumes the sub-VM runs a body triggers report no structural fault "
                     "(each is a run of another verified body); a global induction over the heap of stored bodies is not carried out. "
                     "The verifier is conservative: it demands "
                     "proper nesting of blocks and template holes, which the VM itself (two separate stacks) does not need.",
        "technique": "Lean 4 soundness theorem for a bytecode verifier (abstract interpretation, all paths) run on the compiler's real output + skeleton/VM cross-check streams",
    },
    "C07": {
        "text": "Theorems on the Lean VM model: the dispatch loop charges each dispatch before executing it and executes nothing once "
                "the counter exceeds the limit (dispatch_guard, dispatch_charges_one), never runs an instruction on a full operand "
                "stack (stack_guard); block/template nesting beyond 20, array concatenation beyond 512 and string concatenation "
                "beyond 1 MiB are errors before the write; for WoD and Double Cross, for every word stream and ANY number of "
                "rounds, a completed roll has charged exactly the dice it rolled (wod_charged_all, dc_charged_all, modulo 2^64 like "
                "Go's counter), a roll under a budget that completes stayed within it and an aborted one has charged more than "
                "the budget (wodLoop_budget, dcLoop_budget). Tie: vm stream compares NumOpCount (small budgets exercise the "
                "over-budget path). Oracle on the implementation with a work-meter hook (instruction dispatches, dice rolled): "
                "dispatches <= NumOpCount, dice <= NumOpCount - dispatches (+1 per instruction), both <= budget + slack, no value "
                "when over budget, no timeout/death, over heavy programs (all dice families with huge counts, exploding pools, "
                "recursion, computed values loaded through nested functions, doubling strings/arrays) x budgets x modes; capacity "
                "families at and around every cap must give the full value or an error (an error beyond the documented caps); "
                "parse budgets give errors. Four defects found this way were repaired. call_depth_cap / calls_restored / funcInvoke_depth_cap / computedExecute_depth_cap (VM model): with 1000 calls in progress a further function or computed-value call is refused before anything of it runs, whatever the budget configuration, and every call — however it ends — leaves the count as it found it.",
        "note": TB + "Monotonicity of the counter across every instruction (hence 'at most budget+1 dispatches') is proved for the loop "
                     "guard and the dice families but not yet for all 70 opcodes with sub-VM calls; it is validated by the meter "
                     "oracle. Work per non-dice instruction is bounded by the capacities (512 elements, 1 MiB strings), not metered. "
                     "Parsing time is superlinear in the source length and is bounded only when ParseExprLimit is set. Rendering "
                     "shared structures (ToString of a DAG) is outside the evaluation.",
        "technique": "Lean 4 theorems on the VM/dice model (loop guard, per-round charging by induction over rounds) + metered accounting oracle + differential NumOpCount stream",
    },
    "C16": {
        "text": "gate_sound (DS/Proofs/PegGate.lean) is proved on the model of the generated PEG engine — ordered choice, position-only "
                "backtracking, skip-code look-ahead, two packrat tables whose hits replay results without re-running actions — for ANY "
                "grammar, action table, input and fuel: if the static check accepts the rules enterable while a flag is blocked then, "
                "unless a flagsSwitch macro action has run, the flag (and every saved copy on the flags stack) stays blocked, no gated "
                "opcode is ever written, abandoned alternatives included, and nothing that cannot succeed while blocked is memoised as "
                "succeeded. It is instantiated by kernel evaluation (decide +kernel, no native_decide) on the grammar, action digests and "
                "opcode numbers the translator regenerates from roll.peg.go / parser.go / bytecode.go on every run: CoC, WoD, Fate, Double "
                "Cross (Enable* off) and statements (DisableStmts on: no block.push, function definition or return). Tie: peg stream — "
                "model and real parser agree on success, consumed offset and the full emission trace (hook) over letter/number mixes "
                "around a b c f p d, st lists, generated and mutated programs x all flag subsets. Oracle on the implementation: a gated "
                "opcode is written only with the flag or the macro text; a macro never changes the VM's configuration and does not "
                "affect the next evaluation.",
        "note": TB + "The translator (grammar literal, action digests) is trusted and validated by the emission traces; ParserData "
                     "methods the engine implements by name (flags stack, loop bookkeeping) are fingerprinted — a changed body is "
                     "reported as a broken tie and widens the search. That a VM rolls a family only by executing its opcodes, and "
                     "that code reaches a VM only through Parse or a stored body, is read off rollvm.go, not proved; stored bodies "
                     "compiled under a macro are the known finding C09-body-compiled-under-macro. Custom dice parsers are C17's subject.",
        "technique": "Lean 4 engine-generic theorem on a PEG-engine model + kernel-evaluated static check on the regenerated grammar + emission-trace differential stream",
    },
    "C03": {
        "text": "matched_rest / matched_prefix / matched_no_trailing_space: Matched ++ RestInput is exactly the input and Matched is the "
                "consumed text without trailing white space, for every input and stopping offset (model of the slicing in "
                "RunAfterParsed, tied by the matchrest stream). lookahead_contributes_nothing: the engine-generic theorem skip_pure "
                "(DS/Proofs/PegSkip.lean; any grammar, input, fuel: in skip-code mode flags, flags stack, loop bookkeeping and the emitted "
                "code are unchanged) instantiated by kernel evaluation on the regenerated grammar — text a look-ahead inspected "
                "contributes nothing. The remaining clause (text an ordinary alternative consumed and gave back contributes nothing) "
                "is FALSE of the code: a failing sequence restores only the text position; the engine model has exactly this semantics "
                "and reproduces every leak opcode for opcode (peg stream). It is the known finding C03-emit-then-fail-leak, keyed by "
                "the grammar rule where the model's journal sees a sequence fail after writing code — after the repairs of every other site "
                "(literals, index chains, the CoC count, array calls) the only listed rule is `sub` inside an st command; a leak at any other "
                "rule is reported. memo_hit_same_flags / memo_other_flags_miss: a cached parse result answers only under the parse flags it "
                "was obtained under; lineBreakBefore_spec: the separator predicate is true exactly when a line feed stands among the blanks "
                "just before the offset. Oracle on the implementation: whole input vs Matched alone from the same seed and prior state — value, "
                "process text, variables, final seed, Matched consumed entirely — over <valid program><tail> with 100 tails x flags. "
                "Thirteen parser/annotation defects found this way were repaired.",
        "note": TB + "Prefix-closure of the grammar (Matched alone parses to the same offset) is validated by the oracle, not proved: PEG "
                     "look-aheads read beyond the match. The leak class itself is architecture-rooted (actions emit during parsing, "
                     "packrat hits replay results without re-running actions) and is recorded, not repaired; individual sites that "
                     "crashed the VM or changed a value were guarded.",
        "technique": "Lean 4 string lemma + engine-generic purity theorem on the PEG-engine model (kernel-evaluated on the regenerated grammar) + emission-trace stream + metamorphic oracle",
    },
    "C18": {
        "text": "st_roundtrip (DS/Props/C18.lean): for EVERY list of plain assignments whose names are non-empty runs of name characters "
                "and whose values are non-empty digit runs, written with any binder ('' / ':' / '=' with blanks around it) and any "
                "separator (blanks, optional comma, blanks), the model's reader returns exactly the list — each edit once, in source "
                "order, name and value text verbatim; the only assumption on name characters is that they are not digits, blanks, "
                "commas or binders. Tie: st stream (the model reads the lines the implementation's callback log is produced from). "
                "Oracle on the implementation for the full property: generated edit lists (plain / *: / *k: / &computed assignments; "
                "+ += - -= modifications) x names {letters/CJK, ending in digits, namespaced a:b, quoted with blanks/digits/':'} x "
                "values {ints, floats, dice under min mode, parenthesised expressions} x binders x separators; the expected callback "
                "log is computed from the intended edits and compared entry by entry (type, verbatim name, value repr, multiplier, "
                "operator, verbatim expression text); nothing may stay unparsed; the values handed to the callback must be copies "
                "(re-read after the run). Four defects found this way were repaired.",
        "note": TB + "The theorem covers the plain-assignment class with digit values; multiplier, computed and modification forms and "
                     "non-digit values are decided by the oracle only. Spellings that are ambiguous in the language itself (a name "
                     "starting with a dice letter directly after a value without a comma; '&' after a value, which is bitwise-and) are "
                     "not generated.",
        "technique": "Lean 4 round-trip theorem on a model of the st edit-list reader + differential st stream + independent expected-callback oracle",
    },
    "C17": {
        "text": "Parser side, on the PEG-engine model extended with the custom-dice trio (PrepareCustomDice predicate / ConsumeCustomDice / "
                "CommitCustomDice) over an abstract matcher `custom : offset -> matched length`: never_matching_transparent (parsers that "
                "never match leave the whole parse — success, offset, ParserData, emission trace — as with nothing registered; any "
                "grammar, input, fuel), no_match_pred_false, prepare_outside_lookahead / prepare_in_lookahead (the position moves only "
                "inside a look-ahead), consume_uses_pending, commit_emits_once / commit_without_match (exactly one typeCustomDice per "
                "committed match); the C16 gating theorems and the C03 purity theorem hold for ANY matcher. Tie: peg-custom stream — the "
                "real parser with RegCustomDice(pattern) vs the model given the pattern's match lengths, on a matching term in 43 "
                "operand / tail positions and spliced into generated programs. Run-time side, oracle on the implementation: with "
                "never-matching regexes (incl. empty-matching ones), stream parsers that read 0-40 runes ahead and unread half, a "
                "zero-length match, identity load/store hooks and identity detail rewriters, value / process text / Matched / Rest / "
                "variables / final seed equal the plain run and no handler runs; a matching term calls the handler once per "
                "evaluation with exactly the matched text and groups on each of two evaluations, wherever a number is accepted; a "
                "handler that reuses and mutates one result object shows the VM took copies. One defect found this way was repaired.",
        "note": TB + "The run-time clauses (handler count and arguments, copy semantics, identity hooks and rewriters) are decided by the "
                     "oracle, not by a theorem: the VM model marks dice.custom and host callbacks `unsup`. Regular-expression matching "
                     "(Go regexp) and host-supplied stream parsers are outside any model: the matcher is a parameter of the theorems.",
        "technique": "Lean 4 lemmas on the PEG-engine model with an abstract custom matcher + emission-trace stream with registered regexes + call-log / metamorphic oracle",
    },
    "C02": {
        "text": "compile_correct / program_correct / conditional_program_correct (DS/Props/C02.lean, from run_compile in "
                "DS/Proofs/FragCompile.lean, run_stmts in DS/Proofs/FragStmts.lean and run_sts in DS/Proofs/FragIf.lean): for EVERY source tree of the fragment {integer / float / string literals, null, all 15 binary "
                "operators, unary minus and plus, the ternary, ||, &&, variable references, assignments (as expressions), statement sequences s1; ...; sn, and if / if-else statements nested to any depth the VM's "
                "20 block levels allow} the code the "
                "compiler emits, run by the VM model's dispatch loop, ends with exactly the value (of the last statement) — or exactly "
                "the first error — and the heap (which holds the variables) that the definitional, syntax-directed semantics evalF / "
                "evalS prescribes; a name is in the fragment when the context's own table binds it to a plain value (unbound names — "
                "enclosing scopes, globals, builtins — and computed values are outside it); run_compile is the compositional form (from ANY frame and surrounding stack a "
                "sub-expression's code pushes its value on the untouched stack and continues behind itself: jump offsets and stack "
                "balance of every composition, by induction over the tree, unbounded depth). Ties: compile stream (the theorem's "
                "compiler = the real compiler's bytecode dump, instruction by instruction, on printed trees); vm stream (dispatch loop = "
                "rollvm.go). For the whole core language a definitional big-step semantics over SOURCE TREES (DS/Model/RefEval.lean: "
                "evaluation order, control flow incl. break/continue, calls with dynamic scoping, computed values, templates, "
                "containers by reference, dice under min/max mode) is compared by the ref stream with the real parser+VM on generated "
                "trees printed by an independent printer that follows the published grammar's precedence levels with random legal "
                "whitespace and redundant parentheses, in sequences of 1-3 programs on one VM (value / error-ness per program, "
                "variables after the sequence); line breaks and trailing comments separate statements after every kind of statement. The text form "
                "of float values (toStr, template holes, container printing) is judged against the shortest positional decimal of the value's bits. "
                "Nine parser/compiler defects found this way were repaired.",
        "note": TB + "The theorems cover expressions, variables bound to plain values, assignments, statement sequences and conditionals; loops, functions, computed values, templates and containers are decided by the ref stream against the definitional semantics (a partial def, "
                     "executable, not a proof object). Primitive operator tables are shared between the definitional semantics and "
                     "the VM model (they are C01's totality theorems' and the vm stream's subject). The printer is the statement of "
                     "the grammar's precedence and of where white space is legal.",
        "technique": "Lean 4 compiler-correctness theorem (fragment, induction over source trees) + translation-validation stream + definitional-semantics differential stream",
    },
}

NOT_YET = {}
