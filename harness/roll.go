package main

import (
	"encoding/hex"
	"fmt"
	"strings"

	ds "github.com/sealdice/dicescript"
	"golang.org/x/exp/rand"
)

func srcFromHex(s string) (*rand.PCGSource, bool) {
	b, err := hex.DecodeString(s)
	if err != nil || len(b) != 16 {
		return nil, false
	}
	src := &rand.PCGSource{}
	_ = src.UnmarshalBinary(b)
	return src, true
}

func srcHex(src *rand.PCGSource) string {
	b, _ := src.MarshalBinary()
	return hex.EncodeToString(b)
}

func optInt(s string) (*ds.IntType, bool) {
	if s == "-" {
		return nil, true
	}
	v, ok := atoi(s)
	if !ok {
		return nil, false
	}
	x := ds.IntType(v)
	return &x, true
}

func rollLine(t []string) string {
	bad := "bad-op"
	switch t[0] {
	case "rng":
		if len(t) != 3 {
			return bad
		}
		src, ok := srcFromHex(t[1])
		k, ok2 := atoi(t[2])
		if !ok || !ok2 {
			return bad
		}
		var out []string
		for i := int64(0); i < k; i++ {
			out = append(out, fmt.Sprint(src.Uint64()))
		}
		out = append(out, srcHex(src))
		b, _ := src.MarshalBinary()
		out = append(out, hex.EncodeToString(b))
		return strings.Join(out, " ")
	case "roll":
		if len(t) != 4 {
			return bad
		}
		src, ok := srcFromHex(t[1])
		n, ok2 := atoi(t[2])
		m, ok3 := atoi(t[3])
		if !ok || !ok2 || !ok3 {
			return bad
		}
		r := ds.Roll(src, ds.IntType(n), int(m))
		return fmt.Sprintf("%d %s", r, srcHex(src))
	case "common":
		if len(t) != 10 {
			return bad
		}
		src, ok := srcFromHex(t[1])
		times, ok1 := atoi(t[2])
		sides, ok2 := atoi(t[3])
		dmin, ok3 := optInt(t[4])
		dmax, ok4 := optInt(t[5])
		keep, ok5 := atoi(t[6])
		low, ok6 := atoi(t[7])
		high, ok7 := atoi(t[8])
		mode, ok8 := atoi(t[9])
		if !(ok && ok1 && ok2 && ok3 && ok4 && ok5 && ok6 && ok7 && ok8) {
			return bad
		}
		num, text := ds.RollCommon(src, ds.IntType(times), ds.IntType(sides), dmin, dmax, ds.IntType(keep), ds.IntType(low), ds.IntType(high), int(mode))
		return fmt.Sprintf("%d %s %s", num, hx(text), srcHex(src))
	case "coc":
		if len(t) != 5 {
			return bad
		}
		src, ok := srcFromHex(t[1])
		num, ok2 := atoi(t[3])
		mode, ok3 := atoi(t[4])
		if !ok || !ok2 || !ok3 {
			return bad
		}
		v, text := ds.RollCoC(src, t[2] == "1", ds.IntType(num), int(mode))
		return fmt.Sprintf("%d %s %s", v, hx(text), srcHex(src))
	case "fate":
		if len(t) != 3 {
			return bad
		}
		src, ok := srcFromHex(t[1])
		mode, ok3 := atoi(t[2])
		if !ok || !ok3 {
			return bad
		}
		v, text := ds.RollFate(src, int(mode))
		return fmt.Sprintf("%d %s %s", v, hx(text), srcHex(src))
	case "wod":
		if len(t) != 8 {
			return bad
		}
		src, ok := srcFromHex(t[1])
		a, ok1 := atoi(t[2])
		p, ok2 := atoi(t[3])
		pt, ok3 := atoi(t[4])
		th, ok4 := atoi(t[5])
		mode, ok5 := atoi(t[7])
		if !(ok && ok1 && ok2 && ok3 && ok4 && ok5) {
			return bad
		}
		v, all, rounds, text := ds.RollWoD(src, ds.IntType(a), ds.IntType(p), ds.IntType(pt), ds.IntType(th), t[6] == "1", int(mode))
		return fmt.Sprintf("%d %d %d %s %s", v, all, rounds, hx(text), srcHex(src))
	case "dc":
		if len(t) != 6 {
			return bad
		}
		src, ok := srcFromHex(t[1])
		a, ok1 := atoi(t[2])
		p, ok2 := atoi(t[3])
		pt, ok3 := atoi(t[4])
		mode, ok5 := atoi(t[5])
		if !(ok && ok1 && ok2 && ok3 && ok5) {
			return bad
		}
		v, all, rounds, text := ds.RollDoubleCross(src, ds.IntType(a), ds.IntType(p), ds.IntType(pt), int(mode))
		return fmt.Sprintf("%d %d %d %s %s", v, all, rounds, hx(text), srcHex(src))
	}
	return bad
}
