/-
  Gating theorem for the PEG engine model: syntax behind a flag predicate stays off while the flag is in its blocking state.
  Engine-generic (any grammar, any action table, any input, any fuel); instantiated on the regenerated grammar in Props/C16.
-/
import DS.Model.Peg

namespace DS.Peg

/-- the part of the environment the static check reads (no input text) -/
structure GEnv where
  acts : Array Act
  nrules : Nat
  bpop : Nat
  fpop : Nat
  jmp : Nat
  customOp : Nat

def Env.genv (env : Env) : GEnv := { acts := env.acts, nrules := env.rules.size, bpop := env.bpop, fpop := env.fpop, jmp := env.jmp, customOp := env.customOp }

structure Gate where
  flag : FlagId
  blocked : Bool            -- value of the flag under which the guarded syntax must stay off
  gated : Nat → Bool        -- opcodes that must not be written
  guardIds : List Nat       -- ids of the guard nodes (`&{flag}` predicates that fail while the flag is blocked)

def isGuardAct (ge : GEnv) (g : Gate) (a : Nat) : Bool :=
  match (ge.acts[a]!).pred with
  | .flag f neg => f == g.flag && neg == g.blocked && (ge.acts[a]!).effs.isEmpty
  | _ => false

mutual
/-- `e` cannot succeed while the flag is blocked (a failing guard is reached, or an earlier element fails) -/
def dead (ge : GEnv) (g : Gate) : PExpr → Bool
  | .andCode _ a => isGuardAct ge g a
  | .seq _ es => deadAny ge g es
  | .choice _ es => deadAll ge g es
  | .action _ _ e => dead ge g e
  | .labeled _ _ _ e => dead ge g e
  | .plus _ e => dead ge g e
  | .and_ _ e => dead ge g e
  | _ => false
def deadAny (ge : GEnv) (g : Gate) : List PExpr → Bool
  | [] => false
  | e :: r => dead ge g e || deadAny ge g r
def deadAll (ge : GEnv) (g : Gate) : List PExpr → Bool
  | [] => true
  | e :: r => dead ge g e && deadAll ge g r
end

def effSafe (ge : GEnv) (g : Gate) : Eff → Bool
  | .emit op => !g.gated op
  | .loopBegin | .loopEnd | .codePush | .codePop | .flagsPush | .flagsPop | .addErr | .flagsSwitch => true
  | .breakCont => !g.gated ge.bpop && !g.gated ge.fpop && !g.gated ge.jmp
  | .setFlag f v => f != g.flag || v == g.blocked
  | .consumeCustom => true
  | .commitCustom => !g.gated ge.customOp
  | .unknown _ => false

def actSafe (ge : GEnv) (g : Gate) (a : Nat) : Bool := ((ge.acts[a]!).effs).all (effSafe ge g)

mutual
/-- `e` may be evaluated while the flag is blocked: nothing gated is written, the flag is not unblocked, and `guardIds` lists
    exactly the visited nodes that cannot succeed; `ok[i]` = rule i may be entered -/
def chk (ge : GEnv) (g : Gate) (ok : Array Bool) : PExpr → Bool
  | .seq i es => (g.guardIds.contains i == deadAny ge g es) && chkSeq ge g ok es
  | .choice i es => (g.guardIds.contains i == deadAll ge g es) && chkAll ge g ok es
  | .action i a e => (g.guardIds.contains i == dead ge g e) && (dead ge g e || actSafe ge g a) && chk ge g ok e
  | .code i a _ => !(g.guardIds.contains i) && actSafe ge g a
  | .andCode i a => (g.guardIds.contains i == isGuardAct ge g a) && actSafe ge g a
  | .and_ i e => (g.guardIds.contains i == dead ge g e) && chk ge g ok e
  | .andLogical i e => !(g.guardIds.contains i) && chk ge g ok e
  | .not_ i e => !(g.guardIds.contains i) && chk ge g ok e
  | .any i => !(g.guardIds.contains i)
  | .lit i _ _ => !(g.guardIds.contains i)
  | .cls i _ _ _ _ _ => !(g.guardIds.contains i)
  | .star i e => !(g.guardIds.contains i) && chk ge g ok e
  | .plus i e => (g.guardIds.contains i == dead ge g e) && chk ge g ok e
  | .opt i e => !(g.guardIds.contains i) && chk ge g ok e
  | .labeled i _ _ e => (g.guardIds.contains i == dead ge g e) && chk ge g ok e
  | .ref i idx => !(g.guardIds.contains i) && ok[idx]! && decide (idx < ge.nrules)
/-- a sequence: everything after an element that cannot succeed is unreachable while the flag is blocked -/
def chkSeq (ge : GEnv) (g : Gate) (ok : Array Bool) : List PExpr → Bool
  | [] => true
  | e :: r => chk ge g ok e && (dead ge g e || chkSeq ge g ok r)
def chkAll (ge : GEnv) (g : Gate) (ok : Array Bool) : List PExpr → Bool
  | [] => true
  | e :: r => chk ge g ok e && chkAll ge g ok r
end

/-- the certificate: every rule marked enterable passes the check -/
def rulesOK (ge : GEnv) (rules : Array PExpr) (g : Gate) (ok : Array Bool) : Bool :=
  (List.range rules.size).all fun i => !(ok[i]!) || chk ge g ok (rules[i]!)

abbrev Memo := Std.HashMap (Nat × Nat) (Bool × Nat × Flags)

def MemoOK (g : Gate) (m : Memo) : Prop :=
  ∀ (pos id : Nat) (b : Bool) (e : Nat) (fl : Flags), g.guardIds.contains id = true → m[(pos, id)]? = some (b, e, fl) → b = false

theorem memoGet_some {m : Memo} {key : Nat × Nat} {cfg : Flags} {b : Bool} {e : Nat}
    (h : memoGet m key cfg = some (b, e)) : ∃ fl, m[key]? = some (b, e, fl) := by
  unfold memoGet at h
  split at h
  · rename_i b' e' fl heq
    split at h
    · injection h with h; injection h with h1 h2; subst h1; subst h2; exact ⟨fl, heq⟩
    · cases h
  · cases h

structure Core (g : Gate) (s : PState) : Prop where
  cfg : s.cfg.get g.flag = g.blocked
  stack : ∀ f ∈ s.flagsStack, f.get g.flag = g.blocked
  trace : ∀ op ∈ s.trace, g.gated op = false
  m1 : MemoOK g s.memo1
  m2 : MemoOK g s.memo2

/-- unless a macro has run (then nothing is claimed) the blocked state is intact -/
def Good (g : Gate) (s : PState) : Prop := s.switched = false → Core g s

theorem get_set_ne (f : Flags) (a b : FlagId) (v : Bool) (h : a ≠ b) : (f.set a v).get b = f.get b := by
  cases a <;> cases b <;> simp_all [Flags.set, Flags.get]

theorem get_set_same (f : Flags) (a : FlagId) (v : Bool) : (f.set a v).get a = v := by
  cases a <;> simp [Flags.set, Flags.get]

/-! ### once a macro has run, `switched` stays set -/

theorem advance_switched (env : Env) (s : PState) : (advance env s).switched = s.switched := by
  simp only [advance]; split <;> rfl

theorem advanceTo_switched (env : Env) (t : Nat) : ∀ (fuel : Nat) (s : PState), (advanceTo env t fuel s).switched = s.switched
  | 0, _ => rfl
  | n+1, s => by
    simp only [advanceTo]
    split
    · rw [advanceTo_switched env t n, advance_switched]
    · rfl

theorem prepareCustom_switched (env : Env) (s : PState) : (prepareCustom env s).1.switched = s.switched := by
  simp only [prepareCustom]
  split
  · rfl
  · split
    · rw [advanceTo_switched]
    · rfl

theorem consumeCustom_switched (env : Env) (s : PState) : (consumeCustom env s).switched = s.switched := by
  simp only [consumeCustom]
  split
  · rfl
  · rw [advanceTo_switched]

theorem commitCustom_switched (env : Env) (s : PState) : (commitCustom env s).switched = s.switched := by
  simp only [commitCustom]; split <;> rfl

theorem runEff_switched (env : Env) (e : Eff) (s : PState) (h : s.switched = true) : (runEff env s e).switched = true := by
  cases e with
  | consumeCustom => simp only [runEff]; rw [consumeCustom_switched]; exact h
  | commitCustom => simp only [runEff]; rw [commitCustom_switched]; exact h
  | _ => simp only [runEff] <;> (try split) <;> (try split) <;> simp_all

theorem foldl_switched (env : Env) : ∀ (l : List Eff) (s : PState), s.switched = true → (l.foldl (runEff env) s).switched = true
  | [], _, h => h
  | e :: r, s, h => foldl_switched env r _ (runEff_switched env e s h)

theorem evalPred_switched (env : Env) (a : Nat) (s : PState) (h : s.switched = true) : (evalPred env s a).1.switched = true := by
  have h' := foldl_switched env (env.acts[a]!).effs s h
  simp only [evalPred]
  split
  · exact h'
  · exact h'
  · rw [prepareCustom_switched]; exact h'
  · exact h'
  · exact h'
  · exact h'

theorem matchLit_switched (env : Env) (ic : Bool) (p0 : Nat) : ∀ (l : List Nat) (s : PState), (matchLit env ic p0 l s).1.switched = s.switched
  | [], _ => rfl
  | w :: r, s => by
    simp only [matchLit]
    split
    · rfl
    · rw [matchLit_switched env ic p0 r, advance_switched]

def Mono (f : PState → PState × Bool) : Prop := ∀ s, s.switched = true → (f s).1.switched = true

theorem switched_mono (env : Env) : ∀ fuel,
    (∀ e, Mono (parseExpr env fuel e)) ∧ (∀ e, Mono (parseNode env fuel e)) ∧ (∀ es p0, Mono (fun s => parseSeq env fuel es s p0)) ∧
    (∀ es, Mono (parseChoice env fuel es)) ∧ (∀ e, Mono (parseStar env fuel e)) := by
  intro fuel
  induction fuel with
  | zero =>
    refine ⟨?_, ?_, ?_, ?_, ?_⟩ <;> intros <;> intro s h <;> simp only [parseExpr, parseNode, parseSeq, parseChoice, parseStar] <;> exact h
  | succ n ih =>
    obtain ⟨ihE, ihN, ihS, ihC, ihT⟩ := ih
    refine ⟨?_, ?_, ?_, ?_, ?_⟩
    · intro e s h
      simp only [parseExpr]
      split
      · exact h
      · split
        · exact h
        · have := ihN e { s with cnt := s.cnt + 1 } h
          split <;> exact this
    · intro e s h
      cases e with
      | seq i es =>
        simp only [parseNode]
        have := ihS es s.pos s h
        split
        · exact this
        · exact this
      | choice i es => simp only [parseNode]; exact ihC es s h
      | action i a e' =>
        simp only [parseNode]
        split
        · exact ihE e' s h
        · have := ihE e' s h
          split
          · exact foldl_switched env _ _ this
          · exact this
      | code i a ns =>
        simp only [parseNode]
        split
        · exact h
        · exact foldl_switched env _ _ h
      | andCode i a => simp only [parseNode]; exact evalPred_switched env a s h
      | and_ i e' => simp only [parseNode]; exact ihE e' { s with skip := s.skip + 1 } h
      | andLogical i e' => simp only [parseNode]; exact ihE e' { s with skip := s.skip + 1 } h
      | not_ i e' => simp only [parseNode]; exact ihE e' { s with skip := s.skip + 1 } h
      | any i =>
        simp only [parseNode]
        split
        · exact h
        · rw [advance_switched]; exact h
      | lit i rs ic => simp only [parseNode]; rw [matchLit_switched]; exact h
      | cls i cs rs cl inv ic =>
        simp only [parseNode]
        split
        · exact h
        · split
          · rw [advance_switched]; exact h
          · exact h
      | star i e' => simp only [parseNode]; exact ihT e' s h
      | plus i e' =>
        simp only [parseNode]
        have := ihE e' s h
        split
        · exact ihT e' _ this
        · exact this
      | opt i e' => simp only [parseNode]; exact ihE e' s h
      | labeled i l tc e' =>
        simp only [parseNode]
        have := ihE e' s h
        split <;> exact this
      | ref i idx => simp only [parseNode]; exact ihE _ { s with labels := [] } h
    · intro es p0 s h
      cases es with
      | nil => simp only [parseSeq]; exact h
      | cons e r =>
        simp only [parseSeq]
        have := ihE e s h
        split
        · exact ihS r p0 _ this
        · exact this
    · intro es s h
      cases es with
      | nil => simp only [parseChoice]; exact h
      | cons e r =>
        simp only [parseChoice]
        have := ihE e s h
        split
        · exact this
        · exact ihC r _ this
    · intro e s h
      simp only [parseStar]
      have := ihE e s h
      split
      · exact ihT e _ this
      · exact this



theorem not_switched_of (s s' : PState) (hm : s.switched = true → s'.switched = true) (h : s'.switched = false) : s.switched = false := by
  cases h0 : s.switched
  · rfl
  · rw [hm h0] at h; cases h

/-- states that differ only in fields the invariant does not read -/
theorem good_of_same (g : Gate) (s s' : PState) (h1 : s'.switched = s.switched) (h2 : s'.cfg = s.cfg) (h3 : s'.flagsStack = s.flagsStack)
    (h4 : s'.trace = s.trace) (h5 : s'.memo1 = s.memo1) (h6 : s'.memo2 = s.memo2) (h : Good g s) : Good g s' := by
  intro hsw
  have h := h (by rw [← h1]; exact hsw)
  exact ⟨by rw [h2]; exact h.cfg, by rw [h3]; exact h.stack, by rw [h4]; exact h.trace, by rw [h5]; exact h.m1, by rw [h6]; exact h.m2⟩

theorem good_same' (g : Gate) (s : PState) (h : Good g s) (s' : PState) (h1 : s'.switched = s.switched) (h2 : s'.cfg = s.cfg)
    (h3 : s'.flagsStack = s.flagsStack) (h4 : s'.trace = s.trace) (h5 : s'.memo1 = s.memo1) (h6 : s'.memo2 = s.memo2) : Good g s' :=
  good_of_same g s s' h1 h2 h3 h4 h5 h6 h

theorem advance_good (env : Env) (g : Gate) (s : PState) (h : Good g s) : Good g (advance env s) := by
  simp only [advance]
  split <;> exact good_of_same g s _ rfl rfl rfl rfl rfl rfl h

theorem advanceTo_good (env : Env) (g : Gate) (t : Nat) : ∀ (fuel : Nat) (s : PState), Good g s → Good g (advanceTo env t fuel s)
  | 0, _, h => h
  | n+1, s, h => by
    simp only [advanceTo]
    split
    · exact advanceTo_good env g t n _ (advance_good env g s h)
    · exact h

theorem prepareCustom_good (env : Env) (g : Gate) (s : PState) (h : Good g s) : Good g (prepareCustom env s).1 := by
  simp only [prepareCustom]
  split
  · exact good_of_same g s _ rfl rfl rfl rfl rfl rfl h
  · split
    · exact advanceTo_good env g _ _ _ (good_of_same g s _ rfl rfl rfl rfl rfl rfl h)
    · exact good_of_same g s _ rfl rfl rfl rfl rfl rfl h

theorem consumeCustom_good (env : Env) (g : Gate) (s : PState) (h : Good g s) : Good g (consumeCustom env s) := by
  simp only [consumeCustom]
  split
  · exact good_of_same g s _ rfl rfl rfl rfl rfl rfl h
  · exact advanceTo_good env g _ _ _ (good_of_same g s _ rfl rfl rfl rfl rfl rfl h)

theorem commitCustom_good (env : Env) (g : Gate) (s : PState) (hs : g.gated env.customOp = false) (h : Good g s) : Good g (commitCustom env s) := by
  simp only [commitCustom]
  split
  · exact h
  · intro hsw
    have hc := h hsw
    exact ⟨hc.cfg, hc.stack, by intro o ho; simp only [List.mem_cons] at ho; rcases ho with ho | ho; (· subst ho; exact hs); (· exact hc.trace o ho), hc.m1, hc.m2⟩

theorem runEff_good (env : Env) (g : Gate) (e : Eff) (s : PState) (hs : effSafe env.genv g e = true) (h : Good g s) :
    Good g (runEff env s e) := by
  intro hsw
  have h := h (not_switched_of s _ (runEff_switched env e s) hsw)
  cases e with
  | emit op =>
    simp only [effSafe, Bool.not_eq_true'] at hs
    exact ⟨h.cfg, h.stack, by intro o ho; simp only [runEff, List.mem_cons] at ho; rcases ho with ho | ho; (· subst ho; exact hs); (· exact h.trace o ho), h.m1, h.m2⟩
  | loopBegin => exact ⟨h.cfg, h.stack, h.trace, h.m1, h.m2⟩
  | loopEnd => exact ⟨h.cfg, h.stack, h.trace, h.m1, h.m2⟩
  | codePush => exact ⟨h.cfg, h.stack, h.trace, h.m1, h.m2⟩
  | codePop => simp only [runEff]; split <;> exact ⟨h.cfg, h.stack, h.trace, h.m1, h.m2⟩
  | breakCont =>
    simp only [effSafe, Bool.and_eq_true, Bool.not_eq_true'] at hs
    simp only [runEff]
    split
    · exact ⟨h.cfg, h.stack, h.trace, h.m1, h.m2⟩
    · refine ⟨h.cfg, h.stack, ?_, h.m1, h.m2⟩
      intro o ho
      simp only [List.mem_cons, List.mem_append, List.mem_reverse, List.mem_map] at ho
      rcases ho with ho | ⟨b, _, ho⟩ | ho
      · subst ho; exact hs.2
      · cases b
        · simp at ho; subst ho; exact hs.1.2
        · simp at ho; subst ho; exact hs.1.1
      · exact h.trace o ho
  | flagsPush =>
    refine ⟨h.cfg, ?_, h.trace, h.m1, h.m2⟩
    intro f hf
    simp only [runEff, List.mem_cons] at hf
    rcases hf with hf | hf
    · subst hf; exact h.cfg
    · exact h.stack f hf
  | flagsPop =>
    simp only [runEff]
    split
    · rename_i f r hst
      refine ⟨?_, ?_, h.trace, h.m1, h.m2⟩
      · exact h.stack f (by rw [hst]; exact List.mem_cons_self)
      · intro f' hf'; exact h.stack f' (by rw [hst]; exact List.mem_cons_of_mem _ hf')
    · exact ⟨h.cfg, h.stack, h.trace, h.m1, h.m2⟩
  | setFlag f v =>
    simp only [effSafe, Bool.or_eq_true, bne_iff_ne, ne_eq, beq_iff_eq] at hs
    refine ⟨?_, h.stack, h.trace, h.m1, h.m2⟩
    simp only [runEff]
    by_cases hf : f = g.flag
    · subst hf
      rcases hs with hs | hs
      · exact absurd rfl hs
      · rw [get_set_same]; exact hs
    · rw [get_set_ne _ _ _ _ hf]; exact h.cfg
  | flagsSwitch => simp [runEff] at hsw
  | addErr => exact ⟨h.cfg, h.stack, h.trace, h.m1, h.m2⟩
  | consumeCustom => exact consumeCustom_good env g s (fun _ => h) hsw
  | commitCustom =>
    simp only [effSafe, Bool.not_eq_true'] at hs
    exact commitCustom_good env g s hs (fun _ => h) hsw
  | unknown w => simp [effSafe] at hs

theorem foldl_runEff_good (env : Env) (g : Gate) : ∀ (l : List Eff) (s : PState), l.all (effSafe env.genv g) = true → Good g s →
    Good g (l.foldl (runEff env) s)
  | [], s, _, h => h
  | e :: r, s, hl, h => by
    simp only [List.all_cons, Bool.and_eq_true] at hl
    exact foldl_runEff_good env g r _ hl.2 (runEff_good env g e s hl.1 h)

theorem runAct_good (env : Env) (g : Gate) (a : Nat) (s : PState) (hs : actSafe env.genv g a = true) (h : Good g s) :
    Good g (runAct env s a) := foldl_runEff_good env g _ s hs h

theorem evalPred_good (env : Env) (g : Gate) (a : Nat) (s : PState) (hs : actSafe env.genv g a = true) (h : Good g s) :
    Good g (evalPred env s a).1 := by
  have h' := foldl_runEff_good env g _ s hs h
  simp only [evalPred]
  split
  · exact h'
  · exact h'
  · exact prepareCustom_good env g _ h'
  · exact h'
  · exact good_of_same g (List.foldl (runEff env) s (env.acts[a]!).effs) _ rfl rfl rfl rfl rfl rfl h'
  · exact good_of_same g (List.foldl (runEff env) s (env.acts[a]!).effs) _ rfl rfl rfl rfl rfl rfl h'

/-- a guard fails while the flag is blocked -/
theorem guard_fails (env : Env) (g : Gate) (a : Nat) (s : PState) (hg : isGuardAct env.genv g a = true) (h : Core g s) :
    (evalPred env s a).2 = false := by
  simp only [isGuardAct, Env.genv] at hg
  split at hg
  · rename_i f neg hp
    simp only [Bool.and_eq_true, beq_iff_eq, List.isEmpty_iff] at hg
    obtain ⟨⟨hf, hn⟩, he⟩ := hg
    simp only [evalPred, he, List.foldl_nil, hp]
    subst hf hn
    have := h.cfg
    cases hb : g.blocked <;> simp_all
  · cases hg

theorem memoOK_insert (g : Gate) (m : Memo) (pos id : Nat) (b : Bool) (e : Nat) (fl : Flags) (hm : MemoOK g m)
    (hb : g.guardIds.contains id = true → b = false) : MemoOK g (m.insert (pos, id) (b, e, fl)) := by
  intro pos' id' b' e' fl' hid hget
  rw [Std.HashMap.getElem?_insert] at hget
  split at hget
  · rename_i heq
    simp only [beq_iff_eq, Prod.mk.injEq] at heq
    injection hget with hget
    simp only [Prod.mk.injEq] at hget
    rw [← hget.1]
    exact hb (by rw [heq.2]; exact hid)
  · exact hm pos' id' b' e' fl' hid hget

/-! ### the gating theorem -/

theorem matchLit_good (env : Env) (g : Gate) (ic : Bool) (p0 : Nat) : ∀ (l : List Nat) (s : PState), Good g s → Good g (matchLit env ic p0 l s).1
  | [], _, h => h
  | w :: r, s, h => by
    simp only [matchLit]
    split
    · exact good_of_same g s _ rfl rfl rfl rfl rfl rfl h
    · exact matchLit_good env g ic p0 r _ (advance_good env g s h)

theorem guard_state (env : Env) (g : Gate) (a : Nat) (s : PState) (hg : isGuardAct env.genv g a = true) : (evalPred env s a).1 = s := by
  simp only [isGuardAct, Env.genv] at hg
  split at hg
  · rename_i f neg hp
    simp only [Bool.and_eq_true, beq_iff_eq, List.isEmpty_iff] at hg
    simp only [evalPred, hg.2, List.foldl_nil, hp]
  · cases hg

def ResOK (g : Gate) (id : Nat) (r : PState × Bool) : Prop :=
  Good g r.1 ∧ (r.1.switched = false → g.guardIds.contains id = true → r.2 = false)


/-- what the check says about a node's id -/
theorem chk_id (ge : GEnv) (g : Gate) (ok : Array Bool) (e : PExpr) (h : chk ge g ok e = true) :
    g.guardIds.contains (nodeId e) = dead ge g e := by
  cases e <;> simp only [chk, Bool.and_eq_true, beq_iff_eq, Bool.not_eq_true'] at h <;> simp only [nodeId, dead]
  all_goals first
    | exact h.1
    | exact h.1.1
    | exact h.1.1.1
    | exact h

theorem gate_sound (env : Env) (g : Gate) (ok : Array Bool)
    (hrules : ∀ i, i < env.rules.size → ok[i]! = true → chk env.genv g ok (env.rules[i]!) = true) : ∀ fuel,
    (∀ e s, chk env.genv g ok e = true → Good g s → ResOK g (nodeId e) (parseExpr env fuel e s)) ∧
    (∀ e s, chk env.genv g ok e = true → Good g s → ResOK g (nodeId e) (parseNode env fuel e s)) ∧
    (∀ es s p0, chkSeq env.genv g ok es = true → Good g s →
        Good g (parseSeq env fuel es s p0).1 ∧ ((parseSeq env fuel es s p0).1.switched = false → deadAny env.genv g es = true → (parseSeq env fuel es s p0).2 = false)) ∧
    (∀ es s, chkAll env.genv g ok es = true → Good g s →
        Good g (parseChoice env fuel es s).1 ∧ ((parseChoice env fuel es s).1.switched = false → deadAll env.genv g es = true → (parseChoice env fuel es s).2 = false)) ∧
    (∀ e s, chk env.genv g ok e = true → Good g s → Good g (parseStar env fuel e s).1) := by
  intro fuel
  induction fuel with
  | zero =>
    refine ⟨?_, ?_, ?_, ?_, ?_⟩
    · intro e s _ h; simp only [parseExpr]; exact ⟨good_of_same g s _ rfl rfl rfl rfl rfl rfl h, fun _ _ => by simp⟩
    · intro e s _ h; simp only [parseNode]; exact ⟨good_of_same g s _ rfl rfl rfl rfl rfl rfl h, fun _ _ => by simp⟩
    · intro es s p0 _ h; simp only [parseSeq]; exact ⟨good_of_same g s _ rfl rfl rfl rfl rfl rfl h, fun _ _ => by simp⟩
    · intro es s _ h; simp only [parseChoice]; exact ⟨good_of_same g s _ rfl rfl rfl rfl rfl rfl h, fun _ _ => by simp⟩
    · intro e s _ h; simp only [parseStar]; exact good_of_same g s _ rfl rfl rfl rfl rfl rfl h
  | succ n ih =>
    obtain ⟨ihE, ihN, ihS, ihC, ihT⟩ := ih
    obtain ⟨mE, mN, mS, mC, mT⟩ := switched_mono env n
    refine ⟨?_, ?_, ?_, ?_, ?_⟩
    · -- parseExpr: counter, memo hit, memo store
      intro e s hc h
      simp only [parseExpr]
      have h1 : Good g { s with cnt := s.cnt + 1 } := good_of_same g s _ rfl rfl rfl rfl rfl rfl h
      split
      · exact ⟨good_of_same g s _ rfl rfl rfl rfl rfl rfl h, fun _ _ => by simp⟩
      · split
        · rename_i b endPos hhit
          refine ⟨good_of_same g s _ rfl rfl rfl rfl rfl rfl h, ?_⟩
          intro hsw hid
          have hcore := h hsw
          obtain ⟨fl, hget⟩ := memoGet_some hhit
          split at hget
          · exact hcore.m2 _ _ _ _ _ hid hget
          · exact hcore.m1 _ _ _ _ _ hid hget
        · obtain ⟨hg', hr'⟩ := ihN e _ hc h1
          split
          · refine ⟨?_, hr'⟩
            intro hsw
            have hc' := hg' hsw
            exact ⟨hc'.cfg, hc'.stack, hc'.trace, hc'.m1, memoOK_insert g _ _ _ _ _ _ hc'.m2 (fun hid => hr' hsw hid)⟩
          · refine ⟨?_, hr'⟩
            intro hsw
            have hc' := hg' hsw
            exact ⟨hc'.cfg, hc'.stack, hc'.trace, memoOK_insert g _ _ _ _ _ _ hc'.m1 (fun hid => hr' hsw hid), hc'.m2⟩
    · -- parseNode
      intro e s hc h
      have hidEq := chk_id env.genv g ok e hc
      cases e with
      | seq i es =>
        simp only [chk, Bool.and_eq_true, beq_iff_eq] at hc
        simp only [nodeId, dead] at hidEq
        simp only [parseNode, nodeId]
        obtain ⟨h1, h2⟩ := ihS es s s.pos hc.2 h
        split
        · exact ⟨good_same' g _ h1 _ rfl rfl rfl rfl rfl rfl, fun _ _ => by simp⟩
        · exact ⟨h1, fun hsw hid => h2 hsw (by rw [← hidEq]; exact hid)⟩
      | choice i es =>
        simp only [chk, Bool.and_eq_true, beq_iff_eq] at hc
        simp only [nodeId, dead] at hidEq
        simp only [parseNode, nodeId]
        obtain ⟨h1, h2⟩ := ihC es s hc.2 h
        exact ⟨h1, fun hsw hid => h2 hsw (by rw [← hidEq]; exact hid)⟩
      | action i a e' =>
        simp only [chk, Bool.and_eq_true, beq_iff_eq, Bool.or_eq_true] at hc
        simp only [nodeId, dead] at hidEq
        simp only [parseNode, nodeId]
        obtain ⟨hg', hr'⟩ := ihE e' s hc.2 h
        have hid' := chk_id env.genv g ok e' hc.2
        split
        · exact ⟨hg', fun hsw hid => hr' hsw (by rw [hid', ← hidEq]; exact hid)⟩
        · split
          · rename_i hok
            rcases hc.1.2 with hd | hsafe
            · -- the operand cannot succeed while blocked: it succeeded, so a macro has run
              have hne : (parseExpr env n e' s).1.switched = true := by
                cases hsw : (parseExpr env n e' s).1.switched
                · have := hr' hsw (by rw [hid']; exact hd); rw [this] at hok; cases hok
                · rfl
              have hne2 := foldl_switched env (env.acts[a]!).effs _ hne
              exact ⟨fun hsw => (by simp only [runAct] at hsw; rw [hne2] at hsw; cases hsw),
                     fun hsw _ => (by simp only [runAct] at hsw; rw [hne2] at hsw; cases hsw)⟩
            · refine ⟨runAct_good env g a _ hsafe hg', ?_⟩
              intro hsw hid
              have hsw' : (parseExpr env n e' s).1.switched = false := not_switched_of _ _ (foldl_switched env _ _) hsw
              have := hr' hsw' (by rw [hid', ← hidEq]; exact hid)
              rw [this] at hok; cases hok
          · exact ⟨hg', fun _ _ => by simp⟩
      | code i a ns =>
        simp only [chk, Bool.and_eq_true, Bool.not_eq_true'] at hc
        simp only [parseNode, nodeId]
        refine ⟨?_, fun _ hid => by rw [hc.1] at hid; cases hid⟩
        split
        · exact h
        · exact runAct_good env g a s hc.2 h
      | andCode i a =>
        simp only [chk, Bool.and_eq_true, beq_iff_eq] at hc
        simp only [parseNode, nodeId]
        refine ⟨evalPred_good env g a s hc.2 h, ?_⟩
        intro hsw hid
        have hga : isGuardAct env.genv g a = true := by rw [← hc.1]; exact hid
        rw [guard_state env g a s hga] at hsw
        exact guard_fails env g a s hga (h hsw)
      | and_ i e' =>
        simp only [chk, Bool.and_eq_true, beq_iff_eq] at hc
        simp only [nodeId, dead] at hidEq
        simp only [parseNode, nodeId]
        obtain ⟨hg', hr'⟩ := ihE e' { s with skip := s.skip + 1 } hc.2 (good_of_same g s _ rfl rfl rfl rfl rfl rfl h)
        have hid' := chk_id env.genv g ok e' hc.2
        exact ⟨good_same' g _ hg' _ rfl rfl rfl rfl rfl rfl, fun hsw hid => hr' hsw (by rw [hid', ← hidEq]; exact hid)⟩
      | andLogical i e' =>
        simp only [chk, Bool.and_eq_true, Bool.not_eq_true'] at hc
        simp only [parseNode, nodeId]
        refine ⟨?_, fun _ hid => by rw [hc.1] at hid; cases hid⟩
        exact good_same' g _ (ihE e' { s with skip := s.skip + 1 } hc.2 (good_of_same g s _ rfl rfl rfl rfl rfl rfl h)).1 _ rfl rfl rfl rfl rfl rfl
      | not_ i e' =>
        simp only [chk, Bool.and_eq_true, Bool.not_eq_true'] at hc
        simp only [parseNode, nodeId]
        refine ⟨?_, fun _ hid => by rw [hc.1] at hid; cases hid⟩
        exact good_same' g _ (ihE e' { s with skip := s.skip + 1 } hc.2 (good_of_same g s _ rfl rfl rfl rfl rfl rfl h)).1 _ rfl rfl rfl rfl rfl rfl
      | any i =>
        simp only [chk, Bool.not_eq_true'] at hc
        simp only [parseNode, nodeId]
        refine ⟨?_, fun _ hid => by rw [hc] at hid; cases hid⟩
        split
        · exact h
        · exact advance_good env g s h
      | lit i rs ic =>
        simp only [chk, Bool.not_eq_true'] at hc
        simp only [parseNode, nodeId]
        exact ⟨matchLit_good env g ic s.pos rs s h, fun _ hid => by rw [hc] at hid; cases hid⟩
      | cls i cs rs cl inv ic =>
        simp only [chk, Bool.not_eq_true'] at hc
        simp only [parseNode, nodeId]
        refine ⟨?_, fun _ hid => by rw [hc] at hid; cases hid⟩
        split
        · exact h
        · split
          · exact advance_good env g s h
          · exact h
      | star i e' =>
        simp only [chk, Bool.and_eq_true, Bool.not_eq_true'] at hc
        simp only [parseNode, nodeId]
        exact ⟨ihT e' s hc.2 h, fun _ hid => by rw [hc.1] at hid; cases hid⟩
      | plus i e' =>
        simp only [chk, Bool.and_eq_true, beq_iff_eq] at hc
        simp only [nodeId, dead] at hidEq
        simp only [parseNode, nodeId]
        obtain ⟨hg', hr'⟩ := ihE e' s hc.2 h
        have hid' := chk_id env.genv g ok e' hc.2
        split
        · rename_i hok
          refine ⟨ihT e' _ hc.2 hg', ?_⟩
          intro hsw hid
          have hsw' : (parseExpr env n e' s).1.switched = false := not_switched_of _ _ (mT e' _) hsw
          have := hr' hsw' (by rw [hid', ← hidEq]; exact hid)
          rw [this] at hok; cases hok
        · exact ⟨hg', fun _ _ => by simp⟩
      | opt i e' =>
        simp only [chk, Bool.and_eq_true, Bool.not_eq_true'] at hc
        simp only [parseNode, nodeId]
        exact ⟨(ihE e' s hc.2 h).1, fun _ hid => by rw [hc.1] at hid; cases hid⟩
      | labeled i l tc e' =>
        simp only [chk, Bool.and_eq_true, beq_iff_eq] at hc
        simp only [nodeId, dead] at hidEq
        simp only [parseNode, nodeId]
        obtain ⟨hg', hr'⟩ := ihE e' s hc.2 h
        have hid' := chk_id env.genv g ok e' hc.2
        split
        · rename_i hcond
          refine ⟨good_same' g _ hg' _ rfl rfl rfl rfl rfl rfl, ?_⟩
          intro hsw hid
          have := hr' hsw (by rw [hid', ← hidEq]; exact hid)
          rw [this] at hcond
          simp at hcond
        · exact ⟨hg', fun hsw hid => hr' hsw (by rw [hid', ← hidEq]; exact hid)⟩
      | ref i idx =>
        simp only [chk, Bool.and_eq_true, Bool.not_eq_true', decide_eq_true_eq] at hc
        simp only [parseNode, nodeId]
        refine ⟨?_, fun _ hid => by rw [hc.1.1] at hid; cases hid⟩
        have hr := hrules idx hc.2 hc.1.2
        exact good_same' g _ (ihE _ { s with labels := [] } hr (good_of_same g s _ rfl rfl rfl rfl rfl rfl h)).1 _ rfl rfl rfl rfl rfl rfl
    · -- parseSeq
      intro es s p0 hc h
      cases es with
      | nil => simp only [parseSeq]; exact ⟨h, fun _ hd => by simp [deadAny] at hd⟩
      | cons e r =>
        simp only [chkSeq, Bool.and_eq_true, Bool.or_eq_true] at hc
        simp only [parseSeq]
        obtain ⟨hg', hr'⟩ := ihE e s hc.1 h
        have hid' := chk_id env.genv g ok e hc.1
        split
        · rename_i hok
          rcases hc.2 with hgd | hrest
          · -- `e` cannot succeed while blocked but did: a macro has run; the rest is unconstrained, `switched` stays set
            have hne : (parseExpr env n e s).1.switched = true := by
              cases hsw : (parseExpr env n e s).1.switched
              · have := hr' hsw (by rw [hid']; exact hgd); rw [this] at hok; cases hok
              · rfl
            have hne2 : (parseSeq env n r (parseExpr env n e s).1 p0).1.switched = true := mS r p0 _ hne
            exact ⟨fun hsw => (by rw [hne2] at hsw; cases hsw), fun hsw _ => (by rw [hne2] at hsw; cases hsw)⟩
          · obtain ⟨h1, h2⟩ := ihS r _ p0 hrest hg'
            refine ⟨h1, ?_⟩
            intro hsw hd
            simp only [deadAny, Bool.or_eq_true] at hd
            rcases hd with hd | hd
            · have hsw' : (parseExpr env n e s).1.switched = false := not_switched_of _ _ (mS r p0 _) hsw
              have := hr' hsw' (by rw [hid']; exact hd)
              rw [this] at hok; cases hok
            · exact h2 hsw hd
        · exact ⟨good_same' g _ hg' _ rfl rfl rfl rfl rfl rfl, fun _ _ => by simp⟩
    · -- parseChoice
      intro es s hc h
      cases es with
      | nil => simp only [parseChoice]; exact ⟨h, fun _ _ => by simp⟩
      | cons e r =>
        simp only [chkAll, Bool.and_eq_true] at hc
        simp only [parseChoice]
        obtain ⟨hg', hr'⟩ := ihE e s hc.1 h
        have hid' := chk_id env.genv g ok e hc.1
        split
        · rename_i hok
          refine ⟨hg', ?_⟩
          intro hsw hd
          simp only [deadAll, Bool.and_eq_true] at hd
          have := hr' hsw (by rw [hid']; exact hd.1)
          rw [this] at hok; cases hok
        · obtain ⟨h1, h2⟩ := ihC r _ hc.2 hg'
          refine ⟨h1, ?_⟩
          intro hsw hd
          simp only [deadAll, Bool.and_eq_true] at hd
          exact h2 hsw hd.2
    · -- parseStar
      intro e s hc h
      simp only [parseStar]
      have := (ihE e s hc h).1
      split
      · exact ihT e _ hc this
      · exact this

end DS.Peg
