package main

import (
	"fmt"
	"strconv"
	"strings"

	ds "github.com/sealdice/dicescript"
)

// pegtrace <cfg> <hexsrc> : Parse only.  "ok <offset> <opcode numbers written, in order>" | "err <offset-or--1> <trace>"
// (the trace of a failed parse is kept: it shows what abandoned alternatives wrote)
func pegTraceLine(t []string) string {
	if len(t) != 3 {
		return "bad-op"
	}
	cfg, ok := parseCfg(t[1])
	src, ok2 := unhx(t[2])
	if !ok || !ok2 {
		return "bad-op"
	}
	vm, _ := newVM(cfg, "-")
	ds.VerifEmitTraceStart()
	err := vm.Parse(src)
	tr := ds.VerifEmitTraceStop()
	parts := make([]string, len(tr))
	for i, x := range tr {
		parts[i] = strconv.Itoa(x)
	}
	trace := strings.Join(parts, ",")
	if trace == "" {
		trace = "-"
	}
	if err != nil {
		return "err " + trace
	}
	return fmt.Sprintf("ok %d %s", ds.VerifParsedOffset(vm), trace)
}

// pegtracec <cfg> <hexpattern> <hexsrc> : as pegtrace, with RegCustomDice(pattern) registered
func pegTraceCustomLine(t []string) string {
	if len(t) != 4 {
		return "bad-op"
	}
	cfg, ok := parseCfg(t[1])
	pat, ok1 := unhx(t[2])
	src, ok2 := unhx(t[3])
	if !ok || !ok1 || !ok2 {
		return "bad-op"
	}
	vm, _ := newVM(cfg, "-")
	if err := vm.RegCustomDice(pat, func(ctx *ds.Context, groups []string, payload any) (*ds.VMValue, string, error) {
		return ds.NewIntVal(1), "", nil
	}); err != nil {
		return "bad-op"
	}
	ds.VerifEmitTraceStart()
	err := vm.Parse(src)
	tr := ds.VerifEmitTraceStop()
	parts := make([]string, len(tr))
	for i, x := range tr {
		parts[i] = strconv.Itoa(x)
	}
	trace := strings.Join(parts, ",")
	if trace == "" {
		trace = "-"
	}
	if err != nil {
		return "err " + trace
	}
	return fmt.Sprintf("ok %d %s", ds.VerifParsedOffset(vm), trace)
}

func init() {
	handlers["pegtrace"] = pegTraceLine
	handlers["pegtracec"] = pegTraceCustomLine
}
