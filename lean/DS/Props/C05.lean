/-
  C05 — Dice are unbiased for every number of sides.
  Property theorems only (helper lemmas live in DS/Proofs/RollLemmas.lean).
  `n` ranges over every uint64 side count the code can reach (0 < n < 2^64); the Go guard
  `dicePoints > MaxInt64-1 ⇒ 0` restricts callers to n ≤ 2^63-2, a subset.
-/
import DS.Proofs.RollLemmas

namespace DS.Props.C05
open DS.Roll DS.Rng DS.Proofs

/-- number of 64-bit words that are accepted for an n-sided die: all of them when n is a power of
    two, otherwise the largest multiple of n below 2^64-1 -/
def accBound (n : Nat) : Nat := if isPow2 n then two64 else ceiling n

/-- Soundness: whatever `_roll64` returns is `w % n + 1` for the FIRST word `w` below `accBound n`;
    every word before it was rejected (≥ accBound n) and exactly the words up to `w` are consumed. -/
theorem roll64_first_accepted (n : Nat) (hn : 0 < n) (hlt : n < two64) (ws : List Nat)
    (hws : ∀ w ∈ ws, w < two64) (r : Nat) (rest : List Nat) (h : roll64 n ws = some (r, rest)) :
    ∃ rej w, ws = rej ++ w :: rest ∧ (∀ x ∈ rej, accBound n ≤ x) ∧ w < accBound n ∧ r = w % n + 1 := by
  cases ws with
  | nil => simp [roll64] at h
  | cons v ws =>
    have hv : v < two64 := hws v (by simp)
    simp only [roll64] at h
    by_cases hp : isPow2 n = true
    · rw [if_pos hp] at h
      simp at h; obtain ⟨rfl, rfl⟩ := h
      refine ⟨[], v, by simp, by simp, ?_, ?_⟩
      · simp [accBound, hp, hv]
      · rw [mask_eq_mod n v hn hlt hp]
    · rw [if_neg hp] at h
      by_cases hf : v > (two64 - 1) - n
      · rw [if_pos hf] at h
        split at h
        · simp at h
        · rename_i v' ws' hrl
          simp at h; obtain ⟨rfl, rfl⟩ := h
          obtain ⟨rej, e, hr, hl⟩ := rejectLoop_spec _ _ _ _ _ hrl
          exact ⟨rej, v', e, by simpa [accBound, hp] using hr, by simpa [accBound, hp] using hl, rfl⟩
      · rw [if_neg hf] at h
        simp at h; obtain ⟨rfl, rfl⟩ := h
        have := ceiling_gt n hn hlt
        refine ⟨[], v, by simp, by simp, ?_, rfl⟩
        simp only [accBound, hp]
        simp
        omega

/-- Completeness: on any stream `rejected* ++ accepted :: rest` the die shows `accepted % n + 1`
    and leaves exactly `rest`. Together with soundness: `_roll64` IS "first accepted word mod n". -/
theorem roll64_complete (n : Nat) (hn : 0 < n) (hlt : n < two64) (rej : List Nat) (w : Nat) (rest : List Nat)
    (hrej : ∀ x ∈ rej, accBound n ≤ x ∧ x < two64) (hw : w < accBound n) :
    roll64 n (rej ++ w :: rest) = some (w % n + 1, rest) := by
  by_cases hp : isPow2 n = true
  · -- every word < 2^64 is accepted, so `rej` must be empty
    have hrej' : rej = [] := by
      cases rej with
      | nil => rfl
      | cons x xs =>
        have := hrej x (by simp)
        simp [accBound, hp] at this
        omega
    subst hrej'
    simp [roll64, hp, mask_eq_mod n w hn hlt hp]
  · have hc : accBound n = ceiling n := by simp [accBound, hp]
    have hgt := ceiling_gt n hn hlt
    cases rej with
    | nil =>
      simp only [List.nil_append, roll64, hp]
      by_cases hf : w > (two64 - 1) - n
      · have : rejectLoop (ceiling n) w rest = some (w, rest) :=
          rejectLoop_complete _ [] w rest (by simp) (by omega) w rest (by simp)
        simp [hf, this]
      · simp [hf]
    | cons x xs =>
      have hx := hrej x (by simp)
      have hf : x > (two64 - 1) - n := by omega
      have : rejectLoop (ceiling n) x (xs ++ w :: rest) = some (w, rest) :=
        rejectLoop_complete _ (x :: xs) w rest
          (fun y hy => by have := (hrej y hy).1; omega) (by omega) x _ (by simp)
      simp [roll64, hp, hf, this]

/-- No modulo bias: among the accepted words every face `k+1` (k < n) is hit by exactly the same
    number of words, `accBound n / n` — for every n, including those just above a power of two. -/
theorem accepted_uniform (n : Nat) (hn : 0 < n) (hlt : n < two64) (k : Nat) (hk : k < n) :
    Nat.count (fun w => w % n = k) (accBound n) = accBound n / n := by
  have hmod : accBound n % n = 0 := by
    unfold accBound
    split
    · rename_i hp
      obtain ⟨j, rfl⟩ := (isPow2_iff n hn hlt).1 hp
      have hj : j ≤ 64 := by
        by_contra hcon
        have : 2^64 < 2^j := Nat.pow_lt_pow_right (by omega) (by omega)
        unfold two64 at hlt; omega
      have : two64 = 2^64 := by unfold two64; norm_num
      rw [this]
      exact Nat.mod_eq_zero_of_dvd (Nat.pow_dvd_pow 2 hj)
    · exact ceiling_mod n hn
  have h := Nat.count_modEq_card (accBound n) hn k
  have hpred : (fun x => x ≡ k [MOD n]) = (fun w => w % n = k) := by
    funext x; simp [Nat.ModEq, Nat.mod_eq_of_lt hk]
  rw [hmod] at h
  simp at h
  simpa [hpred] using h

/-- every face is reachable: at least one accepted word per face -/
theorem accepted_nonempty (n : Nat) (hn : 0 < n) (hlt : n < two64) : 1 ≤ accBound n / n := by
  have hb : n ≤ accBound n := by
    unfold accBound
    split
    · omega
    · unfold ceiling
      have : (two64 - 1) % n ≤ (two64 - 1) - n ∨ n = two64 - 1 ∨ True := Or.inr (Or.inr trivial)
      have h1 : (two64 - 1) % n < n := Nat.mod_lt _ hn
      have h2 := Nat.div_add_mod (two64 - 1) n
      have h3 : 1 ≤ (two64 - 1) / n := Nat.div_pos (by unfold two64 at *; omega) hn
      have : n ≤ n * ((two64 - 1) / n) := Nat.le_mul_of_pos_right _ h3
      omega
  exact Nat.div_pos hb hn

/-- the result is a face: 1 ≤ r ≤ n -/
theorem roll64_range (n : Nat) (hn : 0 < n) (hlt : n < two64) (ws : List Nat)
    (hws : ∀ w ∈ ws, w < two64) (r : Nat) (rest : List Nat) (h : roll64 n ws = some (r, rest)) :
    1 ≤ r ∧ r ≤ n := by
  obtain ⟨_, w, _, _, _, rfl⟩ := roll64_first_accepted n hn hlt ws hws r rest h
  have := Nat.mod_lt w hn
  omega

/-- `Roll` for every positive side count an int64 can hold, in random mode, is `_roll64`; side count 0 gives 0 -/
theorem roll_is_roll64 (sides : Int) (h0 : 0 < sides) (h1 : sides ≤ maxInt64) (ws : List Nat) :
    roll sides 0 ws = (roll64 sides.toNat ws).map (fun p => (wrap64 (p.1 : Int), p.2)) := by
  have hne : (sides == 0) = false := by simp; omega
  have hu : toU64 sides = sides.toNat := by
    unfold toU64 two64
    have : sides % (18446744073709551616 : Int) = sides := Int.emod_eq_of_lt (by omega) (by unfold maxInt64 at h1; omega)
    simp [this]
  unfold roll
  simp only [hne]
  simp [hu]
  cases roll64 sides.toNat ws <;> simp

theorem roll_zero (mode : Int) (ws : List Nat) : roll 0 mode ws = some (0, ws) := by
  simp [roll]

/-- the largest die (2^63 − 1 sides; it used to roll 0) is a die like any other: a face in 1..MaxInt64 -/
theorem roll_largest (ws : List Nat) (hws : ∀ w ∈ ws, w < two64) (r : Int) (rest : List Nat)
    (h : roll maxInt64 0 ws = some (r, rest)) : 1 ≤ r ∧ r ≤ maxInt64 := by
  rw [roll_is_roll64 maxInt64 (by decide) (by decide)] at h
  cases h64 : roll64 maxInt64.toNat ws with
  | none => rw [h64] at h; simp at h
  | some p =>
    rw [h64] at h
    simp at h
    obtain ⟨rfl, _⟩ := h
    have hr := roll64_range maxInt64.toNat (by decide) (by decide) ws hws p.1 p.2 (by rw [h64])
    have e : maxInt64.toNat = 9223372036854775807 := by decide
    rw [e] at hr
    unfold wrap64 two63 two64 maxInt64
    omega

/-- Independence of successive dice: a die is a function of its own segment of the stream only.
    If a roll consumed `pre` (so `ws = pre ++ rest`), it returns the same face on `pre ++ rest'` for
    every continuation `rest'`, handing exactly `rest'` to the next die. -/
theorem roll64_own_segment (n : Nat) (hn : 0 < n) (hlt : n < two64) (ws : List Nat)
    (hws : ∀ w ∈ ws, w < two64) (r : Nat) (rest : List Nat) (h : roll64 n ws = some (r, rest)) :
    ∃ pre, pre ≠ [] ∧ ws = pre ++ rest ∧ ∀ rest', roll64 n (pre ++ rest') = some (r, rest') := by
  obtain ⟨rej, w, e, hr, hw, rfl⟩ := roll64_first_accepted n hn hlt ws hws r rest h
  refine ⟨rej ++ [w], by simp, by simp [e], ?_⟩
  intro rest'
  have := roll64_complete n hn hlt rej w rest' (fun x hx => ⟨hr x hx, hws x (by simp [e, hx])⟩) hw
  simpa using this

/-- `k` dice use `k` consecutive, disjoint segments and return `k` faces -/
theorem rollDice_length (sides : Int) (dmin dmax : Option Int) (mode : Int) :
    ∀ (k : Nat) (ws : List Nat) (ds : List Int) (rest : List Nat),
    rollDice sides dmin dmax mode k ws = some (ds, rest) → ds.length = k ∧ ∃ pre, ws = pre ++ rest := by
  intro k
  induction k with
  | zero => intro ws ds rest h; simp [rollDice] at h; obtain ⟨rfl, rfl⟩ := h; exact ⟨rfl, [], by simp⟩
  | succ k ih =>
    intro ws ds rest h
    simp only [rollDice] at h
    split at h
    · simp at h
    · rename_i d ws' hr
      split at h
      · simp at h
      · rename_i ds' ws'' hd
        simp at h; obtain ⟨rfl, rfl⟩ := h
        obtain ⟨hl, pre2, e2⟩ := ih ws' ds' ws'' hd
        refine ⟨by simp [hl], ?_⟩
        have : ∃ pre1, ws = pre1 ++ ws' := roll_prefix _ _ _ _ _ hr
        obtain ⟨pre1, e1⟩ := this
        exact ⟨pre1 ++ pre2, by simp [e1, e2]⟩

/- Non-vacuity: concrete streams that satisfy the hypotheses, one with a forced rejection.
   n = 6148914691236517206 (just above 2^64/3): words ≥ ceiling n = 2·n are rejected. -/
example : roll64 6 [7, 8] = some (2, [8]) := by decide
example : roll64 6148914691236517206 [18446744073709551615, 5, 9] = some (6, [9]) := by decide
example : accBound 6148914691236517206 = 12297829382473034412 := by decide
example : roll64 8 [1000] = some (1, []) := by decide

end DS.Props.C05
