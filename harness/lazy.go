package main

import (
	"encoding/json"
	"fmt"
	"strings"

	ds "github.com/sealdice/dicescript"
)

// lazybody <cfg> <seed> <kind> <times> <hexbody> : a source-text body that the VM compiles lazily, evaluated <times> times on one VM
//   kind = computed (NewComputedVal), funcjson (function restored from JSON, no parameters), compjson (computed value restored from JSON),
//          runexpr (RunExpr with the caller's scope), defsides (the body is Config.DefaultDiceSideExpr; the program is `d`)
// Output: one "ok <value>" / "err <hexmsg>" per evaluation, joined by " | "
func lazyBodyLine(t []string) string {
	if len(t) != 6 {
		return "bad-op"
	}
	cfg, ok := parseCfg(t[1])
	body, ok2 := unhx(t[5])
	times, _ := atoi(t[4])
	if !ok || !ok2 || times < 1 {
		return "bad-op"
	}
	kind := t[3]
	if kind == "defsides" {
		cfg.DefaultDiceSideExpr = body
		cfg.DiceMaxMode = true
	}
	vm, ok := newVM(cfg, t[2])
	if !ok {
		return "bad-op"
	}
	prog := "x"
	switch kind {
	case "computed":
		vm.Attrs.Store("x", ds.NewComputedVal(body))
	case "compjson", "funcjson":
		var doc map[string]any
		if kind == "compjson" {
			doc = map[string]any{"t": 5, "v": map[string]any{"expr": body}}
		} else {
			doc = map[string]any{"t": 8, "v": map[string]any{"expr": body, "name": "x", "params": []string{}}}
			prog = "x()"
		}
		b, _ := json.Marshal(doc)
		v, err := ds.VMValueFromJSON(b)
		if err != nil {
			return "decode-err " + hx(err.Error())
		}
		vm.Attrs.Store("x", v)
	case "runexpr":
	case "defsides":
		prog = "d"
	default:
		return "bad-op"
	}
	var outs []string
	for i := 0; i < int(times); i++ {
		outs = append(outs, safely(func() string {
			if kind == "runexpr" {
				v, err := vm.RunExpr(body, true)
				if err != nil {
					return "err " + hx(err.Error())
				}
				if v == nil {
					return "ok NIL"
				}
				return "ok " + v.ToString()
			}
			if err := vm.Run(prog); err != nil {
				return "err " + hx(err.Error())
			}
			return "ok " + vm.Ret.ToString()
		}))
	}
	return fmt.Sprint(strings.Join(outs, " | "))
}

// lazyseq <cfg> <seed> <kind> <hexbody> <hexprog>... : the body is stored as x (computed / compjson / funcjson as in lazybody), then the programs
// run in order on that VM; the last token "+runexpr" also evaluates the body through RunExpr after every program.
// Output: one runOne line per program (and "rx=<ok value|err>" after it when +runexpr), joined by " | "
func lazySeqLine(t []string) string {
	if len(t) < 6 {
		return "bad-op"
	}
	cfg, ok := parseCfg(t[1])
	body, ok2 := unhx(t[4])
	if !ok || !ok2 {
		return "bad-op"
	}
	vm, ok := newVM(cfg, t[2])
	if !ok {
		return "bad-op"
	}
	switch t[3] {
	case "computed":
		vm.Attrs.Store("x", ds.NewComputedVal(body))
	case "compjson", "funcjson":
		doc := map[string]any{"t": 5, "v": map[string]any{"expr": body}}
		if t[3] == "funcjson" {
			doc = map[string]any{"t": 8, "v": map[string]any{"expr": body, "name": "x", "params": []string{}}}
		}
		b, _ := json.Marshal(doc)
		v, err := ds.VMValueFromJSON(b)
		if err != nil {
			return "decode-err " + hx(err.Error())
		}
		vm.Attrs.Store("x", v)
	case "none":
	default:
		return "bad-op"
	}
	progs := t[5:]
	rx := false
	if progs[len(progs)-1] == "+runexpr" {
		rx = true
		progs = progs[:len(progs)-1]
	}
	var outs []string
	for _, h := range progs {
		src, ok := unhx(h)
		if !ok {
			return "bad-op"
		}
		o := safely(func() string { return runOne(vm, src) })
		if rx {
			o += " rx=" + safely(func() string {
				v, err := vm.RunExpr(body, true)
				if err != nil {
					return "err"
				}
				if v == nil {
					return "okNIL"
				}
				return "ok" + canon(v)
			})
		}
		outs = append(outs, o)
	}
	return strings.Join(outs, " | ")
}

func init() {
	handlers["lazybody"] = lazyBodyLine
	handlers["lazyseq"] = lazySeqLine
}
