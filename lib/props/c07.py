"""C07 — budgets and capacity limits fail closed: bounded work, error, no truncation.

Proof: DS/Props/C07.lean — on the Lean VM model: the dispatch loop charges one unit BEFORE it executes an instruction and
never executes one once the counter is above the limit; every dice family charges its dice before rolling them (XdY: times,
CoC: the bonus/penalty count, WoD / Double Cross: every round's pool, and the total charged equals the total number of dice
rolled, for every stream and any number of rounds); a pool roll under a budget stops at the first round that would exceed
it; every capacity (operand stack 1000, block and template nesting 20, range/concat/repeat 512, string 1 MiB) is a checked
error before the offending write.
Tie: the vm stream compares NumOpCount (with small budgets, so the over-budget path is exercised) between the real VM and
the model. Oracle on the implementation (hook: work meter counting instruction dispatches and Roll calls): for every
program and budget, work <= operations charged, work <= budget + slack, a value is only returned when the counter is within
the budget; capacity programs whose full value is known must return that value or an error, never anything else.
"""
from lib.common import go_child,  Run, hx, unhx
from lib.proggen import ProgGen
from lib.props.c01 import adversarial, vm_stream

BUDGET_ERR = "允许算力上限"
SLACK = 40  # one over-charge per nested context on the way out (call depth is itself bounded by the +100 per call)


def heavy(r):
    """programs built to do a lot of work per charged operation if any construct escaped the accounting"""
    n = r.choice([50, 500, 5000, 20000, 10 ** 6, 10 ** 9])
    k = r.choice([2, 3, 5, 10, 100])
    pats = [
        "9223372036854775807d6", "i=0; while i<3 { i=i+1; 9223372036854775807d6 }", "p(9223372036854775807)", "b9223372036854775807", "4611686018427387904d2 + 4611686018427387904d2",
        f"{n}d6", f"{n}d{k}k1", f"i=0; while i<{n} {{ i=i+1 }}; i", f"b{n}", f"p{n}", f"{min(n, 20000)}a{k}", f"{min(n, 20000)}c{k}", f"1a2m{n}", f"2c2m{n}",
        f"{min(n, 20000)}a{k}m{n}", f"func r(x){{ r(x+1) }}; r(0)", f"func r(x){{ r(x+1) + r(x+2) }}; r(0)", f"&c = {n}d6; c + c + c",
        f"&c = {min(n, 5000)}d6; func g(){{ c }}; i=0; while i<{n} {{ i=i+1; g() }}; i",
        f"&c = {min(n, 5000)}d6; func g(){{ func h(){{ c }}; h() }}; i=0; while i<{n} {{ i=i+1; g() }}; i",
        f"&c = 1a2m{n}; func g(){{ c }}; i=0; while i<{n} {{ i=i+1; g() }}; i",
        f"x={{}}; x.v = 3; &c = {min(n, 5000)}d6 + x.v; func g(){{ c }}; i=0; while i<{n} {{ i=i+1; g() }}; i",
        f"a=[1..{k}]; i=0; while i<{n} {{ i=i+1; a.shuffle() }}; i", f"a=[1..500]; i=0; while i<{n} {{ i=i+1; a.sum() }}; i",
        f"s='ab'; i=0; while i<{n} {{ i=i+1; s=s+s }}; i", f"s='ab'; i=0; while i<{n} {{ i=i+1; s=`{{s}}{{s}}` }}; i",
        f"a=[1]; i=0; while i<{n} {{ i=i+1; a=a+a }}; i", f"a=[1,2]; i=0; while i<{n} {{ i=i+1; a=a*2 }}; i", f"a=[]; i=0; while i<{n} {{ i=i+1; a.push(i) }}; a.len()",
        f"i=0; while i<{n} {{ i=i+1; [1..500] }}; i", f"i=0; while i<{n} {{ i=i+1; 4df }}; i", f"i=0; while i<{n} {{ i=i+1; {k}d6k1 + b{k} }}; i",
        f"d={{}}; i=0; while i<{n} {{ i=i+1; d[i]=i }}; i", f"func g(a,b){{ a+b }}; i=0; while i<{n} {{ i=i+1; g(i,{k}d6) }}; i",
        f"&c = d6; &e = c + c; &g = e + e; &h = g + g; &j = h + h; &m = j + j; &o = m + m; &q = o + o; i=0; while i<{n} {{ i=i+1; q }}; i",
        f"i=0; while i<{n} {{ i=i+1; `{{i}}d{{i}}={{{k}d6}}` }}; i", f"load('x'); i=0; while i<{n} {{ i=i+1; load('i') }}; i",
        f"i=0; while i<{n} {{ i=i+1; j=0; while j<{k} {{ j=j+1; {k}d6 }} }}; i",
        # an outer-scope computed value that does a lot of work and evaluates to NOTHING (null), or to a falsy / container value
        f"&c = {{'k': {min(n, 5000)}d1}}.zz; func g(){{ c }}; i=0; while i<{n} {{ i=i+1; g() }}; i",
        f"&c = [{min(n, 5000)}d1][5] ?? null; func g(){{ c ?? 1 }}; i=0; while i<{n} {{ i=i+1; g() }}; i",
        f"&c = {min(n, 5000)}d1 * 0; func g(){{ func h(){{ c }}; h() }}; i=0; while i<{n} {{ i=i+1; g() }}; i",
        f"&c = [{min(n, 5000)}d1, 2]; func g(){{ c; 0 }}; i=0; while i<{n} {{ i=i+1; g() }}; i",
        # counts that are computed and come out negative or absurd: rejected, and the rejection costs what was done, never less
        f"b(0-{n})", f"p(0-{n})", f"{min(n, 5000)}d1; b(0-{min(n, 5000)})", f"{min(n, 5000)}d1; p(1-{n})", f"(0-{n})d6", f"{min(n, 5000)}d1; (0-{n})a{k}", f"{min(n, 5000)}d1; (0-{n})c{k}",
        f"{min(n, 5000)}d1; [1]*(0-{n})", f"{min(n, 5000)}d1; 4a3m(0-{n})",
    ]
    return r.choice(pats)


def capacity_cases(r, tier):
    """(source, cfg, expected full value as string, what capacity)"""
    out = []
    for n in [10, 1000, 4000, 4095, 4096, 4097, 5000] + ([9000, 20000] if tier == "thorough" else []):
        out.append(("1" + "+1" * n, "-", str(n + 1), "code-size/sum"))
        out.append(("x=0; " + "x=x+1; " * n + "x", "-", str(n), "code-size/statements"))
        out.append(("[" + ",".join(["1"] * n) + "].len()", "-", str(n), "code-size/array-literal"))
        out.append(("func f(){ " + "1" + "+1" * n + " }; f()", "-", str(n + 1), "code-size/function-body"))
        out.append(("s=`" + "{1}" * n + "`; s.len()", "-", str(n), "code-size/template"))
    for n in [5, 19, 20, 21, 25, 60]:
        out.append(("if 1 {" * n + str(n) + "}" * n + "; 7", "-", "7", "block-nesting" + ("/over" if n > 20 else "")))
        s = str(n)
        for _ in range(n):
            s = "`{" + s + "}`"
        out.append((s, "-", str(n), "template-nesting" + ("/over" if n > 20 else "")))
        out.append(("i=0; " + "while i<1 { " * n + "i=i+1; " + "}; " * n + "i", "-", "1", "block-nesting/while" + ("/over" if n > 20 else "")))
    for n in [10, 900, 998, 999, 1000, 1001, 1200, 3000]:
        out.append((";".join(["1"] * n) + ";77", "-", "77", "operand-stack/statements"))
        out.append(("i=0; while i<" + str(n) + " { i=i+1 }; i", "-", str(n), "operand-stack/loop"))
    for n in [500, 511, 512, 513, 600, 100000, 2 ** 40]:
        out.append((f"[1..{n}].len()", "-", str(n), "range-length"))
        out.append((f"[{n}..1].len()", "-", str(n), "range-length/descending"))
        out.append((f"[0..(0-{n - 1})].len()", "-", str(n), "range-length/negative"))
        out.append((f"[(0-{n // 2})..{n - n // 2 - 1}].len()", "-", str(n), "range-length/straddling-zero"))
        out.append((f"([0]*{n}).len()", "-", str(n), "repeat-length"))
        out.append((f"a=[0]*256; b=[0]*{min(n, 512) - 256 if n <= 512 else 257}; (a+b).len()", "-", str(n) if n <= 512 else "513", "concat-length"))
    for n in [3, 7, 8, 9, 12, 30]:
        out.append((f"a=[1,2]; i=0; while i<{n} {{ i=i+1; a[0:0]=a }}; a.len()", "-", str(2 ** (n + 1)), "slice-growth/self-insert"))
        out.append((f"a=[1,2]; b=[0]*{min(2 ** n, 512)}; a[1:1]=b; a.len()", "-", str(2 + min(2 ** n, 512)), "slice-growth/insert"))
        out.append((f"a=[0]*500; i=0; while i<{n} {{ i=i+1; a[0:1]=[7,8] }}; a.len()", "-", str(500 + n), "slice-growth/replace-one-by-two"))
    for n in [10, 19, 20, 21, 30]:
        out.append((f"s='ab'; i=0; while i<{n} {{ i=i+1; s=s+s }}; 7", "-", str(2 ** (n + 1)), "string-length/concat"))
        out.append((f"s='ab'; i=0; while i<{n} {{ i=i+1; s=`{{s}}{{s}}` }}; 7", "-", str(2 ** (n + 1)), "string-length/template"))
        # the piece that crosses the cap is the template's LAST hole / its last literal piece; three holes; a hole after text
        out.append((f"s='ab'; i=0; while i<{n - 1} {{ i=i+1; s=s+s }}; t=`{{s}}{{s}}`; 7", "-", str(2 ** (n + 1)), "string-length/template-last-hole"))
        out.append((f"s='ab'; i=0; while i<{n - 1} {{ i=i+1; s=s+s }}; t=`{{s}}{{s}}x`; 7", "-", str(2 ** (n + 1) + 1), "string-length/template-last-literal"))
        out.append((f"s='ab'; i=0; while i<{n - 1} {{ i=i+1; s=s+s }}; t=`head {{s}}{{'b'}}{{s}}`; 7", "-", str(2 ** (n + 1) + 6), "string-length/template-three-holes"))
    # the text form of a container is a string value too: toStr / repr of k strings of 2^18 bytes
    for k in [1, 2, 3, 4, 5, 9, 300]:
        ln = 2 ** 18
        full = 2 + k * (ln + 2) + 2 * (k - 1)
        out.append((f"s='ab'; i=0; while i<17 {{ i=i+1; s=s+s }}; t=toStr([s]*{k}); 7", "-", str(full), "string-length/toStr"))
        out.append((f"s='ab'; i=0; while i<17 {{ i=i+1; s=s+s }}; t=repr([s]*{k}); 7", "-", str(full), "string-length/repr"))
        out.append((f"s='ab'; i=0; while i<17 {{ i=i+1; s=s+s }}; t=toStr([s]*3); u=repr([t]*{k}); 7", "-", str(2 + k * (3 * ln + 12 + 2) + 2 * (k - 1)), "string-length/toStr-fed-back"))
    return out


def must_error(what, exp):
    """cases that are beyond a documented capacity whatever the program shape: an error is the only acceptable outcome"""
    n = int(exp)
    fam = what.split("/")[0]
    if fam in ("range-length", "repeat-length", "concat-length", "slice-growth"):
        return n > 512
    if fam in ("block-nesting", "template-nesting"):
        return what.endswith("/over")
    if fam == "string-length":
        return n > (1 << 20)
    return False


def main(tier):
    run = Run("C07", tier, module="DS.Props.C07", props_file="DS/Props/C07.lean",
              extra_files=["DS/Model/VMRun.lean", "DS/Model/VM.lean", "DS/Model/Roll.lean", "DS/Model/Ops.lean"])
    if run.prepare():
        run.proofs()
        r = run.rng
        # ---------- (A) accounting with the work meter
        cases = []
        n = 2500 if tier == "thorough" else 500
        for i in range(n):
            k = r.random()
            lim = r.choice([300, 3000, 30000, 30000, 0])
            mode = r.choice(["", "", ",m", ",M"])
            if k < 0.45:
                cases.append((heavy(r), "wcd" + mode, lim, "heavy"))
            elif k < 0.8:
                g = ProgGen(r, illtyped=0.05)
                src, c2 = g.program()
                cases.append((src, (c2 or "-") + mode, lim, "generated"))
            else:
                cases.append((adversarial(r), "wcfd" + mode, lim, "adversarial"))
        lines = []
        for src, cfg, lim, kind in cases:
            if lim == 0 and ("M" in cfg.split(",")[1:] or kind in ("heavy", "adversarial")):
                lim = 30000  # without a budget nothing bounds the work (and max-mode exploding dice never stop: C01 known finding)
            lines.append((f"meter {cfg},L{lim} {r.getrandbits(128):032x} {hx(src)}" if lim else f"meter {cfg} {r.getrandbits(128):032x} {hx(src)}", lim))
        out = run.go_only("meter", [l for l, _ in lines], go_timeout=1200, line_timeout=30)
        for (src, cfg, lim0, kind), (ln, lim), (_, g) in zip(cases, lines, out):
            run.count("meter.kind." + kind)
            rep = {"source": src, "cfg": cfg, "budget": lim, "implementation": g[:300], "replay_line": ln[:300]}
            if g.startswith("died"):
                run.violation("unbounded-work:" + ("timeout" if "timeout" in g else "process-death"), rep)
                continue
            f = g.split()
            kv = dict(x.split("=", 1) for x in f if "=" in x and not x.startswith("rest="))
            try:
                ops, disp, rolls, fates, ms = (int(kv[k]) for k in ("ops", "disp", "rolls", "fates", "ms"))
            except (KeyError, ValueError):
                run.violation("meter:unexpected-output", rep)
                continue
            dice = rolls - 4 * fates          # a Fate instruction rolls its four dice on the instruction's own charge
            work = disp + dice
            head = f[0]
            msg = unhx(f[1]).decode("utf-8", "replace") if len(f) > 1 and head in ("err", "panic") else ""
            run.count("meter.outcome." + head + (".budget" if BUDGET_ERR in msg else ""))
            if work > 50:
                run.nontriv(("meter", src, cfg, lim))
            rep.update({"dispatches": disp, "dice": dice, "ops": ops})
            if head == "panic":
                run.violation("panic-under-budget", rep)
            elif head == "ok":
                # every instruction is charged; dice are charged per die, except that one die may ride on its instruction's
                # own charge (the base percentile die of a CoC roll)
                if disp > ops:
                    run.violation("uncharged-work: more dispatches than NumOpCount", rep)
                if dice > (ops - disp) + disp:
                    run.violation("uncharged-work: more dice rolled than NumOpCount accounts for", rep)
                if lim and ops > lim:
                    run.violation("value-returned-over-budget", rep)
            if head == "err" and (ops < disp or ops < dice):
                # an error exit reports what the run has cost so far: never less than the instructions dispatched / dice rolled
                run.violation("uncharged-work: the counter after an error is below the work done", rep)
            if lim and (disp > lim + SLACK or dice > lim + SLACK):
                run.violation("work-exceeds-budget", rep)
            if ms > 8000:
                run.violation("slow-evaluation-under-budget", rep)
        run.sample({"oracle": "meter", "line": lines[0][0][:200], "out": out[0][1][:200]})
        # ---------- (B) capacities: the full value or an error, nothing else
        caps = capacity_cases(r, tier)
        lines = [f"meter {cfg},L2000000 {1:032x} {hx(src)}" for src, cfg, exp, what in caps]
        out = run.go_only("capacity", lines, go_timeout=900, line_timeout=60)
        for (src, cfg, exp, what), (ln, g) in zip(caps, out):
            run.count("capacity." + what.split("/")[0])
            run.nontriv(("cap", what, len(src)))
            f = g.split()
            rep = {"source": src[:300] + ("..." if len(src) > 300 else ""), "source_len": len(src), "capacity": what, "expected_full_value": exp,
                   "implementation": g[:300]}
            if g.startswith("died") or f[0] == "panic":
                run.violation("capacity:crash:" + what, rep)
            elif f[0] == "ok" and must_error(what, exp):
                run.violation("capacity:not-enforced:" + what, rep)
            elif f[0] == "ok":
                val = unhx(f[1]).decode("utf-8", "replace")
                rest = ""
                for x in f:
                    if x.startswith("rest="):
                        rest = unhx(x[5:]).decode("utf-8", "replace")
                if val != ("7" if what.startswith("string-length") else exp) or rest.strip():
                    run.violation("capacity:truncated-value:" + what, dict(rep, value=val, rest=rest[:80]))
                else:
                    run.count("capacity.full-value")
            else:
                run.count("capacity.error")
        # ---------- (B2) source-text bodies compiled lazily (NewComputedVal, values restored from JSON, RunExpr, the default-sides
        #      expression): a body beyond the code capacity is an error on EVERY evaluation — a failed first compile must not leave a
        #      truncated program behind for the second
        lz, lzmeta = [], []
        for n in [10, 4000, 4097, 5000] + ([9000] if tier == "thorough" else []):
            body = "1" + "+1" * n
            for kind in ("computed", "compjson", "funcjson", "runexpr", "defsides"):
                lz.append(f"lazybody -,L2000000 {1:032x} {kind} 3 {hx(body)}")
                lzmeta.append((kind, n))
        out = run.go_only("capacity-lazy", lz, go_timeout=900, line_timeout=60)
        for (kind, n), (ln, g) in zip(lzmeta, out):
            run.count("capacity.lazy-body")
            run.nontriv(("lazy", kind, n))
            parts = g.split(" | ")
            rep = {"body": f"1{'+1' * 3}... ({n} additions)", "how_it_reaches_the_vm": kind, "evaluations": parts, "expected_full_value": n + 1}
            if g.startswith("died") or "panic" in g:
                run.violation("capacity:crash:lazy-body/" + kind, rep)
                continue
            for i, pz in enumerate(parts):
                f = pz.split()
                if f and f[0] == "ok" and (len(f) < 2 or f[1] != str(n + 1)):
                    run.violation(f"capacity:truncated-value:lazy-body/{kind}/evaluation-{i + 1}", rep)
                    break
        # ---------- (B3) computed values the HOST serves as global variables (decoded afresh on every load): their dice are charged to the
        #      evaluation that loads them, however the load is written
        import json as _json
        gdoc = hx(_json.dumps({"pool": {"t": 5, "v": {"expr": "3000d1"}}, "small": {"t": 5, "v": {"expr": "2d1"}}, "dd": {"t": 7, "v": {"dict": {}}}}))
        READS = ["load('pool')", "pool", "loadRaw('pool').compute()", "[pool][0]", "{'k': pool}.k", "`{pool}`", "pool + 0", "dd[pool] = 1", "(pool)", "0 ? 0 : pool",
                 "abs(pool)", "load('po' + 'ol')"]
        gl, gm = [], []
        for rd in READS:
            for n in (5, 12):
                gl.append(f"custom -,L30000 {1:032x} gjson:{gdoc} {hx(f'i=0; while i<{n} {{ {rd}; i=i+1 }}; i')}")
                gm.append((rd, n))
        gout = go_child(line_timeout=30).run(gl)
        for (rd, n), o in zip(gm, gout):
            run.evaluations += 1
            run.count("host-global-computed.cases")
            rep = {"host_global": "pool = computed value `3000d1`", "program": f"i=0; while i<{n} {{ {rd}; i=i+1 }}; i", "budget": 30000, "dice_rolled_if_it_completes": 3000 * n,
                   "implementation": o[:300]}
            if o.startswith("died") or o.startswith("panic"):
                run.violation("host-global-computed:crash", rep)
            elif n * 3000 > 30000 and o.startswith("ok "):
                run.violation("uncharged-work:host-global-computed-value", rep)
            else:
                run.nontriv(("gcomp", rd, n))
        # ---------- (B4) a host routine that evaluates a text through RunExpr again and again and tolerates its failures: work done by a
        #      failing evaluation is work — the budget stops the routine after about budget / cost evaluations, failing or not
        RX = [("1000d6 + nosuch()", 1000), ("1000d6 + 1", 1000), ("i=0; while i<500 { i=i+1 }; 1/0", 1500), ("[1,2,3][9] + 2000d2", 0), ("500d4; (", 0),
              ("func f(){ 800d3 + [][0] }; f()", 800), ("&c = 700d5 + 'a'*'b'; c", 700),
              # … nor is a text that does not even parse a refund of what the routine has spent so far
              ("1000d6\n---\n(", 1000), ("1000d6 + 1\n---\n1 +", 1000), ("800d2\n---\n'abc\n---\n", 800), ("(\n---\n900d3", 900)]
        rl = [f"rxloop L30000 {r.getrandbits(128):032x} {hx(src)} 400" for src, cost in RX]
        for (src, cost), (ln, g) in zip(RX, run.go_only("rxloop", rl, go_timeout=300, line_timeout=60)):
            kv = dict(x.split("=", 1) for x in g.split() if "=" in x)
            rep = {"host_routine": "RunExpr(text) up to 400 times, carrying on after failures", "text": src, "budget": 30000, "implementation": g[:300]}
            run.count("rxloop.cases")
            if g.startswith(("died", "panic")):
                run.violation("rxloop:crash", rep)
                continue
            try:
                dice, disp = int(kv["rolls"]) - 4 * int(kv["fates"]), int(kv["disp"])
            except (KeyError, ValueError):
                run.violation("rxloop:unexpected-output", rep)
                continue
            run.nontriv(("rxloop", src))
            if dice > 30000 + 2 * max(cost, 1000) or disp > 30000 + 3000:
                run.violation("uncharged-work:failed-sub-evaluation", dict(rep, dice=dice, dispatches=disp))
        # ---------- (C) parse budget
        pl = []
        for n in [10, 100, 1000, 5000]:
            for lim in [50, 1000, 100000]:
                pl.append(("1" + "+1" * n, f"-,P{lim}", str(n + 1)))
                pl.append(("(" * n + "1" + ")" * n, f"-,P{lim}", "1"))
        lines = [f"meter {cfg},L2000000 {1:032x} {hx(src)}" for src, cfg, exp in pl]
        out = run.go_only("parse-budget", lines, go_timeout=600, line_timeout=60)
        for (src, cfg, exp), (ln, g) in zip(pl, out):
            run.count("parse-budget.cases")
            f = g.split()
            rep = {"source_len": len(src), "cfg": cfg, "implementation": g[:300]}
            if g.startswith("died") or f[0] == "panic":
                run.violation("parse-budget:crash", rep)
            elif f[0] == "ok" and unhx(f[1]).decode("utf-8", "replace") != exp:
                run.violation("parse-budget:partial-value", rep)
        # ---------- (D) tie: NumOpCount of the real VM vs the model, small budgets included
        progs = []
        for _ in range(1500 if tier == "thorough" else 350):
            g = ProgGen(r, illtyped=0.03)
            src, c2 = g.program()
            progs.append((src, c2 + "," + r.choice(["L30000", "L150", "L60", "L400", "m,L300", "M,L300"])))
        for _ in range(400 if tier == "thorough" else 120):
            s = heavy(r)
            progs.append((s, "wcd," + r.choice(["L3000", "L300", "m,L3000"])))
        vm_stream(run, progs)
    return run.finish(
        trusted=["Lean 4.33 kernel", "axioms: propext, Classical.choice, Quot.sound", "Go harness + work-meter hook (verif_meter_on.go) + Lean driver",
                 "work per instruction other than dice (container methods over <= 512 elements, string operations up to the 1 MiB cap) is bounded by the "
                 "capacities and not metered", "wall-clock proportionality is observed under a watchdog, not proved"],
        rule="heavy programs (every dice family with huge counts, exploding pools, recursion, computed values loaded through nested functions, "
             "doubling strings/arrays, loops around batches) x budgets {300, 3000, 30000, none} x normal/min/max mode; generated and adversarial "
             "programs; capacity families at and around each cap; parse budgets; non-trivial = work > 50",
        assumptions=["rendering a result (ToString of shared structures) is outside the evaluation and outside this property's accounting"])
