/-
  C13 — string literals reproduce text exactly.  Property theorems only.
  `scan q` is the model of the strPartN/strEscape rules (tied to the real parser by the strscan stream);
  `escape q` writes a text with the documented escapes.
-/
import DS.Model.StrLit
import DS.Model.VMRun

namespace DS.Props.C13
open DS.StrLit

def IsDelim (q : Char) : Prop := q = '\'' ∨ q = '"' ∨ q = '`' ∨ q = '\x1e'

theorem scan_normal (q c : Char) (hq : c ≠ q) (hb : c ≠ '\\') (hh : ¬ (isTemplate q = true ∧ c = '{'))
    (d : Char) (ds acc : List Char) :
    scan q (c :: d :: ds) acc = scan q (d :: ds) (c :: acc) := by
  have h1 : (c == q) = false := by simp [hq]
  have h2 : (c == '\\') = false := by simp [hb]
  have h3 : (isTemplate q && c == '{') = false := by
    cases ht : isTemplate q with
    | false => simp
    | true =>
      have : c ≠ '{' := fun h => hh ⟨ht, h⟩
      simp [this]
  simp [scan, h1, h2, h3]

theorem scan_escape (q d e : Char) (hq : '\\' ≠ q) (he : escapeOf d = some e) (ds acc : List Char) :
    scan q ('\\' :: d :: ds) acc = scan q ds (e :: acc) := by
  have h1 : (('\\' : Char) == q) = false := by simp [hq]
  simp [scan, h1, he]

theorem scan_close (q : Char) (rest acc : List Char) : scan q (q :: rest) acc = .closed acc.reverse rest := by
  cases rest with
  | nil => simp [scan]
  | cons d ds => simp [scan]

/-- one escaped character is read back as itself -/
theorem scan_escapeChar (q : Char) (hq : IsDelim q) (c : Char) (hc : isTemplate q = true → c ≠ q)
    (d : Char) (ds acc : List Char) :
    scan q (escapeChar q c ++ d :: ds) acc = scan q (d :: ds) (c :: acc) := by
  have hbq : '\\' ≠ q := by rcases hq with rfl | rfl | rfl | rfl <;> decide
  unfold escapeChar
  by_cases h1 : c = '\\'
  · subst h1
    simp only [beq_self_eq_true, if_true, List.cons_append, List.nil_append]
    exact scan_escape q '\\' '\\' hbq (by decide) _ _
  · have h1' : (c == '\\') = false := by simp [h1]
    simp only [h1', Bool.false_eq_true, if_false]
    by_cases h2 : c = q
    · -- only possible for the two plain styles, where \' and \" are escapes
      have hnt : isTemplate q = false := by
        cases ht : isTemplate q with
        | false => rfl
        | true => exact absurd h2 (hc ht)
      have h2' : (c == q) = true := by simp [h2]
      simp only [h2', if_true, List.cons_append, List.nil_append]
      have he : escapeOf c = some c := by
        rcases hq with rfl | rfl | rfl | rfl
        · subst h2; decide
        · subst h2; decide
        · simp [isTemplate] at hnt
        · simp [isTemplate] at hnt
      exact scan_escape q c c hbq he _ _
    · have h2' : (c == q) = false := by simp [h2]
      simp only [h2', Bool.false_eq_true, if_false]
      by_cases h3 : c = '\n'
      · subst h3; simp only [beq_self_eq_true, if_true, List.cons_append, List.nil_append]
        exact scan_escape q 'n' '\n' hbq (by decide) _ _
      · have h3' : (c == '\n') = false := by simp [h3]
        simp only [h3', Bool.false_eq_true, if_false]
        by_cases h4 : c = '\r'
        · subst h4; simp only [beq_self_eq_true, if_true, List.cons_append, List.nil_append]
          exact scan_escape q 'r' '\r' hbq (by decide) _ _
        · have h4' : (c == '\r') = false := by simp [h4]
          simp only [h4', Bool.false_eq_true, if_false]
          by_cases h5 : c = '\t'
          · subst h5; simp only [beq_self_eq_true, if_true, List.cons_append, List.nil_append]
            exact scan_escape q 't' '\t' hbq (by decide) _ _
          · have h5' : (c == '\t') = false := by simp [h5]
            simp only [h5', Bool.false_eq_true, if_false]
            by_cases h6 : c = '\x0c'
            · subst h6; simp only [beq_self_eq_true, if_true, List.cons_append, List.nil_append]
              exact scan_escape q 'f' '\x0c' hbq (by decide) _ _
            · have h6' : (c == '\x0c') = false := by simp [h6]
              simp only [h6', Bool.false_eq_true, if_false]
              by_cases h7 : isTemplate q = true ∧ (c = '{' ∨ c = '}')
              · obtain ⟨ht, hbr⟩ := h7
                have : (isTemplate q && (c == '{' || c == '}')) = true := by
                  rcases hbr with rfl | rfl <;> simp [ht]
                simp only [this, if_true, List.cons_append, List.nil_append]
                rcases hbr with rfl | rfl
                · exact scan_escape q '{' '{' hbq (by decide) _ _
                · exact scan_escape q '}' '}' hbq (by decide) _ _
              · have : (isTemplate q && (c == '{' || c == '}')) = false := by
                  cases ht : isTemplate q with
                  | false => simp
                  | true =>
                    have h8 : ¬ (c = '{' ∨ c = '}') := fun h => h7 ⟨ht, h⟩
                    have h9 : c ≠ '{' := fun h => h8 (Or.inl h)
                    have h10 : c ≠ '}' := fun h => h8 (Or.inr h)
                    simp [h9, h10]
                simp only [this, Bool.false_eq_true, if_false, List.cons_append, List.nil_append]
                apply scan_normal q c h2 h1
                rintro ⟨ht, hb⟩
                exact h7 ⟨ht, Or.inl hb⟩

/-- the escaped text, followed by anything non-empty, is read back character for character -/
theorem scan_escape_text (q : Char) (hq : IsDelim q) : ∀ (s : List Char), (isTemplate q = true → q ∉ s) →
    ∀ (d : Char) (ds acc : List Char),
    scan q (escape q s ++ d :: ds) acc = scan q (d :: ds) (s.reverse ++ acc) := by
  intro s
  induction s with
  | nil => intro _ d ds acc; simp [escape]
  | cons c cs ih =>
    intro hs d ds acc
    have hc : isTemplate q = true → c ≠ q := fun ht h => hs ht (by simp [h])
    have hcs : isTemplate q = true → q ∉ cs := fun ht h => hs ht (by simp [h])
    have e : escape q (c :: cs) = escapeChar q c ++ escape q cs := by simp [escape]
    rw [e, List.append_assoc]
    -- the continuation after the first escaped character is non-empty
    cases hrest : escape q cs ++ d :: ds with
    | nil => simp at hrest
    | cons x xs =>
      rw [scan_escapeChar q hq c hc x xs acc, ← hrest, ih hcs d ds (c :: acc)]
      simp

/-- C13, literal clause: for EVERY text `s` (any Unicode characters, including quotes, backslashes, braces,
    CR/LF, U+001E) the literal written with the documented escapes denotes exactly `s`, in the two plain
    styles unconditionally and in the two template styles whenever `s` does not contain the delimiter. -/
theorem literal_roundtrip (q : Char) (hq : IsDelim q) (s : List Char) (hs : delimFree q s = true)
    (rest : List Char) :
    scan q (escape q s ++ q :: rest) [] = .closed s rest := by
  have hs' : isTemplate q = true → q ∉ s := by
    intro ht
    unfold delimFree at hs
    simp only [ht, Bool.not_true, Bool.false_or, Bool.not_eq_true'] at hs
    intro hm
    have : s.contains q = true := by simp [hm]
    rw [this] at hs
    simp at hs
  rw [scan_escape_text q hq s hs' q rest [], scan_close]
  simp

/-- the escaped form never contains the delimiter unescaped: it is closed only by the final delimiter
    (a corollary of the round trip for every continuation `rest`) -/
theorem literal_closes_at_end (q : Char) (hq : IsDelim q) (s : List Char) (hs : delimFree q s = true) :
    scan q (escape q s ++ [q]) [] = .closed s [] :=
  literal_roundtrip q hq s hs []

/-- the full statement for the template styles, kept visible: every text has a literal -/
def template_literal_full : Prop :=
  ∀ (s : List Char), ∃ body : List Char, scan '`' (body ++ ['`']) [] = .closed s []

/-- KNOWN FINDING: in the backtick style `\`` is not an escape (it reads as a backslash, then the closing
    delimiter), so the documented escaping of a text containing a backtick does not denote it -/
theorem KF_backtick_not_escapable :
    scan '`' (escape '`' ['a', '`', 'b'] ++ ['`']) [] ≠ .closed ['a', '`', 'b'] [] := by decide

/- non-vacuity -/
example : scan '\'' (escape '\'' ['i', 't', '\'', 's', '\\', '\n', '{'] ++ ['\'']) [] =
    .closed ['i', 't', '\'', 's', '\\', '\n', '{'] [] := by decide
example : delimFree '`' ['a', '{', '}', '\x1e'] = true := by decide


/-! ### run-time half: how the VM assembles a template -/

open DS.VM in
/-- **A template is the concatenation, in order, of its parts.**  `ld.fs n` (the instruction a template with n parts compiles
    to) replaces the n topmost operands — the literal segments and the values its holes left, in source order — by ONE string:
    the concatenation, bottom to top, of their string forms (for every heap, every operand values; below the 1 MiB cap). -/
theorem template_join (sub : SubRun) (g : G) (f : Frame) (n : Int) (h : n.toNat ≤ f.top) (hroom : f.top - n.toNat < f.stack.size)
    (hcap : exec.tooLong ((List.range n.toNat).map (fun i => valToString g.heap (f.stack[f.top - n.toNat + i]!))) 0 = false) :
    exec sub g f (.ldFs n) =
      .next g { f with pc := f.pc + 1, top := f.top - n.toNat + 1,
                       stack := f.stack.set! (f.top - n.toNat)
                         (.str (String.join ((List.range n.toNat).map (fun i => valToString g.heap (f.stack[f.top - n.toNat + i]!))))) } := by
  simp only [exec]
  have h1 : ¬ f.top < n.toNat := by omega
  simp only [h1, if_false, hcap, Bool.false_eq_true, Frame.push, hroom, if_true]

open DS.VM in
/-- a template that would exceed the cap is an error, never a truncated string -/
theorem template_cap (sub : SubRun) (g : G) (f : Frame) (n : Int) (h : n.toNat ≤ f.top)
    (hcap : exec.tooLong ((List.range n.toNat).map (fun i => valToString g.heap (f.stack[f.top - n.toNat + i]!))) 0 = true) :
    exec sub g f (.ldFs n) = .stop g { f with pc := f.pc + 1 } (.err "不能一次性创建过长的字符串") := by
  simp only [exec]
  have h1 : ¬ f.top < n.toNat := by omega
  simp only [h1, if_false, hcap, if_true]

open DS.VM in
/-- **A hole's value becomes text when the hole ends.**  `fstr.block.pop` with a value on top of the hole's base leaves the STRING
    FORM the value has at that moment (for every value and heap, below the cap) — so what a later hole does to a container the
    earlier hole showed cannot reach the text already assembled: … -/
theorem hole_becomes_text (sub : SubRun) (g : G) (f : Frame) (t : Nat) (rest : List Nat) (hb : f.fblocks = t :: rest) (hne : t ≠ f.top)
    (hpos : 0 < f.top) (hroom : t < f.stack.size)
    (hcap : ¬ (valToString g.heap (f.stack[f.top - 1]!)).utf8ByteSize > DS.VM.maxStringLength) :
    exec sub g f .fstrPop =
      .next g { f with pc := f.pc + 1, top := t + 1, fblocks := rest, lastPop := .slot (f.top - 1),
                       stack := f.stack.set! t (.str (valToString g.heap (f.stack[f.top - 1]!))) } := by
  have e0 : (f.top == 0) = false := by simp; omega
  have hne' : (t != f.top) = true := by simp [hne]
  simp only [exec, hb, hne', if_true, Frame.pop, e0, Bool.false_eq_true, if_false, hcap, Frame.push, hroom]

/-- … the string form of a string does not depend on the heap: once the parts of a template are strings, `template_join`'s result is
    the same whatever the later holes did to the heap -/
theorem text_is_heap_independent (h h' : DS.VM.Heap) (s : String) : DS.VM.valToString h (.str s) = DS.VM.valToString h' (.str s) := by
  simp [DS.VM.valToString, DS.VM.toStr]

end DS.Props.C13
