"""C14 — the calculation-process text explains the result and observing it is harmless.

Proof: DS/Props/C14.lean — on the Lean model of makeDetailStr: for pairwise-disjoint spans the reverse splice equals
the left-to-right replacement of every span by `value[annotation]` (order independence of the splice).
Tie: `detail` stream — makeDetailStr on explicit (source, offset, spans) tuples incl. nested/overlapping spans, tags,
textOnly, suffixes — against the model.  Oracle on the implementation: for arithmetic over dice terms of every family
with arbitrary spacing/line breaks, the text is the source with each roll replaced by value[annotation]; stripping
the annotations leaves an expression that evaluates to the result; each annotation's value is the total of the dice
it lists; GetDetailText is idempotent and leaves result, variables and generator untouched.
"""
import re

from lib import diceoracle as O
from lib.common import Run, hx, unhx

WS = ["", " ", "  ", "\n", " \n ", "\t"]


def gen_spans(r):
    n = r.randint(8, 40)
    src = "".join(r.choice("abcd+- ()12345力量\n") for _ in range(n)).encode()
    off = r.randint(max(0, len(src) - 6), len(src))
    # keep offset on a rune boundary-insensitive byte index: bytes are fine for the model
    k = r.randint(0, 4)
    spans = []
    for _ in range(k):
        b = r.randint(0, off)
        e = r.randint(b, off)
        if r.random() < 0.04:
            e = off + r.randint(1, 3)                     # beyond the parsed text: a panic on both sides
        ret = r.choice(["7", "12", "-3", "abc", "", "1.5", "[1, 2]"])
        text = r.choice(["", "", "3+4", "7", ret, "x=1", "成功2/3"])
        expr = r.choice(["", "", "", "2D6", "力量"])
        tag = r.choice(["dice", "dice", "", "load", "load.computed", "dice-wod"])
        to = r.choice(["0", "0", "0", "1"])
        suf = r.choice(["", "", "", ":", "=>"])
        spans.append((b, e, ret, text, expr, tag, to, suf))
    spans.sort(key=lambda s: s[0])
    ret = r.choice(["7", "x", src[:off].decode("utf-8", "replace").strip(), "19"])
    toks = [f"{b},{e},{hx(rt)},{hx(tx)},{hx(ex)},{hx(tg)},{to},{hx(sf)}" for b, e, rt, tx, ex, tg, to, sf in spans]
    return f"detail {hx(src)} {off} {hx(ret)} " + " ".join(toks)


def gen_term(r):
    """(source, cfg letters, checker(value, text) -> clause or None)"""
    k = r.random()
    if k < 0.45:
        t = r.choice((1, 2, 3, 4, 6))
        sd = r.choice((2, 4, 6, 10, 20))
        keep, kn = 0, 0
        src = (str(t) if t > 1 or r.random() < 0.5 else "") + r.choice("dD") + str(sd)
        if t > 1 and r.random() < 0.5:
            keep = r.choice((1, 2, 3, 4)); kn = r.randint(1, t + 1)
            src += {1: "kl", 2: "kh", 3: "dl", 4: "dh"}[keep] + str(kn)
        if keep == 0 and r.random() < 0.25:
            src = f"({t})" + r.choice("dD") + f"({sd})"           # operands in parentheses: the term ends with `)`
        dmin = dmax = None
        mm = r.random()
        if src.endswith(")"):
            mm = 1.0
        if mm < 0.2:
            dmin = r.randint(1, sd); src += "min" + str(dmin)
        elif mm < 0.4:
            dmax = r.randint(1, sd); src += "max" + str(dmax)
        return src, "", (lambda v, txt, a=(t, sd, dmin, dmax, keep, kn): O.check_common(a[0], a[1], a[2], a[3], a[4], a[5], a[5], 0, v, txt))
    if k < 0.55:
        return "f", "f", (lambda v, txt: O.check_fate(v, txt))
    if k < 0.7:
        n = r.choice((1, 2, 3))
        b = r.random() < 0.5
        src = ("b" if b else "p") + (str(n) if n > 1 or r.random() < 0.5 else "")
        return src, "c", (lambda v, txt, b=b, n=n: O.check_coc(b, n, 0, v, txt))
    if k < 0.82:
        pool, add = r.choice((2, 3, 5)), r.choice((8, 9, 10, 11))
        src = f"{pool}a{add}"
        return src, "w", (lambda v, txt, p=pool, a=add: None if re.match(r"成功%d/" % v, txt) else "wod-header")
    if k < 0.92:
        pool, add = r.choice((2, 3, 4)), r.choice((7, 8, 10))
        return f"{pool}c{add}", "d", (lambda v, txt: None if re.match(r"(大失败 )?出目%d/" % v, txt) else "dc-header")
    # nested: (XdY)d(ZdW) — sub-rolls listed after the main text
    a, b = r.choice((1, 2)), r.choice((2, 3))
    c, d = r.choice((1, 2)), r.choice((3, 4))
    src = f"({a}d{b})d({c}d{d})"
    def chk(v, txt, a=a, b=b, c=c, d=d, src=src):
        parts = txt.split(",")
        if len(parts) != 3:
            return f"nested-annotation-parts {txt!r}"
        m1 = re.fullmatch(rf"{a}d{b}=(\d+)", parts[1]); m2 = re.fullmatch(rf"{c}d{d}=(\d+)", parts[2])
        if not m1 or not m2:
            return f"nested-sub-details {txt!r}"
        times, sides = int(m1.group(1)), int(m2.group(1))
        return O.check_common(times, sides, None, None, 0, 0, 0, 0, v, parts[0])
    return src, "", chk


def gen_expr(r):
    n = r.randint(1, 4)
    terms, cfg, chks = [], set(), []
    out = ""
    for i in range(n):
        k = r.random()
        if k < 0.25:
            tok = str(r.randint(0, 20)); chk = None
        else:
            tok, c, chk = gen_term(r)
            cfg.update(c)
        core = tok
        if r.random() < 0.2:
            tok = "(" + r.choice(WS[:3]) + tok + r.choice(WS[:3]) + ")"
        if i:
            out += r.choice(WS) + r.choice(["+", "-", "*", "+"]) + r.choice(WS[1:])   # a blank after the operator keeps `-` binary
        out += tok
        chks.append((core, chk))
    if r.random() < 0.3:
        out += r.choice([" ", "  ", "\t", "\n", " \r\n", "\t "])      # blanks after the last term belong to no term
    return out, "".join(sorted(cfg)), chks


def main(tier):
    run = Run("C14", tier, module="DS.Props.C14", props_file="DS/Props/C14.lean",
              extra_files=["DS/Proofs/DetailLemmas.lean", "DS/Model/Detail.lean"])
    if run.prepare():
        run.proofs()
        r = run.rng
        lines = [gen_spans(r) for _ in range(8000 if tier == "thorough" else 1500)]
        res = run.diff_stream("detail", lines, go_timeout=300)
        for ln, g, m, v in res:
            if len(ln.split()) > 5:
                run.nontriv(ln)
            run.count("detail." + g.split()[0])
        run.sample({"stream": "detail", "case": lines[0][:200]})
        # ---- oracle on the implementation
        exprs = [gen_expr(r) for _ in range(3000 if tier == "thorough" else 600)]
        glines = [f"detailobs {cfg},L100000 {r.getrandbits(128):032x} {hx(src)}" for src, cfg, chks in exprs]
        out = run.go_only("detailobs", glines, go_timeout=300)
        # the same judgement on the SECOND evaluation of a program parsed once (Parse; RunAfterParsed; GetDetailText; RunAfterParsed)
        nre = len(exprs) // 3
        glines2 = [f"detailrerun {cfg},L100000 {r.getrandbits(128):032x} {hx(src)}" for src, cfg, chks in exprs[:nre]]
        # … also when text the parser did not take follows the program (the buffer behind the annotated terms is the host's text)
        glines2 += [f"detailrerun {cfg},L100000 {r.getrandbits(128):032x} {hx(src + tl)}" for src, cfg, chks in exprs[nre:nre + nre // 2]
                    for tl in (r.choice((" 理由", " x y z", "  # 攻击检定 的 说明 文字", " )", " 'open")),)]
        out2 = run.go_only("detailrerun", glines2, go_timeout=300)
        for ln, g in out2[nre:]:
            if g.startswith(("panic", "died")):
                run.violation("detail:crash", {"case": ln, "source": unhx(ln.split()[3]).decode("utf-8", "replace"), "implementation": g[:300]})
            elif g.startswith("ok ") and g.endswith("pure=0"):
                run.violation("detail:observing-changes-state", {"case": ln, "source": unhx(ln.split()[3]).decode("utf-8", "replace"), "implementation": g[:400],
                                                                 "what": "Parse once; RunAfterParsed; GetDetailText; RunAfterParsed — Matched / RestInput / result / variables / seed moved"})
        out2 = out2[:nre]
        for (src, cfg, chks), (ln, g) in list(zip(exprs, out)) + list(zip(exprs[:nre], out2)):
            rep = {"source": src, "cfg": cfg, "implementation": g[:400]}
            m = re.match(r"ok i(-?\d+) d=(\S+) m=(\S+) idem=(\d) pure=(\d)$", g)
            if not m:
                if g.startswith(("panic", "died")):
                    run.violation("detail:crash", rep)
                else:
                    run.count("detailobs.not-int-or-error")
                continue
            val, det, matched = int(m.group(1)), unhx(m.group(2)).decode("utf-8", "replace"), unhx(m.group(3)).decode("utf-8", "replace")
            run.nontriv(("obs", src))
            if m.group(4) != "1":
                run.violation("detail:not-idempotent", rep)
            if m.group(5) != "1":
                run.violation("detail:observing-changes-state", rep)
            if matched != src.strip():
                run.count("detailobs.partial-match")
                continue
            dice_terms = [(tok, chk) for tok, chk in chks if chk]
            if det == "":
                # the text is elided only when it equals the result or nothing was rolled
                if dice_terms and not (len(dice_terms) == 1 and len(chks) == 1):
                    run.violation("detail:missing", dict(rep, detail=det))
                continue
            rep["detail"] = det
            anns = re.findall(r"(-?\d+)\[([^\[\]]*)\]", det)
            stripped = re.sub(r"(-?\d+)\[[^\[\]]*\]", r"\1", det)
            # (a) the text is the source with each roll replaced by value[annotation]
            # (white space is compared away: a roll's extent may include the blanks after a closing parenthesis)
            nows = lambda t: re.sub(r"\s+", "", t)
            pat = re.escape(nows(src))
            for tok, chk in dice_terms:
                core = nows(tok)
                pat = pat.replace(re.escape(core), r"-?\d+(?:\[[^\[\]]*\])?", 1)
            if not re.fullmatch(pat, nows(det), flags=re.S):
                run.violation("detail:not-source-with-rolls-replaced", rep)
                continue
            # (a') what an annotation names is a term of the source: no blanks at either end of it
            for n_, content_ in re.findall(r"(-?\d+)\[([^\[\]=]*)[=\]]", det):
                if content_ != content_.strip():
                    run.violation("detail:annotation-names-text-outside-its-term", dict(rep, annotated=content_))
                    break
            # (b) stripping the annotations leaves arithmetic that evaluates to the result
            if not re.fullmatch(r"[\d\s()+\-*]+", stripped):
                run.violation("detail:stripped-text-not-arithmetic", dict(rep, stripped=stripped))
                continue
            try:
                ev = eval(stripped.replace("\n", " "), {"__builtins__": {}})
            except Exception:
                run.violation("detail:stripped-text-does-not-parse", dict(rep, stripped=stripped))
                continue
            if ev != val:
                run.violation("detail:stripped-text-evaluates-differently", dict(rep, stripped=stripped, evaluates_to=ev))
            # (c) each annotation's value is the total of the dice it lists
            k = 0
            for tok, chk in dice_terms:
                core = tok
                mm = re.search(r"(-?\d+)\[" + re.escape(core) + r"(?:=([^\[\]]*))?\]", det)
                if not mm:
                    continue     # single die whose annotation was elided (rule 1.3)
                v = int(mm.group(1))
                txt = mm.group(2) if mm.group(2) is not None else str(v)
                why = chk(v, txt)
                if why:
                    run.violation("detail:annotation-inconsistent:" + why, dict(rep, term=core))
        run.sample({"oracle": "detailobs", "source": exprs[0][0]})
        # ---- variables and computed values in the text: a name is shown as value[name], a computed value as value[name=its own text=value];
        #      the variables come from the script, from the host's global table (decoded per load) and from computed bodies that read them
        import json as _json
        doc = {"力量": {"t": 0, "v": 60}, "敏捷": {"t": 0, "v": 45}, "gcv": {"t": 5, "v": {"expr": "2d6+力量"}}, "gc2": {"t": 5, "v": {"expr": "敏捷*2"}},
               "gnest": {"t": 5, "v": {"expr": "(2d3)d4 + 力量"}}}
        spec = "gjson:" + hx(_json.dumps(doc, ensure_ascii=False))
        PRE = "lv = 7; &lc = 2d4+lv+力量; &ln = (2d3)d4 + lv; &lm = (1d2)d(1d3)k1; "
        ATOMS = ["力量", "敏捷", "gcv", "gc2", "lv", "lc", "2d6", "3", "1d4", "lc", "gcv", "ln", "gnest", "lm", "(2d2)d3"]
        vlines, vmeta = [], []
        for _ in range(300 if tier == "thorough" else 80):
            terms = [r.choice(ATOMS) for _ in range(r.randint(1, 4))]
            src = terms[0]
            for tkn in terms[1:]:
                src += r.choice([" + ", " - ", " * ", "+"]) + tkn
            vlines.append(f"custom L100000 {r.getrandbits(128):032x} {spec} {hx(PRE + src)}")
            vmeta.append(PRE + src)
        # … and from a host that serves names through the overwrite result of its load hook
        spec2 = "hookow:" + hx(_json.dumps({"力量": {"t": 0, "v": 60}, "敏捷": {"t": 0, "v": 45}}, ensure_ascii=False))
        for _ in range(60 if tier == "thorough" else 25):
            terms = [r.choice(["力量", "敏捷", "lv", "2d6", "3", "1d4", "力量"]) for _ in range(r.randint(2, 4))]
            src = terms[0]
            for tkn in terms[1:]:
                src += r.choice([" + ", " - ", " * ", "+"]) + tkn
            vlines.append(f"custom L100000 {r.getrandbits(128):032x} {spec2} {hx('lv = 7; ' + src)}")
            vmeta.append("lv = 7; " + src)

        def split_top(text, ch):
            out_, depth, cur = [], 0, ""
            for c in text:
                if c == "[":
                    depth += 1
                elif c == "]":
                    depth -= 1
                if c == ch and depth == 0:
                    out_.append(cur)
                    cur = ""
                else:
                    cur += c
            out_.append(cur)
            return out_

        def strip_ann(text):
            prev = None
            while prev != text:
                prev = text
                text = re.sub(r"(-?\d+)\[[^\[\]]*\]", r"\1", text)
            return text

        def annotations(text):
            """(value, content) of every value[content], outermost first"""
            res, i = [], 0
            for m in re.finditer(r"(-?\d+)\[", text):
                depth, j = 1, m.end()
                while j < len(text) and depth:
                    depth += {"[": 1, "]": -1}.get(text[j], 0)
                    j += 1
                res.append((int(m.group(1)), text[m.end():j - 1]))
            return res

        for (ln, g), src in zip(run.go_only("detailvars", vlines, go_timeout=300), vmeta):
            m = re.match(r"ok i(-?\d+) d=(\S+) ", g)
            if not m:
                run.count("detailvars.not-int")
                continue
            val, det = int(m.group(1)), unhx(m.group(2)).decode("utf-8", "replace")
            rep = {"source": src, "host_globals": doc, "result": val, "detail": det}
            run.nontriv(("vars", src))
            last = split_top(det, ";")[-1]
            flat = strip_ann(last)
            if re.fullmatch(r"[\d\s()+\-*]+", flat):
                try:
                    if eval(flat, {"__builtins__": {}}) != val:
                        run.violation("detail:stripped-text-evaluates-differently", dict(rep, stripped=flat))
                except Exception:
                    run.violation("detail:stripped-text-does-not-parse", dict(rep, stripped=flat))
            elif "null" in flat or "NIL" in flat:
                run.violation("detail:a-value-that-was-read-is-shown-as-null", dict(rep, stripped=flat))
            for n, content in annotations(det):
                # (further comma-separated groups explain the inner rolls of a nested term: `7[(2d3)d4=1+2+3+1,2d3=4]`)
                for part in split_top(split_top(content, ",")[0], "=")[1:]:
                    fp = strip_ann(part)
                    if re.fullmatch(r"[\d\s()+\-*]+|.*\bnull\b.*", fp) and re.fullmatch(r"[\d\s()+\-*]*(null[\d\s()+\-*]*)*", fp):
                        try:
                            ok_ = eval(fp, {"__builtins__": {}}) == n
                        except Exception:
                            ok_ = False
                        if not ok_:
                            run.violation("detail:annotation-does-not-add-up", dict(rep, annotated_value=n, annotation=content, part=part))
                            break
        # ---- a run that FAILED has no result and therefore nothing to explain: no spans are published, the text is empty —
        # whatever the aborted evaluation had rolled before the failing instruction, and whatever the previous run left
        FAIL_TAILS = [" + 3d0", " + (2d6)d0", " - 0d4", " + 2d6kh0", " + nosuch_fn(1)", " + [1][5]", " + 1/0", " + 'a'*'b'", " + 2d(0)"]
        flines = []
        for src, cfg, chks in exprs[: (400 if tier == "thorough" else 120)]:
            bad, _, _ = gen_expr(r)
            flines.append(f"detailfail {cfg},L100000 {r.getrandbits(128):032x} {hx(src)} {hx(bad + r.choice(FAIL_TAILS))}")
        for ln, g in run.go_only("detailfail", flines, go_timeout=300):
            run.count("detailfail." + g.split()[0])
            if g.startswith(("panic", "died")):
                run.violation("detail:crash", {"case": ln, "implementation": g[:300]})
                continue
            m = re.match(r"failed spans=(\d+) d=(\S*)$", g)
            if not m:
                continue
            run.nontriv(("fail", ln))
            if m.group(1) != "0" or unhx(m.group(2)) != b"":
                t = ln.split()
                run.violation("detail:published-after-failed-run", {"case": ln, "first": unhx(t[3]).decode(), "failing": unhx(t[4]).decode(),
                                                                     "spans": int(m.group(1)), "text": unhx(m.group(2)).decode("utf-8", "replace")})
    return run.finish(
        trusted=["Lean 4.33 kernel", "axioms: propext, Classical.choice, Quot.sound", "Go harness + hook VerifMakeDetail + Lean driver",
                 "strings.TrimSpace modelled for ASCII white space only (generated sources use no other)"],
        rule="(a) random (source bytes, offset, result, 0-4 spans) tuples with nested/overlapping/touching spans, all tags, textOnly, "
             "suffixes, a few spans beyond the parsed text; (b) arithmetic expressions of 1-4 operands over integer literals, "
             "parentheses, + - * and dice terms of every family (XdY with keep/drop/min/max, Fate, CoC, WoD, DC, nested (XdY)d(ZdW)) "
             "with random spacing and line breaks, seeded; distinct by case line / expression",
        assumptions=["the process text of non-arithmetic programs (containers, templates, computed values) is tied by the detail stream only"])
