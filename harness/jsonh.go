package main

import (
	"encoding/hex"
	"encoding/json"
	"fmt"
	"strings"

	ds "github.com/sealdice/dicescript"
)

// battery applies every operation the property names to a decoded value, each under recover.
func battery(v *ds.VMValue) string {
	var bad []string
	try := func(name string, f func()) {
		r := safely(func() string { f(); return "" })
		if r != "" {
			f := strings.Fields(r)
			site := ""
			if len(f) >= 3 {
				site = f[2]
			}
			bad = append(bad, name+"@"+site)
		}
	}
	try("ToString", func() { _ = v.ToString() })
	try("ToRepr", func() { _ = v.ToRepr() })
	try("AsBool", func() { _ = v.AsBool() })
	try("ValueEqual", func() { _ = ds.ValueEqual(v, v.Clone(), true) })
	// what ToJSON hands out without an error is a JSON document (also when the value sits inside a container)
	jsonOK := func(x *ds.VMValue) {
		if b, err := x.ToJSON(); err == nil && !json.Valid(b) {
			panic("ToJSON reported success with a text that is not JSON: " + string(b))
		}
	}
	try("ToJSON", func() { jsonOK(v) })
	try("ToJSON-in-array", func() { jsonOK(ds.NewArrayVal(ds.NewIntVal(1), v, ds.NewIntVal(2))) })
	try("GetTypeName", func() { _ = v.GetTypeName() })
	scripts := []string{"x", "x + 1", "1 + x", "x == x", "x[0]", "x['a']", "x.a", "x.a = 1", "x[0] = 1", "x()", "x(1)", "x.len()",
		"x.keys()", "x.sum()", "-x", "x ? 1 : 2", "x ?? 3", "`{x}`", "x[0:1]", "toStr(x)", "repr(x)", "toBool(x)", "typeId(x)", "dir(x)",
		"x.kh()", "[x, x]", "{'k': x}", "x && 1", "x || 1", "y = x; y", "x.compute()", "&z = x; z", "toInt(x)", "abs(x)",
		"x.a.b", "x[0][0]", "x.a(1)", "x[0]()", "x.items()", "x.values()", "x.pop()", "x.push(1)", "x.shuffle()", "x.rand()", "x * 2",
		// the raw value (not its evaluation) and members of a member
		"&x.a", "&x.a.b", "&x.a = 1", "&x", "&x.compute()", "x[0].a", "x['a'].a", "x.a.a", "x[0].compute()", "x.a.compute()", "x[0].a = 2", "&x == &x", "[&x, &x]", "{'k': &x}.k.a",
		// the same value used again: whatever the first use cached inside it must be as harmless as the first use was
		"x()", "x(1)", "x(1, 2)", "x(5)", "x", "x.compute()", "x(0, 0)"}
	for _, s := range scripts {
		src := s
		try("run:"+s, func() {
			vm, _ := newVM(ds.RollConfig{OpCountLimit: 20000, EnableDiceWoD: true, EnableDiceCoC: true}, "000102030405060708090a0b0c0d0e0f")
			vm.Attrs.Store("x", v)
			_ = vm.Run(src)
			if vm.Error == nil && vm.Ret != nil {
				_ = vm.Ret.ToString()
				_ = vm.GetDetailText()
			}
		})
	}
	if len(bad) == 0 {
		return "clean"
	}
	if len(bad) > 6 {
		bad = append(bad[:6], fmt.Sprintf("+%d", len(bad)-6))
	}
	return strings.Join(bad, ",")
}

// jsondec <hexjson> : decode one value; "err" | "ok <canon> battery=<clean|list>"
func jsonDecLine(t []string) string {
	if len(t) != 2 {
		return "bad-op"
	}
	b, err := hex.DecodeString(strings.TrimPrefix(t[1], "-"))
	if err != nil {
		return "bad-op"
	}
	v, e := ds.VMValueFromJSON(b)
	if e != nil {
		return "err"
	}
	return "ok " + canon(v) + " battery=" + battery(v)
}

// jsonmap <hexjson> : decode a variable map
func jsonMapLine(t []string) string {
	if len(t) != 2 {
		return "bad-op"
	}
	b, err := hex.DecodeString(strings.TrimPrefix(t[1], "-"))
	if err != nil {
		return "bad-op"
	}
	m := &ds.ValueMap{}
	if e := json.Unmarshal(b, m); e != nil {
		return "err"
	}
	bat := "clean"
	m.Range(func(k string, v *ds.VMValue) bool {
		if v == nil {
			bat = "nil-value@" + hx(k)
			return false
		}
		if r := battery(v); r != "clean" {
			bat = r
			return false
		}
		return true
	})
	return "ok " + canonAttrs(m) + " battery=" + bat
}

// jsonmaprun <hexjson> <hexscript>... : restore a whole variable map into one VM (budget 30000) and run the scripts on it, in order;
// "err" when the map does not decode, else one "ok <value>" / "err <hexmsg>" / "panic ..." per script
func jsonMapRunLine(t []string) string {
	if len(t) < 3 {
		return "bad-op"
	}
	b, err := hex.DecodeString(strings.TrimPrefix(t[1], "-"))
	if err != nil {
		return "bad-op"
	}
	m := &ds.ValueMap{}
	if e := json.Unmarshal(b, m); e != nil {
		return "err"
	}
	vm, _ := newVM(ds.RollConfig{OpCountLimit: 30000, EnableDiceWoD: true, EnableDiceCoC: true}, "000102030405060708090a0b0c0d0e0f")
	m.Range(func(k string, v *ds.VMValue) bool {
		if v != nil {
			vm.Attrs.Store(k, v)
		}
		return true
	})
	var outs []string
	for _, h := range t[2:] {
		src, ok := unhx(h)
		if !ok {
			return "bad-op"
		}
		outs = append(outs, safely(func() string {
			if err := vm.Run(src); err != nil {
				return "err " + hx(err.Error())
			}
			_ = vm.GetDetailText()
			return "ok " + vm.Ret.ToString()
		}))
	}
	return strings.Join(outs, " | ")
}

// jsonenc <cfg> <hexprog> : run a program, then encode Ret; "err-run" | "encerr <hexmsg>" | "ok <hexjson> back=<canon of decode(encode)> orig=<canon>"
func jsonEncLine(t []string) string {
	if len(t) != 3 {
		return "bad-op"
	}
	cfg, ok := parseCfg(t[1])
	src, ok2 := unhx(t[2])
	if !ok || !ok2 {
		return "bad-op"
	}
	vm, _ := newVM(cfg, "000102030405060708090a0b0c0d0e0f")
	if err := vm.Run(src); err != nil {
		return "err-run " + hx(err.Error())
	}
	b, err := vm.Ret.ToJSON()
	if err != nil {
		return "encerr " + hx(err.Error())
	}
	v2, err := ds.VMValueFromJSON(b)
	if err != nil {
		return "decerr " + hx(string(b))
	}
	return "ok " + hx(string(b)) + " back=" + canon(v2) + " orig=" + canon(vm.Ret)
}

// snap <cfg> <seed> <hexprefix> <hexsuffix> : VM A runs prefix; variables are snapshotted to JSON and restored into a fresh
// VM B seeded with A's current generator state; both run suffix. Prints both outcomes and both variable maps.
// an optional 6th field is a script the restore TARGET has run before the snapshot is loaded into it (a host that initialises a sheet and
// then loads the saved state, or loads twice): loading replaces the variables, it does not merge
func snapLine(t []string) string {
	if len(t) != 5 && len(t) != 6 {
		return "bad-op"
	}
	cfg, ok := parseCfg(t[1])
	pre, ok2 := unhx(t[3])
	suf, ok3 := unhx(t[4])
	if !ok || !ok2 || !ok3 {
		return "bad-op"
	}
	a, ok := newVM(cfg, t[2])
	if !ok {
		return "bad-op"
	}
	if pre != "" {
		if err := a.Run(pre); err != nil {
			return "prefix-err " + hx(err.Error())
		}
	}
	js, err := a.Attrs.ToJSON()
	if err != nil {
		return "snaperr " + hx(err.Error())
	}
	seed, _ := a.GetCurSeed()
	b := &ds.Context{}
	b.Seed = seed
	b.Init()
	b.Config = cfg
	if len(t) == 6 {
		ini, ok4 := unhx(t[5])
		if !ok4 {
			return "bad-op"
		}
		b.Config.OpCountLimit = 100000
		_ = b.Run(ini) // no dice in it: the generator stays where the snapshot says it is
		b.Config = cfg
		if err := json.Unmarshal(js, b.Attrs); err != nil {
			return "restore-err " + hx(err.Error()) + " " + hx(string(js))
		}
	}
	if err := json.Unmarshal(js, b.Attrs); err != nil {
		return "restore-err " + hx(err.Error()) + " " + hx(string(js))
	}
	before := canonAttrs(a.Attrs)
	restored := canonAttrs(b.Attrs)
	// the suffix may be several programs separated by "\n---\n": each runs on both VMs in order
	var ras, rbs []string
	for _, part := range strings.Split(suf, "\n---\n") {
		ras = append(ras, runOne(a, part))
		rbs = append(rbs, runOne(b, part))
	}
	ra := strings.Join(ras, " ;; ")
	rb := strings.Join(rbs, " ;; ")
	return "A=" + ra + " B=" + rb + " varsA=" + canonAttrs(a.Attrs) + " varsB=" + canonAttrs(b.Attrs) + " snap=" + before + " restored=" + restored
}

// jsondecm / jsonmapm: decode only, canonical rendering (the model side prints the same)
func jsonDecMLine(t []string) string {
	r := jsonDecLine(t)
	if i := strings.Index(r, " battery="); i >= 0 {
		return r[:i]
	}
	return r
}

func jsonMapMLine(t []string) string {
	if len(t) != 2 {
		return "bad-op"
	}
	b, err := hex.DecodeString(strings.TrimPrefix(t[1], "-"))
	if err != nil {
		return "bad-op"
	}
	m := &ds.ValueMap{}
	if e := json.Unmarshal(b, m); e != nil {
		return "err"
	}
	return "ok " + canonAttrs(m)
}

func init() {
	handlers["jsondecm"] = jsonDecMLine
	handlers["jsonmapm"] = jsonMapMLine
	handlers["jsondec"] = jsonDecLine
	handlers["jsonmap"] = jsonMapLine
	handlers["jsonmaprun"] = jsonMapRunLine
	handlers["jsonenc"] = jsonEncLine
	handlers["snap"] = snapLine
}
