package main

import (
	ds "github.com/sealdice/dicescript"
)

// splitrun <cfg> <seed> <hexprior|-> <hexsrc> : the C03 metamorphic pair.
// VM1: prior; src.  VM2 (same seed): prior; Matched-of-VM1.  Prints "<outcome1> ## <outcome2> ## vars1=… ## vars2=…"
func splitRunLine(t []string) string {
	if len(t) != 5 {
		return "bad-op"
	}
	cfg, ok := parseCfg(t[1])
	prior, ok2 := unhx(t[3])
	src, ok3 := unhx(t[4])
	if !ok || !ok2 || !ok3 {
		return "bad-op"
	}
	mk := func() *ds.Context {
		vm, _ := newVM(cfg, t[2])
		if prior != "" {
			_ = vm.Run(prior)
		}
		return vm
	}
	vm1 := mk()
	o1 := runOne(vm1, src)
	if len(o1) < 3 || o1[:3] != "ok " {
		return o1 + " ## - ## - ## -"
	}
	vm2 := mk()
	o2 := runOne(vm2, vm1.Matched)
	return o1 + " ## " + o2 + " ## vars1=" + canonAttrs(vm1.Attrs) + " ## vars2=" + canonAttrs(vm2.Attrs)
}

func init() {
	handlers["splitrun"] = splitRunLine
}
