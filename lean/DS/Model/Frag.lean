/-
  The arithmetic / conditional fragment of the language as a source tree, its definitional semantics `evalF` (syntax-directed,
  no code, no stack) and its compiler `compile` to VM instructions — the shapes roll.peg's actions emit for these constructs
  (tied to the real compiler by the `compile` stream: instruction-by-instruction equality with the bytecode dump).
-/
import DS.Model.VMRun

namespace DS.Frag
open DS.VM

inductive F where
  | lit (i : Int)
  | bin (op : BinOp) (a b : F)
  | neg (a : F)
  | tern (c a b : F)
  | lor (a b : F)
  | land (a b : F)
  | flt (x : Float)
  | str (s : String)
  | nul
  | pos (a : F)
  | var (n : String) (b e : Int)       -- a variable reference; (b, e) = its extent in the source (operand of mark.detail)
  | asg (n : String) (a : F)           -- `n = a`, itself an expression whose value is the value assigned
  deriving Inhabited

/-- a stored value that a load hands out as it is: not the undefined marker and not a computed value (which a load would run) -/
def isPlain : Val → Bool
  | .null => false
  | .comp _ => false
  | _ => true

/-- definitional semantics: left-to-right, strict except `?:` and `||`; `&&` evaluates both operands (the language's rule) -/
def evalF (z : Bool) (env : Nat) : Heap → F → Heap × Res Val
  | h, .lit i => (h, .ok (.int i))
  | h, .flt x => (h, .ok (.float x))
  | h, .str s => (h, .ok (.str s))
  | h, .nul => (h, .ok .null)
  | h, .pos a =>
    (match evalF z env h a with
     | (h1, .ok v) =>
       (match opPos v with
        | some r => (h1, .ok r)
        | none => (h1, .err ("此类型无法使用一元算符 " ++ "pos" ++ ": " ++ typeName v)))
     | r => r)
  | h, .bin op a b =>
    (match evalF z env h a with
     | (h1, .ok va) =>
       (match evalF z env h1 b with
        | (h2, .ok vb) => binOp h2 z op va vb
        | r => r)
     | r => r)
  | h, .neg a =>
    (match evalF z env h a with
     | (h1, .ok v) =>
       (match opNeg v with
        | some r => (h1, .ok r)
        | none => (h1, .err ("此类型无法使用一元算符 " ++ "neg" ++ ": " ++ typeName v)))
     | r => r)
  | h, .tern c a b =>
    (match evalF z env h c with
     | (h1, .ok vc) => if asBool h1 vc then evalF z env h1 a else evalF z env h1 b
     | r => r)
  | h, .lor a b =>
    (match evalF z env h a with
     | (h1, .ok va) => if asBool h1 va then (h1, .ok va) else evalF z env h1 b
     | r => r)
  | h, .land a b =>
    (match evalF z env h a with
     | (h1, .ok va) =>
       (match evalF z env h1 b with
        | (h2, .ok vb) => (h2, .ok (if !(asBool h2 va) then va else vb))
        | r => r)
     | r => r)
  -- variables live in the dict at heap address `env` (the context's attribute table); a name bound to a plain value yields it;
  -- anything else (unbound: enclosing scopes, globals, builtins; computed: a sub-VM run) is outside the fragment
  | h, .var n _ _ =>
    (match dictGet (h.dictOf env) n with
     | some v => if isPlain v then (h, .ok v) else (h, .unsup "variable outside the fragment")
     | none => (h, .unsup "variable outside the fragment"))
  | h, .asg n a =>
    (match evalF z env h a with
     | (h1, .ok v) => (h1.setDict env (dictSet (h1.dictOf env) n v), .ok v)
     | r => r)

def compile : F → List Instr
  | .lit i => [.pushInt i]
  | .flt x => [.pushFlt x]
  | .str s => [.pushStr s]
  | .nul => [.pushNull]
  | .pos a => compile a ++ [.pos]
  | .bin op a b => compile a ++ compile b ++ [.bin op]
  | .neg a => compile a ++ [.neg]
  | .tern c a b =>
    compile c ++ [.jne (some ((compile a).length + 1))] ++ compile a ++ [.jmp (some (compile b).length)] ++ compile b
  | .lor a b => compile a ++ [.jeDup (some ((compile b).length + 2))] ++ compile b ++ [.jeDup (some 1)] ++ [.pushLast]
  | .land a b => compile a ++ compile b ++ [.logicAnd]
  | .var n b e => [.markDetail b e, .ldD n]
  | .asg n a => compile a ++ [.store n]

/-- operand-stack slots the code of `e` needs above the current top -/
def depth : F → Nat
  | .lit _ => 1
  | .flt _ => 1
  | .str _ => 1
  | .nul => 1
  | .pos a => depth a
  | .bin _ a b => max (depth a) (depth b + 1)
  | .neg a => depth a
  | .tern c a b => max (depth c) (max (depth a) (depth b))
  | .lor a b => max (depth a) (depth b)
  | .land a b => max (depth a) (depth b + 1)
  | .var _ _ _ => 1
  | .asg _ a => depth a

/-- definitional semantics of a statement sequence: left to right, the first failure ends it, the value is the last statement's -/
def evalS (z : Bool) (env : Nat) : Heap → List F → Heap × Res Val
  | h, [] => (h, .unsup "empty program")
  | h, [e] => evalF z env h e
  | h, e :: e2 :: r =>
    (match evalF z env h e with
     | (h1, .ok _) => evalS z env h1 (e2 :: r)
     | x => x)

def compileS : List F → List Instr
  | [] => []
  | e :: r => compile e ++ compileS r

def depthS : List F → Nat
  | [] => 0
  | e :: r => max (depth e) (1 + depthS r)

/-! ### statement lists with conditionals -/

/-- a statement list: expression statements and `if c { … } else { … }` (an absent else = the empty list) -/
inductive Sts where
  | nil
  | expr (x : F) (rest : Sts)
  | ite (c : F) (a b : Sts) (rest : Sts)
  deriving Inhabited

/-- definitional semantics: the value of the last statement (`last` = the value so far, `none` at the start); an `if` statement has the
    value `nv` (null — the empty string inside a template hole) whatever its branch computed; the first failure ends the list -/
def evalStsA (z : Bool) (env : Nat) (nv : Val) : Option Val → Heap → Sts → Heap × Res (Option Val)
  | last, h, .nil => (h, .ok last)
  | _, h, .expr x rest =>
    (match evalF z env h x with
     | (h1, .ok v) => evalStsA z env nv (some v) h1 rest
     | (h1, .err m) => (h1, .err m)
     | (h1, .panic s) => (h1, .panic s)
     | (h1, .unsup w) => (h1, .unsup w)
     | (h1, .diverge) => (h1, .diverge))
  | _, h, .ite c a b rest =>
    (match evalF z env h c with
     | (h1, .ok vc) =>
       (match (if asBool h1 vc then evalStsA z env nv none h1 a else evalStsA z env nv none h1 b) with
        | (h2, .ok _) => evalStsA z env nv (some nv) h2 rest
        | r => r)
     | (h1, .err m) => (h1, .err m)
     | (h1, .panic s) => (h1, .panic s)
     | (h1, .unsup w) => (h1, .unsup w)
     | (h1, .diverge) => (h1, .diverge))

def evalSts (z : Bool) (env : Nat) (nv : Val) (h : Heap) (ss : Sts) : Heap × Res (Option Val) := evalStsA z env nv none h ss

def compileSts : Sts → List Instr
  | .nil => []
  | .expr x rest => compile x ++ compileSts rest
  | .ite c a b rest =>
    compile c ++ [.blockPush, .jne (some ((compileSts a).length + 1))] ++ compileSts a ++ [.jmp (some (compileSts b).length)] ++ compileSts b ++
      [.blockPop] ++ compileSts rest

/-- stack slots a statement list leaves: one per expression statement, two per `if` (the condition's stale slot and its value) -/
def slotsSts : Sts → Nat
  | .nil => 0
  | .expr _ rest => 1 + slotsSts rest
  | .ite _ _ _ rest => 2 + slotsSts rest

def depthSts : Sts → Nat
  | .nil => 0
  | .expr x rest => max (depth x) (1 + depthSts rest)
  | .ite c a b rest => max (depth c) (max (depthSts a) (max (depthSts b) (2 + depthSts rest)))

/-- nesting of statement blocks -/
def nestSts : Sts → Nat
  | .nil => 0
  | .expr _ rest => nestSts rest
  | .ite _ a b rest => max (1 + max (nestSts a) (nestSts b)) (nestSts rest)

end DS.Frag
