package main

import (
	"strconv"

	ds "github.com/sealdice/dicescript"
)

// errlangseq <lang1> <hexsrc1> <lang2> <hexsrc2> : a VM configured for language 1 evaluates src1; its configuration is then edited to
// language 2 (a field edit, as a host does) and it evaluates src2.  A second VM receives a COPY of the first VM's configuration with the
// language set to 2.  A third, fresh VM is configured for language 2 from the start.  Prints the three error texts of src2 (hex; "-" = no error).
func errLangSeqLine(t []string) string {
	if len(t) != 5 {
		return "bad-op"
	}
	l1, e1 := strconv.Atoi(t[1])
	l2, e2 := strconv.Atoi(t[3])
	s1, ok1 := unhx(t[2])
	s2, ok2 := unhx(t[4])
	if e1 != nil || e2 != nil || !ok1 || !ok2 {
		return "bad-op"
	}
	errText := func(vm *ds.Context, src string) string {
		return safely(func() string {
			if err := vm.Run(src); err != nil {
				return hx(err.Error())
			}
			return "-"
		})
	}
	vm1 := ds.NewVM()
	vm1.Config.OpCountLimit = 30000
	vm1.Config.ParseErrorLanguage = l1
	_ = errText(vm1, s1)
	vm1.Config.ParseErrorLanguage = l2
	a := errText(vm1, s2)

	vm2 := ds.NewVM()
	cfg := vm1.Config
	cfg.ParseErrorLanguage = l2
	vm2.Config = cfg
	b := errText(vm2, s2)

	vm3 := ds.NewVM()
	vm3.Config.OpCountLimit = 30000
	vm3.Config.ParseErrorLanguage = l2
	c := errText(vm3, s2)
	return a + " || " + b + " || " + c
}

func init() { handlers["errlangseq"] = errLangSeqLine }

// errlangglobal <globallang> <vmlang> <hexsrc> : some other part of the host has called the package-level SetParseErrorLanguage; a context
// configured for <vmlang> still receives its messages in ITS language.  Prints the error text under the foreign global setting and the
// text with the package setting left at its default (hex; "-" = no error).  The package setting is put back before returning.
func errLangGlobalLine(t []string) string {
	if len(t) != 4 {
		return "bad-op"
	}
	gl, e1 := strconv.Atoi(t[1])
	vl, e2 := strconv.Atoi(t[2])
	src, ok := unhx(t[3])
	if e1 != nil || e2 != nil || !ok {
		return "bad-op"
	}
	errText := func() string {
		return safely(func() string {
			vm := ds.NewVM()
			vm.Config.OpCountLimit = 30000
			vm.Config.ParseErrorLanguage = vl
			if err := vm.Run(src); err != nil {
				return hx(err.Error())
			}
			return "-"
		})
	}
	ds.SetParseErrorLanguage(gl)
	a := errText()
	// the same through a sub-evaluation (RunExpr copies the caller's configuration)
	a2 := safely(func() string {
		vm := ds.NewVM()
		vm.Config.OpCountLimit = 30000
		vm.Config.ParseErrorLanguage = vl
		if _, err := vm.RunExpr(src, false); err != nil {
			return hx(err.Error())
		}
		return "-"
	})
	ds.SetParseErrorLanguage(ds.ParseErrorLanguageBilingual)
	b := errText()
	return a + " || " + a2 + " || " + b
}

func init() { handlers["errlangglobal"] = errLangGlobalLine }
