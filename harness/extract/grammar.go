package main

// Regenerates DS/Gen/Grammar.lean (the PEG as data: the composite literal `var g = &grammar{…}` of roll.peg.go, every node with
// a unique pre-order id = the identity the engine memoises on), DS/Gen/Actions.lean (what every action / predicate body
// does to ParserData: method calls with literal arguments, Config assignments, addErr, loopLayer tests, returned expression;
// and which opcodes every ParserData method writes) and DS/Gen/Unicode.lean (the range tables of the Unicode classes the
// identifier rules use, from the Go toolchain's unicode package).

import (
	"fmt"
	"go/ast"
	"go/token"
	"strconv"
	"strings"
	"unicode"
)

type gramGen struct {
	pf      *pkgFiles
	nextID  int
	acts    []string       // action function names in order of first appearance
	actIdx  map[string]int // name -> index
	classes []string
	clsIdx  map[string]int
	err     error
}

func (g *gramGen) fail(format string, a ...any) string {
	if g.err == nil {
		g.err = fmt.Errorf(format, a...)
	}
	return "PExpr.any 0"
}

func (g *gramGen) act(e ast.Expr) int {
	// (*parser).call_onX_N
	sel, ok := e.(*ast.SelectorExpr)
	if !ok {
		g.fail("action reference of unexpected shape %T", e)
		return 0
	}
	name := sel.Sel.Name
	if i, ok := g.actIdx[name]; ok {
		return i
	}
	g.actIdx[name] = len(g.acts)
	g.acts = append(g.acts, name)
	return len(g.acts) - 1
}

func kv(cl *ast.CompositeLit) map[string]ast.Expr {
	m := map[string]ast.Expr{}
	for _, el := range cl.Elts {
		if p, ok := el.(*ast.KeyValueExpr); ok {
			if id, ok := p.Key.(*ast.Ident); ok {
				m[id.Name] = p.Value
			}
		}
	}
	return m
}

func strLit(e ast.Expr) (string, bool) {
	b, ok := e.(*ast.BasicLit)
	if !ok || b.Kind != token.STRING {
		return "", false
	}
	s, err := strconv.Unquote(b.Value)
	return s, err == nil
}

func boolLit(e ast.Expr) bool {
	id, ok := e.(*ast.Ident)
	return ok && id.Name == "true"
}

func runeList(e ast.Expr) ([]rune, bool) {
	cl, ok := e.(*ast.CompositeLit)
	if !ok {
		return nil, false
	}
	var out []rune
	for _, el := range cl.Elts {
		b, ok := el.(*ast.BasicLit)
		if !ok {
			return nil, false
		}
		switch b.Kind {
		case token.CHAR:
			r, _, _, err := strconv.UnquoteChar(b.Value[1:len(b.Value)-1], '\'')
			if err != nil {
				return nil, false
			}
			out = append(out, r)
		case token.INT:
			n, err := strconv.ParseInt(b.Value, 0, 32)
			if err != nil {
				return nil, false
			}
			out = append(out, rune(n))
		default:
			return nil, false
		}
	}
	return out, true
}

func (g *gramGen) list(e ast.Expr) []string {
	cl, ok := e.(*ast.CompositeLit)
	if !ok {
		g.fail("expression list of unexpected shape %T", e)
		return nil
	}
	var out []string
	for _, el := range cl.Elts {
		out = append(out, g.node(el))
	}
	return out
}

func (g *gramGen) node(e ast.Expr) string {
	u, ok := e.(*ast.UnaryExpr)
	if !ok || u.Op != token.AND {
		return g.fail("grammar node of unexpected shape %T", e)
	}
	cl, ok := u.X.(*ast.CompositeLit)
	if !ok {
		return g.fail("grammar node of unexpected shape %T", u.X)
	}
	tn, ok := cl.Type.(*ast.Ident)
	if !ok {
		return g.fail("grammar node type of unexpected shape %T", cl.Type)
	}
	id := g.nextID
	g.nextID++
	f := kv(cl)
	switch tn.Name {
	case "seqExpr":
		return fmt.Sprintf("(.seq %d [%s])", id, strings.Join(g.list(f["exprs"]), ", "))
	case "choiceExpr":
		return fmt.Sprintf("(.choice %d [%s])", id, strings.Join(g.list(f["alternatives"]), ", "))
	case "actionExpr":
		a := g.act(f["run"])
		return fmt.Sprintf("(.action %d %d %s)", id, a, g.node(f["expr"]))
	case "codeExpr":
		a := g.act(f["run"])
		ns := "false"
		if v, ok := f["notSkip"]; ok && boolLit(v) {
			ns = "true"
		}
		return fmt.Sprintf("(.code %d %d %s)", id, a, ns)
	case "andCodeExpr":
		return fmt.Sprintf("(.andCode %d %d)", id, g.act(f["run"]))
	case "andExpr":
		return fmt.Sprintf("(.and_ %d %s)", id, g.node(f["expr"]))
	case "andLogicalExpr":
		return fmt.Sprintf("(.andLogical %d %s)", id, g.node(f["expr"]))
	case "notExpr":
		return fmt.Sprintf("(.not_ %d %s)", id, g.node(f["expr"]))
	case "anyMatcher":
		return fmt.Sprintf("(.any %d)", id)
	case "litMatcher":
		s, ok := strLit(f["val"])
		if !ok {
			return g.fail("litMatcher without string literal")
		}
		ic := "false"
		if v, ok := f["ignoreCase"]; ok && boolLit(v) {
			ic = "true"
		}
		var rs []string
		for _, r := range s {
			rs = append(rs, strconv.Itoa(int(r)))
		}
		return fmt.Sprintf("(.lit %d [%s] %s)", id, strings.Join(rs, ", "), ic)
	case "charClassMatcher":
		var chars, ranges, classes []string
		if v, ok := f["chars"]; ok {
			rs, ok := runeList(v)
			if !ok {
				return g.fail("charClassMatcher.chars not a rune list")
			}
			for _, r := range rs {
				chars = append(chars, strconv.Itoa(int(r)))
			}
		}
		if v, ok := f["ranges"]; ok {
			rs, ok := runeList(v)
			if !ok || len(rs)%2 != 0 {
				return g.fail("charClassMatcher.ranges not a rune pair list")
			}
			for i := 0; i < len(rs); i += 2 {
				ranges = append(ranges, fmt.Sprintf("(%d, %d)", rs[i], rs[i+1]))
			}
		}
		if v, ok := f["classes"]; ok {
			cl2, ok := v.(*ast.CompositeLit)
			if !ok {
				return g.fail("charClassMatcher.classes of unexpected shape")
			}
			for _, el := range cl2.Elts {
				se, ok := el.(*ast.SelectorExpr)
				if !ok {
					return g.fail("unicode class of unexpected shape")
				}
				n := se.Sel.Name
				if _, ok := g.clsIdx[n]; !ok {
					g.clsIdx[n] = len(g.classes)
					g.classes = append(g.classes, n)
				}
				classes = append(classes, strconv.Itoa(g.clsIdx[n]))
			}
		}
		inv, ic := "false", "false"
		if v, ok := f["inverted"]; ok && boolLit(v) {
			inv = "true"
		}
		if v, ok := f["ignoreCase"]; ok && boolLit(v) {
			ic = "true"
		}
		return fmt.Sprintf("(.cls %d [%s] [%s] [%s] %s %s)", id, strings.Join(chars, ", "), strings.Join(ranges, ", "), strings.Join(classes, ", "), inv, ic)
	case "zeroOrMoreExpr":
		return fmt.Sprintf("(.star %d %s)", id, g.node(f["expr"]))
	case "oneOrMoreExpr":
		return fmt.Sprintf("(.plus %d %s)", id, g.node(f["expr"]))
	case "zeroOrOneExpr":
		return fmt.Sprintf("(.opt %d %s)", id, g.node(f["expr"]))
	case "labeledExpr":
		lab, _ := strLit(f["label"])
		tc := "false"
		if v, ok := f["textCapture"]; ok && boolLit(v) {
			tc = "true"
		}
		return fmt.Sprintf("(.labeled %d %s %s %s)", id, leanStr(lab), tc, g.node(f["expr"]))
	case "ruleIRefExpr":
		b, ok := f["index"].(*ast.BasicLit)
		if !ok {
			return g.fail("ruleIRefExpr without literal index")
		}
		return fmt.Sprintf("(.ref %d %s)", id, b.Value)
	}
	return g.fail("unknown grammar node kind %s", tn.Name)
}

// ---- action bodies

type actInfo struct {
	name       string
	calls      []string // "M(arg,arg)"
	assigns    []string // "Field=expr"
	addErr     bool
	checksLoop bool
	ret        string
}

func argText(pf *pkgFiles, a ast.Expr) string {
	switch v := a.(type) {
	case *ast.BasicLit:
		if v.Kind == token.STRING {
			s, _ := strconv.Unquote(v.Value)
			return "s:" + s
		}
		return "l:" + v.Value
	case *ast.Ident:
		return "i:" + v.Name
	}
	return "e:" + strings.Join(strings.Fields(exprText(pf.fset, a)), " ")
}

func isCData(e ast.Expr) bool {
	// c.data
	s, ok := e.(*ast.SelectorExpr)
	if !ok || s.Sel.Name != "data" {
		return false
	}
	id, ok := s.X.(*ast.Ident)
	return ok && id.Name == "c"
}

func scanBody(pf *pkgFiles, body ast.Node, ai *actInfo) {
	ast.Inspect(body, func(n ast.Node) bool {
		switch v := n.(type) {
		case *ast.CallExpr:
			if s, ok := v.Fun.(*ast.SelectorExpr); ok {
				if isCData(s.X) {
					var as []string
					for _, a := range v.Args {
						as = append(as, argText(pf, a))
					}
					ai.calls = append(ai.calls, s.Sel.Name+"("+strings.Join(as, "\x1f")+")")
				}
				if id, ok := s.X.(*ast.Ident); ok && id.Name == "p" && s.Sel.Name == "addErr" {
					ai.addErr = true
				}
			}
		case *ast.AssignStmt:
			for i, l := range v.Lhs {
				if s, ok := l.(*ast.SelectorExpr); ok {
					if s2, ok := s.X.(*ast.SelectorExpr); ok && s2.Sel.Name == "Config" && isCData(s2.X) && i < len(v.Rhs) {
						ai.assigns = append(ai.assigns, s.Sel.Name+"="+strings.Join(strings.Fields(exprText(pf.fset, v.Rhs[i])), " "))
					}
				}
			}
		case *ast.SelectorExpr:
			if v.Sel.Name == "loopLayer" && isCData(v.X) {
				ai.checksLoop = true
			}
		case *ast.ReturnStmt:
			if len(v.Results) > 0 && ai.ret == "" {
				ai.ret = strings.Join(strings.Fields(exprText(pf.fset, v.Results[0])), " ")
			}
		}
		return true
	})
}

func genGrammar(pf *pkgFiles) (*gramGen, string, error) {
	f := pf.files["roll.peg.go"]
	if f == nil {
		return nil, "", fmt.Errorf("roll.peg.go not found")
	}
	g := &gramGen{pf: pf, actIdx: map[string]int{}, clsIdx: map[string]int{}}
	var rulesLit *ast.CompositeLit
	for _, d := range f.Decls {
		gd, ok := d.(*ast.GenDecl)
		if !ok || gd.Tok != token.VAR {
			continue
		}
		for _, sp := range gd.Specs {
			vs := sp.(*ast.ValueSpec)
			if len(vs.Names) == 1 && vs.Names[0].Name == "g" && len(vs.Values) == 1 {
				u, ok := vs.Values[0].(*ast.UnaryExpr)
				if !ok {
					continue
				}
				cl, ok := u.X.(*ast.CompositeLit)
				if !ok {
					continue
				}
				if r, ok := kv(cl)["rules"].(*ast.CompositeLit); ok {
					rulesLit = r
				}
			}
		}
	}
	if rulesLit == nil {
		return nil, "", fmt.Errorf("var g = &grammar{rules: …} not found")
	}
	var b strings.Builder
	b.WriteString("-- GENERATED by /verif/harness/extract from /repo/roll.peg.go (var g). Do not edit.\nimport DS.Model.PegTypes\nnamespace DS.Gen.Grammar\nopen DS.Peg\n\n")
	var names []string
	var starts []int
	for i, el := range rulesLit.Elts {
		cl, ok := el.(*ast.CompositeLit)
		if !ok {
			return nil, "", fmt.Errorf("rule %d of unexpected shape", i)
		}
		f := kv(cl)
		name, _ := strLit(f["name"])
		names = append(names, name)
		starts = append(starts, g.nextID)
		fmt.Fprintf(&b, "def rule_%d : PExpr := %s\n", i, g.node(f["expr"]))
	}
	if g.err != nil {
		return nil, "", g.err
	}
	b.WriteString("\ndef rules : Array PExpr := #[")
	for i := range names {
		if i > 0 {
			b.WriteString(", ")
		}
		fmt.Fprintf(&b, "rule_%d", i)
	}
	b.WriteString("]\n\ndef ruleNames : Array String := #[")
	for i, n := range names {
		if i > 0 {
			b.WriteString(", ")
		}
		b.WriteString(leanStr(n))
	}
	b.WriteString("]\n\n/-- first node id of every rule (ids are pre-order, rule after rule) -/\ndef ruleStarts : Array Nat := #[")
	for i, n := range starts {
		if i > 0 {
			b.WriteString(", ")
		}
		fmt.Fprintf(&b, "%d", n)
	}
	fmt.Fprintf(&b, "]\n\ndef nodeCount : Nat := %d\n\nend DS.Gen.Grammar\n", g.nextID)
	return g, b.String(), nil
}

func leanStrList(l []string) string {
	var q []string
	for _, s := range l {
		q = append(q, leanStr(s))
	}
	return "[" + strings.Join(q, ", ") + "]"
}

func genActions(pf *pkgFiles, g *gramGen) (string, error) {
	f := pf.files["roll.peg.go"]
	decls := map[string]*ast.FuncDecl{}
	for _, d := range f.Decls {
		if fd, ok := d.(*ast.FuncDecl); ok {
			decls[fd.Name.Name] = fd
		}
	}
	var b strings.Builder
	ops, err := opcodeMap(pf)
	if err != nil {
		return "", err
	}
	methods, err := methodTable(pf)
	if err != nil {
		return "", err
	}
	b.WriteString("-- GENERATED by /verif/harness/extract from the action bodies of /repo/roll.peg.go and the methods of parser.go. Do not edit.\nimport DS.Model.PegTypes\nnamespace DS.Gen.Actions\nopen DS.Peg\n\n")
	var infos []actInfo
	for _, name := range g.acts {
		fd := decls[name]
		if fd == nil || fd.Body == nil {
			return "", fmt.Errorf("action function %s not found", name)
		}
		ai := actInfo{name: name}
		// the generated wrapper is `return (func(c *current, labels…) T { BODY })(&p.cur, …)`: BODY is what the grammar author wrote
		var inner ast.Node = fd.Body
		ast.Inspect(fd.Body, func(n ast.Node) bool {
			if fl, ok := n.(*ast.FuncLit); ok && inner == ast.Node(fd.Body) {
				inner = fl.Body
				return false
			}
			return true
		})
		scanBody(pf, inner, &ai)
		infos = append(infos, ai)
	}
	b.WriteString("/-- what every action / code predicate does, digested: effects in execution order and the predicate's meaning -/\ndef acts : Array Act := #[\n")
	for i, ai := range infos {
		if i > 0 {
			b.WriteString(",\n")
		}
		effs, pred := digest(ai, ops, methods)
		fmt.Fprintf(&b, "  { effs := [%s], pred := %s }", strings.Join(effs, ", "), pred)
	}
	b.WriteString("\n]\n\ndef actNames : Array String := #[")
	for i, ai := range infos {
		if i > 0 {
			b.WriteString(", ")
		}
		b.WriteString(leanStr(ai.name))
	}
	b.WriteString("]\n\n/-- the source-level summary the digest was computed from (for reading; not used by the model) -/\ndef summaries : Array ActInfo := #[\n")
	for i, ai := range infos {
		if i > 0 {
			b.WriteString(",\n")
		}
		fmt.Fprintf(&b, "  { name := %s, calls := %s, assigns := %s, addErr := %v, checksLoop := %v, ret := %s }",
			leanStr(ai.name), leanStrList(ai.calls), leanStrList(ai.assigns), ai.addErr, ai.checksLoop, leanStr(ai.ret))
	}
	b.WriteString("\n]\n\nend DS.Gen.Actions\n")
	return b.String(), nil
}

type methodInfo struct {
	name string
	ops  []string
	cond bool
}

func methodTable(pf *pkgFiles) (map[string]*methodInfo, error) {
	type mi = methodInfo
	var ms []mi
	for _, fn := range []string{"parser.go", "custom_dice_parser.go", "custom_dice_stream.go"} {
		pfile := pf.files[fn]
		if pfile == nil {
			continue
		}
		for _, d := range pfile.Decls {
			fd, ok := d.(*ast.FuncDecl)
			if !ok || fd.Recv == nil || fd.Body == nil || len(fd.Recv.List) != 1 {
				continue
			}
			if st, ok := fd.Recv.List[0].Type.(*ast.StarExpr); !ok || exprText(pf.fset, st.X) != "ParserData" {
				continue
			}
			m := mi{name: fd.Name.Name}
			recv := ""
			if len(fd.Recv.List[0].Names) == 1 {
				recv = fd.Recv.List[0].Names[0].Name
			}
			var visit func(n ast.Node, under bool)
			visit = func(n ast.Node, under bool) {
				if n == nil {
					return
				}
				switch v := n.(type) {
				case *ast.IfStmt, *ast.ForStmt, *ast.RangeStmt, *ast.SwitchStmt, *ast.TypeSwitchStmt:
					under = true
					_ = v
				case *ast.CallExpr:
					if s, ok := v.Fun.(*ast.SelectorExpr); ok {
						if (s.Sel.Name == "WriteCode" || s.Sel.Name == "AddOp") && len(v.Args) > 0 {
							m.ops = append(m.ops, strings.Join(strings.Fields(exprText(pf.fset, v.Args[0])), " "))
							if under {
								m.cond = true
							}
						} else if id, ok := s.X.(*ast.Ident); ok && recv != "" && id.Name == recv {
							// a call of another ParserData method: recorded as "@Method" and resolved on the Lean side
							m.ops = append(m.ops, "@"+s.Sel.Name)
							if under {
								m.cond = true
							}
						}
					}
				}
				// children in source order
				var kids []ast.Node
				ast.Inspect(n, func(x ast.Node) bool {
					if x == n {
						return true
					}
					if x != nil {
						kids = append(kids, x)
					}
					return false
				})
				for _, k := range kids {
					visit(k, under)
				}
			}
			visit(fd.Body, false)
			ms = append(ms, m)
		}
	}
	out := map[string]*methodInfo{}
	for i := range ms {
		out[ms[i].name] = &ms[i]
	}
	return out, nil
}

func opcodeMap(pf *pkgFiles) (map[string]int, error) {
	names, err := opcodeNames(pf)
	if err != nil {
		return nil, err
	}
	m := map[string]int{}
	for i, n := range names {
		m[n] = i
	}
	return m, nil
}

func flagID(name string) string {
	switch name {
	case "EnableDiceWoD":
		return ".wod"
	case "EnableDiceCoC":
		return ".coc"
	case "EnableDiceFate":
		return ".fate"
	case "EnableDiceDoubleCross":
		return ".dc"
	case "DisableStmts":
		return ".stmts"
	case "DisableNDice":
		return ".ndice"
	case "DisableBitwiseOp":
		return ".bitwise"
	}
	return ""
}

// codePopMark stands for a call of CodePop in a method's effect list
const codePopMark = -1

// methodOps: the opcodes an unconditional ParserData method writes (nil, false = needs special handling)
func methodOps(methods map[string]*methodInfo, ops map[string]int, name string, depth int) ([]int, bool) {
	m := methods[name]
	if m == nil || m.cond || depth > 8 {
		return nil, false
	}
	var out []int
	for _, o := range m.ops {
		if o == "@CodePop" {
			out = append(out, codePopMark)
		} else if strings.HasPrefix(o, "@") {
			l, ok := methodOps(methods, ops, o[1:], depth+1)
			if !ok {
				return nil, false
			}
			out = append(out, l...)
		} else if n, ok := ops[o]; ok {
			out = append(out, n)
		} else {
			return nil, false
		}
	}
	return out, true
}

// digest turns the summary of an action body into the model's effect list and predicate kind.  Anything it does not
// understand becomes `.unknown …`, which the engine model reports as a broken tie.
func digest(ai actInfo, ops map[string]int, methods map[string]*methodInfo) ([]string, string) {
	var effs []string
	unknown := func(w string) { effs = append(effs, ".unknown "+leanStr(w)) }
	emit := func(n string) {
		if k, ok := ops[n]; ok {
			effs = append(effs, fmt.Sprintf(".emit %d", k))
		} else {
			unknown("opcode " + n)
		}
	}
	for _, c := range ai.calls {
		i := strings.Index(c, "(")
		m := c[:i]
		inner := c[i+1 : len(c)-1]
		var args []string
		if inner != "" {
			args = strings.Split(inner, "\x1f")
		}
		arg := func(k int) string {
			if k < len(args) {
				return args[k]
			}
			return ""
		}
		switch m {
		case "AddOp", "WriteCode":
			if strings.HasPrefix(arg(0), "i:") {
				emit(arg(0)[2:])
			} else {
				unknown(c)
			}
		case "BreakPush", "ContinuePush":
			if ai.checksLoop {
				effs = append(effs, ".breakCont")
			} else {
				unknown(c)
			}
		case "CodePush":
			effs = append(effs, ".codePush")
		case "LoopBegin":
			effs = append(effs, ".loopBegin")
		case "LoopEnd":
			effs = append(effs, ".loopEnd")
		case "FlagsPush":
			effs = append(effs, ".flagsPush")
		case "FlagsPop":
			effs = append(effs, ".flagsPop")
		case "AddAttrSet":
			switch arg(2) {
			case "i:true":
				emit("typeLoadNameRaw")
				emit("typeAttrSet")
			case "i:false":
				emit("typeLoadName")
				emit("typeAttrSet")
			default:
				unknown(c)
			}
		case "AddStoreFunction":
			effs = append(effs, ".codePop")
			emit("typePushFunction")
			emit("typeStoreName")
		case "PrepareCustomDice":
			// the predicate itself (Pred.customDice)
		case "ConsumeCustomDice":
			effs = append(effs, ".consumeCustom")
		case "CommitCustomDice":
			effs = append(effs, ".commitCustom")
		default:
			if l, ok := methodOps(methods, ops, m, 0); ok {
				for _, k := range l {
					if k == codePopMark {
						effs = append(effs, ".codePop")
					} else {
						effs = append(effs, fmt.Sprintf(".emit %d", k))
					}
				}
			} else {
				unknown(c)
			}
		}
	}
	if strings.HasPrefix(ai.name, "call_onflagsSwitch") {
		effs = append(effs, ".flagsSwitch")
	} else {
		for _, a := range ai.assigns {
			kvp := strings.SplitN(a, "=", 2)
			id := flagID(kvp[0])
			if id != "" && len(kvp) == 2 && (kvp[1] == "true" || kvp[1] == "false") {
				effs = append(effs, fmt.Sprintf(".setFlag %s %s", id, kvp[1]))
			} else {
				unknown("assign " + a)
			}
		}
	}
	if ai.addErr && !ai.checksLoop {
		effs = append(effs, ".addErr")
	}
	r := ai.ret
	pred := ".none"
	switch {
	case r == "nil" || strings.HasPrefix(r, "[]byte(") || r == "c.text" || r == "toStr(c.text)":
	case strings.HasPrefix(r, "!c.data.Config."):
		if id := flagID(r[len("!c.data.Config."):]); id != "" {
			pred = ".flag " + id + " true"
		} else {
			pred = ".unknown " + leanStr(r)
		}
	case strings.HasPrefix(r, "c.data.Config."):
		if id := flagID(r[len("c.data.Config."):]); id != "" {
			pred = ".flag " + id + " false"
		} else {
			pred = ".unknown " + leanStr(r)
		}
	case (r == "false" || r == "true") && len(ai.calls) == 0 && len(ai.assigns) == 0:
		pred = ".const " + r
	case r == "c.data.PrepareCustomDice(p)":
		pred = ".customDice"
	case r == "lineBreakBefore(p.data, p.pt.offset)":
		pred = ".lineBreakBefore"
	case r == "false":
		// `return false` inside an action body (break / continue outside a loop): the value is ignored
	default:
		pred = ".unknown " + leanStr(r)
	}
	return effs, pred
}

func genUnicode(g *gramGen) (string, error) {
	tables := map[string]*unicode.RangeTable{"L": unicode.L, "Other_ID_Start": unicode.Other_ID_Start, "Nl": unicode.Nl, "Mn": unicode.Mn,
		"Mc": unicode.Mc, "Nd": unicode.Nd, "Pc": unicode.Pc, "Other_ID_Continue": unicode.Other_ID_Continue}
	var b strings.Builder
	b.WriteString("-- GENERATED by /verif/harness/extract from the Go toolchain's unicode tables (the ones roll.peg.go's classes use). Do not edit.\nnamespace DS.Gen.Unicode\n\n")
	for i, n := range g.classes {
		t := tables[n]
		if t == nil {
			return "", fmt.Errorf("unicode class %s has no table in the translator", n)
		}
		fmt.Fprintf(&b, "/-- unicode.%s : (lo, hi, stride) -/\ndef table_%d : Array (Nat × Nat × Nat) := #[", n, i)
		first := true
		for _, r := range t.R16 {
			if !first {
				b.WriteString(", ")
			}
			first = false
			fmt.Fprintf(&b, "(%d, %d, %d)", r.Lo, r.Hi, r.Stride)
		}
		for _, r := range t.R32 {
			if !first {
				b.WriteString(", ")
			}
			first = false
			fmt.Fprintf(&b, "(%d, %d, %d)", r.Lo, r.Hi, r.Stride)
		}
		b.WriteString("]\n\n")
	}
	b.WriteString("def tables : Array (Array (Nat × Nat × Nat)) := #[")
	for i := range g.classes {
		if i > 0 {
			b.WriteString(", ")
		}
		fmt.Fprintf(&b, "table_%d", i)
	}
	b.WriteString("]\n\ndef classNames : Array String := #[")
	for i, n := range g.classes {
		if i > 0 {
			b.WriteString(", ")
		}
		b.WriteString(leanStr(n))
	}
	b.WriteString("]\n\nend DS.Gen.Unicode\n")
	return b.String(), nil
}

var gramCache *gramGen
var gramText string

func ensureGrammar(pf *pkgFiles) error {
	if gramCache != nil {
		return nil
	}
	g, txt, err := genGrammar(pf)
	if err != nil {
		return err
	}
	gramCache, gramText = g, txt
	return nil
}

func init() {
	generators["Grammar"] = func(pf *pkgFiles) (string, error) {
		if err := ensureGrammar(pf); err != nil {
			return "", err
		}
		return gramText, nil
	}
	generators["Actions"] = func(pf *pkgFiles) (string, error) {
		if err := ensureGrammar(pf); err != nil {
			return "", err
		}
		return genActions(pf, gramCache)
	}
	generators["Unicode"] = func(pf *pkgFiles) (string, error) {
		if err := ensureGrammar(pf); err != nil {
			return "", err
		}
		return genUnicode(gramCache)
	}
}

// Opcodes: the iota block of bytecode.go (identifier -> number), so that the engine model's emission trace (identifiers taken
// from the action bodies) can be compared with the numeric trace the implementation logs.
func opcodeNames(pf *pkgFiles) ([]string, error) {
	f := pf.files["bytecode.go"]
	if f == nil {
		return nil, fmt.Errorf("bytecode.go not found")
	}
	var names []string
	for _, d := range f.Decls {
		gd, ok := d.(*ast.GenDecl)
		if !ok || gd.Tok != token.CONST || len(gd.Specs) == 0 {
			continue
		}
		first, ok := gd.Specs[0].(*ast.ValueSpec)
		if !ok || first.Type == nil || exprText(pf.fset, first.Type) != "CodeType" {
			continue
		}
		if len(first.Values) != 1 || exprText(pf.fset, first.Values[0]) != "iota" {
			return nil, fmt.Errorf("CodeType const block does not start with iota")
		}
		for _, sp := range gd.Specs {
			vs := sp.(*ast.ValueSpec)
			if len(vs.Names) != 1 || (vs != first && len(vs.Values) != 0) {
				return nil, fmt.Errorf("CodeType const block: unexpected spec")
			}
			names = append(names, vs.Names[0].Name)
		}
	}
	if len(names) == 0 {
		return nil, fmt.Errorf("CodeType const block not found")
	}
	return names, nil
}

func genOpcodes(pf *pkgFiles) (string, error) {
	names, err := opcodeNames(pf)
	if err != nil {
		return "", err
	}
	var b strings.Builder
	b.WriteString("-- GENERATED by /verif/harness/extract from the CodeType iota block of /repo/bytecode.go. Do not edit.\nnamespace DS.Gen.Opcodes\n\ndef opcodes : List (String × Nat) := [")
	for i, n := range names {
		if i > 0 {
			b.WriteString(", ")
		}
		fmt.Fprintf(&b, "(%s, %d)", leanStr(n), i)
	}
	b.WriteString("]\n\n")
	for i, n := range names {
		fmt.Fprintf(&b, "def op_%s : Nat := %d\n", n, i)
	}
	b.WriteString("\nend DS.Gen.Opcodes\n")
	return b.String(), nil
}

func init() {
	generators["Opcodes"] = genOpcodes
}

// Fingerprints: normalised source text of the ParserData methods whose behaviour the engine model implements by name
// (not regenerated): a change there is a broken tie that the checks must chase with a deeper search.
func genFingerprints(pf *pkgFiles) (string, error) {
	want := map[string]bool{"FlagsPush": true, "FlagsPop": true, "LoopBegin": true, "LoopEnd": true, "BreakPush": true, "ContinuePush": true,
		"loopUnwindBlocks": true, "AddOp": true, "WriteCode": true, "checkStackOverflow": true, "CodePush": true, "CodePop": true, "parseFlagsKey": true, "lineBreakBefore": true}
	var rows []string
	f := pf.files["parser.go"]
	if f == nil {
		return "", fmt.Errorf("parser.go not found")
	}
	for _, d := range f.Decls {
		fd, ok := d.(*ast.FuncDecl)
		if !ok || fd.Body == nil || !want[fd.Name.Name] || (fd.Recv == nil && fd.Name.Name != "lineBreakBefore") {
			continue
		}
		txt := strings.Join(strings.Fields(exprTextNode(pf, fd.Body)), " ")
		rows = append(rows, fmt.Sprintf("(%s, %s)", leanStr(fd.Name.Name), leanStr(txt)))
		delete(want, fd.Name.Name)
	}
	// the custom-dice trio lives on ParserCustomData
	wantC := map[string]bool{"PrepareCustomDice": true, "ConsumeCustomDice": true, "CommitCustomDice": true, "ensurePendingCustomDice": true}
	if fc := pf.files["custom_dice_parser.go"]; fc != nil {
		for _, d := range fc.Decls {
			fd, ok := d.(*ast.FuncDecl)
			if !ok || fd.Recv == nil || fd.Body == nil || !wantC[fd.Name.Name] {
				continue
			}
			txt := strings.Join(strings.Fields(exprTextNode(pf, fd.Body)), " ")
			rows = append(rows, fmt.Sprintf("(%s, %s)", leanStr(fd.Name.Name), leanStr(txt)))
			delete(wantC, fd.Name.Name)
		}
	}
	for n := range wantC {
		return "", fmt.Errorf("ParserCustomData method %s not found", n)
	}
	for n := range want {
		return "", fmt.Errorf("ParserData method %s not found", n)
	}
	return "-- GENERATED by /verif/harness/extract: bodies of the ParserData methods the engine model implements by name. Do not edit.\nnamespace DS.Gen.Fingerprints\n\ndef bodies : List (String × String) := [\n  " +
		strings.Join(rows, ",\n  ") + "\n]\n\nend DS.Gen.Fingerprints\n", nil
}

func exprTextNode(pf *pkgFiles, n ast.Node) string {
	var b strings.Builder
	_ = printerFprint(&b, pf.fset, n)
	return b.String()
}

func init() {
	generators["Fingerprints"] = genFingerprints
}
