package main

import (
	"fmt"
	"strconv"
	"strings"

	ds "github.com/sealdice/dicescript"
)

// detail <hexsrc> <offset> <hexret> <span>... ; span = b,e,rethex,texthex,exprhex,taghex,textOnly,suffixhex
func detailLine(t []string) string {
	if len(t) < 4 {
		return "bad-op"
	}
	src, ok := unhx(t[1])
	off, err := strconv.Atoi(t[2])
	ret, ok2 := unhx(t[3])
	if !ok || err != nil || !ok2 {
		return "bad-op"
	}
	var spans []ds.VerifSpan
	for _, st := range t[4:] {
		f := strings.Split(st, ",")
		if len(f) != 8 {
			return "bad-op"
		}
		b, e1 := strconv.Atoi(f[0])
		e, e2 := strconv.Atoi(f[1])
		r, o1 := unhx(f[2])
		tx, o2 := unhx(f[3])
		ex, o3 := unhx(f[4])
		tg, o4 := unhx(f[5])
		sf, o5 := unhx(f[7])
		if e1 != nil || e2 != nil || !(o1 && o2 && o3 && o4 && o5) {
			return "bad-op"
		}
		spans = append(spans, ds.VerifSpan{Begin: b, End: e, Ret: r, Text: tx, Expr: ex, Tag: tg, TextOnly: f[6] == "1", ExprSuffix: sf})
	}
	out := safely(func() string { return "ok " + hx(ds.VerifMakeDetail(src, off, spans, ret)) })
	if strings.HasPrefix(out, "panic") {
		return "panic"
	}
	return out
}

// detailobs <cfg> <seed> <hexsrc> : run; observe (Ret, variables, generator) before and after two GetDetailText calls
func detailObsLine(t []string) string {
	if len(t) != 4 {
		return "bad-op"
	}
	cfg, ok := parseCfg(t[1])
	src, ok2 := unhx(t[3])
	if !ok || !ok2 {
		return "bad-op"
	}
	vm, ok := newVM(cfg, t[2])
	if !ok {
		return "bad-op"
	}
	if err := vm.Run(src); err != nil {
		return "err " + hx(err.Error())
	}
	before := canon(vm.Ret) + " " + canonAttrs(vm.Attrs) + " " + seedOf(vm)
	d1 := vm.GetDetailText()
	d2 := vm.GetDetailText()
	after := canon(vm.Ret) + " " + canonAttrs(vm.Attrs) + " " + seedOf(vm)
	same := "1"
	if before != after {
		same = "0"
	}
	idem := "1"
	if d1 != d2 {
		idem = "0"
	}
	return "ok " + canon(vm.Ret) + " d=" + hx(d1) + " m=" + hx(vm.Matched) + " idem=" + idem + " pure=" + same
}

// detailrerun <cfg> <seed> <hexsrc> : Parse once, evaluate, read the text, evaluate AGAIN (RunAfterParsed) — reports the second evaluation
// in detailobs' format: its text must explain ITS result
func detailRerunLine(t []string) string {
	if len(t) != 4 {
		return "bad-op"
	}
	cfg, ok := parseCfg(t[1])
	src, ok2 := unhx(t[3])
	if !ok || !ok2 {
		return "bad-op"
	}
	vm, ok := newVM(cfg, t[2])
	if !ok {
		return "bad-op"
	}
	if err := vm.Parse(src); err != nil {
		return "err " + hx(err.Error())
	}
	if err := vm.RunAfterParsed(); err != nil {
		return "err " + hx(err.Error())
	}
	m1, r1 := vm.Matched, vm.RestInput
	_ = vm.GetDetailText()
	if err := vm.RunAfterParsed(); err != nil {
		return "err " + hx(err.Error())
	}
	before := canon(vm.Ret) + " " + canonAttrs(vm.Attrs) + " " + seedOf(vm)
	d1 := vm.GetDetailText()
	d2 := vm.GetDetailText()
	after := canon(vm.Ret) + " " + canonAttrs(vm.Attrs) + " " + seedOf(vm)
	same := "1"
	if before != after {
		same = "0"
	}
	// asking for the text between two evaluations of one parsed program leaves the program's source alone: the second evaluation reports
	// the same Matched / RestInput as the first
	if vm.Matched != m1 || vm.RestInput != r1 || m1+r1 != src {
		same = "0"
	}
	idem := "1"
	if d1 != d2 {
		idem = "0"
	}
	return "ok " + canon(vm.Ret) + " d=" + hx(d1) + " m=" + hx(vm.Matched) + " idem=" + idem + " pure=" + same
}

func init() {
	handlers["detail"] = detailLine
	handlers["detailrerun"] = detailRerunLine
	handlers["detailobs"] = detailObsLine
}

// detailfail <cfg> <seed> <hexgood> <hexbad> : a successful run, its text read, then a run expected to fail; reports what is published after it
func detailFailLine(t []string) string {
	if len(t) != 5 {
		return "bad-op"
	}
	cfg, ok := parseCfg(t[1])
	good, ok2 := unhx(t[3])
	bad, ok3 := unhx(t[4])
	if !ok || !ok2 || !ok3 {
		return "bad-op"
	}
	vm, ok := newVM(cfg, t[2])
	if !ok {
		return "bad-op"
	}
	if err := vm.Run(good); err != nil {
		return "err-first " + hx(err.Error())
	}
	_ = vm.GetDetailText()
	err := vm.Run(bad)
	if err == nil {
		return "ok-second " + canon(vm.Ret)
	}
	return fmt.Sprintf("failed spans=%d d=%s", len(vm.DetailSpans), hx(vm.GetDetailText()))
}

func init() { handlers["detailfail"] = detailFailLine }

// rerunresume <cfg> <seed> <hexsrc> : Parse once; RunAfterParsed; GetDetailText; GetCurSeed; RunAfterParsed again — value and process text
// of the second evaluation  ||  the same from a fresh context seeded with the reported bytes that runs the text
func rerunResumeLine(t []string) string {
	if len(t) != 4 {
		return "bad-op"
	}
	cfg, ok := parseCfg(t[1])
	src, ok2 := unhx(t[3])
	if !ok || !ok2 {
		return "bad-op"
	}
	vm, ok := newVM(cfg, t[2])
	if !ok {
		return "bad-op"
	}
	return safely(func() string {
		if err := vm.Parse(src); err != nil {
			return "err " + hx(err.Error())
		}
		if err := vm.RunAfterParsed(); err != nil {
			return "err " + hx(err.Error())
		}
		_ = vm.GetDetailText()
		seed, err := vm.GetCurSeed()
		if err != nil {
			return "err-getcurseed"
		}
		if err := vm.RunAfterParsed(); err != nil {
			return "err " + hx(err.Error())
		}
		a := canon(vm.Ret) + " d=" + hx(vm.GetDetailText()) + " m=" + hx(vm.Matched) + " " + seedOf(vm)
		b := &ds.Context{}
		b.Seed = seed
		b.Init()
		b.Config = cfg
		if err := b.Run(src); err != nil {
			return a + " || err " + hx(err.Error())
		}
		return a + " || " + canon(b.Ret) + " d=" + hx(b.GetDetailText()) + " m=" + hx(b.Matched) + " " + seedOf(b)
	})
}

func init() { handlers["rerunresume"] = rerunResumeLine }
