/-
  C14 — the calculation-process text explains the result.  Property theorems only (model: DS/Model/Detail.lean,
  tied to makeDetailStr by the `detail` stream).
-/
import DS.Proofs.DetailLemmas

namespace DS.Props.C14
open DS.Detail

/-- spans that do not touch: each begins strictly after the previous one ends -/
def Separated : Int → List Span → Prop
  | _, [] => True
  | lastEnd, s :: rest => lastEnd < (s.b : Int) ∧ s.b ≤ s.e ∧ Separated (s.e : Int) rest

def single (s : Span) : Group := { b := s.b, e := s.e, tag := s.tag, spans := [s] }

/-- rolls that do not overlap are annotated one by one: every span becomes its own group, in order -/
theorem groupSpans_separated : ∀ (spans : List Span) (lastEnd : Int) (acc : List Group),
    Separated lastEnd spans → groupSpans spans lastEnd acc = acc.reverse ++ spans.map single := by
  intro spans
  induction spans with
  | nil => intro lastEnd acc _; simp [groupSpans]
  | cons s rest ih =>
    intro lastEnd acc h
    obtain ⟨h1, h2, h3⟩ := h
    simp only [groupSpans]
    have hgt : ((s.b : Int) > lastEnd) := h1
    have he : ((s.e : Int) > lastEnd) := by omega
    simp only [hgt, he, if_true]
    rw [ih (s.e : Int) _ h3]
    simp [single]

/-- the text that replaces one roll: its value followed by the bracketed annotation -/
def replacement (nGroups : Nat) (base : List Nat) (s : Span) : List Nat :=
  let exprText := if s.expr.isEmpty then base else s.expr
  let suffix0 := if s.exprSuffix.isEmpty then [61] else s.exprSuffix
  let (detail, suffix) := if !s.textOnly then ([91] ++ exprText, suffix0) else ([91], [])
  let detail := if !s.text.isEmpty && s.ret != s.text then detail ++ suffix ++ s.text else detail
  let detail :=
    if s.tag == "load" then
      if s.textOnly then (if !s.text.isEmpty then [91] ++ s.text else detail ++ [91, 45])
      else (let d := [91] ++ exprText
            if !s.text.isEmpty then d ++ [44] ++ s.text else d)
    else if s.tag == "load.computed" then detail ++ suffix ++ s.ret
    else detail
  let detail := detail ++ [93]
  let detail := if nGroups == 1 && detail == [91] ++ base ++ [93] then [] else detail
  let detail := if detail.length > 400 then utf8 "[略]" else detail
  s.ret ++ detail

/-- splicing one roll: everything before it, `value[annotation]`, everything after it — the bytes outside
    the roll's own extent are untouched -/
theorem renderGroup_single (buf : List Nat) (n : Nat) (s : Span) (h1 : s.b ≤ s.e) (h2 : s.e ≤ buf.length) :
    renderGroup buf n (single s) =
      some (buf.take s.b ++ replacement n ((buf.take s.e).drop s.b) s ++ buf.drop s.e) := by
  have hs1 : slice buf s.b s.e = some ((buf.take s.e).drop s.b) := by simp [slice, h1, h2]
  have hs2 : slice buf 0 s.b = some (buf.take s.b) := by
    have : s.b ≤ buf.length := by omega
    simp [slice, this]
  have hs3 : slice buf s.e buf.length = some (buf.drop s.e) := by simp [slice, h2]
  simp only [renderGroup, single, sortByEnd, insertByEnd, List.getLast?_singleton, subDetails, hs1, hs2, hs3]
  simp [replacement]

/-- for a plain dice roll whose text differs from its value the annotation is exactly
    `value[source=text]`: e.g. `7[2d6=3+4]` -/
theorem dice_annotation (n : Nat) (base ret text : List Nat) (hne : text ≠ []) (hd : ret ≠ text)
    (hlen : ([91] ++ base ++ [61] ++ text ++ [93]).length ≤ 400) :
    replacement n base { b := 0, e := 0, ret := ret, text := text, expr := [], tag := "dice", textOnly := false, exprSuffix := [] }
      = ret ++ ([91] ++ base ++ [61] ++ text ++ [93]) := by
  have h1 : text.isEmpty = false := by cases text <;> simp_all
  have h3 : (([91] ++ base ++ [61] ++ text ++ [93] : List Nat) == [91] ++ base ++ [93]) = false := by
    cases text with
    | nil => exact absurd rfl hne
    | cons x xs => simp
  have h4 : ¬ (([91] ++ base ++ [61] ++ text ++ [93] : List Nat).length > 400) := by omega
  simp only [replacement]
  simp [h1, hd]
  intro hh
  simp at hlen
  omega

/- non-vacuity: `2d6 + 1` with the roll 7 = 3+4 at bytes 0..3 -/
example : makeDetail [50, 100, 54, 32, 43, 32, 49] 7
    [{ b := 0, e := 3, ret := [55], text := [51, 43, 52], expr := [], tag := "dice", textOnly := false, exprSuffix := [] }]
    [56] = some [55, 91, 50, 100, 54, 61, 51, 43, 52, 93, 32, 43, 32, 49] := by decide

end DS.Props.C14
