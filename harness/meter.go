package main

import (
	"fmt"
	"time"

	ds "github.com/sealdice/dicescript"
)

// meter <cfg> <seed> <hexsrc> : one Run with the work meter (hook verif_meter_on.go) around it.
// "<ok VALUE|err MSG|panic MSG> ops=N disp=D rolls=R fates=F ms=T"   (value WITHOUT walking variables: no rendering cost)
func meterLine(t []string) (out string) {
	if len(t) != 4 {
		return "bad-op"
	}
	cfg, ok := parseCfg(t[1])
	src, ok2 := unhx(t[3])
	if !ok || !ok2 {
		return "bad-op"
	}
	vm, ok := newVM(cfg, t[2])
	if !ok {
		return "bad-op"
	}
	ds.VerifMeterReset()
	t0 := time.Now()
	head := ""
	func() {
		defer func() {
			if r := recover(); r != nil {
				head = "panic " + hx(fmt.Sprint(r))
			}
		}()
		if err := vm.Run(src); err != nil {
			head = "err " + hx(err.Error())
			return
		}
		// scalar results only: rendering a container is not part of the evaluation's work
		switch vm.Ret.TypeId {
		case ds.VMTypeInt, ds.VMTypeFloat, ds.VMTypeString, ds.VMTypeNull:
			s := vm.Ret.ToString()
			if len(s) > 200 {
				s = fmt.Sprintf("%s...(%d)", s[:200], len(s))
			}
			head = "ok " + hx(s)
		default:
			head = "ok " + hx("<"+vm.Ret.GetTypeName()+">")
		}
		head += " rest=" + hx(vm.RestInput)
	}()
	d, r, f := ds.VerifMeterRead()
	return fmt.Sprintf("%s ops=%d disp=%d rolls=%d fates=%d ms=%d", head, vm.NumOpCount, d, r, f, time.Since(t0).Milliseconds())
}

func init() {
	handlers["meter"] = meterLine
}
