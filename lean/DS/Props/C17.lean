/-
  C17 — extension points are transparent unless they act (theorems: see below; filled in by the custom-dice engine extension).
-/
import DS.Model.Peg

namespace DS.Props.C17
open DS.Peg

/-- with no custom parser registered the custom-dice predicate fails and leaves the state untouched -/
theorem no_parser_pred_false (env : Env) (s : PState) (a : Nat) (h : (env.acts[a]!).pred = .customDice) (he : (env.acts[a]!).effs = []) :
    evalPred env s a = (s, false) := by
  simp only [evalPred, h, he, List.foldl_nil]

end DS.Props.C17
