"""C19 — syntax errors point at the right place in the chosen language.

Proof: DS/Props/C19.lean — the engine's `read` bookkeeping against the line/column specification for every
input and every position (pos_within, pos_consistent, with the `\\n` exception proved as a witness), caret/quote
arithmetic, language shape of fmtErr.  Tie: `errfmt` stream — full error text of rejected inputs in the three
languages against the Lean model of read + formatFriendlyError/fmtErr/getLineAtBytes.
Oracle on the implementation: recompute line/column/quoted line/caret from the reported offset; language check.
"""
import re

from lib.common import Run, hx, unhx, go_child

CJK = "力量敏捷体质智力意志外貌教育幸运"
ATOMS = ["1", "23", "x", "力量", "d20", "2d6", "'ab'", "\"q\"", "`t{1}`", "[1,2]", "{'a':1}", "f(1)", "a.b", "1.5", "(3)", "null"]
OPS = ["+", "-", "*", "/", "%", "^", "==", "<", ">=", "&&", "||", "?", ":", ",", "＋", "－"]
OPEN = ["(", "[", "{", "'", "\"", "`", "f(", "[1,", "{'k':", "(1 +", "x = (", "if 1 {", "while 1 {", "func f(a) {"]
BAD = ["#", "@", "!", "~", ")", "]", "}", "\\", "。", "？", "\x00", "\x7f", "€", "😀", ";", "$", "="]


def rnd_ws(r):
    return r.choice(["", " ", "  ", "\n", " \n ", "\t", "\r\n", "\n\n"])


def rnd_expr(r, depth=0):
    if depth > 2 or r.random() < 0.4:
        return r.choice(ATOMS)
    return rnd_expr(r, depth + 1) + rnd_ws(r) + r.choice(OPS[:10]) + rnd_ws(r) + rnd_expr(r, depth + 1)


def gen_inputs(r, n):
    outs = []
    for _ in range(n):
        kind = r.randrange(10)
        if kind == 0:      # starts badly
            s = r.choice(BAD + OPS) + rnd_ws(r) + rnd_expr(r)
        elif kind == 1:    # open bracket never closed, possibly many lines
            s = r.choice(OPEN) + rnd_ws(r) + rnd_expr(r) + rnd_ws(r) + r.choice(["", r.choice(OPS), r.choice(BAD)])
        elif kind == 2:    # multi-line with multi-byte before the error
            lines = [rnd_expr(r) for _ in range(r.randint(1, 4))]
            s = "(" + "\n".join(lines[:-1] + [r.choice(CJK) * r.randint(0, 6) + " + " + r.choice(BAD)])
        elif kind == 3:    # long line
            s = "(" + r.choice(["a", "力", "1+"]) * r.randint(15, 50) + " " + r.choice(OPS) + " " + r.choice(BAD)
        elif kind == 4:    # error exactly at a newline rune
            s = r.choice(OPEN) + rnd_expr(r) + r.choice([".", " +", " *", ","]) + "\n" + r.choice([")", "]", "", "1"])
        elif kind == 5:    # invalid utf-8 bytes
            b = bytearray(("(" + rnd_expr(r)).encode())
            b.insert(r.randint(0, len(b)), r.choice([0x80, 0xff, 0xc0, 0xe4, 0xf5]))
            outs.append(bytes(b))
            continue
        elif kind == 6:    # operator then nothing inside brackets
            s = "(" + rnd_expr(r) + rnd_ws(r) + r.choice(OPS) + rnd_ws(r)
        elif kind == 7:    # keywords / statement errors
            s = r.choice(["(1 + if)", "break", "x = while", "if {", "(return + 1", "[continue", "`{%`", "`{ 1 + }`", "(else)"])
        elif kind == 8:    # mutate a valid expression: delete / insert a byte
            b = bytearray(("(" + rnd_expr(r) + ")").encode())
            if r.random() < 0.5 and len(b) > 1:
                del b[r.randrange(len(b))]
            else:
                b.insert(r.randrange(len(b) + 1), ord(r.choice("()[]{}'\"`#\n,+")))
            outs.append(bytes(b))
            continue
        else:
            s = r.choice(["", " ", "\n", "\n\n(", "  \n  #", "(", "[", "{", "'", "'''", "((((", "1 +\n+\n+ )"])
        outs.append(s.encode())
    return outs


def spec_linecol(data, off):
    """line = 1 + newlines before off; col = 1 + runes since the last newline (Go rune decoding)"""
    pre = data[:off]
    line = 1 + pre.count(b"\n")
    last = pre.rfind(b"\n")
    seg = pre[last + 1:]
    col = 1 + count_runes(seg)
    return line, col


def count_runes(b):
    """number of runes Go's decoder sees (invalid byte = one rune)"""
    i = n = 0
    while i < len(b):
        c = b[i]
        w = 1
        if c >= 0xC2:
            need = 2 if c < 0xE0 else 3 if c < 0xF0 else 4 if c < 0xF5 else 1
            if need > 1 and i + need <= len(b):
                try:
                    b[i:i + need].decode("utf-8")
                    w = need
                except UnicodeDecodeError:
                    w = 1
        n += 1
        i += w
    return n


HDR = {0: "语法错误 Syntax Error", 1: "语法错误", 2: "Syntax Error"}
EN_WORDS = re.compile(r"Syntax|Pos |Expression|Missing|Unclosed|Incomplete|Unexpected|Empty input")
CN_WORDS = re.compile(r"语法错误|位置|表达式|缺少|字符串未闭合|无法识别|输入为空|后需要")


def check_friendly(data, lang, text):
    """returns list of (clause, detail); data = input bytes, text = full error text (bytes)"""
    bad = []
    m = re.match(rb"(\d+):(\d+) \((\d+)\): ", text)
    if not m:
        return [("prefix-unparseable", "")]
    line, col, off = int(m.group(1)), int(m.group(2)), int(m.group(3))
    body = text[m.end():]
    if off > len(data):
        bad.append(("offset-outside-input", f"{off} > {len(data)}"))
        return bad
    sl, sc = spec_linecol(data, off)
    at_newline = data[off:off + 1] == b"\n"
    if (line, col) != (sl, sc):
        bad.append(("line/col-not-of-offset" + ("@newline-rune" if at_newline else ""), f"reported {line}:{col}, offset {off} is {sl}:{sc}"))
    parts = body.split(b"\n")
    if parts[0].decode("utf-8", "replace") != HDR[lang]:
        bad.append(("header-language", parts[0].decode("utf-8", "replace")))
    if len(data) > 0 and len(parts) < 6:
        bad.append(("context-shape", "the block quoting the line and pointing at the column is missing"))
        tail = parts[1:]
    elif len(data) > 0:
        # context block: "  |", "  |  <line>", "  |  <spaces>^", "  |"  — the quoted line may itself not contain \n
        q = parts[2][5:] if parts[2].startswith(b"  |  ") else None
        c = parts[3][5:] if parts[3].startswith(b"  |  ") else None
        if parts[1] != b"  |" or q is None or c is None or parts[4] != b"  |":
            bad.append(("context-shape", ""))
        else:
            src_lines = data.split(b"\n")
            want = src_lines[sl - 1] if 1 <= sl <= len(src_lines) else data
            long_line = len(want) > 60
            if q != (want[:57] + b"..." if long_line else want):
                # the engine's own line number is what getLineAtBytes uses: accept that only as the newline finding
                bad.append(("quoted-line-not-the-line-of-offset" + ("@newline-rune" if at_newline else ""), q.decode("utf-8", "replace")[:80]))
            if not re.fullmatch(rb" *\^", c):
                bad.append(("caret-shape", ""))
            else:
                ncaret = len(c) - 1
                if ncaret != max(sc - 1, 0):
                    bad.append(("caret-not-under-column" + ("@newline-rune" if at_newline else ""), f"caret at {ncaret}, column {sc}"))
                if long_line and (ncaret > count_runes(q) or q != want):
                    bad.append(("long-line-quote-truncated-caret-beyond@long-line", f"line {len(want)} bytes, caret {ncaret}"))
        tail = parts[5:]
    else:
        tail = parts[1:]
    tail_txt = b"\n".join(tail).decode("utf-8", "replace")
    # strip the one quoted character the templates embed
    t2 = re.sub(r"'.'", "''", tail_txt, flags=re.S)
    if lang == 1 and EN_WORDS.search(t2):
        bad.append(("english-in-chinese-mode", tail_txt[:80]))
    if lang == 2 and CN_WORDS.search(t2):
        bad.append(("chinese-in-english-mode", tail_txt[:80]))
    want_pos = {1: rf"  位置 {line}:{col} - .+", 2: rf"  Pos {line}:{col} - .+",
                0: rf"  位置 {line}:{col} - .+\n  Pos {line}:{col} - .+"}[lang]
    if not re.fullmatch(want_pos, tail_txt, flags=re.S):
        bad.append(("position-line-shape", tail_txt[:80]))
    return bad


def main(tier):
    run = Run("C19", tier, module="DS.Props.C19", props_file="DS/Props/C19.lean",
              extra_files=["DS/Proofs/ErrFmtLemmas.lean", "DS/Model/ErrFmt.lean"])
    if run.prepare():
        run.proofs()
        r = run.rng
        inputs = gen_inputs(r, 6000 if tier == "thorough" else 1200)
        corpus = [b"(1 + 2\n", b"[1, 2,\n\n", b"\n", b"(1 + 2.\n\n3)", b"(\n\n", b"{'a':\n", b"1 +\n\n\n", b"(1\n\n +", b"(1 + ", b"(1.\n)", b"", b"#", b"'abc", b"{'a': 1", b"\x00", b"(" + b"a" * 70 + b" + )",
                  "(力量力量力量力量力量力量力量力量力量力量力量力量力量力量力量力量力量力量力量力量力量 + )".encode(), b"(1 +\n\n  2 +\n ]"]
        for ln in (57, 58, 59, 60, 61, 62):
            corpus.append(b"(" + b"a" * (ln - 5) + b" + )")          # a quoted line of exactly ln bytes
            corpus.append(b"1;\n(" + "力".encode() * ((ln - 4) // 3) + b"x" * ((ln - 4) % 3) + b" +)")
        inputs = corpus + inputs
        lines = [f"errparse E{lang} {hx(d)}" for d in inputs for lang in (0, 1, 2)]
        out = run.go_only("errparse", lines, go_timeout=300)
        phase2 = []
        for i, d in enumerate(inputs):
            for lang in (0, 1, 2):
                g = out[3 * i + lang][1]
                if g == "ok":
                    run.count("accepted")
                    continue
                if not g.startswith("err "):
                    run.count("errparse.crashed")      # crashes belong to C01
                    continue
                text = unhx(g.split()[1])
                m = re.match(rb"(\d+):(\d+) \((\d+)\): (\xe8\xaf\xad\xe6\xb3\x95\xe9\x94\x99\xe8\xaf\xaf|Syntax Error)", text)
                if not m:
                    run.count("raw-engine-error")
                    ttxt = text.decode("utf-8", "replace")
                    # an error raised by the engine itself (invalid encoding, an action's own error) still names a place: the line
                    # and column it prints are those of the offset it prints, and an encoding error points AT the undecodable byte
                    mp = re.match(rb"(\d+):(\d+) \((\d+)\): ", text)
                    if mp and int(mp.group(3)) <= len(d):
                        pl, pc, po = int(mp.group(1)), int(mp.group(2)), int(mp.group(3))
                        run.nontriv((d, lang, "raw"))
                        rep = {"input_hex": d.hex(), "input": d.decode("utf-8", "replace"), "lang": lang, "text": ttxt[:300]}
                        if (pl, pc) != spec_linecol(d, po):
                            if d[po:po + 1] == b"\n":
                                run.known_finding("C19-position-of-newline-rune", dict(rep, clause="engine-error line/col-not-of-offset@newline-rune"))
                            else:
                                run.violation("errfmt:engine-error-line/col-not-of-offset",
                                              dict(rep, detail=f"reported {pl}:{pc}, offset {po} is {spec_linecol(d, po)}"))
                        if b"invalid encoding" in text.split(b"\n")[0] and count_runes(d[po:po + 4]) == count_runes(d[po + 1:po + 4]) + 1 \
                                and po < len(d):
                            try:
                                d[po:].decode("utf-8")
                                run.violation("errfmt:encoding-error-not-at-an-undecodable-byte", rep)
                            except UnicodeDecodeError as e:
                                if e.start != 0:
                                    run.violation("errfmt:encoding-error-not-at-an-undecodable-byte", dict(rep, detail=f"first bad byte is {e.start} further"))
                    if (lang == 2 and CN_WORDS.search(ttxt) or re.search(r"[一-鿿]", re.sub(r"rule \S+", "", ttxt)) and lang == 2) or \
                       (lang == 1 and re.search(r"not allowed|invalid encoding|no match", ttxt)):
                        run.known_finding("C19-action-errors-ignore-language", {"input": d.decode("utf-8", "replace"), "lang": lang, "text": ttxt[:200]})
                    continue
                run.count("friendly")
                run.nontriv((d, lang))
                for clause, detail in check_friendly(d, lang, text):
                    rep = {"input_hex": d.hex(), "input": d.decode("utf-8", "replace"), "lang": lang,
                           "text": text.decode("utf-8", "replace"), "clause": clause, "detail": detail}
                    if "@newline-rune" in clause:
                        run.known_finding("C19-position-of-newline-rune", rep)
                    elif "@long-line" in clause:
                        run.known_finding("C19-long-line-quote-truncated", rep)
                    else:
                        run.violation("errfmt:" + clause, rep)
                phase2.append(f"errfmt {lang} {hx(d)} {int(m.group(3))}")
        run.diff_stream("errfmt", phase2, go_timeout=300)
        run.sample({"stream": "errfmt", "input": inputs[0].decode(), "case": phase2[0] if phase2 else ""})
        run.sample({"stream": "errfmt", "input": inputs[len(inputs) // 2].decode("utf-8", "replace")})
        # ---- the language is the one configured NOW: a VM that already reported errors in one language, then has its configuration edited
        #      (or copied to another VM and edited there), reports in the new one — exactly the text a fresh VM gives
        BAD = ["(1 + ", "1 +* 2", "", "[1,", "'abc", "{'a': 1", "x = ", "if 1 {", "`a{1", "1 ? 2 :", "#", "(1.\n)"]
        ll, lm = [], []
        for l1 in (0, 1, 2):
            for l2 in (0, 1, 2):
                if l1 == l2:
                    continue
                for s2 in BAD:
                    s1 = r.choice(BAD + ["1+1", "2d6"])
                    ll.append(f"errlangseq {l1} {hx(s1)} {l2} {hx(s2)}")
                    lm.append((l1, s1, l2, s2))
        lo = go_child().run(ll)
        for (l1, s1, l2, s2), o in zip(lm, lo):
            run.evaluations += 1
            run.count("language-after-edit.cases")
            parts = o.split(" || ")
            if len(parts) != 3:
                run.violation("errfmt:language-sequence-crashed", {"first_language": l1, "first_input": s1, "language": l2, "input": s2, "implementation": o[:300]})
            elif parts[0] != parts[2] or parts[1] != parts[2]:
                dec = [unhx(x).decode("utf-8", "replace") if x != "-" else None for x in parts]
                run.violation("errfmt:message-not-in-the-language-configured-now", {"first_language": l1, "first_input": s1, "language": l2, "input": s2,
                                                                                     "same_vm_after_edit": dec[0], "other_vm_with_copied_config": dec[1], "fresh_vm": dec[2]})
            else:
                run.nontriv(("langseq", l1, l2, s2))
        # ---- … and it is the CONTEXT's: what some other part of the host set through the package-level SetParseErrorLanguage does not
        #      reach a context, whichever of the three settings the context has (the default one included), also through RunExpr
        gl = [(g_, v_, s_) for g_ in (0, 1, 2) for v_ in (0, 1, 2) if g_ != v_ for s_ in BAD[:7]]
        go_ = go_child().run([f"errlangglobal {g_} {v_} {hx(s_)}" for g_, v_, s_ in gl])
        for (g_, v_, s_), o in zip(gl, go_):
            run.evaluations += 1
            parts = o.split(" || ")
            if len(parts) != 3:
                run.violation("errfmt:language-sequence-crashed", {"package_level_language": g_, "language": v_, "input": s_, "implementation": o[:300]})
            elif parts[0] != parts[2] or (parts[1] != parts[2] and s_ != ""):
                dec = [unhx(x).decode("utf-8", "replace") if x != "-" else None for x in parts]
                run.violation("errfmt:message-language-taken-from-package-level-state", {"package_level_language": g_, "language": v_, "input": s_,
                              "under_foreign_package_setting": dec[0], "through_RunExpr": dec[1], "package_setting_at_default": dec[2]})
            else:
                run.nontriv(("langglobal", g_, v_, s_))
    return run.finish(
        trusted=["Lean 4.33 kernel", "axioms: propext, Classical.choice, Quot.sound", "Go harness + Lean driver",
                 "which offset the packrat engine reports (maxFailPos) is taken from the implementation; the theorems cover every "
                 "position the engine can hold"],
        rule="rejected inputs: bad first characters, unclosed brackets/strings/blocks, operators without operand, multi-line with "
             "multi-byte text before the error, lines longer than 60 bytes, errors at a newline rune, invalid UTF-8, keyword and "
             "statement errors, byte-level mutations of valid expressions; each in the three language settings; non-trivial = "
             "rejected with a friendly error; distinct by (input, language)",
        assumptions=["concurrent language isolation is C11's subject (package-level parseErrorLanguage)"])
