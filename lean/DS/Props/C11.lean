/-
  C11 — independent VMs behave exactly as when run alone.  Property theorems only.
  (Data races in the Go memory-model sense are outside an executable model: the check runs the concurrent
  stream under the race detector as supporting validation.)
-/
import DS.Model.Conc
import DS.Gen.Globals

namespace DS.Props.C11
open DS.Conc

variable {G L : Type}

/-- Isolation, for EVERY number of VMs and EVERY interleaving: if no step of any VM changes the package-level
    state, then after any schedule each VM's local state is exactly what it reaches running alone for the
    number of steps it was given, and the package-level state is untouched. -/
theorem isolation (step : Nat → Step G L) (hro : ∀ i g l, (step i g l).1 = g) :
    ∀ (sched : List Nat) (g : G) (ls : Nat → L),
      (runSched step sched g ls).1 = g ∧
      ∀ i, (runSched step sched g ls).2 i = (runAlone (step i) (sched.count i) g (ls i)).2 := by
  intro sched
  induction sched with
  | nil => intro g ls; exact ⟨rfl, fun i => rfl⟩
  | cons j rest ih =>
    intro g ls
    simp only [runSched]
    have hg : (step j g (ls j)).1 = g := hro j g (ls j)
    rw [hg]
    obtain ⟨ih1, ih2⟩ := ih g (fun k => if k = j then (step j g (ls j)).2 else ls k)
    refine ⟨ih1, ?_⟩
    intro i
    rw [ih2 i]
    by_cases hij : i = j
    · subst hij
      simp only [List.count_cons_self, runAlone, if_true]
      rw [hg]
    · have : List.count i (j :: rest) = List.count i rest := by
        rw [List.count_cons]; simp [Ne.symm hij]
      simp only [hij, if_false, this]

/-- the converse situation, kept as the witness of the repaired defect: when a step writes the shared
    state (every Parse wrote the language), a VM can observe another VM's value.  VM 0 (language 1) sets the
    global, VM 1 (language 2) sets it, then VM 0 renders: it renders in language 2. -/
theorem KF_shared_language_witness :
    ((runSched (fun i => langStep (i + 1)) [0, 1, 0] 0 (fun _ => (0, 99))).2 0).2 = 2 ∧
    ((runAlone (langStep 1) 2 0 (0, 99)).2).2 = 1 := by
  constructor <;> decide

open DS.Gen.Globals

/-- REGENERATED FACT: the only assignments to package-level variables are the init-time hook registration and
    the public language setter … -/
theorem assignments_are_init_or_setter :
    (touches.filter (fun t => t.2.2 == "assign")) =
      [("ErrorFormatter", "init", "assign"), ("parseErrorLanguage", "SetParseErrorLanguage", "assign")] := by decide

/-- … and nothing in the library calls that setter (Parse no longer does) -/
theorem setter_not_called_by_library :
    (callersOfWriters.filter (fun c => c.1 == "SetParseErrorLanguage")) = [] := by decide

/-- REGENERATED FACT: the one mutable package-level setting (the legacy default language) is READ only by the legacy
    package-level formatter — the per-VM formatter that Parse installs never looks at it, so no VM's messages depend on
    what another VM, or the host through the public setter, did to the package-level value -/
theorem shared_language_read_only_by_legacy_formatter :
    (touches.filter (fun t => t.1 == "parseErrorLanguage" && t.2.2 == "mention")).map (fun t => t.2.1) =
      ["formatFriendlyError"] := by decide

/-- REGENERATED FACT: the package has exactly these package-level variables — the generated parser's tables and sentinel errors, the
    builtin tables (written at init only), the message table, the legacy language default and the locked fallback generator.  A new
    package-level variable (a cache, a pool, a registry) is shared by every VM and has to be argued for here. -/
theorem package_level_state_is_known :
    globals.map (fun g => g.1) =
      ["ErrorFormatter", "binOperator", "builtinProto", "builtinValues", "errInvalidEncoding", "errInvalidEntrypoint", "errMaxExprCnt", "errMaxParseDepth",
       "errMsgs", "errNoRule", "expungedValueMap", "g", "nnf", "parseErrorLanguage", "randSource", "randSourceMu"] := by decide

/-- REGENERATED FACT: the package-level random source is only used by Roll (fallback for unseeded contexts) and
    GetCurSeed, and both take randSourceMu -/
theorem global_source_is_locked :
    (touches.filter (fun t => t.1 == "randSource")).map (fun t => t.2.1) = ["GetCurSeed", "Roll"] ∧
    lockHolders.contains ("Roll", "randSourceMu") = true ∧ lockHolders.contains ("GetCurSeed", "randSourceMu") = true := by
  decide

/-- REGENERATED FACT: the shared builtin tables are never assigned after package initialisation (they are only
    mentioned — read — by lookups; `_init`/`_init2` run at package init) -/
theorem builtin_tables_read_only :
    (touches.filter (fun t => (t.1 == "builtinValues" || t.1 == "builtinProto") && t.2.2 != "mention")) = [] := by decide

end DS.Props.C11
