"""What MANIFEST.json claims, per property. Edited by hand; bin/mkmanifest renders it."""
TB = ("Trusted: Lean 4.33 kernel; axioms propext/Classical.choice/Quot.sound only (audited per theorem on every run); "
      "no native_decide/sorry; the Go harness + Lean line driver that produce the two sides of each correspondence "
      "stream. Theorems are statements about the Lean model; they transfer to /repo as far as the streams exercise the tie. ")

CLAIMS = {
    "C05": {
        "text": "For every side count n (unbounded) the model's _roll64 is proved to return (first word below the acceptance "
                "bound) mod n + 1, the acceptance bound is a multiple of n so every face has exactly the same number of "
                "accepted words (no modulo bias), results lie in 1..n, and successive dice consume disjoint stream segments. "
                "The model is tied to roll_func.go on every run by the roll stream with first words forced onto every boundary "
                "of the acceptance rule and forced rejections.",
        "note": TB + "PCG-128's statistical quality is trusted (its step/output function is modelled exactly and tied by the "
                     "rng stream). _roll32 is dead code on 64-bit builds and not modelled.",
        "technique": "Lean 4 theorems on an executable model of _roll64/Roll + differential correspondence stream",
    },
}

NOT_YET = {}
