/-
  Statement sequences of the fragment: `s1; s2; …; sn` compiles to the concatenation of the statements' code (every statement leaves its
  value on the stack — the real compiler emits no pop between statements) and the program's value is the last statement's.
-/
import DS.Proofs.FragCompile

namespace DS.Frag
open DS.VM

/-- after a statement sequence: one value per statement on top of the untouched stack, the last one on top -/
structure AfterS (f f' : Frame) (pc' : Nat) (n : Nat) (v : Val) : Prop where
  code : f'.code = f.code
  ctx : f'.ctx = f.ctx
  pc : f'.pc = pc'
  top : f'.top = f.top + n
  val : f'.stack[f'.top - 1]! = v
  size : f'.stack.size = f.stack.size

theorem run_stmts (z : Bool) (env : Nat) : ∀ (ss : List F) (g : G) (f : Frame), ss ≠ [] → CodeAt f.code f.pc (compileS ss) → Ready z g f →
    ctxAttrs g f.ctx = env → f.top + depthS ss < stackSize →
    (match evalS z env g.heap ss with
     | (h', .ok v) => ∃ k g' f', Runs k g f g' f' ∧ AfterS f f' (f.pc + (compileS ss).length) ss.length v ∧ g'.cfg = g.cfg ∧ g'.heap = h'
     | (h', .err m) => ∃ k g', Fails k g f g' m ∧ g'.heap = h'
     | _ => True) := by
  intro ss
  induction ss with
  | nil => intro g f hne; exact absurd rfl hne
  | cons e r ih =>
    intro g f _ hc hr henv hroom
    cases r with
    | nil =>
      simp only [compileS, List.append_nil, depthS] at hc hroom
      have h1 := run_compile z env e g f hc hr henv (by omega)
      simp only [evalS, compileS, List.append_nil, List.length_singleton]
      cases hev : evalF z env g.heap e with
      | mk h' res =>
        rw [hev] at h1
        cases res with
        | ok v =>
          obtain ⟨k, g', f', hruns, haft, hcfg, hheap, _⟩ := h1
          refine ⟨k, g', f', hruns, ⟨haft.code, haft.ctx, haft.pc, haft.top, ?_, haft.size⟩, hcfg, hheap⟩
          have : f'.top - 1 = f.top := by rw [haft.top]; omega
          rw [this, haft.val]
        | err m => exact h1
        | panic _ => trivial
        | unsup _ => trivial
        | diverge => trivial
    | cons e2 r2 =>
      simp only [compileS, depthS] at hc hroom
      have hce : CodeAt f.code f.pc (compile e) := hc.append_left
      have hcr := hc.append_right
      have h1 := run_compile z env e g f hce hr henv (by omega)
      simp only [evalS]
      cases hev : evalF z env g.heap e with
      | mk h1' res =>
        rw [hev] at h1
        cases res with
        | ok v1 =>
          obtain ⟨k1, g1, f1, hrun1, haft1, hcfg1, hheap1, hctx1⟩ := h1
          have hr1 : Ready z g1 f1 := ⟨by rw [hcfg1]; exact hr.nolimit, by rw [hcfg1]; exact hr.div0, by rw [haft1.size]; exact hr.size⟩
          have h2 := ih g1 f1 (by simp) (by rw [haft1.code, haft1.pc]; exact hcr) hr1 (by rw [hctx1, haft1.ctx]; exact henv)
            (by rw [haft1.top]; simp only [depthS]; omega)
          rw [hheap1] at h2
          simp only
          cases hes : evalS z env h1' (e2 :: r2) with
          | mk h2' res2 =>
            rw [hes] at h2
            cases res2 with
            | ok v =>
              obtain ⟨k2, g2, f2, hrun2, haft2, hcfg2, hheap2⟩ := h2
              refine ⟨k2 + k1, g2, f2, hrun1.trans hrun2, ?_, by rw [hcfg2, hcfg1], hheap2⟩
              refine ⟨by rw [haft2.code, haft1.code], by rw [haft2.ctx, haft1.ctx], ?_, ?_, haft2.val, by rw [haft2.size, haft1.size]⟩
              · rw [haft2.pc, haft1.pc]; simp only [compileS, List.length_append]; omega
              · rw [haft2.top, haft1.top]; simp only [List.length_cons]; omega
            | err m =>
              obtain ⟨k2, g2, hf2, hheap2⟩ := h2
              exact ⟨k2 + k1, g2, hrun1.fails hf2, hheap2⟩
            | panic _ => trivial
            | unsup _ => trivial
            | diverge => trivial
        | err m =>
          obtain ⟨k1, g1, hf1, hheap1⟩ := h1
          exact ⟨k1, g1, hf1, hheap1⟩
        | panic _ => trivial
        | unsup _ => trivial
        | diverge => trivial

end DS.Frag
