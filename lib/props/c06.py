"""C06 — seeded evaluation is reproducible and resumable.

Proof: DS/Props/C06.lean — seed codec round trip, resume theorem on the generator, and REGENERATED facts (decide over
DS/Gen/RngSites.lean, re-extracted from /repo on every run): every Roll* call passes the context's source, no
package-level rand function is used, sub-VMs inherit the source unconditionally, Init seeds from Seed.
Tie: rng stream (PCG words + marshalled state).  Search/oracle on the implementation: replay-twice with global and
foreign-VM activity in between, resume through GetCurSeed, re-seeding a used context.
"""
import re

from lib.common import Run, hx, unhx

FAMILIES = [
    ("", "2d6"), ("", "d20"), ("", "4d6k3"), ("", "3d10kl1"), ("", "d"), ("", "2d"), ("", "d优势"),
    ("c", "b2"), ("c", "p"), ("f", "f"), ("w", "5a8"), ("w", "4a6k5m8"), ("d", "4c8"), ("d", "3c7m12"),
    ("", "[1,2,3,4,5,6,7,8].shuffle()"), ("", "[1,2,3,4,5,6,7,8].rand()"), ("", "[1,2,3,4,5,6,7,8].randSize(3)"),
    ("", "func f1(){2d100}; f1()"), ("", "func g1(){3d50}; func g2(){g1()+d1000}; g2()+d1000000"),
    ("", "func r1(n){ if n <= 0 { return d1000 }; return r1(n-1) + d1000 }; r1(3)"),
    ("", "&cv = 2d1000; cv + cv"), ("", "&cw = d1000; func h1(){cw + d1000}; h1()"),
    ("", "`{2d100}-{d100}`"), ("", "d1000000 > 500000 ? d100 : d10000"),
    # a computed value with dice defined AND read inside a function body; the random array methods inside functions / computed values
    ("", "func fc1(){ &xc = d1000000000; [xc,xc,xc] }; fc1()"), ("", "func fr1(){ [1,2,3,4,5,6,7,8].rand() + d1000 }; fr1()"),
    ("", "&cr1 = [1,2,3,4,5,6,7,8].randSize(3); [cr1, cr1]"), ("", "func fs1(){ [1,2,3,4,5,6,7,8].shuffle() }; [fs1(), fs1()]"),
    ("", "func fo1(){ func fi1(){ [1,2,3,4,5,6,7,8].rand() }; fi1() + fi1() }; fo1()"),
    # a computed value / function that reads a name nobody has set: what other contexts' computed bodies assigned is not its business
    ("", "&hit = d(sq ?? 1000) + (sr ?? 0); hit + hit"), ("", "func rf1(){ d(sq ?? 500) + d(st2 ?? 700) }; rf1()"), ("", "&hu = d(sr ?? 900); &hv = hu + d(sq ?? 30); hv"),
    # dict iteration is part of the evaluation: its order may not vary from run to run
    ("", "mp = {'b':1,'a':2,'c':3,'力':4,'z9':5,'_k':6}; [mp.keys(), mp.values(), `{mp}`, mp.values().rand(), mp.keys().shuffle()]"),
    ("", "dq = {}; dq.x1 = d100; dq.a = d100; dq.m = d100; dq.items()"), ("", "[dir([1]), dir({})]"),
]


def gen_common(r):
    """an XdY term in any spelling: sides written or left out, keep/drop modifier, min/max clamp"""
    n = r.randint(2, 6)
    t = str(n) + r.choice("dD") + r.choice(["", "", "6", "20", "100"])
    if r.random() < 0.5:
        t += r.choice(["k", "kh", "kl", "dh", "dl", "q"]) + str(r.randint(1, n))
    if r.random() < 0.6:
        t += r.choice(["min", "max"]) + str(r.randint(1, 12))
    return ("", t)


def gen_prog(r):
    k = r.randint(1, 3)
    picks = [gen_common(r) if r.random() < 0.3 else r.choice(FAMILIES) for _ in range(k)]
    cfg = "".join(sorted(set("".join(p[0] for p in picks))))
    src = "; ".join(p[1] for p in picks)
    # function/computed names must be unique per program
    return cfg, src


def outcome_key(s):
    """strip nothing: value, detail, rest, ops and final seed all have to match"""
    return s


def main(tier):
    run = Run("C06", tier, module="DS.Props.C06", props_file="DS/Props/C06.lean",
              extra_files=["DS/Model/Rng.lean"])
    if not run.prepare():
        return run.finish(trusted=[], rule="build failed")
    run.proofs()
    r = run.rng
    # ---- rng stream (PCG + marshal)
    lines = [f"rng {r.getrandbits(128):032x} {r.randint(1, 8)}" for _ in range(400 if tier == "thorough" else 100)]
    lines += ["rng " + "0" * 32 + " 3", "rng " + "f" * 32 + " 3"]
    run.diff_stream("rng", lines)
    # ---- replay twice with noise in between
    n = 400 if tier == "thorough" else 120
    progs = [gen_prog(r) for _ in range(n)]
    for fam in FAMILIES:                      # every family at least once on its own
        progs.append(fam)
    lines = []
    meta = []
    for cfg, src in progs:
        seed = f"{r.getrandbits(128):032x}"
        if r.random() < 0.2:
            # seed bytes of any other length (the empty slice included) are seed bytes too
            k = r.choice([0, 1, 4, 8, 15, 17, 24, 32])
            seed = "S" + "".join(f"{r.getrandbits(8):02x}" for _ in range(k))
        mode = r.choice(("", "", "", "m", "M"))
        if mode == "M" and ("w" in cfg or "d" in cfg):
            mode = "m"        # max-mode exploding pools never terminate (C07's subject)
        # the names the noise assigns are this case's own (the process is long-lived: what an EARLIER case's noise left behind in shared
        # state would already be there at the first of the two runs and hide the difference)
        uq = str(len(meta))
        src = re.sub(r"\b(sq|sr|st2)\b", lambda m_: m_.group(1) + "n" + uq, src)
        a = f"runseq {cfg}{mode},L300000 {seed} {hx(src)}"
        noise_src = '10d10 + 3a8 + 3c8 + b2 + f; [1,2,3,4].shuffle(); &tq = sq = 2; tq; &tw = sr = 3; tw + tw; &tx = st2 = 5; tx; func nf1() { sq = 4 }; nf1()'
        noise_u = re.sub(r"\b(sq|sr|st2)\b", lambda m_: m_.group(1) + "n" + uq, noise_src)
        noise1 = f"runseq wcfd,L300000 - {hx(noise_u)}"
        noise2 = f"runseq wcfd,L300000 {r.getrandbits(128):032x} {hx('5d10 + [1,2,3].rand()')}"
        lines += [a, noise1, noise2, a]
        meta.append((cfg, src, seed, mode))
    out = run.go_only("replay", lines, go_timeout=120)
    for i, (cfg, src, seed, mode) in enumerate(meta):
        g1, g2 = out[4 * i][1], out[4 * i + 3][1]
        run.nontriv(("replay", src, seed))
        if g1.startswith(("panic", "died")) or g2.startswith(("panic", "died")):
            run.count("replay.crashed")     # crashes are C01's subject
            continue
        if g1 != g2:
            run.violation("not-reproducible", {"cfg": cfg + mode, "seed": seed, "source": src,
                                               "first": g1[:300], "second_after_unrelated_activity": g2[:300]})
    run.sample({"oracle": "replay", "source": meta[0][1], "seed": meta[0][2]})
    # ---- resume through GetCurSeed
    lines = []
    meta = []
    for _ in range(300 if tier == "thorough" else 80):
        c1, p = gen_prog(r)
        c2, q = gen_prog(r)
        if any(tok in p and tok in q for tok in ("f1", "g1", "r1", "cv", "cw", "h1", "fc1", "fr1", "cr1", "fs1", "fo1")):
            continue
        cfg = "".join(sorted(set(c1 + c2)))
        seed = f"{r.getrandbits(128):032x}"
        lines.append(f"resume {cfg},L300000 {seed} {hx(p)} {hx(q)}")
        meta.append((cfg, seed, p, q))
    out = run.go_only("resume", lines, go_timeout=120)
    for (cfg, seed, p, q), (ln, g) in zip(meta, out):
        run.nontriv(("resume", p, q, seed))
        parts = g.split(" || ")
        if len(parts) != 2:
            run.count("resume.crashed")
            continue
        if parts[0] != parts[1]:
            run.violation("resume-diverges", {"cfg": cfg, "seed": seed, "first_program": p, "second_program": q,
                                              "continuous": parts[0][:300], "resumed_from_GetCurSeed": parts[1][:300]})
    # ---- the second evaluation of a program parsed once: its value AND its process text are those of a fresh context resumed from the
    # seed reported after the first evaluation (nothing of the first evaluation's text is handed out again)
    rl = []
    for _ in range(150 if tier == "thorough" else 50):
        parts = [r.choice(("3d6", "d20", "2d10k1", "4d6kh3", "d100", "2d8 + 1", "d1000")) for _i in range(r.randint(1, 3))]
        rl.append(f"rerunresume -,L300000 {r.getrandbits(128):032x} {hx(' + '.join(parts) + r.choice(('', ' + 2', ' tail')))}")
    # a computed-value literal whose text assigns a name: what one evaluation left in the value's attributes is not in the program
    for src_ in ("&k = n = (n ?? 0) + d6; k", "&k = (m = (m ?? 0) + 1) + d20; k + k", "func mk() { &k = n = (n ?? 0) + d6; k }; mk() + mk()",
                 "i = 0; r = []; while i < 3 { i = i + 1; &k = n = (n ?? 0) + d4; r.push(k) }; r"):
        rl.append(f"rerunresume -,L300000 {r.getrandbits(128):032x} {hx(src_)}")
    for ln, g in run.go_only("rerun-resume", rl, go_timeout=120):
        parts = g.split(" || ")
        run.nontriv(("rerunresume", ln))
        if len(parts) != 2:
            run.count("rerunresume.not-run")
            continue
        if parts[0] != parts[1]:
            run.violation("second-evaluation-differs-from-a-resumed-context", {"source": unhx(ln.split()[3]).decode(), "seed": ln.split()[2],
                                                                               "second_evaluation": parts[0][:300], "resumed_from_GetCurSeed": parts[1][:300]})
    # ---- re-seeding a used context
    lines = []
    meta = []
    for _ in range(100 if tier == "thorough" else 30):
        c1, p = gen_prog(r)
        c2, q = gen_prog(r)
        cfg = "".join(sorted(set(c1 + c2)))
        s1, s2 = f"{r.getrandbits(128):032x}", f"{r.getrandbits(128):032x}"
        lines.append(f"reinit {cfg},L300000 {s1} {s2} {hx(p)} {hx(q)}")
        meta.append((cfg, s1, s2, p, q))
    out = run.go_only("reinit", lines, go_timeout=120)
    for (cfg, s1, s2, p, q), (ln, g) in zip(meta, out):
        run.nontriv(("reinit", p, q, s1, s2))
        parts = g.split(" || ")
        if len(parts) != 2:
            run.count("reinit.crashed")
            continue
        if parts[0] != parts[1]:
            run.violation("reseeded-context-differs-from-fresh", {"cfg": cfg, "seed1": s1, "seed2": s2, "first_program": p,
                                                                  "second_program": q, "reseeded": parts[0][:300], "fresh": parts[1][:300]})
    # ---- where a die is rolled does not matter: inside a function, a nested function, a computed value or directly, the k-th die of
    #      an evaluation is the k-th draw of the context's generator
    D = "d1000000"
    WRAPS = [f"func r1(){{ {D} }}; [r1(), r1(), {D}, r1()]", f"&cv = {D}; [cv, cv, {D}, cv]", f"func r1(){{ {D} }}; func r2(){{ r1() }}; [r2(), {D}, r1(), r2()]",
             f"func r1(){{ {D} }}; &cv = r1(); [cv, r1(), cv, {D}]", f"x = [0,0,0,0]; i = 0; while i < 4 {{ x[i] = {D}; i = i + 1 }}; x",
             f"func r1(n){{ n > 0 ? r1(n - 1) : {D} }}; [r1(0), r1(2), {D}, r1(1)]", f"[{D}, ({D}), -(0-{D}), 0 + {D}]", f"[1 ? {D} : 0, 0 ? 0 : {D}, 0 || {D}, null ?? {D}]"]
    lines, meta = [], []
    for w in WRAPS:
        for _ in range(4 if tier == "thorough" else 2):
            seed = f"{r.getrandbits(128):032x}"
            lines += [f"runseq L300000 {seed} {hx(f'[{D}, {D}, {D}, {D}]')}", f"runseq L300000 {seed} {hx(w)}"]
            meta.append((w, seed))
    out = run.go_only("wrapped-dice", lines, go_timeout=120)
    for i, (w, seed) in enumerate(meta):
        a, b = out[2 * i][1], out[2 * i + 1][1]
        run.nontriv(("wrap", w, seed))
        fa, fb = a.split(), b.split()
        sa = re.search(r" seed=(\S+)", a)
        sb = re.search(r" seed=(\S+)", b)
        if len(fa) < 2 or len(fb) < 2 or fa[0] != "ok" or fb[0] != "ok":
            run.count("wrap.not-ok")
        elif " ".join(fa[1:5]) != " ".join(fb[1:5]) or (sa and sb and sa.group(1) != sb.group(1)):
            run.violation("dice-inside-a-body-do-not-follow-the-context-generator", {"seed": seed, "plain": a[:300], "program": w, "wrapped": b[:300]})
    # ---- a draw that was made stays made: a statement run through RunExpr that rolls and then FAILS has consumed its draws; the next die
    #      of the context is the next draw of the stream
    lines, meta = [], []
    for body in (f"kept = {D}; 1/0", f"{D} + nosuch.x.y", f"[{D}, {D}][5]", f"kept = {D}; kept.foo()", f"{D}; 'a' - 1"):
        ndraw = body.count(D)
        for _ in range(3 if tier == "thorough" else 2):
            seed = f"{r.getrandbits(128):032x}"
            lines += [f"lazyseq L300000 {seed} none {hx(body)} {hx(D)} {hx(D)} +runexpr", f"runseq L300000 {seed} {hx('[' + ', '.join([D] * (2 + ndraw)) + ']')}"]
            meta.append((body, ndraw, seed))
    out = run.go_only("failed-runexpr", lines, go_timeout=120)
    for i, (body, ndraw, seed) in enumerate(meta):
        a, b = out[2 * i][1], out[2 * i + 1][1]
        run.nontriv(("rxfail", body, seed))
        pa = a.split(" | ")
        mb = re.match(r"ok \[(.*?)\] ", b)
        if len(pa) != 2 or not mb or not pa[0].startswith("ok ") or not pa[1].startswith("ok "):
            run.count("rxfail.not-ok")
            continue
        want = mb.group(1).split()
        got = [pa[0].split()[1], pa[1].split()[1]]
        if got != [want[0], want[1 + ndraw]]:
            run.violation("failed-statement-gave-its-draws-back", {"seed": seed, "failing_statement_run_through_RunExpr": body, "dice_before_and_after_it": got,
                                                                   "the_stream": want, "expected": [want[0], want[1 + ndraw]]})
    # ---- a used context given another configuration and re-seeded: nothing of the earlier configuration may survive
    #      (compiled default-sides expressions, flags, modes)
    DS_EXPR = ["20", "6", "100", "2+2", "d4", "面数"]
    FACELESS = ["3d + d", "d", "2d + 1", "d优势", "d劣势 + 2d", "func f(){ 2d }; f() + d", "&c = d; c + c", "[d, 2d, d].sum()", "`{d} {3d}`"]
    lines, meta = [], []
    for _ in range(160 if tier == "thorough" else 60):
        k = r.random()
        if k < 0.25:
            # the SAME text again after an edit that changes what the text means: it is read anew under the configuration of now
            SENS = [("w", "2a5 + 1"), ("w", "3a8k6 + 2a5"), ("c", "b2 + 1"), ("c", "p1 + b"), ("f", "4f + 1"), ("f", "f + f"), ("d", "3c2 + 1"),
                    ("B", "6|1"), ("B", "[7&3, 1|2]"), ("N", "2d + 1"), ("N", "3d + d4"), ("S", "`{% if 1 { 7 } else { 8 } %}`"), ("wcfd", "2a5 + 4f + b2 + 3c2")]
            fl, p = r.choice(SENS)
            q = p
            cfg1, cfg2 = ("-", fl) if r.random() < 0.5 else (fl, "-")
            if r.random() < 0.4:
                cfg1, cfg2 = cfg1 + ",M", cfg2 + ",M"
        elif k < 0.6:
            e1, e2 = r.sample(DS_EXPR, 2)
            cfg1, cfg2 = "D" + hx(e1), "D" + hx(e2)
            p, q = r.choice(FACELESS), r.choice(FACELESS)
            if "面数" in (e1, e2):
                p, q = "面数 = 8; " + p, "面数 = 12; " + q
        elif k < 0.8:
            cfg1, cfg2 = r.choice(["-", "D" + hx("20")]), r.choice(["D" + hx("6"), "-"])
            p, q = r.choice(FACELESS), r.choice(FACELESS)
        else:
            c1, p = gen_prog(r)
            c2, q = gen_prog(r)
            cfg1 = "".join(sorted(set(c1 + c2))) or "-"
            cfg2 = cfg1 + "," + r.choice(["m", "M", "z", "wcfd"])
        s1, s2 = f"{r.getrandbits(128):032x}", f"{r.getrandbits(128):032x}"
        lines.append(f"reinitc {cfg1},L300000 {cfg2},L300000 {s1} {s2} {hx(p)} {hx(q)}")
        meta.append((cfg1, cfg2, s1, s2, p, q))
    out = run.go_only("reinit-config", lines, go_timeout=120)
    for (cfg1, cfg2, s1, s2, p, q), (ln, g) in zip(meta, out):
        run.nontriv(("reinitc", cfg1, cfg2, p, q, s2))
        parts = g.split(" || ")
        if len(parts) != 2:
            run.count("reinitc.crashed")
            continue
        if parts[0] != parts[1]:
            run.violation("reconfigured-context-differs-from-fresh", {"cfg_before": cfg1, "cfg": cfg2, "seed1": s1, "seed2": s2, "first_program": p,
                                                                      "second_program": q, "reconfigured": parts[0][:300], "fresh": parts[1][:300]})
    # ---- a generator OBJECT that two contexts share (a copied context struct, a RandSrc handed over): giving one of them its own seed
    #      through Seed + Init must not rewrite the other's stream
    sl, sm = [], []
    for _ in range(40 if tier == "thorough" else 12):
        cfgp, p = gen_prog(r)
        for mode in ("copy", "hand"):
            sl.append(f"sharedsrc {cfgp},L300000 {r.getrandbits(128):032x} {r.getrandbits(128):032x} {hx(p)} {mode}")
            sm.append((cfgp, p, mode))
    for (cfgp, p, mode), (ln, g) in zip(sm, run.go_only("sharedsrc", sl, go_timeout=120)):
        parts = g.split(" || ")
        if len(parts) != 2:
            run.count("sharedsrc.crashed")
            continue
        run.nontriv(("sharedsrc", p, mode, ln.split()[2]))
        if parts[0] != parts[1]:
            run.violation("reseeding-one-context-rewrote-another's-stream", {"cfg": cfgp, "program": p, "shared_by": mode, "case": ln,
                                                                             "after_the_other_was_reseeded": parts[0][:300], "alone": parts[1][:300]})
    # ---- a seeded context that has evaluated nothing yet: its state IS the seed, and RunExpr as its first operation draws what Run draws
    fl, fm = [], []
    for _ in range(40 if tier == "thorough" else 12):
        cfgp, p = gen_prog(r)
        if ";" in p and ("func" in p or "&" in p):
            continue
        sd = f"{r.getrandbits(128):032x}"
        fl.append(f"freshseed {cfgp},L300000 {sd} {hx(p)}")
        fm.append((cfgp, p, sd))
    for (cfgp, p, sd), (ln, g) in zip(fm, run.go_only("freshseed", fl, go_timeout=120)):
        m = re.match(r"seed0=(\S*) runexpr=(\S+) seed1=(\S*) \| run=(\S+) seed2=(\S*)$", g)
        if not m:
            run.count("freshseed.other")
            continue
        run.nontriv(("freshseed", p, sd))
        rep = {"cfg": cfgp, "program": p, "seed": sd, "implementation": g[:400]}
        if m.group(1) != sd:
            run.violation("fresh-context-state-is-not-its-seed", rep)
        elif (m.group(2), m.group(3)) != (m.group(4), m.group(5)):
            run.violation("RunExpr-first-differs-from-Run", rep)
    return run.finish(
        trusted=["Lean 4.33 kernel", "axioms: propext, Quot.sound (+Classical.choice where simp uses it)",
                 "translator harness/extract (RngSites) — a wrong extraction would show as a failing replay oracle",
                 "Go harness + Lean driver", "PCG statistical quality"],
        rule="programs are sequences over every dice family, the random array methods, dice inside functions (nested two deep, "
             "recursive), computed values, templates and ternaries; each is run twice from the same seed with unseeded and "
             "foreign seeded activity in between (replay), continued through GetCurSeed into a fresh context (resume), and on a "
             "re-seeded used context (reinit), also after its configuration was changed (default-sides expression, modes, flags); "
             "distinct by (program, seed)",
        assumptions=["VM-level determinism is established by the replay oracle on the implementation; the Lean theorems cover the "
                     "generator, its codec and the regenerated call-site facts"])
