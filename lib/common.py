"""Shared machinery for the /verif checks: builds, streams, audit, evidence, verdicts."""
import fcntl
import hashlib
import json
import os
import random
import re
import subprocess
import sys
import time

VERIF = os.path.dirname(os.path.dirname(os.path.abspath(__file__)))
REPO = os.environ.get("VERIF_REPO", "/repo")
BUILD = os.path.join(VERIF, ".build")
LEAN = os.path.join(VERIF, "lean")
HARNESS = os.path.join(VERIF, "harness")
HARNESS_BIN = os.path.join(BUILD, "dsharness")
EXTRACT_BIN = os.path.join(BUILD, "dsextract")
MODEL_BIN = os.path.join(LEAN, ".lake", "build", "bin", "dsmodel")
EVIDENCE = os.path.join(VERIF, "evidence")
REPLAYS = os.path.join(VERIF, "replays")

ALLOWED_AXIOMS = {"propext", "Classical.choice", "Quot.sound"}

GOENV = dict(os.environ, GOFLAGS="-mod=mod", GOPROXY="off", GOSUMDB="off", GOTOOLCHAIN="local",
             CGO_ENABLED="0")


class Broken(Exception):
    """A proof obligation, regenerated artefact or correspondence no longer checks."""

    def __init__(self, what, detail=""):
        super().__init__(what)
        self.what = what
        self.detail = detail


class Lock:
    def __init__(self, name):
        os.makedirs(BUILD, exist_ok=True)
        self.path = os.path.join(BUILD, name + ".lock")

    def __enter__(self):
        self.f = open(self.path, "w")
        fcntl.flock(self.f, fcntl.LOCK_EX)
        return self

    def __exit__(self, *a):
        fcntl.flock(self.f, fcntl.LOCK_UN)
        self.f.close()


def sh(cmd, cwd=None, env=None, timeout=None, inp=None):
    p = subprocess.run(cmd, cwd=cwd, env=env, timeout=timeout, input=inp,
                       stdout=subprocess.PIPE, stderr=subprocess.STDOUT, text=True)
    return p.returncode, p.stdout


def repo_fingerprint():
    """hash of every non-test .go file of /repo (working tree)"""
    h = hashlib.sha256()
    for fn in sorted(os.listdir(REPO)):
        if fn.endswith(".go") and not fn.endswith("_test.go"):
            h.update(fn.encode())
            with open(os.path.join(REPO, fn), "rb") as f:
                h.update(f.read())
    return h.hexdigest()


def build_harness():
    """go build -tags verif of the hook + harness from /repo's working tree."""
    with Lock("go"):
        os.makedirs(BUILD, exist_ok=True)
        src = os.path.join(REPO, "go.sum")
        dst = os.path.join(HARNESS, "go.sum")
        with open(src, "rb") as f:
            data = f.read()
        have = open(dst, "rb").read() if os.path.exists(dst) else b""
        merged = sorted(set(have.split(b"\n")) | set(data.split(b"\n")))
        merged = b"\n".join(x for x in merged if x) + b"\n"
        if merged != have:
            with open(dst, "wb") as f:
                f.write(merged)
        for out, pkg in ((HARNESS_BIN, "."), (EXTRACT_BIN, "./extract")):
            if not os.path.isdir(os.path.join(HARNESS, pkg)):
                continue
            cover = ["-cover", "-coverpkg=github.com/sealdice/dicescript,verifharness"] if (os.environ.get("VERIF_COVER") and pkg == ".") else []
            rc, log = sh(["go", "build", "-tags", "verif"] + cover + ["-o", out, pkg], cwd=HARNESS, env=GOENV, timeout=600)
            if rc != 0:
                raise Broken("harness-build", log[-4000:])


def run_translator():
    """Regenerate DS/Gen/*.lean from /repo; files are rewritten only when their content changes."""
    if not os.path.exists(EXTRACT_BIN):
        return
    with Lock("gen"):
        rc, log = sh([EXTRACT_BIN, "-repo", REPO, "-out", os.path.join(LEAN, "DS", "Gen")], timeout=300)
        if rc != 0:
            raise Broken("translator", log[-4000:])


def lake_build(targets):
    """lake build the given targets; returns (ok, log)."""
    with Lock("lake"):
        rc, log = sh(["lake", "build"] + list(targets), cwd=LEAN, timeout=3600)
    return rc == 0, log


def failing_decls(log):
    """names of declarations lake reported errors in (best effort: file:line)"""
    return sorted(set(re.findall(r"error: (\S+\.lean:\d+:\d+)", log)))


def theorems_in(relpath):
    """theorem names declared in a Props file (namespace-qualified)"""
    path = os.path.join(LEAN, relpath)
    txt = open(path, encoding="utf-8").read()
    # strip comments
    txt = re.sub(r"/-.*?-/", "", txt, flags=re.S)
    txt = re.sub(r"--.*", "", txt)
    ns = re.search(r"^namespace\s+(\S+)", txt, flags=re.M)
    pre = (ns.group(1) + ".") if ns else ""
    return [pre + m for m in re.findall(r"^\s*theorem\s+([A-Za-z0-9_'.]+)", txt, flags=re.M)]


FORBIDDEN = re.compile(r"\b(sorry|admit|native_decide|bv_decide|implemented_by|unsafe)\b|^axiom\s|maxHeartbeats\s+0")


def forbidden_tokens(relpaths):
    hits = []
    for rp in relpaths:
        path = os.path.join(LEAN, rp)
        if not os.path.exists(path):
            continue
        txt = open(path, encoding="utf-8").read()
        txt = re.sub(r"/-.*?-/", lambda m: "\n" * m.group(0).count("\n"), txt, flags=re.S)
        for i, line in enumerate(txt.split("\n"), 1):
            line = re.sub(r"--.*", "", line)
            if FORBIDDEN.search(line):
                hits.append(f"{rp}:{i}: {line.strip()[:80]}")
    return hits


def audit(prop, module, theorems):
    """#print axioms for each theorem; returns {theorem: [axioms]}"""
    os.makedirs(os.path.join(BUILD, "audit"), exist_ok=True)
    path = os.path.join(BUILD, "audit", prop + ".lean")
    with open(path, "w") as f:
        f.write(f"import {module}\n")
        for t in theorems:
            f.write(f"#print axioms {t}\n")
    with Lock("lake"):
        rc, log = sh(["lake", "env", "lean", path], cwd=LEAN, timeout=1800)
    res = {}
    cur = None
    # output: 'Name' depends on axioms: [a, b]   |   'Name' does not depend on any axioms
    flat = re.sub(r"\s+", " ", log)
    for m in re.finditer(r"'([^']+)' (does not depend on any axioms|depends on axioms: \[([^\]]*)\])", flat):
        name = m.group(1)
        axs = [] if m.group(3) is None else [a.strip() for a in m.group(3).split(",") if a.strip()]
        res[name] = axs
    if rc != 0 and not res:
        raise Broken("audit:" + module, log[-3000:])
    return res, log


class Child:
    """line-protocol child process with a per-line watchdog and crash attribution"""

    def __init__(self, argv, env=None, timeout=120, line_timeout=20):
        self.argv = argv
        self.env = env
        self.timeout = timeout            # overall budget per process run
        self.line_timeout = line_timeout  # budget for one case

    def run(self, lines, per_batch_timeout=None):
        """returns list of output lines, same length as `lines`; a crashed/hung case yields 'died ...'"""
        import selectors
        import threading
        out = []
        i = 0
        n = len(lines)
        while i < n:
            chunk = lines[i:]
            p = subprocess.Popen(self.argv, stdin=subprocess.PIPE, stdout=subprocess.PIPE, stderr=subprocess.PIPE,
                                 env=self.env)

            def feed(proc=p, data=("\n".join(chunk) + "\n").encode()):
                try:
                    proc.stdin.write(data)
                    proc.stdin.close()
                except Exception:
                    pass
            th = threading.Thread(target=feed, daemon=True)
            th.start()
            got = []
            buf = b""
            reason = None
            sel = selectors.DefaultSelector()
            sel.register(p.stdout, selectors.EVENT_READ)
            deadline = time.time() + self.line_timeout
            fd = p.stdout.fileno()
            while len(got) < len(chunk):
                left = deadline - time.time()
                if left <= 0:
                    reason = "timeout"
                    break
                if not sel.select(timeout=left):
                    reason = "timeout"
                    break
                data = os.read(fd, 1 << 16)
                if not data:
                    break
                buf += data
                while b"\n" in buf:
                    ln, buf = buf.split(b"\n", 1)
                    got.append(ln.decode("utf-8", "replace"))
                    deadline = time.time() + self.line_timeout
            sel.close()
            if len(got) >= len(chunk):
                try:
                    p.wait(timeout=5)
                except Exception:
                    p.kill()
                out.extend(got[:len(chunk)])
                break
            # child died or hung on case i+len(got)
            try:
                p.kill()
            except Exception:
                pass
            try:
                err = p.stderr.read().decode("utf-8", "replace")[-2000:]
            except Exception:
                err = ""
            rc = p.wait()
            if reason is None:
                reason = f"rc={rc}"
            first = ""
            for ln in err.split("\n"):
                if ln.strip():
                    first = ln.strip()
                    break
            out.extend(got)
            out.append("died " + reason + " " + re.sub(r"\s+", "_", first)[:120])
            i += len(got) + 1
        return out


def go_child(timeout=120, mem="2GiB", line_timeout=15):
    env = dict(os.environ, GOMEMLIMIT=mem, GOMAXPROCS="4")
    if os.environ.get("VERIF_COVER"):
        # statement coverage of /repo under the checks (bin/gocover): the harness was built with -cover
        env["GOCOVERDIR"] = os.environ["VERIF_COVER"]
    return Child(["/bin/sh", "-c", f"ulimit -v 8000000; exec {HARNESS_BIN}"], env=env, timeout=timeout,
                 line_timeout=line_timeout)


def lean_child(timeout=300):
    return Child([MODEL_BIN], timeout=timeout, line_timeout=120)


def fingerprint_mismatches():
    """names of the by-name-modelled ParserData methods whose body differs from the committed expectation"""
    import re
    try:
        txt = open(os.path.join(LEAN, "DS/Gen/Fingerprints.lean"), encoding="utf-8").read()
        exp = json.load(open(os.path.join(VERIF, "lib/fingerprints_expected.json"), encoding="utf-8"))
    except OSError as e:
        return ["unreadable:" + str(e)]
    rows = dict(re.findall(r'\("(\w+)", "((?:[^"\\]|\\.)*)"\)', txt))
    return sorted(k for k in set(rows) | set(exp) if rows.get(k) != exp.get(k))


def hx(s):
    b = s.encode("utf-8") if isinstance(s, str) else bytes(s)
    return b.hex() if b else "-"


def unhx(s):
    return b"" if s == "-" else bytes.fromhex(s)


class Run:
    """one check run: accumulates obligations, evaluations, samples, findings, violations"""

    def __init__(self, prop, tier, module=None, props_file=None, extra_files=()):
        self.prop = prop
        self.tier = tier
        self.seed = int(os.environ.get("VERIF_SEED", "0") or 0)
        self.rng = random.Random((self.seed << 8) ^ int(hashlib.sha256(prop.encode()).hexdigest()[:8], 16))
        self.t0 = time.time()
        self.module = module
        self.props_file = props_file
        self.extra_files = list(extra_files)
        self.obligations = []        # names
        self.discharged = []
        self.axioms = {}
        self.evaluations = 0
        self.nontrivial = set()
        self.samples = []
        self.dist = {}
        self.violations = []         # (kind, replay dict)
        self.known_hits = {}         # finding id -> example
        self.broken = []             # (what, detail)
        self.notes = []
        self.streams = {}
        self.known = load_known(prop)
        os.makedirs(REPLAYS, exist_ok=True)
        for fn in os.listdir(REPLAYS):
            if fn.startswith(prop + "-"):
                os.remove(os.path.join(REPLAYS, fn))

    # ---- bookkeeping
    def count(self, key, n=1):
        self.dist[key] = self.dist.get(key, 0) + n

    def sample(self, s, cap=8):
        if len(self.samples) < cap:
            self.samples.append(s)

    def nontriv(self, key):
        self.nontrivial.add(key)

    def violation(self, what, replay):
        self.violations.append((what, replay))

    def known_finding(self, fid, example):
        if fid not in self.known_hits:
            self.known_hits[fid] = example

    # ---- stages
    def prepare(self, lake_targets=("dsmodel",)):
        """builds everything; returns True when the streams/oracles can run (harness + model driver built).
        A failing property module is recorded as a broken obligation but does not stop the search."""
        self.module_ok = False
        try:
            build_harness()
        except Broken as b:
            self.broken.append((b.what, b.detail))
            return False
        stale = False
        try:
            run_translator()
        except Broken as b:
            # the regenerated model no longer follows the source: a broken tie.  The SEARCH for a failing input still runs, against
            # the last model that did build (the oracles on the implementation do not need the model at all)
            self.broken.append((b.what, b.detail))
            stale = True
        ok, log = lake_build(list(lake_targets))
        if not ok:
            self.broken.append(("lake-build:" + ",".join(lake_targets), "\n".join(log.split("\n")[-60:])))
            stale = True
        if stale:
            if not os.path.exists(MODEL_BIN):
                return False
            self.count("search-against-last-good-model")
            return True
        if self.module:
            ok2, log2 = lake_build([self.module])
            if not ok2:
                self.broken.append(("lake-build:" + self.module, "\n".join(log2.split("\n")[-60:])))
            else:
                self.module_ok = True
        return True

    def proofs(self):
        """audit theorems of the property module"""
        if not self.module:
            return
        if not getattr(self, "module_ok", False):
            self.obligations = theorems_in(self.props_file)
            return
        files = [self.props_file] + self.extra_files
        hits = forbidden_tokens([f for f in files if f])
        if hits:
            self.broken.append(("forbidden-token", "\n".join(hits)))
        ths = theorems_in(self.props_file)
        self.obligations = ths
        try:
            res, log = audit(self.prop, self.module, ths)
        except Broken as b:
            self.broken.append((b.what, b.detail))
            return
        for t in ths:
            axs = res.get(t)
            if axs is None:
                self.broken.append(("theorem-missing:" + t, log[-1500:]))
                continue
            self.axioms[t] = axs
            bad = [a for a in axs if a not in ALLOWED_AXIOMS]
            if bad:
                self.broken.append(("axioms:" + t, ",".join(bad)))
            else:
                self.discharged.append(t)

    def diff_stream(self, name, lines, classify=None, go_timeout=120, describe=None):
        """run the same case lines through Go and the Lean model, compare line by line.
        classify(line, go, lean) may return a known-finding id, 'skip', or None (= disagreement)."""
        if not lines:
            return []
        g = go_child(timeout=go_timeout).run(lines)
        m = lean_child().run(lines)
        res = []
        agree = 0
        for ln, a, b in zip(lines, g, m):
            self.evaluations += 1
            if a == b:
                agree += 1
                res.append((ln, a, b, "agree"))
                continue
            tag = classify(ln, a, b) if classify else None
            if tag == "skip":
                self.count(f"{name}.skipped")
                res.append((ln, a, b, "skip"))
            elif tag:
                self.known_finding(tag, {"stream": name, "case": ln, "go": a, "model": b})
                res.append((ln, a, b, tag))
            else:
                res.append((ln, a, b, "DISAGREE"))
                self.violation(f"correspondence:{name}",
                               {"stream": name, "case": ln, "implementation": a, "model": b,
                                "explain": describe(ln, a, b) if describe else ""})
        st = self.streams.setdefault(name, {"cases": 0, "agree": 0})
        st["cases"] += len(lines)
        st["agree"] += agree
        return res

    def go_only(self, name, lines, go_timeout=120, line_timeout=15):
        """run case lines on the implementation only (for oracles that judge the real code directly)"""
        if not lines:
            return []
        g = go_child(timeout=go_timeout, line_timeout=line_timeout).run(lines)
        self.evaluations += len(lines)
        st = self.streams.setdefault(name, {"cases": 0, "agree": 0, "impl_only": True})
        st["cases"] += len(lines)
        return list(zip(lines, g))

    # ---- verdict
    def finish(self, level_text="", trusted=None, rule="", assumptions=None, extra=None):
        os.makedirs(EVIDENCE, exist_ok=True)
        os.makedirs(REPLAYS, exist_ok=True)
        rc = 0
        out_lines = []
        # known findings
        for fid, ex in sorted(self.known_hits.items()):
            k = self.known.get(fid)
            if k is None:
                self.violation("unlisted-finding:" + fid, ex)
            elif k.get("status") == "fixed":
                self.violation("fixed-finding-returned:" + fid, ex)
            else:
                out_lines.append(f"KNOWN-FINDING: property={self.prop} {fid}: {k.get('what_fails', '')}")
        n = 0
        for what, replay in self.violations[:20]:
            n += 1
            path = os.path.join(REPLAYS, f"{self.prop}-{n}.json")
            with open(path, "w") as f:
                json.dump({"property": self.prop, "what": what, "seed": self.seed, "tier": self.tier,
                           "replay": replay}, f, ensure_ascii=False, indent=1)
            out_lines.append(f"VIOLATION property={self.prop} replay={path}")
            rc = 1
        if self.broken and not self.violations:
            # a proof obligation / artefact / build broke and the search found no concrete failing input
            path = os.path.join(REPLAYS, f"{self.prop}-broken.json")
            with open(path, "w") as f:
                json.dump({"property": self.prop, "no_longer_checks": [w for w, _ in self.broken],
                           "detail": {w: d for w, d in self.broken}, "seed": self.seed, "tier": self.tier},
                          f, ensure_ascii=False, indent=1)
            out_lines.append(f"VIOLATION property={self.prop} replay={path} no-failing-input-found")
            rc = 1
        elif self.broken:
            # attach what broke to the first replay for the reader
            path = os.path.join(REPLAYS, f"{self.prop}-broken.json")
            with open(path, "w") as f:
                json.dump({"property": self.prop, "no_longer_checks": [w for w, _ in self.broken],
                           "detail": {w: d for w, d in self.broken}}, f, ensure_ascii=False, indent=1)
        cov = {
            "obligations": len(self.obligations),
            "discharged": len(self.discharged),
            "checker_cmd": f"cd /verif/lean && lake build {self.module or ''} && lake env lean ../.build/audit/{self.prop}.lean",
            "trusted_base": trusted or [],
            "evaluations": self.evaluations,
            "distinct_nontrivial": len(self.nontrivial),
            "rule": rule,
            "samples": self.samples[:8] or ["(none)"],
            "theorems": self.obligations,
            "axioms": self.axioms,
            "streams": self.streams,
            "distribution": dict(sorted(self.dist.items())),
            "known_findings_hit": sorted(self.known_hits),
            "broken": [w for w, _ in self.broken],
            "repo_fingerprint": repo_fingerprint(),
        }
        if extra:
            cov.update(extra)
        ev = {
            "property_id": self.prop,
            "tier": self.tier,
            "seed": self.seed,
            # a run whose proof obligations did not all check is not proof-level evidence (and is reported as a violation)
            "level": "proof" if cov.get("obligations", 0) >= 1 and cov.get("discharged", 0) == cov.get("obligations", 0) else "exploration",
            "coverage": cov,
            "assumptions": assumptions or [],
            "wall_s": round(time.time() - self.t0, 2),
            "violations": len(self.violations) + (1 if self.broken and not self.violations else 0),
        }
        with open(os.path.join(EVIDENCE, self.prop + ".json"), "w") as f:
            json.dump(ev, f, ensure_ascii=False, indent=1)
        for ln in out_lines:
            print(ln)
        print(f"[{self.prop}] tier={self.tier} seed={self.seed} obligations={len(self.discharged)}/{len(self.obligations)} "
              f"evaluations={self.evaluations} nontrivial={len(self.nontrivial)} violations={ev['violations']} "
              f"known={sorted(self.known_hits)} wall={ev['wall_s']}s")
        return rc


def load_known(prop):
    path = os.path.join(VERIF, "known_findings.json")
    if not os.path.exists(path):
        return {}
    data = json.load(open(path, encoding="utf-8"))
    res = {}
    for e in data.get("findings", []):
        if prop in e.get("properties", [e.get("property")]):
            res[e["id"]] = e
    return res


def pcg_state(rng):
    return "%032x" % rng.getrandbits(128)
