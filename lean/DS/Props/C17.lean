/-
  C17 — extension points are transparent unless they act (parser side).

  The PEG-engine model carries the custom-dice trio of custom_dice_parser.go over an abstract matcher
  `custom : offset → matched byte length` (0 = no registered parser matches there):
  * `never_matching_transparent` — parsers that never match leave the whole parse (success, offset, ParserData, emission trace)
    exactly as with nothing registered, for every grammar, input and fuel;
  * `no_match_pred_false` — at an offset without a match the predicate fails and only clears the pending match;
  * `prepare_outside_lookahead` / `prepare_in_lookahead` — on a match the predicate remembers (offset, length); it moves the text
    position only inside a look-ahead (where the consuming action does not run) — the repaired behaviour;
  * `commit_emits_once`, `commit_without_match` — exactly one typeCustomDice is written per committed match, none otherwise,
    and the pending match is cleared (so the handler's instruction exists once per matched operand).
  Tied by the `peg-custom` stream: the real parser with RegCustomDice(pattern) vs the model given the pattern's match lengths.
  The run-time side (handler called once per evaluation with the matched text and groups, result used by copy, identity hooks)
  is decided by the oracle on the implementation (lib/props/c17.py).
-/
import DS.Model.Peg

namespace DS.Props.C17
open DS.Peg

theorem never_matching_transparent (env : Env) (c : Nat → Nat) (h : ∀ p, c p = 0) (cfg : Flags) (fuel : Nat) :
    parseTop { env with custom := c } cfg fuel = parseTop { env with custom := fun _ => 0 } cfg fuel := by
  have : c = fun _ => 0 := funext h
  rw [this]

theorem no_match_pred_false (env : Env) (s : PState) (h : env.custom s.pos = 0) :
    prepareCustom env s = ({ s with pending := none }, false) := by
  simp [prepareCustom, h]

theorem prepare_outside_lookahead (env : Env) (s : PState) (n : Nat) (h : env.custom s.pos = n + 1) (hs : s.skip = 0) :
    prepareCustom env s = ({ s with pending := some (s.pos, n + 1) }, true) := by
  simp [prepareCustom, h, hs]

theorem prepare_in_lookahead (env : Env) (s : PState) (n : Nat) (h : env.custom s.pos = n + 1) (hs : s.skip > 0) :
    prepareCustom env s = (advanceTo env (s.pos + (n + 1)) (n + 1 + 1) { s with pending := some (s.pos, n + 1) }, true) := by
  simp [prepareCustom, h, hs]

theorem commit_emits_once (env : Env) (s : PState) (st len : Nat) (h : s.pending = some (st, len)) :
    (commitCustom env s).trace = env.customOp :: s.trace ∧ (commitCustom env s).pending = none := by
  simp [commitCustom, h]

theorem commit_without_match (env : Env) (s : PState) (h : s.pending = none) : commitCustom env s = s := by
  simp [commitCustom, h]

/-- the consuming action uses the pending match when it starts at the current offset -/
theorem consume_uses_pending (env : Env) (s : PState) (len : Nat) (h : s.pending = some (s.pos, len)) :
    consumeCustom env s = advanceTo env (s.pos + len) (len + 1) s := by
  simp only [consumeCustom, h, beq_self_eq_true, if_true]
  congr 1
  cases s; simp_all

end DS.Props.C17
