/-
  C14 — the calculation-process text explains the result.  Property theorems only (model: DS/Model/Detail.lean,
  tied to makeDetailStr by the `detail` stream).
-/
import DS.Proofs.DetailLemmas

namespace DS.Props.C14
open DS.Detail

/-- spans that do not touch: each begins strictly after the previous one ends -/
def Separated : Int → List Span → Prop
  | _, [] => True
  | lastEnd, s :: rest => lastEnd < (s.b : Int) ∧ s.b ≤ s.e ∧ Separated (s.e : Int) rest

def single (s : Span) : Group := { b := s.b, e := s.e, tag := s.tag, spans := [s] }

/-- rolls that do not overlap are annotated one by one: every span becomes its own group, in order -/
theorem groupSpans_separated : ∀ (spans : List Span) (lastEnd : Int) (acc : List Group),
    Separated lastEnd spans → groupSpans spans lastEnd acc = acc.reverse ++ spans.map single := by
  intro spans
  induction spans with
  | nil => intro lastEnd acc _; simp [groupSpans]
  | cons s rest ih =>
    intro lastEnd acc h
    obtain ⟨h1, h2, h3⟩ := h
    simp only [groupSpans]
    have hgt : ((s.b : Int) > lastEnd) := h1
    have he : ((s.e : Int) > lastEnd) := by omega
    simp only [hgt, he, if_true]
    rw [ih (s.e : Int) _ h3]
    simp [single]

/-- the text that replaces one roll: its value followed by the bracketed annotation -/
def replacement (nGroups : Nat) (base : List Nat) (s : Span) : List Nat :=
  let exprText := if s.expr.isEmpty then base else s.expr
  let suffix0 := if s.exprSuffix.isEmpty then [61] else s.exprSuffix
  let (detail, suffix) := if !s.textOnly then ([91] ++ exprText, suffix0) else ([91], [])
  let detail := if !s.text.isEmpty && s.ret != s.text then detail ++ suffix ++ s.text else detail
  let detail :=
    if s.tag == "load" then
      if s.textOnly then (if !s.text.isEmpty then [91] ++ s.text else detail ++ [91, 45])
      else (let d := [91] ++ exprText
            if !s.text.isEmpty then d ++ [44] ++ s.text else d)
    else if s.tag == "load.computed" then detail ++ suffix ++ s.ret
    else detail
  let detail := detail ++ [93]
  let detail := if nGroups == 1 && detail == [91] ++ base ++ [93] then [] else detail
  let detail := if detail.length > 400 then utf8 "[略]" else detail
  s.ret ++ detail

/-- splicing one roll: everything before it, `value[annotation]`, everything after it — the bytes outside
    the roll's own extent are untouched -/
theorem renderGroup_single (buf : List Nat) (n : Nat) (s : Span) (h1 : s.b ≤ s.e) (h2 : s.e ≤ buf.length) :
    renderGroup buf n (single s) =
      some (buf.take s.b ++ replacement n ((buf.take s.e).drop s.b) s ++ buf.drop s.e) := by
  have hs1 : slice buf s.b s.e = some ((buf.take s.e).drop s.b) := by simp [slice, h1, h2]
  have hs2 : slice buf 0 s.b = some (buf.take s.b) := by
    have : s.b ≤ buf.length := by omega
    simp [slice, this]
  have hs3 : slice buf s.e buf.length = some (buf.drop s.e) := by simp [slice, h2]
  simp only [renderGroup, single, sortByEnd, insertByEnd, List.getLast?_singleton, subDetails, hs1, hs2, hs3]
  simp [replacement]

/-- **the matched source with each roll replaced by `value[annotation]`**: the text between the rolls is copied, every
    roll's extent `[b, e)` is replaced by its `replacement` (computed from the ORIGINAL text of that extent) -/
def spliced (n : Nat) (buf : List Nat) : Nat → List Span → List Nat
  | pos, [] => buf.drop pos
  | pos, s :: rest => (buf.take s.b).drop pos ++ replacement n ((buf.take s.e).drop s.b) s ++ spliced n buf s.e rest

/-- all spans of a separated list starting after `lastEnd` end at or before `bound` -/
def EndsBefore (bound : Nat) (spans : List Span) : Prop := ∀ s ∈ spans, s.e ≤ bound

theorem separated_append : ∀ (f : List Span) (lastEnd : Int) (s : Span),
    Separated lastEnd (f ++ [s]) → Separated lastEnd f ∧ EndsBefore s.b f ∧ s.b ≤ s.e ∧ lastEnd < (s.b : Int) := by
  intro f
  induction f with
  | nil => intro lastEnd s h; exact ⟨trivial, (by intro t ht; cases ht), h.2.1, h.1⟩
  | cons t f ih =>
    intro lastEnd s h
    obtain ⟨h1, h2, h3⟩ := h
    obtain ⟨i1, i2, i3, i4⟩ := ih _ s h3
    refine ⟨⟨h1, h2, i1⟩, ?_, i3, by omega⟩
    intro u hu
    simp at hu
    rcases hu with rfl | hu
    · omega
    · exact i2 u hu

/-- cutting the buffer at the start of a later roll does not change how the earlier rolls are spliced -/
theorem spliced_snoc (n : Nat) (P : List Nat) (s : Span) : ∀ (f : List Span) (pos : Nat) (lastEnd : Int),
    Separated lastEnd f → EndsBefore s.b f →
    spliced n P pos (f ++ [s]) =
      spliced n (P.take s.b) pos f ++ (replacement n ((P.take s.e).drop s.b) s ++ P.drop s.e) := by
  intro f
  induction f with
  | nil => intro pos _ _ _; simp [spliced]
  | cons t f ih =>
    intro pos lastEnd hsep hend
    obtain ⟨_, h2, h3⟩ := hsep
    have hte : t.e ≤ s.b := hend t (by simp)
    have hend' : EndsBefore s.b f := fun u hu => hend u (by simp [hu])
    simp only [List.cons_append, spliced]
    rw [ih t.e _ h3 hend']
    have e1 : (P.take s.b).take t.b = P.take t.b := by rw [List.take_take]; congr 1; omega
    have e2 : (P.take s.b).take t.e = P.take t.e := by rw [List.take_take]; congr 1; omega
    rw [e1, e2]
    simp [List.append_assoc]

/-- **Every number of non-overlapping rolls**: splicing the one-span groups from right to left (as makeDetailStr does,
    each step rewriting the buffer the next step reads) yields the original text with every roll replaced in place. -/
theorem splice_separated_rev (n : Nat) : ∀ (r : List Span) (P X : List Nat) (lastEnd : Int),
    Separated lastEnd r.reverse → EndsBefore P.length r.reverse →
    spliceGroups n (r.reverse.map single).reverse (P ++ X) = some (spliced n P 0 r.reverse ++ X) := by
  intro r
  induction r with
  | nil => intro P X _ _ _; simp [spliceGroups, spliced]
  | cons s r ih =>
    intro P X lastEnd hsep hend
    rw [List.reverse_cons] at hsep hend ⊢
    obtain ⟨hf, hfe, hbe, _⟩ := separated_append r.reverse lastEnd s hsep
    have hse : s.e ≤ P.length := hend s (by simp)
    simp only [List.map_append, List.map_cons, List.map_nil, List.reverse_append, List.reverse_cons, List.reverse_nil,
      List.nil_append, List.singleton_append, spliceGroups]
    rw [renderGroup_single (P ++ X) n s hbe (by simp; omega)]
    have t1 : (P ++ X).take s.b = P.take s.b := by rw [List.take_append_of_le_length (by omega)]
    have t2 : (P ++ X).take s.e = P.take s.e := by rw [List.take_append_of_le_length hse]
    have t3 : (P ++ X).drop s.e = P.drop s.e ++ X := by rw [List.drop_append_of_le_length hse]
    simp only [t1, t2, t3]
    have hlen : (P.take s.b).length = s.b := by simp; omega
    have := ih (P.take s.b) (replacement n ((P.take s.e).drop s.b) s ++ (P.drop s.e ++ X)) lastEnd hf
      (by intro u hu; rw [hlen]; exact hfe u hu)
    simp only [List.append_assoc, List.map_reverse, List.reverse_reverse] at this ⊢
    rw [this, spliced_snoc n P s r.reverse 0 lastEnd hf hfe]
    simp [List.append_assoc]

/-- **Every number of non-overlapping rolls**: splicing the one-span groups from right to left (as makeDetailStr does,
    each step rewriting the buffer the next step reads) yields the original text with every roll replaced in place. -/
theorem splice_separated (n : Nat) (spans : List Span) (P X : List Nat) (lastEnd : Int)
    (hsep : Separated lastEnd spans) (hend : EndsBefore P.length spans) :
    spliceGroups n (spans.map single).reverse (P ++ X) = some (spliced n P 0 spans ++ X) := by
  have := splice_separated_rev n spans.reverse P X lastEnd (by simpa using hsep) (by simpa using hend)
  simpa using this

/-- **The process text for any number of non-overlapping rolls** is the matched source with each roll replaced by
    `value[annotation]` (trimmed; empty when that is just the result). -/
theorem makeDetail_separated (src : List Nat) (offset : Nat) (spans : List Span) (ret : List Nat)
    (hoff : offset ≤ src.length) (hsep : Separated (-1) spans) (hend : EndsBefore offset spans) :
    makeDetail src offset spans ret =
      some (let t := trimSpace (spliced spans.length (src.take offset) 0 spans); if t == ret then [] else t) := by
  have hs : slice src 0 offset = some (src.take offset) := by simp [slice, hoff]
  have hin : ∀ s ∈ spans, s.b ≤ s.e := by
    intro s hs'
    have : ∀ (l : List Span) (le : Int), Separated le l → ∀ t ∈ l, t.b ≤ t.e := by
      intro l
      induction l with
      | nil => intro _ _ t ht; cases ht
      | cons x xs ih =>
        intro le h t ht
        simp only [List.mem_cons] at ht
        rcases ht with rfl | ht
        · exact h.2.1
        · exact ih _ h.2.2 t ht
    exact this spans (-1) hsep s hs'
  have hfil : spans.filter (fun s => decide (s.b ≤ s.e) && decide (s.e ≤ offset)) = spans := by
    rw [List.filter_eq_self]
    intro s hs'
    simp [hin s hs', hend s hs']
  simp only [makeDetail, hs, hfil]
  rw [groupSpans_separated spans (-1) [] hsep]
  simp only [List.reverse_nil, List.nil_append, List.length_map]
  have hlen : (src.take offset).length = offset := by simp; omega
  have := splice_separated spans.length spans (src.take offset) [] (-1) hsep (by rw [hlen]; exact hend)
  simp only [List.append_nil] at this
  rw [this]

/-- for a plain dice roll whose text differs from its value the annotation is exactly
    `value[source=text]`: e.g. `7[2d6=3+4]` -/
theorem dice_annotation (n : Nat) (base ret text : List Nat) (hne : text ≠ []) (hd : ret ≠ text)
    (hlen : ([91] ++ base ++ [61] ++ text ++ [93]).length ≤ 400) :
    replacement n base { b := 0, e := 0, ret := ret, text := text, expr := [], tag := "dice", textOnly := false, exprSuffix := [] }
      = ret ++ ([91] ++ base ++ [61] ++ text ++ [93]) := by
  have h1 : text.isEmpty = false := by cases text <;> simp_all
  have h3 : (([91] ++ base ++ [61] ++ text ++ [93] : List Nat) == [91] ++ base ++ [93]) = false := by
    cases text with
    | nil => exact absurd rfl hne
    | cons x xs => simp
  have h4 : ¬ (([91] ++ base ++ [61] ++ text ++ [93] : List Nat).length > 400) := by omega
  simp only [replacement]
  simp [h1, hd]
  intro hh
  simp at hlen
  omega

/- non-vacuity: `2d6 + 1` with the roll 7 = 3+4 at bytes 0..3 -/
example : makeDetail [50, 100, 54, 32, 43, 32, 49] 7
    [{ b := 0, e := 3, ret := [55], text := [51, 43, 52], expr := [], tag := "dice", textOnly := false, exprSuffix := [] }]
    [56] = some [55, 91, 50, 100, 54, 61, 51, 43, 52, 93, 32, 43, 32, 49] := by decide

/- non-vacuity: `2d6 + 1d4` with rolls 7 = 3+4 at bytes 0..3 and 2 at bytes 6..9 -/
example : Separated (-1) [{ b := 0, e := 3, ret := [55], text := [51, 43, 52], expr := [], tag := "dice", textOnly := false, exprSuffix := [] },
    { b := 6, e := 9, ret := [50], text := [], expr := [], tag := "dice", textOnly := false, exprSuffix := [] }] := by
  simp [Separated]
example : spliced 2 [50, 100, 54, 32, 43, 32, 49, 100, 52] 0
    [{ b := 0, e := 3, ret := [55], text := [51, 43, 52], expr := [], tag := "dice", textOnly := false, exprSuffix := [] },
     { b := 6, e := 9, ret := [50], text := [], expr := [], tag := "dice", textOnly := false, exprSuffix := [] }]
    = [55, 91, 50, 100, 54, 61, 51, 43, 52, 93, 32, 43, 32, 50, 91, 49, 100, 52, 93] := by decide

end DS.Props.C14
