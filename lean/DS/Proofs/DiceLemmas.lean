/- helper lemmas about the dice loops (C04, C15) -/
import DS.Proofs.RollLemmas

namespace DS.Proofs
open DS.Roll DS.Rng

/-- all words of a stream are genuine 64-bit words -/
def Words64 (ws : List Nat) : Prop := ∀ w ∈ ws, w < two64

theorem Words64.of_suffix {pre rest : List Nat} (h : Words64 (pre ++ rest)) : Words64 rest :=
  fun w hw => h w (by simp [hw])

theorem sortAsc_perm (l : List Int) : (sortAsc l).Perm l := List.mergeSort_perm l _
theorem sortDesc_perm (l : List Int) : (sortDesc l).Perm l := List.mergeSort_perm l _

theorem sortAsc_sorted (l : List Int) : (sortAsc l).Pairwise (fun a b => a ≤ b) := by
  have := List.pairwise_mergeSort (le := fun a b => decide (a ≤ b))
    (by intro a b c; simp; omega) (by intro a b; simp; omega) l
  simpa [sortAsc] using this

theorem sortDesc_sorted (l : List Int) : (sortDesc l).Pairwise (fun a b => a ≥ b) := by
  have := List.pairwise_mergeSort (le := fun a b => decide (a ≥ b))
    (by intro a b c; simp; omega) (by intro a b; simp; omega) l
  simpa [sortDesc] using this

theorem sortFor_perm (k : Int) (l : List Int) : (sortFor k l).Perm l := by
  unfold sortFor
  split
  · exact List.Perm.refl _
  · split
    · exact sortAsc_perm l
    · exact sortDesc_perm l

/-- a legal random roll returns a face 1..sides and consumes a prefix; the rest stays 64-bit words -/
theorem roll_face (sides : Int) (h0 : 0 < sides) (h1 : sides ≤ maxInt64 - 1) (ws : List Nat) (hws : Words64 ws)
    (r : Int) (rest : List Nat) (h : roll sides 0 ws = some (r, rest)) :
    1 ≤ r ∧ r ≤ sides ∧ Words64 rest := by
  obtain ⟨pre, e⟩ := roll_prefix _ _ _ _ _ h
  have hrest : Words64 rest := by subst e; exact hws.of_suffix
  refine ⟨?_, ?_, hrest⟩ <;>
  · have hne : (sides == 0) = false := by simp; omega
    have hu : toU64 sides = sides.toNat := by
      unfold toU64 two64
      have : sides % (18446744073709551616 : Int) = sides :=
        Int.emod_eq_of_lt (by omega) (by unfold maxInt64 at h1; omega)
      simp [this]
    unfold roll at h
    simp only [hne] at h
    have hnb : ¬ sides > maxInt64 - 1 := by omega
    simp [hnb, hu] at h
    split at h
    · simp at h
    · rename_i r0 w0 h64
      simp at h
      obtain ⟨rfl, rfl⟩ := h
      have hn : 0 < sides.toNat := by omega
      have hlt : sides.toNat < two64 := by unfold two64; unfold maxInt64 at h1; omega
      -- range of roll64
      cases ws with
      | nil => simp [roll64] at h64
      | cons v vs =>
        have hv : v < two64 := hws v (by simp)
        have hr : 1 ≤ r0 ∧ r0 ≤ sides.toNat := by
          simp only [roll64] at h64
          split at h64
          · rename_i hp
            simp at h64
            rw [mask_eq_mod _ v hn hlt hp] at h64
            have := Nat.mod_lt v hn
            omega
          · split at h64
            · split at h64
              · simp at h64
              · simp at h64
                rename_i v' _ _
                have := Nat.mod_lt v' hn
                omega
            · simp at h64
              have := Nat.mod_lt v hn
              omega
        have hw : wrap64 (r0 : Int) = (r0 : Int) := by
          unfold wrap64 two63 two64
          unfold maxInt64 at h1
          omega
        rw [hw]
        omega

/-- faces of the dice loop in random mode -/
theorem rollDice_faces (sides : Int) (h0 : 0 < sides) (h1 : sides ≤ maxInt64 - 1) (dmin dmax : Option Int) :
    ∀ (k : Nat) (ws : List Nat), Words64 ws → ∀ (ds : List Int) (rest : List Nat),
    rollDice sides dmin dmax 0 k ws = some (ds, rest) →
    ds.length = k ∧ ∀ d ∈ ds, ∃ x, 1 ≤ x ∧ x ≤ sides ∧ d = clampDie dmin dmax x := by
  intro k
  induction k with
  | zero =>
    intro ws _ ds rest h
    simp [rollDice] at h
    obtain ⟨rfl, rfl⟩ := h
    simp
  | succ k ih =>
    intro ws hws ds rest h
    simp only [rollDice] at h
    split at h
    · simp at h
    · rename_i d ws' hr
      split at h
      · simp at h
      · rename_i ds' ws'' hd
        simp at h
        obtain ⟨rfl, rfl⟩ := h
        obtain ⟨hd1, hd2, hws'⟩ := roll_face sides h0 h1 ws hws d ws' hr
        obtain ⟨hl, hf⟩ := ih ws' hws' ds' ws'' hd
        refine ⟨by simp [hl], ?_⟩
        intro x hx
        simp at hx
        rcases hx with rfl | hx
        · exact ⟨d, hd1, hd2, rfl⟩
        · exact hf x hx

/-- in min/max mode the dice loop leaves the stream untouched and every die is the clamped extreme -/
theorem rollDice_mode (sides : Int) (hs : sides ≠ 0) (dmin dmax : Option Int) (mode : Int) (hm : mode = -1 ∨ mode = 1) :
    ∀ (k : Nat) (ws : List Nat),
    rollDice sides dmin dmax mode k ws =
      some (List.replicate k (clampDie dmin dmax (if mode = -1 then 1 else sides)), ws) := by
  intro k
  induction k with
  | zero => intro ws; simp [rollDice]
  | succ k ih =>
    intro ws
    have hne : (sides == 0) = false := by simp [hs]
    rcases hm with rfl | rfl
    · simp [rollDice, roll, hne, ih, List.replicate_succ]
    · simp [rollDice, roll, hne, ih, List.replicate_succ]

theorem clampDie_mono (dmin dmax : Option Int) (a b : Int) (h : a ≤ b) :
    clampDie dmin dmax a ≤ clampDie dmin dmax b := by
  unfold clampDie
  cases dmin <;> cases dmax <;> simp <;> (repeat' split) <;> omega

theorem pickNum_range (times keepLH lowNum highNum : Int) (ht : 0 ≤ times) :
    0 ≤ pickNum times keepLH lowNum highNum ∧ pickNum times keepLH lowNum highNum ≤ times := by
  unfold pickNum
  split
  · omega
  · simp only []
    split <;> split <;> (try split) <;> omega

/-- sum of a list under the per-step wrap equals the true sum when no prefix sum leaves int64 -/
def NoOverflow (l : List Int) : Prop :=
  ∀ n, -two63 ≤ (l.take n).sum ∧ (l.take n).sum < two63

theorem wrap64_id (x : Int) (h1 : -two63 ≤ x) (h2 : x < two63) : wrap64 x = x := by
  unfold wrap64 two64
  unfold two63 at *
  omega

theorem sumWrap_aux (l : List Int) : ∀ (acc : Int),
    (∀ n, -two63 ≤ acc + (l.take n).sum ∧ acc + (l.take n).sum < two63) →
    l.foldl (fun a b => wrap64 (a + b)) acc = acc + l.sum := by
  induction l with
  | nil => intro acc _; simp
  | cons x xs ih =>
    intro acc h
    simp only [List.foldl_cons, List.sum_cons]
    have h1 := h 1
    simp at h1
    rw [wrap64_id _ h1.1 h1.2]
    rw [ih (acc + x)]
    · omega
    · intro n
      have := h (n + 1)
      simp at this
      constructor <;> omega

theorem sumWrap_eq_sum (l : List Int) (h : NoOverflow l) : sumWrap l = l.sum := by
  unfold sumWrap
  rw [sumWrap_aux l 0 (by intro n; simpa using h n)]
  simp

end DS.Proofs
