/- kernel evaluation of the static gating check for the `fate` gate on the regenerated grammar -/
import DS.Props.C16Defs
namespace DS.Props.C16
open DS.Peg

set_option maxRecDepth 100000 in
theorem static_fate : (rulesOK ge DS.Gen.Grammar.rules fateGate (okFor fateGate) && (okFor fateGate)[0]!) = true := by decide +kernel

end DS.Props.C16
