import DS.Model.Hex
namespace DS.Driver

def parseInt? (s : String) : Option Int := s.toInt?
def parseNat? (s : String) : Option Nat := s.toNat?

/-- "-" = none, otherwise an Int -/
def parseOptInt? (s : String) : Option (Option Int) :=
  if s == "-" then some none else (s.toInt?).map some

def natToHex (n : Nat) (digits : Nat) : String :=
  String.ofList ((List.range digits).map fun i => DS.Hex.hexDigit ((n >>> (4 * (digits - 1 - i))) % 16))

def hexToNat? (s : String) : Option Nat :=
  s.toList.foldlM (fun acc c => do let d ← DS.Hex.digitVal c; pure (acc * 16 + d)) 0

def tokens (line : String) : List String :=
  (line.splitOn " ").filter (· ≠ "")

def hx (s : String) : String := DS.Hex.encode s

def sortStrings (l : List String) : List String := l.mergeSort (fun a b => a ≤ b)

end DS.Driver
