/- kernel evaluation of the static gating check for the `dc` gate on the regenerated grammar -/
import DS.Props.C16Defs
namespace DS.Props.C16
open DS.Peg

set_option maxRecDepth 100000 in
theorem static_dc : (rulesOK ge DS.Gen.Grammar.rules dcGate (okFor dcGate) && (okFor dcGate)[0]!) = true := by decide +kernel

end DS.Props.C16
