/-
  C03 — the result belongs to the consumed text (Matched / RestInput contract).

  * `matched_rest` — Matched ++ RestInput is exactly the input, Matched is the consumed text without trailing white space,
    for every input and every offset the parser can stop at.
  * `lookahead_contributes_nothing` — engine-generic theorem `skip_pure`, instantiated on the REGENERATED grammar: whatever
    text a look-ahead predicate (`&e`, `!e`) inspects, ParserData (flags, flags stack, loop bookkeeping, the emitted code)
    is unchanged: text the parser only looked at contributes nothing.
  * What is NOT true of the code (and therefore not proved): that text an ordinary alternative consumed and then gave back
    contributes nothing.  `parseSeq` restores only the text position (model = roll.peg.go parseSeqExpr), so an alternative
    that emits and then fails leaves its code behind: known finding C03-emit-then-fail-leak, witnessed on both sides of the
    peg stream (`1 || )`: emission trace of the whole input ≠ trace of Matched alone).
-/
import DS.Proofs.PegSkip
import DS.Props.C16Defs

namespace DS.Props.C03
open DS.Peg DS.Props.C16

/-! ### Matched / RestInput (rollvm.go RunAfterParsed): `consumed` = the text up to the parser's final offset -/

def isSpace (c : Char) : Bool :=
  c == ' ' || c == '\t' || c == '\n' || c == '\x0b' || c == '\x0c' || c == '\r' || c.toNat == 0x85 || c.toNat == 0xA0 ||
  c.toNat == 0x1680 || (0x2000 ≤ c.toNat && c.toNat ≤ 0x200a) || c.toNat == 0x2028 || c.toNat == 0x2029 || c.toNat == 0x202f ||
  c.toNat == 0x205f || c.toNat == 0x3000

/-- strings.TrimRightFunc(consumed, unicode.IsSpace) -/
def matched (consumed : List Char) : List Char := (consumed.reverse.dropWhile isSpace).reverse

/-- data[len(matched):] -/
def restInput (consumed tail : List Char) : List Char := (consumed.reverse.takeWhile isSpace).reverse ++ tail

theorem matched_rest (consumed tail : List Char) : matched consumed ++ restInput consumed tail = consumed ++ tail := by
  simp only [matched, restInput, ← List.append_assoc, ← List.reverse_append, List.takeWhile_append_dropWhile, List.reverse_reverse]

theorem matched_prefix (consumed : List Char) : ∃ ws, consumed = matched consumed ++ ws ∧ ws.all isSpace = true := by
  refine ⟨(consumed.reverse.takeWhile isSpace).reverse, ?_, ?_⟩
  · simp only [matched, ← List.reverse_append, List.takeWhile_append_dropWhile, List.reverse_reverse]
  · simp only [List.all_reverse]
    exact List.all_takeWhile

theorem matched_no_trailing_space (consumed : List Char) (c : Char) (h : (matched consumed).getLast? = some c) : isSpace c = false := by
  simp only [matched, List.getLast?_reverse] at h
  cases hd : consumed.reverse.dropWhile isSpace with
  | nil => rw [hd] at h; cases h
  | cons x r =>
    rw [hd] at h
    simp only [List.head?_cons, Option.some.injEq] at h
    subst h
    have := List.head_dropWhile_not isSpace (l := consumed.reverse) (by rw [hd]; simp)
    simp only [hd, List.head_cons] at this
    simpa using this

example : matched "2d6  \n".toList = "2d6".toList ∧ restInput "2d6  \n".toList "x".toList = "  \nx".toList := by decide

/-! ### look-ahead contributes nothing -/

set_option maxRecDepth 100000 in
theorem grammar_skipOK : ((List.range DS.Gen.Grammar.rules.size).all fun i =>
    skipOK DS.Gen.Actions.acts DS.Gen.Grammar.rules.size (DS.Gen.Grammar.rules[i]!)) = true := by decide +kernel

theorem lookahead_contributes_nothing (input : Array Nat) (maxCnt : Nat) (custom : Nat → Nat) (fuel : Nat) (e : PExpr) (s : PState)
    (he : skipOK DS.Gen.Actions.acts DS.Gen.Grammar.rules.size e = true) (hs : s.skip > 0) :
    Same s (parseExpr (envOf input maxCnt custom) fuel e s).1 := by
  have hr : ∀ i, i < (envOf input maxCnt custom).rules.size →
      skipOK (envOf input maxCnt custom).acts (envOf input maxCnt custom).rules.size ((envOf input maxCnt custom).rules[i]!) = true := by
    intro i hi
    have := grammar_skipOK
    simp only [List.all_eq_true, List.mem_range] at this
    exact this i hi
  exact (skip_pure (envOf input maxCnt custom) hr fuel).1 e he s hs

/-- in particular an `&e` / `!e` node evaluated in ordinary mode leaves ParserData as it was -/
theorem and_predicate_pure (input : Array Nat) (maxCnt : Nat) (custom : Nat → Nat) (fuel : Nat) (i : Nat) (e : PExpr) (s : PState)
    (he : skipOK DS.Gen.Actions.acts DS.Gen.Grammar.rules.size e = true) :
    (parseNode (envOf input maxCnt custom) (fuel + 1) (.and_ i e) s).1.trace = s.trace ∧
    (parseNode (envOf input maxCnt custom) (fuel + 1) (.and_ i e) s).1.cfg = s.cfg := by
  simp only [parseNode]
  have := lookahead_contributes_nothing input maxCnt custom fuel e { s with skip := s.skip + 1 } he (by simp only; omega)
  exact ⟨this.trace, this.cfg⟩

end DS.Props.C03

namespace DS.Props.C03
open DS.Peg

/-- **A cached parse result is used only under the parse flags it was obtained under** (repair 8d3cac5): whatever a look-ahead
    concluded before the flags were switched (the unrestricted look-ahead over the value of an st edit) cannot answer a question asked
    under the new flags. -/
theorem memo_hit_same_flags (m : Std.HashMap (Nat × Nat) (Bool × Nat × Flags)) (key : Nat × Nat) (cfg : Flags) (b : Bool) (e : Nat)
    (h : memoGet m key cfg = some (b, e)) : m[key]? = some (b, e, cfg) := by
  unfold memoGet at h
  split at h
  · rename_i b' e' fl heq
    split at h
    · rename_i hfl
      injection h with h; injection h with h1 h2
      subst h1; subst h2; subst hfl
      exact heq
    · cases h
  · cases h

/-- … and an entry stored under other flags is no hit -/
theorem memo_other_flags_miss (m : Std.HashMap (Nat × Nat) (Bool × Nat × Flags)) (key : Nat × Nat) (cfg fl : Flags) (b : Bool) (e : Nat)
    (hm : m[key]? = some (b, e, fl)) (hne : fl ≠ cfg) : memoGet m key cfg = none := by
  unfold memoGet
  rw [hm]
  simp [hne]

/-- **The line-break predicate of the statement separator** (repair a715f46) answers yes exactly when, walking back from the offset,
    a line feed is met before any byte that is not a blank: the separator the statement's last token has already consumed. -/
theorem lineBreakBefore_spec (env : Env) : ∀ (pos : Nat), lineBreakBefore env pos = true →
    ∃ i, i < pos ∧ env.input[i]! = 10 ∧ ∀ j, i < j → j < pos → (env.input[j]! = 32 ∨ env.input[j]! = 9 ∨ env.input[j]! = 13) := by
  intro pos
  induction pos with
  | zero => intro h; simp [lineBreakBefore] at h
  | succ n ih =>
    intro h
    simp only [lineBreakBefore] at h
    split at h
    · rename_i h10
      exact ⟨n, by omega, by simpa using h10, fun j h1 h2 => by omega⟩
    · rename_i h10
      split at h
      · rename_i hb
        obtain ⟨i, hi, hin, hbl⟩ := ih h
        refine ⟨i, by omega, hin, ?_⟩
        intro j h1 h2
        by_cases hj : j = n
        · subst hj
          simp only [Bool.or_eq_true, beq_iff_eq] at hb
          rcases hb with (hb | hb) | hb
          · exact Or.inl hb
          · exact Or.inr (Or.inl hb)
          · exact Or.inr (Or.inr hb)
        · exact hbl j h1 (by omega)
      · cases h

/- non-vacuity: `'a'⏎y` — at offset 4 (the `y`) the blanks before it hold the line feed; at offset 3 of `1 +2` they do not -/
example : lineBreakBefore (DS.Props.C16.envOf #[39, 97, 39, 10, 121] 0 (fun _ => 0)) 4 = true := by decide
example : lineBreakBefore (DS.Props.C16.envOf #[49, 32, 43, 50] 0 (fun _ => 0)) 3 = false := by decide

end DS.Props.C03
