/- kernel evaluation of the static gating check for the `ndice` gate on the regenerated grammar -/
import DS.Props.C16Defs
namespace DS.Props.C16
open DS.Peg

set_option maxRecDepth 100000 in
theorem static_ndice : (rulesOK ge DS.Gen.Grammar.rules ndiceGate (okFor ndiceGate) && (okFor ndiceGate)[0]!) = true := by decide +kernel

end DS.Props.C16
